import PromModel.Num.F64
/-
  C29 — promql/engine.go: `rangeEvalAgg` / `aggregation` / `aggregationK` (instant queries, float samples),
  `generateGroupingKey` / `generateGroupingLabels`, `labels.HashForLabels` / `HashWithoutLabels`,
  `kahansum.Inc`, `quantile` (promql/quantile.go), `container/heap` up/down and the insertion sort that
  `sort.Sort` runs on ≤ 12 elements.

  Vectors are lists of samples `(labels, value)`; labels are lists of `(name, value)` sorted by name with
  no empty values (`labels.Labels`); values are `F64.Cls` (NaN / ±Inf / finite rational — one zero).

  All floating-point arithmetic goes through an `Arith` record (`rnd` applied after every operation):
    * `Arith.exact` (`rnd = id`)        — what the theorems are about;
    * `Arith.f64`   (`rnd = F64.round`) — bit-for-bit what Go computes on amd64 for the generated values.
-/
namespace Prom.Ops
open Prom.F64 (Cls)

/-! ### labels -/

abbrev Labels := List (String × String)

def metricName : String := "__name__"

/-- `schema.IsMetadataLabel` -/
def isMeta (n : String) : Bool := n == "__name__" || n == "__type__" || n == "__unit__"

namespace Labels
/-- `Labels.Get`: `""` when absent. -/
def get (ls : Labels) (n : String) : String :=
  match ls.find? (fun p => p.1 == n) with
  | some p => p.2
  | none => ""
/-- `Builder.Del(ns...)` -/
def del (ls : Labels) (ns : List String) : Labels := ls.filter fun p => !ns.contains p.1
/-- `Builder.Keep(ns...)` -/
def keep (ls : Labels) (ns : List String) : Labels := ls.filter fun p => ns.contains p.1
/-- `DropReserved(schema.IsMetadataLabel)` / `schema.Metadata{}.SetToLabels` -/
def dropMeta (ls : Labels) : Labels := ls.filter fun p => !isMeta p.1
/-- insert keeping the list sorted by name (replaces an existing entry) -/
def insert (n v : String) : Labels → Labels
  | [] => [(n, v)]
  | (m, w) :: rest =>
    if n < m then (n, v) :: (m, w) :: rest
    else if n = m then (n, v) :: rest
    else (m, w) :: insert n v rest
/-- `Builder.Set(n, v)`: an empty value deletes. -/
def set (ls : Labels) (n v : String) : Labels := if v = "" then ls.del [n] else insert n v ls
end Labels

/-- insertion of a string into a sorted list (`slices.Sort` on the grouping / matching label names;
    duplicates are kept, as in Go). -/
def insertStr (s : String) : List String → List String
  | [] => [s]
  | t :: rest => if s ≤ t then s :: t :: rest else t :: insertStr s rest

def sortStrings (xs : List String) : List String := xs.foldr insertStr []

/-- The two-pointer walk of `HashForLabels` / `BytesWithLabels`: both lists are walked in parallel, the
    `names` cursor skips entries smaller than the current label name; when it runs out the loop breaks. -/
def walkWith : Labels → List String → Labels
  | [], _ => []
  | (n, v) :: ls, names =>
    match names.dropWhile (fun m => m < n) with
    | [] => []
    | m :: rest => if n = m then (n, v) :: walkWith ls (m :: rest) else walkWith ls (m :: rest)

/-- The walk of `BytesWithoutLabels`: a label is emitted unless the cursor stands on its name. -/
def walkWithout : Labels → List String → Labels
  | [], _ => []
  | (n, v) :: ls, names =>
    match names.dropWhile (fun m => m < n) with
    | [] => (n, v) :: walkWithout ls []
    | m :: rest => if n = m then walkWithout ls (m :: rest) else (n, v) :: walkWithout ls (m :: rest)

/-- The walk of `HashWithoutLabels`: additionally skips `__name__`. -/
def walkWithoutName (ls : Labels) (names : List String) : Labels :=
  (walkWithout ls names).filter fun p => p.1 != metricName

/-- `generateGroupingKey` before hashing: the projected labels whose byte image is hashed
    (`sorted` = the sorted grouping list). `by ()` hashes nothing (key 0). -/
def groupingKey (without : Bool) (sorted : List String) (ls : Labels) : Labels :=
  if without then walkWithoutName ls sorted
  else if sorted.isEmpty then [] else walkWith ls sorted

/-- The byte string `HashForLabels` / `HashWithoutLabels` feed to xxhash: `name 0xFF value 0xFF …`. -/
def keyBytes (proj : List (List UInt8 × List UInt8)) : List UInt8 :=
  proj.flatMap fun p => p.1 ++ [0xFF] ++ p.2 ++ [0xFF]

/-- `generateGroupingLabels` -/
def groupingLabels (without : Bool) (sorted : List String) (ls : Labels) : Labels :=
  if without then (ls.del sorted).del [metricName]
  else if !sorted.isEmpty then ls.keep sorted
  else []

/-! ### values -/

structure Arith where
  rnd : Rat → Rat

namespace Arith
def exact : Arith := ⟨id⟩
def f64 : Arith := ⟨F64.round⟩
end Arith

def isNaN : Cls → Bool
  | .nan => true
  | _ => false

def isInf : Cls → Bool
  | .posInf | .negInf => true
  | _ => false

def isFin : Cls → Bool
  | .fin _ => true
  | _ => false

def vneg : Cls → Cls
  | .nan => .nan
  | .posInf => .negInf
  | .negInf => .posInf
  | .fin q => .fin (-q)

def vabs : Cls → Cls
  | .nan => .nan
  | .posInf | .negInf => .posInf
  | .fin q => .fin (if q < 0 then -q else q)

def vadd (A : Arith) : Cls → Cls → Cls
  | .nan, _ | _, .nan => .nan
  | .posInf, .negInf | .negInf, .posInf => .nan
  | .posInf, _ | _, .posInf => .posInf
  | .negInf, _ | _, .negInf => .negInf
  | .fin x, .fin y => .fin (A.rnd (x + y))

def vsub (A : Arith) (a b : Cls) : Cls := vadd A a (vneg b)

def infOfSign (neg : Bool) : Cls := if neg then .negInf else .posInf

/-- sign bit of a non-NaN value (zero is positive: the model has one zero) -/
def isNeg : Cls → Bool
  | .negInf => true
  | .fin q => q < 0
  | _ => false

def isZero : Cls → Bool
  | .fin q => q = 0
  | _ => false

def vmul (A : Arith) (a b : Cls) : Cls :=
  match a, b with
  | .nan, _ | _, .nan => .nan
  | .fin x, .fin y => .fin (A.rnd (x * y))
  | _, _ => if isZero a || isZero b then .nan else infOfSign (isNeg a != isNeg b)

def vdiv (A : Arith) (a b : Cls) : Cls :=
  match a, b with
  | .nan, _ | _, .nan => .nan
  | .fin x, .fin y =>
    if y = 0 then (if x = 0 then .nan else infOfSign (x < 0)) else .fin (A.rnd (x / y))
  | .fin _, _ => .fin 0
  | _, .fin _ => infOfSign (isNeg a != isNeg b)
  | _, _ => .nan

/-- truncation toward zero -/
def ratTrunc (q : Rat) : Int := if q < 0 then -((-q).floor) else q.floor

/-- `math.Mod(x, y)`: exact in binary64 (no rounding), sign of `x`. -/
def vmod : Cls → Cls → Cls
  | .nan, _ | _, .nan => .nan
  | .posInf, _ | .negInf, _ => .nan
  | .fin x, .posInf | .fin x, .negInf => .fin x
  | .fin x, .fin y => if y = 0 then .nan else .fin (x - y * (ratTrunc (x / y) : Rat))

def veq : Cls → Cls → Bool
  | .posInf, .posInf | .negInf, .negInf => true
  | .fin x, .fin y => x = y
  | _, _ => false

def vlt : Cls → Cls → Bool
  | .nan, _ | _, .nan => false
  | .negInf, .negInf => false
  | .negInf, _ => true
  | _, .negInf => false
  | .posInf, _ => false
  | _, .posInf => true
  | .fin x, .fin y => x < y

def vle (a b : Cls) : Bool := vlt a b || veq a b
def vgt (a b : Cls) : Bool := vlt b a
def vge (a b : Cls) : Bool := vle b a
def vne (a b : Cls) : Bool := !veq a b

def ofNat (n : Nat) : Cls := .fin (n : Rat)

/-- `kahansum.Inc(inc, sum, c)` -/
def kahanInc (A : Arith) (inc sum c : Cls) : Cls × Cls :=
  let t := vadd A sum inc
  if isInf t then (t, .fin 0)
  else if vge (vabs sum) (vabs inc) then (t, vadd A c (vadd A (vsub A sum t) inc))
  else (t, vadd A c (vadd A (vsub A inc t) sum))

deriving instance DecidableEq for Prom.F64.Cls

structure Sample where
  labels : Labels
  v : Cls
  deriving Inhabited, DecidableEq

/-! ### aggregation over one group (members in input order; `first` initialises the group) -/

inductive AggOp where
  | sum | avg | min | max | count | group | stdvar | quantile | topk | bottomk
  deriving DecidableEq, Repr

/-- `case parser.SUM`: Kahan-compensated running sum; `floatValue += floatKahanC` at the end. -/
def aggSum (A : Arith) (first : Cls) (rest : List Cls) : Cls :=
  let (s, c) := rest.foldl (fun (st : Cls × Cls) f => kahanInc A f st.1 st.2) (first, .fin 0)
  vadd A s c

structure AvgState where
  value : Cls
  mean : Cls
  c : Cls
  count : Nat
  incr : Bool

/-- one step of `case parser.AVG` (float branch) -/
def avgStep (A : Arith) (st : AvgState) (f : Cls) : AvgState :=
  let count := st.count + 1
  let direct : Option AvgState :=
    if st.incr then none else
      let (newV, newC) := kahanInc A f st.value st.c
      if !isInf newV then some { st with value := newV, c := newC, count := count } else none
  match direct with
  | some s => s
  | none =>
    let (mean, c) :=
      if st.incr then (st.mean, st.c)
      else (vdiv A st.value (ofNat (count - 1)), vdiv A st.c (ofNat (count - 1)))
    let q := vdiv A (ofNat (count - 1)) (ofNat count)
    let (m', c') := kahanInc A (vdiv A f (ofNat count)) (vmul A q mean) (vmul A q c)
    { value := st.value, mean := m', c := c', count := count, incr := true }

def aggAvg (A : Arith) (first : Cls) (rest : List Cls) : Cls :=
  let st := rest.foldl (avgStep A) { value := first, mean := first, c := .fin 0, count := 1, incr := false }
  if st.incr then vadd A st.mean st.c
  else vadd A (vdiv A st.value (ofNat st.count)) (vdiv A st.c (ofNat st.count))

/-- `case parser.MAX`: `if group.floatValue < f || math.IsNaN(group.floatValue) { group.floatValue = f }` -/
def aggMax (first : Cls) (rest : List Cls) : Cls :=
  rest.foldl (fun cur f => if vlt cur f || isNaN cur then f else cur) first

def aggMin (first : Cls) (rest : List Cls) : Cls :=
  rest.foldl (fun cur f => if vgt cur f || isNaN cur then f else cur) first

/-- `case parser.STDVAR`: Welford's algorithm; a NaN/Inf first sample poisons the accumulator. -/
def aggStdvar (A : Arith) (first : Cls) (rest : List Cls) : Cls :=
  let v0 : Cls := if isNaN first || isInf first then .nan else .fin 0
  let (v, _, n) := rest.foldl (fun (st : Cls × Cls × Nat) f =>
      let (value, mean, count) := st
      let count := count + 1
      let delta := vsub A f mean
      let mean := vadd A mean (vdiv A delta (ofNat count))
      (vadd A value (vmul A delta (vsub A f mean)), mean, count)) (v0, first, 1)
  vdiv A v (ofNat n)

/-- `vectorByValueHeap.Less` on values: NaN first, then `<`. -/
def heapLess (a b : Cls) : Bool := isNaN a || vlt a b

/-- `vectorByReverseValueHeap.Less` -/
def heapLessRev (a b : Cls) : Bool := isNaN a || vgt a b

/-- `insertionSort` of package sort (what `sort.Sort` runs for ≤ 12 elements): element `x` enters at the
    right end of the sorted prefix and is swapped left while `less x (left neighbour)`. The prefix is
    carried reversed (rightmost element first). -/
def insRev {α} (less : α → α → Bool) (x : α) : List α → List α
  | [] => [x]
  | y :: rest => if less x y then y :: insRev less x rest else x :: y :: rest

def insSort {α} (less : α → α → Bool) (xs : List α) : List α :=
  (xs.foldl (fun rev x => insRev less x rev) []).reverse

def natFloor (q : Rat) : Int := q.floor

/-- promql/quantile.go `quantile(q, values)` for a non-empty group. -/
def aggQuantile (A : Arith) (q : Cls) (vals : List Cls) : Cls :=
  match q with
  | .nan => .nan
  | .negInf => .negInf
  | .posInf => .posInf
  | .fin φ =>
    if φ < 0 then .negInf else if φ > 1 then .posInf else
    let sorted := insSort heapLess vals
    let n := sorted.length
    let rank := A.rnd (φ * ((n - 1 : Nat) : Rat))
    let fl : Int := rank.floor
    let lower : Nat := (if fl < 0 then 0 else fl).toNat
    let upper : Nat := if lower + 1 < n - 1 then lower + 1 else n - 1
    let weight : Rat := A.rnd (rank - (fl : Rat))
    let lo := sorted.getD lower .nan
    let up := sorted.getD upper .nan
    vadd A (vmul A lo (.fin (A.rnd (1 - weight)))) (vmul A up (.fin weight))

/-- Value of a fold-style aggregator over one group. -/
def aggValue (A : Arith) (op : AggOp) (param : Cls) (first : Cls) (rest : List Cls) : Cls :=
  match op with
  | .sum => aggSum A first rest
  | .avg => aggAvg A first rest
  | .min => aggMin first rest
  | .max => aggMax first rest
  | .count => ofNat (rest.length + 1)
  | .group => ofNat 1
  | .stdvar => aggStdvar A first rest
  | .quantile => aggQuantile A param (first :: rest)
  | .topk | .bottomk => .nan

/-! ### groups -/

/-- Append `s` to the group with key `k` (groups are created in first-seen order, as `groupToResultIndex`). -/
def addToGroups (k : Labels) (s : Sample) : List (Labels × List Sample) → List (Labels × List Sample)
  | [] => [(k, [s])]
  | (k', m) :: rest => if k' = k then (k', m ++ [s]) :: rest else (k', m) :: addToGroups k s rest

def groupsOf (key : Labels → Labels) (xs : List Sample) : List (Labels × List Sample) :=
  xs.foldl (fun g s => addToGroups (key s.labels) s g) []

/-! ### container/heap on an array of samples -/

def heapUp (less : Cls → Cls → Bool) : Nat → Array Sample → Nat → Array Sample
  | 0, h, _ => h
  | fuel + 1, h, j =>
    if j = 0 then h else
    let i := (j - 1) / 2
    if less h[j]!.v h[i]!.v then heapUp less fuel (h.swapIfInBounds i j) i else h

def heapDown (less : Cls → Cls → Bool) : Nat → Array Sample → Nat → Nat → Array Sample
  | 0, h, _, _ => h
  | fuel + 1, h, i, n =>
    let j1 := 2 * i + 1
    if j1 ≥ n then h else
    let j := if j1 + 1 < n ∧ less h[j1 + 1]!.v h[j1]!.v then j1 + 1 else j1
    if !less h[j]!.v h[i]!.v then h else heapDown less fuel (h.swapIfInBounds i j) j n

def heapPush (less : Cls → Cls → Bool) (h : Array Sample) (s : Sample) : Array Sample :=
  let h := h.push s
  heapUp less h.size h (h.size - 1)

/-- One input sample of a `topk` (`rev = false`) / `bottomk` (`rev = true`) group, after the first. -/
def topkStep (rev : Bool) (k : Nat) (h : Array Sample) (s : Sample) : Array Sample :=
  let less := if rev then heapLessRev else heapLess
  if h.size < k then heapPush less h s
  else
    let top := h[0]!.v
    let better := if rev then vgt top s.v else vlt top s.v
    if better || (isNaN top && !isNaN s.v) then
      let h := h.set! 0 s
      if k > 1 then heapDown less h.size h 0 h.size else h
    else h

/-- The members of one group reduced to the engine's output order for that group. -/
def topkGroup (rev : Bool) (k : Nat) (members : List Sample) : List Sample :=
  let less := if rev then heapLessRev else heapLess
  let h := members.foldl (topkStep rev k) #[]
  -- sort.Sort(sort.Reverse(heap)): Less(i, j) = heap.Less(j, i)
  insSort (fun (a b : Sample) => less b.v a.v) h.toList

structure AggExpr where
  op : AggOp
  without : Bool
  grouping : List String
  /-- `k` for topk/bottomk (already truncated to an integer), φ for quantile -/
  param : Cls := .nan
  k : Int := 0

/-- `rangeEvalAgg` for an instant query over float samples. Output in engine order. -/
def evalAgg (A : Arith) (e : AggExpr) (input : List Sample) : List Sample :=
  let sorted := sortStrings e.grouping
  let groups := groupsOf (groupingKey e.without sorted) input
  match e.op with
  | .topk | .bottomk =>
    let k : Int := if e.k < (input.length : Int) then e.k else input.length
    if k < 1 then [] else
    groups.flatMap fun g => topkGroup (e.op == .bottomk) k.toNat g.2
  | op =>
    groups.filterMap fun g =>
      match g.2 with
      | [] => none
      | first :: rest =>
        some ⟨groupingLabels e.without sorted first.labels, aggValue A op e.param first.v (rest.map (·.v))⟩

end Prom.Ops
