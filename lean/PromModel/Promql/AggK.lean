import PromModel.Promql.RangeEval
/-
  C27 — promql/engine.go `rangeEvalAgg` + `aggregationK`: topk / bottomk / limitk / limit_ratio in a RANGE
  query, with a parameter that may differ from step to step (`fParams`: the parameter expression is
  evaluated once for all steps, `Next()` hands out one value per step).

  The input matrix holds, per series, the points of ALL steps; the per-series "cursor" is the slice
  itself: `nextValues(ts, &series)` returns the head point and re-slices iff the head's timestamp is
  exactly `ts`. A series whose head point is older than the current step is stuck for the rest of the
  query, so EVERY way of leaving a step has to consume the heads at `ts` of the series it did not look
  at (`advanceRemainingSeries`), unless `ts` is the query's end timestamp:
    * `k < 1` at this step (`k = min(int64(param), len(inputMatrix))`), found at the first series that has
      a sample at `ts`;
    * `limit_ratio` with `r == 0` at this step, likewise;
    * `limitk` once every group of the input matrix has collected `k` samples at this step (a group is
      only marked complete by a sample that is not its first one at this step: the first sample of a
      group takes the `!group.seen` branch, which `continue`s past the completion test).
  `rangeEvalAgg` itself returns no series at all when every step's parameter is `< 1` (`== 0` for
  limit_ratio).

  Abstractions: which `k` samples of a group topk / bottomk keep (a heap; on ties the choice depends on
  the heap layout) and which samples limit_ratio keeps (a hash of the labels) are the parameters `Pick`;
  limitk keeps the first `k` samples of the group in input order. Values are rationals (no NaN, no
  native histograms); NaN / out-of-int64 parameters make the whole aggregation fail before any step is
  evaluated and are handled by the suite, not here. The result of a step is the list of selected
  samples, group by group in the order of the engine's `groups` array (first appearance in the input
  matrix); the engine collects them in a Go map, so only the SET is observable.
-/
namespace Prom.AggK
open Prom.RangeEval

structure Pt where
  t : Int
  v : Rat
  deriving Repr, BEq, DecidableEq, Inhabited

/-- One series of the input matrix; `pts` are the points not consumed yet. -/
structure In where
  lbls : Labels
  pts : List Pt
  deriving Repr, BEq, DecidableEq, Inhabited

inductive KOp where
  | topk | bottomk | limitk | limitRatio
  deriving Repr, BEq, DecidableEq, Inhabited

/-- `nextValues`: the head point iff its timestamp is `ts`; only then the cursor moves. -/
def nextValue (ts : Int) (s : In) : Option Rat × In :=
  match s.pts with
  | p :: rest => if p.t = ts then (some p.v, { s with pts := rest }) else (none, s)
  | [] => (none, s)

/-- `advanceRemainingSeries(ts, startIdx)` on the series from `startIdx` on. -/
def advance (ts : Int) (ss : List In) : List In := ss.map fun s => (nextValue ts s).2

/-- Go's `int64(f)` (|f| < 2^63): truncation towards zero. -/
def truncR (q : Rat) : Int := if q < 0 then q.ceil else q.floor

/-- `k = min(int64(fParam), int64(len(inputMatrix)))` -/
def kOf (param : Rat) (n : Nat) : Int := min (truncR param) (n : Int)

/-- The step is left with a nil result at the first series that has a sample. -/
def earlyNil (op : KOp) (param : Rat) (n : Nat) : Bool :=
  match op with
  | .limitRatio => decide (param = 0)
  | _ => decide (kOf param n < 1)

/-- The value / hash dependent choices of `aggregationK`. -/
structure Pick where
  topk : Nat → Vector → Vector
  bottomk : Nat → Vector → Vector
  ratio : Rat → Elem → Bool

def clampRatio (r : Rat) : Rat := if r < -1 then -1 else if 1 < r then 1 else r

def pickGroup (pk : Pick) (op : KOp) (param : Rat) (n : Nat) (g : Vector) : Vector :=
  match op with
  | .topk => pk.topk (kOf param n).toNat g
  | .bottomk => pk.bottomk (kOf param n).toNat g
  | .limitk => g.take (kOf param n).toNat
  | .limitRatio => g.filter (pk.ratio (clampRatio param))

def inGroup (wo : Bool) (ls : List String) (g : Labels) (e : Elem) : Bool := groupKey wo ls e.lbls == g

/-- The samples of one step, selected group by group. -/
def selectK (pk : Pick) (op : KOp) (param : Rat) (n : Nat) (wo : Bool) (ls : List String) (groups : List Labels)
    (vec : Vector) : Vector :=
  groups.flatMap fun g => pickGroup pk op param n (vec.filter (inGroup wo ls g))

/-- `groupsRemaining == 0`: every group has been marked complete at this step (by its `max k 2`-th sample). -/
def allComplete (wo : Bool) (ls : List String) (k : Nat) (groups : List Labels) (vec : Vector) : Bool :=
  groups.all fun g => decide (max k 2 ≤ (vec.filter (inGroup wo ls g)).length)

/-- The series loop of one step: `acc` = the samples read so far at this step (input order). Returns the
    series with their cursors after the step and the samples read (`none`: the step returned nil). -/
def stepLoop (op : KOp) (param : Rat) (n : Nat) (wo : Bool) (ls : List String) (groups : List Labels)
    (atEnd : Bool) (ts : Int) : List In → Vector → List In × Option Vector
  | [], acc => ([], some acc)
  | s :: rest, acc =>
    match (nextValue ts s).1 with
    | none =>
      let r := stepLoop op param n wo ls groups atEnd ts rest acc
      ((nextValue ts s).2 :: r.1, r.2)
    | some v =>
      if earlyNil op param n then
        ((nextValue ts s).2 :: (if atEnd then rest else advance ts rest), none)
      else if decide (op = .limitk) && allComplete wo ls (kOf param n).toNat groups (acc ++ [⟨s.lbls, v⟩]) then
        ((nextValue ts s).2 :: (if atEnd then rest else advance ts rest), some (acc ++ [⟨s.lbls, v⟩]))
      else
        let r := stepLoop op param n wo ls groups atEnd ts rest (acc ++ [⟨s.lbls, v⟩])
        ((nextValue ts s).2 :: r.1, r.2)

def stepOut (pk : Pick) (op : KOp) (param : Rat) (n : Nat) (wo : Bool) (ls : List String) (groups : List Labels) :
    Option Vector → Vector
  | none => []
  | some vec => selectK pk op param n wo ls groups vec

/-- The step loop of `rangeEvalAgg`: one `aggregationK` call per step with that step's parameter. -/
def rangeSteps (pk : Pick) (op : KOp) (n : Nat) (wo : Bool) (ls : List String) (groups : List Labels) (endTs : Int) :
    List (Int × Rat) → List In → List Vector
  | [], _ => []
  | (t, p) :: rest, ss =>
    let r := stepLoop op p n wo ls groups (t == endTs) t ss []
    stepOut pk op p n wo ls groups r.2 :: rangeSteps pk op n wo ls groups endTs rest r.1

/-- Distinct elements in order of first appearance. -/
def dedup : List Labels → List Labels
  | [] => []
  | a :: l => a :: (dedup l).filter (· != a)

/-- The `groups` array: grouping keys in order of first appearance in the input matrix. -/
def groupsOf (wo : Bool) (ls : List String) (lbls : List Labels) : List Labels :=
  dedup (lbls.map (groupKey wo ls))

/-- `rangeEvalAgg` returns before the step loop when no step can select anything. -/
def allNil (op : KOp) (steps : List (Int × Rat)) : Bool :=
  match op with
  | .limitRatio => steps.all fun s => decide (s.2 = 0)
  | _ => steps.all fun s => decide (s.2 < 1)

/-- `rangeEvalAgg` for the k-selecting operators: `steps` = (step time, parameter at that step). -/
def rangeEvalAggK (pk : Pick) (op : KOp) (wo : Bool) (ls : List String) (endTs : Int) (steps : List (Int × Rat))
    (ss : List In) : List Vector :=
  if allNil op steps then steps.map fun _ => []
  else rangeSteps pk op ss.length wo ls (groupsOf wo ls (ss.map (·.lbls))) endTs steps ss

/-! ### the per-step (instant) semantics -/

/-- What one step selects from the vector of the samples present at that step, given the size and the
    groups of the aggregation's input matrix. -/
def instantCore (pk : Pick) (op : KOp) (param : Rat) (n : Nat) (wo : Bool) (ls : List String) (groups : List Labels)
    (vec : Vector) : Vector :=
  if vec.isEmpty || earlyNil op param n then [] else selectK pk op param n wo ls groups vec

/-- An INSTANT query at one step: the input matrix consists of the series that have a sample there, so
    `len(inputMatrix)` and the groups are those of the step's vector. -/
def instantK (pk : Pick) (op : KOp) (param : Rat) (wo : Bool) (ls : List String) (vec : Vector) : Vector :=
  instantCore pk op param vec.length wo ls (groupsOf wo ls (vec.map (·.lbls))) vec

/-- The samples at the heads of the cursors with timestamp `ts`. -/
def headVec (ts : Int) (ss : List In) : Vector :=
  ss.filterMap fun s => (nextValue ts s).1.map fun v => ⟨s.lbls, v⟩

/-- The samples of the input matrix at time `t`. -/
def vecAt (t : Int) (ss : List In) : Vector :=
  ss.filterMap fun s => (s.pts.find? fun p => p.t == t).map fun p => ⟨s.lbls, p.v⟩

/-- The engine's matrices: per series, point timestamps strictly increase and lie on the step grid. -/
def onGrid (ts : List Int) (s : In) : Prop := (s.pts.map (·.t)).Sublist ts

/-! ### the variant that does not advance on `k < 1` (what hoisting the test out of the loop does) -/

/-- `k < 1` / `r == 0` tested before the series loop: nothing is consumed at such a step. -/
def rangeStepsHoisted (pk : Pick) (op : KOp) (n : Nat) (wo : Bool) (ls : List String) (groups : List Labels) (endTs : Int) :
    List (Int × Rat) → List In → List Vector
  | [], _ => []
  | (t, p) :: rest, ss =>
    if earlyNil op p n then [] :: rangeStepsHoisted pk op n wo ls groups endTs rest ss
    else
      let r := stepLoop op p n wo ls groups (t == endTs) t ss []
      stepOut pk op p n wo ls groups r.2 :: rangeStepsHoisted pk op n wo ls groups endTs rest r.1

/-! ### an executable `Pick` (ties: the earlier sample wins; limit_ratio: keep everything) -/

def insertDesc (e : Elem) : Vector → Vector
  | [] => [e]
  | x :: xs => if x.v < e.v then e :: x :: xs else x :: insertDesc e xs

def sortDesc (v : Vector) : Vector := v.foldl (fun acc e => insertDesc e acc) []

def insertAsc (e : Elem) : Vector → Vector
  | [] => [e]
  | x :: xs => if e.v < x.v then e :: x :: xs else x :: insertAsc e xs

def sortAsc (v : Vector) : Vector := v.foldl (fun acc e => insertAsc e acc) []

def stablePick : Pick :=
  { topk := fun k g => (sortDesc g).take k
    bottomk := fun k g => (sortAsc g).take k
    ratio := fun _ _ => true }

end Prom.AggK
