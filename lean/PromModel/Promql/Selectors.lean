/-
  PromQL selectors (property C28): transcription of

    storage/memoized_iterator.go   MemoizedSeriesIterator  (Reset, Seek, Next, PeekPrev)
    storage/buffer.go              BufferedSeriesIterator  (Reset, Seek, Next, ReduceDelta) and the
                                   sampleRing (add / eviction / reduceDelta), abstracted to a list
    promql/engine.go               vectorSelectorSingle, evalSeries (the step loop), matrixIterSlice,
                                   matrixSelector (from an empty window), the range-function step loop
                                   (window reuse + ReduceDelta(stepRange)), subqueryTimeRange,
                                   getTimeRangesForSelector (Select hints / querier range),
                                   setOffsetForAtModifier (getOffset), rangeEvalTimestampFunctionOverVectorSelector

  Conventions.  A series is a list of samples with strictly increasing `t` (ms).  The chunk iterator under the
  wrappers is the list of samples not yet consumed: its head is the current element, `[]` is `ValNone`
  (`it.Seek(t)` = `dropWhile (·.t < t)`: forward only, stays if the current element is already ≥ t).
  `math.MinInt64` used as "nothing" (`lastTime`, `prevTime`) is `none`; timestamps are unbounded `Int`s
  (the int64 range is an assumption of the tie, see checks/C28.json).
  A sample is a float or a native histogram; staleness (`value.IsStaleNaN(v)` resp. `IsStaleNaN(h.Sum)`,
  bit pattern 0x7ff0000000000002) is carried as a flag computed by the parser of the suite.
-/
namespace Prom.Selectors

def staleBits : Nat := 0x7ff0000000000002

structure Sample where
  t : Int
  hist : Bool
  stale : Bool
  v : Int
deriving DecidableEq, Repr, Inhabited

abbrev Series := List Sample

/-- strictly increasing timestamps -/
def Sorted (l : Series) : Prop := l.Pairwise (fun a b => a.t < b.t)

instance (l : Series) : Decidable (Sorted l) := by unfold Sorted; infer_instance

/-- `t0 > lastTime` with `none` = MinInt64 -/
def gtLast (t0 : Int) : Option Int → Bool
  | none => true
  | some l => decide (t0 > l)

/-- `lastTime >= t` with `none` = MinInt64 -/
def geLast (lt : Option Int) (t : Int) : Bool :=
  match lt with
  | none => false
  | some l => decide (l ≥ t)

/-! ## MemoizedSeriesIterator -/

structure Memo where
  rest : Series
  delta : Int
  lastTime : Option Int
  prev : Option Sample
deriving Repr

/-- `NewMemoizedIterator(it, delta)` + `Reset`: `valueType = it.Next()` makes the first sample current;
    `lastTime = prevTime = MinInt64`. -/
def Memo.init (series : Series) (delta : Int) : Memo :=
  { rest := series, delta := delta, lastTime := none, prev := none }

/-- `for b.Next() != ValNone { if b.lastTime >= t { return } }` — each `Next` memoizes the current element. -/
def walkM (t : Int) (prev : Option Sample) (lt : Option Int) : Series → Option Sample × Option Int × Series
  | [] => (prev, lt, [])
  | [s] => (some s, lt, [])
  | s :: s' :: r =>
    if s'.t ≥ t then (some s, some s'.t, s' :: r) else walkM t (some s) (some s'.t) (s' :: r)

/-- `MemoizedSeriesIterator.Seek(t)`; the returned value type is the head of `rest`. -/
def Memo.seek (m : Memo) (t : Int) : Memo :=
  let t0 := t - m.delta
  if m.rest ≠ [] ∧ gtLast t0 m.lastTime then
    -- the seek advanced more than delta: forget prev, seek the underlying iterator
    match m.rest.dropWhile (fun s => s.t < t0) with
    | [] => { m with prev := none, rest := [] }
    | s :: r =>
      if s.t ≥ t then { m with prev := none, rest := s :: r, lastTime := some s.t }
      else
        let w := walkM t none (some s.t) (s :: r)
        { m with prev := w.1, lastTime := w.2.1, rest := w.2.2 }
  else if geLast m.lastTime t then m
  else
    let w := walkM t m.prev m.lastTime m.rest
    { m with prev := w.1, lastTime := w.2.1, rest := w.2.2 }

/-- `vectorSelectorSingle(it, offset, ts)` with `ref = ts - offset`: the sample the instant selector yields. -/
def vsSingle (lookback : Int) (m : Memo) (ref : Int) : Memo × Option Sample :=
  let m' := m.seek ref
  let peek : Option Sample :=
    match m'.prev with
    | some p => if p.t ≤ ref - lookback then none else some p
    | none => none
  let r : Option Sample :=
    match m'.rest with
    | s :: _ => if s.t > ref then peek else some s
    | [] => peek
  (m', r.filter (fun s => !s.stale))

/-- The step loop of `evalSeries` / `rangeEvalTimestampFunctionOverVectorSelector` for one series:
    one memoized iterator, `vectorSelectorSingle` at each reference time in turn. -/
def evalSteps (lookback : Int) (m : Memo) : List Int → List (Option Sample)
  | [] => []
  | r :: rs => (vsSingle lookback m r).2 :: evalSteps lookback (vsSingle lookback m r).1 rs

/-- The reference time of a selector at step `ts`: `@` fixes the time, `offset` shifts it back. -/
def refTime (ts off : Int) (atT : Option Int) : Int := atT.getD ts - off

/-- Instant vector selector at one evaluation time (fresh iterator, `delta = lookback` as in `evalSeries`). -/
def instantSel (series : Series) (t lookback off : Int) (atT : Option Int) : Option Sample :=
  (vsSingle lookback (Memo.init series lookback) (refTime t off atT)).2

/-! ## sampleRing (as a list) and BufferedSeriesIterator -/

/-- `sampleRing.add`: append, then free the head of everything older than `s.t - delta`. -/
def ringAdd (delta : Int) (buf : Series) (s : Sample) : Series :=
  (buf ++ [s]).dropWhile (fun x => x.t < s.t - delta)

/-- `sampleRing.reduceDelta` (the part after `r.delta = delta`): free what falls out of the new delta,
    measured from the most recently added element. -/
def ringReduce (delta : Int) (buf : Series) : Series :=
  match buf.getLast? with
  | none => buf
  | some l => buf.dropWhile (fun x => x.t < l.t - delta)

structure BufIter where
  rest : Series
  buf : Series
  delta : Int
  lastTime : Option Int
deriving Repr

/-- `NewBuffer(delta)` + `Reset(it)` -/
def BufIter.init (series : Series) (delta : Int) : BufIter :=
  { rest := series, buf := [], delta := delta, lastTime := none }

/-- `for { if b.valueType = b.Next(); b.valueType == ValNone || b.lastTime >= t { return } }` -/
def walkB (t delta : Int) (buf : Series) (lt : Option Int) : Series → Series × Option Int × Series
  | [] => (buf, lt, [])
  | [s] => (ringAdd delta buf s, lt, [])
  | s :: s' :: r =>
    if s'.t ≥ t then (ringAdd delta buf s, some s'.t, s' :: r)
    else walkB t delta (ringAdd delta buf s) (some s'.t) (s' :: r)

/-- `BufferedSeriesIterator.Seek(t)` -/
def BufIter.seek (b : BufIter) (t : Int) : BufIter :=
  let t0 := t - b.delta
  if b.rest ≠ [] ∧ gtLast t0 b.lastTime then
    match b.rest.dropWhile (fun s => s.t < t0) with
    | [] => { b with buf := [], rest := [] }
    | s :: r =>
      if s.t ≥ t then { b with buf := [], rest := s :: r, lastTime := some s.t }
      else
        let w := walkB t b.delta [] (some s.t) (s :: r)
        { b with buf := w.1, lastTime := w.2.1, rest := w.2.2 }
  else if geLast b.lastTime t then b
  else
    let w := walkB t b.delta b.buf b.lastTime b.rest
    { b with buf := w.1, lastTime := w.2.1, rest := w.2.2 }

/-- `ReduceDelta(delta)`: no-op (returns false) when the new delta is larger. -/
def BufIter.reduceDelta (b : BufIter) (delta : Int) : BufIter :=
  if delta > b.delta then b else { b with delta := delta, buf := ringReduce delta b.buf }

/-! ## matrixIterSlice -/

/-- The first half of `matrixIterSlice` for one of the two point slices: if the last retained point is
    after `mint`, drop the points `≤ mint` and continue after the last retained timestamp; else clear. -/
def retain (mint : Int) (pts : Series) : Series × Int :=
  match pts.getLast? with
  | some l =>
    if l.t > mint then
      let k := pts.dropWhile (fun p => p.t ≤ mint)
      (k, (k.getLast?.getD l).t)
    else ([], mint)
  | none => ([], mint)

structure Win where
  floats : Series
  hists : Series
deriving Repr, DecidableEq

def Win.empty : Win := ⟨[], []⟩

/-- `matrixIterSlice(it, mint, maxt, floats, histograms)` -/
def matrixIterSlice (b : BufIter) (mint maxt : Int) (w : Win) : BufIter × Win :=
  let rf := retain mint w.floats   -- (retained floats, mintFloats)
  let rh := retain mint w.hists    -- (retained histograms, mintHistograms)
  if mint = maxt then (b, ⟨rf.1, rh.1⟩) else
  let b' := b.seek maxt
  -- the buffered samples (all before maxt)
  let fl := rf.1 ++ b'.buf.filter (fun s => !s.hist && !s.stale && decide (s.t > rf.2))
  let hs := rh.1 ++ b'.buf.filter (fun s => s.hist && decide (s.t > rh.2) && !s.stale)
  -- the sought sample might also be in the range
  match b'.rest with
  | s :: _ =>
    if s.t = maxt ∧ s.stale = false then
      if s.hist then (b', ⟨fl, hs ++ [s]⟩) else (b', ⟨fl ++ [s], hs⟩)
    else (b', ⟨fl, hs⟩)
  | [] => (b', ⟨fl, hs⟩)

/-- `matrixSelector` for one series: a fresh buffer of `range`, one `matrixIterSlice` from empty slices. -/
def rangeSel (series : Series) (t range off : Int) (atT : Option Int) : Win :=
  let maxt := refTime t off atT
  (matrixIterSlice (BufIter.init series range) (maxt - range) maxt Win.empty).2

/-- The generalised step loop: windows `(mint, maxt)` evaluated in turn on one buffered iterator, reusing the
    previous window, `ReduceDelta(red)` after each step. -/
def runWindows (red : Int) (b : BufIter) (w : Win) : List (Int × Int) → List Win
  | [] => []
  | (mint, maxt) :: rest =>
    let r := matrixIterSlice b mint maxt w
    -- `if len(floats)+len(histograms) == 0 { continue }` skips the `ReduceDelta` at the end of the loop body
    let b' := if r.2.floats.isEmpty && r.2.hists.isEmpty then r.1 else r.1.reduceDelta red
    r.2 :: runWindows red b' r.2 rest

/-- evaluation steps `start, start+interval, … ≤ end` (`interval > 0`) -/
def stepsFrom (start interval : Int) : Nat → List Int
  | 0 => []
  | n + 1 => start :: stepsFrom (start + interval) interval n

def numSteps (start end_ interval : Int) : Nat :=
  if end_ < start then 0 else ((end_ - start) / interval).toNat + 1

def steps (start end_ interval : Int) : List Int := stepsFrom start interval (numSteps start end_ interval)

/-- The range-vector function loop of `eval` (`*parser.Call` with a matrix argument, no `@`): buffer of
    `selRange`, per step `maxt = ts - offset`, `mint = maxt - selRange`, then `ReduceDelta(min(selRange, interval))`. -/
def rangeLoop (series : Series) (selRange off start end_ interval : Int) : List Win :=
  runWindows (min selRange interval) (BufIter.init series selRange) Win.empty
    ((steps start end_ interval).map fun ts => (ts - off - selRange, ts - off))

/-! ## subqueries -/

/-- `subqueryTimeRange`: (start, end) of the child evaluator; `interval` is the subquery step.
    `parentInterval ≤ 0` never happens (instant queries use 1). Go's `/` truncates (`Int.tdiv`). -/
def subqueryTimeRange (pStart pEnd pInterval off range interval : Int) : Int × Int :=
  let parentEnd := if pInterval > 0 then pStart + (Int.tdiv (pEnd - pStart) pInterval) * pInterval else pEnd
  let end_ := parentEnd - off
  let lo := pStart - off - range
  let start := interval * (Int.tdiv lo interval)
  let start := if start ≤ lo then start + interval else start
  (start, end_)

/-- the steps the child evaluator evaluates -/
def subquerySteps (pStart pEnd pInterval off range interval : Int) : List Int :=
  let se := subqueryTimeRange pStart pEnd pInterval off range interval
  steps se.1 se.2 interval

/-! ## @ modifier and Select hints -/

/-- `getOffset` inside `setOffsetForAtModifier` for a node with `@ ts` (`none`: offset unchanged);
    `subq` = result of `subqueryTimes(path)`: (sum of offsets, closest `@` of an enclosing subquery). -/
def atOffset (evalTime : Int) (ts : Option Int) (origOff : Int) (subqOff : Int) (subqTs : Option Int) : Int :=
  match ts with
  | none => origOff
  | some ts =>
    let subqOff := match subqTs with
      | some st => subqOff + (evalTime - st)
      | none => subqOff
    origOff + ((evalTime - ts) - subqOff)

/-- Which `rangeEvalTimestampFunctionOverVectorSelector` /repo has: `false` = the code as found (finding
    C28-F1: `vs.Offset = enh.Ts - *vs.Timestamp`, the original offset is dropped), `true` = fixes/C28-F1.patch
    applied (`vs.Offset = vs.OriginalOffset + (enh.Ts - *vs.Timestamp)`). -/
def repoFixedTsAtOffset : Bool := true

/-- The reference time (`enh.Ts - vs.Offset`) at which `timestamp(m @ a offset o)` looks the sample up. -/
def tsAtRefG (fixed : Bool) (a off : Int) : Int := if fixed then a - off else a

def tsAtRef : Int → Int → Int := tsAtRefG repoFixedTsAtOffset

/-- `getTimeRangesForSelector` for a plain selector (no anchored/smoothed):
    `sq` = enclosing subquery (offset, range, @) if any; `evalRange = 0` for an instant selector. -/
def selectRange (qStart qEnd lookback : Int) (sq : Option (Int × Int × Option Int))
    (atT : Option Int) (origOff evalRange : Int) : Int × Int :=
  let (start, end_) := match sq with
    | some (_, _, some st) => (st, st)
    | _ => (qStart, qEnd)
  let (start, end_) := match atT with
    | some a => (a, a)
    | none =>
      match sq with
      | some (so, sr, _) => (start - so - sr, end_ - so)
      | none => (start, end_)
  let start := if evalRange = 0 then start - (lookback - 1) else start - (evalRange - 1)
  (start - origOff, end_ - origOff)

/-- what the querier opened on `[mint, maxt]` lets the evaluator see -/
def visible (r : Int × Int) (series : Series) : Series :=
  series.filter fun s => decide (r.1 ≤ s.t) && decide (s.t ≤ r.2)

end Prom.Selectors
