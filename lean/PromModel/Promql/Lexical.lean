import PromModel.Num.F64Q
/-
  Lexical layer of the PromQL printer/parser model (property C26), core Lean only.

  Go strings are byte strings (`Bytes = List UInt8`): label values and string literals can hold
  invalid UTF-8 (via `\xff` escapes), so nothing here goes through Lean `String`.

  * `quote`      = `strconv.Quote` (runes decoded from UTF-8; `isPrint` exact on ASCII, approximated
                   on the rest by the explicit non-printable ranges `nonPrintRanges`)
  * `unquote`    = `strutil.Unquote` (double-, single- and back-quoted PromQL strings)
  * `fmtDurationMs` / `parseDuration` = `model.Duration.String` / `model.ParseDuration`
  * `parseNumber` = `parser.number` (`strconv.ParseInt(s, 0, 64)` then `strconv.ParseFloat`)
  * `fmtFloatF`, `fmtFloatV`, `fmtFixed3` = `strconv.FormatFloat(v,'f',-1,64)`, `%v`, `%.3f`
    computed exactly over rationals (shortest representation that round-trips, nearest to the value)
-/
namespace Prom.Promql

abbrev Bytes := List UInt8

def bs (s : String) : Bytes := s.toUTF8.toList

def byteOfChar (c : Char) : UInt8 := UInt8.ofNat c.toNat

def isDigitB (c : UInt8) : Bool := 48 ≤ c && c ≤ 57
def isAlphaB (c : UInt8) : Bool := c == 95 || (97 ≤ c && c ≤ 122) || (65 ≤ c && c ≤ 90)
def isAlnumB (c : UInt8) : Bool := isAlphaB c || isDigitB c
def isSpaceB (c : UInt8) : Bool := c == 32 || c == 9 || c == 10 || c == 13
def lowerB (c : UInt8) : UInt8 := if 65 ≤ c && c ≤ 90 then c + 32 else c
def lowerBs (s : Bytes) : Bytes := s.map lowerB

def hexDigitB (n : Nat) : UInt8 := if n < 10 then UInt8.ofNat (48 + n) else UInt8.ofNat (87 + n)

def hexValB? (c : UInt8) : Option Nat :=
  if 48 ≤ c && c ≤ 57 then some (c.toNat - 48)
  else if 97 ≤ c && c ≤ 102 then some (c.toNat - 87)
  else if 65 ≤ c && c ≤ 70 then some (c.toNat - 55)
  else none

/-! ### decimal numerals -/

/-- Decimal digits of a natural number (most significant first), `"0"` for 0. Fuel = `n + 1`. -/
def natDigitsAux : Nat → Nat → Bytes → Bytes
  | 0, _, acc => acc
  | fuel + 1, n, acc =>
    if n < 10 then UInt8.ofNat (48 + n) :: acc
    else natDigitsAux fuel (n / 10) (UInt8.ofNat (48 + n % 10) :: acc)

def natDigits (n : Nat) : Bytes := natDigitsAux (n + 1) n []

/-- Value of a run of decimal digits (no validation: callers pass digit runs). -/
def digitsVal (ds : Bytes) : Nat := ds.foldl (fun acc c => acc * 10 + (c.toNat - 48)) 0

def intText (i : Int) : Bytes := if i < 0 then 45 :: natDigits i.natAbs else natDigits i.natAbs

/-! ### UTF-8 -/

/-- Decode one rune from the head of a byte string, as `utf8.DecodeRune`: `(rune, width)`;
    an invalid or truncated encoding yields `(0xFFFD, 1)`. Requires a non-empty input. -/
def decodeRune (s : Bytes) : Nat × Nat :=
  match s with
  | [] => (0xFFFD, 0)
  | b0 :: rest =>
    let c0 := b0.toNat
    if c0 < 0x80 then (c0, 1)
    else if c0 < 0xC2 then (0xFFFD, 1)
    else if c0 < 0xE0 then
      match rest with
      | b1 :: _ => if 0x80 ≤ b1.toNat && b1.toNat < 0xC0 then ((c0 - 0xC0) * 64 + (b1.toNat - 0x80), 2) else (0xFFFD, 1)
      | _ => (0xFFFD, 1)
    else if c0 < 0xF0 then
      match rest with
      | b1 :: b2 :: _ =>
        let lo := if c0 == 0xE0 then 0xA0 else 0x80
        let hi := if c0 == 0xED then 0xA0 else 0xC0
        if lo ≤ b1.toNat && b1.toNat < hi && 0x80 ≤ b2.toNat && b2.toNat < 0xC0 then
          ((c0 - 0xE0) * 4096 + (b1.toNat - 0x80) * 64 + (b2.toNat - 0x80), 3)
        else (0xFFFD, 1)
      | _ => (0xFFFD, 1)
    else if c0 < 0xF5 then
      match rest with
      | b1 :: b2 :: b3 :: _ =>
        let lo := if c0 == 0xF0 then 0x90 else 0x80
        let hi := if c0 == 0xF4 then 0x90 else 0xC0
        if lo ≤ b1.toNat && b1.toNat < hi && 0x80 ≤ b2.toNat && b2.toNat < 0xC0 && 0x80 ≤ b3.toNat && b3.toNat < 0xC0 then
          ((c0 - 0xF0) * 262144 + (b1.toNat - 0x80) * 4096 + (b2.toNat - 0x80) * 64 + (b3.toNat - 0x80), 4)
        else (0xFFFD, 1)
      | _ => (0xFFFD, 1)
    else (0xFFFD, 1)

/-- `utf8.EncodeRune` (surrogates and out-of-range runes encode U+FFFD). -/
def encodeRune (r : Nat) : Bytes :=
  let r := if (0xD800 ≤ r && r < 0xE000) || r > 0x10FFFF then 0xFFFD else r
  if r < 0x80 then [UInt8.ofNat r]
  else if r < 0x800 then [UInt8.ofNat (0xC0 + r / 64), UInt8.ofNat (0x80 + r % 64)]
  else if r < 0x10000 then [UInt8.ofNat (0xE0 + r / 4096), UInt8.ofNat (0x80 + r / 64 % 64), UInt8.ofNat (0x80 + r % 64)]
  else [UInt8.ofNat (0xF0 + r / 262144), UInt8.ofNat (0x80 + r / 4096 % 64), UInt8.ofNat (0x80 + r / 64 % 64), UInt8.ofNat (0x80 + r % 64)]

/-- `utf8.ValidString`. -/
def validUTF8 : Nat → Bytes → Bool
  | 0, s => s.isEmpty
  | fuel + 1, s =>
    match s with
    | [] => true
    | _ =>
      let (r, w) := decodeRune s
      if r == 0xFFFD && w == 1 then false else validUTF8 fuel (s.drop w)

/-! ### strconv.Quote -/

/-- Non-ASCII code point ranges treated as not printable (`strconv.IsPrint` false): C1 controls and
    NBSP, soft hyphen, zero-width / bidi / separators, BOM, specials, private use, surrogates.
    Everything else above U+007F is taken as printable (the generator's rune pool stays inside the
    region where this agrees with Go's tables). -/
def nonPrintRanges : List (Nat × Nat) :=
  [(0x80, 0xA0), (0xAD, 0xAD), (0x600, 0x605), (0x61C, 0x61C), (0x6DD, 0x6DD), (0x70F, 0x70F), (0x180E, 0x180E),
   (0x2000, 0x200F), (0x2028, 0x202F), (0x205F, 0x206F), (0x3000, 0x3000), (0xD800, 0xF8FF), (0xFEFF, 0xFEFF),
   (0xFFF0, 0xFFFB), (0xFFFE, 0xFFFF), (0xE0000, 0x10FFFF)]

def isPrintRune (r : Nat) : Bool :=
  if r < 0x80 then 0x20 ≤ r && r < 0x7F
  else !(nonPrintRanges.any fun (lo, hi) => lo ≤ r && r ≤ hi)

def hexN (width n : Nat) : Bytes :=
  (List.range width).reverse.map fun i => hexDigitB (n / 16 ^ i % 16)

/-- `appendEscapedRune` for the double-quote style. -/
def escapeRune (r : Nat) : Bytes :=
  if r == 34 || r == 92 then [92, UInt8.ofNat r]
  else if isPrintRune r then encodeRune r
  else if r == 7 then bs "\\a" else if r == 8 then bs "\\b" else if r == 12 then bs "\\f"
  else if r == 10 then bs "\\n" else if r == 13 then bs "\\r" else if r == 9 then bs "\\t" else if r == 11 then bs "\\v"
  else if r < 0x20 || r == 0x7F then 92 :: 120 :: hexN 2 r
  else if (0xD800 ≤ r && r < 0xE000) || r > 0x10FFFF then bs "\\ufffd"
  else if r < 0x10000 then 92 :: 117 :: hexN 4 r
  else 92 :: 85 :: hexN 8 r

def quoteBody : Nat → Bytes → Bytes
  | 0, _ => []
  | fuel + 1, s =>
    match s with
    | [] => []
    | b0 :: _ =>
      let (r, w) := decodeRune s
      if w == 1 && r == 0xFFFD then (92 :: 120 :: hexN 2 b0.toNat) ++ quoteBody fuel (s.drop 1)
      else escapeRune r ++ quoteBody fuel (s.drop w)

/-- `strconv.Quote`. -/
def quote (s : Bytes) : Bytes := 34 :: (quoteBody s.length s ++ [34])

/-! ### strutil.Unquote -/

def hexRun? : Nat → Bytes → Option (Nat × Bytes)
  | 0, s => some (0, s)
  | n + 1, c :: s => do
    let v ← hexValB? c
    let (rest, tl) ← hexRun? n s
    pure (v * 16 ^ n + rest, tl)
  | _ + 1, [] => none

/-- `unquoteChar`: one character or escape of a quoted string with delimiter `q`;
    returns the bytes it denotes and the tail. -/
def unquoteChar (q : UInt8) (s : Bytes) : Option (Bytes × Bytes) :=
  match s with
  | [] => none
  | c :: tl =>
    if c == q then none
    else if c ≥ 0x80 then
      let (r, w) := decodeRune s
      some (encodeRune r, s.drop w)
    else if c != 92 then some ([c], tl)
    else
      match tl with
      | [] => none
      | e :: rest =>
        if e == 97 then some ([7], rest) else if e == 98 then some ([8], rest) else if e == 102 then some ([12], rest)
        else if e == 110 then some ([10], rest) else if e == 114 then some ([13], rest) else if e == 116 then some ([9], rest)
        else if e == 118 then some ([11], rest)
        else if e == 120 then do
          let (v, tl') ← hexRun? 2 rest
          pure ([UInt8.ofNat v], tl')
        else if e == 117 then do
          let (v, tl') ← hexRun? 4 rest
          pure (encodeRune v, tl')
        else if e == 85 then do
          let (v, tl') ← hexRun? 8 rest
          if v > 0x10FFFF then none else pure (encodeRune v, tl')
        else if 48 ≤ e && e ≤ 55 then
          match rest with
          | d1 :: d2 :: tl' =>
            if 48 ≤ d1 && d1 ≤ 55 && 48 ≤ d2 && d2 ≤ 55 then
              let v := (e.toNat - 48) * 64 + (d1.toNat - 48) * 8 + (d2.toNat - 48)
              if v > 255 then none else some ([UInt8.ofNat v], tl')
            else none
          | _ => none
        else if e == 92 then some ([92], rest)
        else if e == 39 || e == 34 then (if e == q then some ([e], rest) else none)
        else none

def unquoteBody (q : UInt8) : Nat → Bytes → Option Bytes
  | 0, s => if s.isEmpty then some [] else none
  | fuel + 1, s =>
    match s with
    | [] => some []
    | _ => do
      let (out, tl) ← unquoteChar q s
      let rest ← unquoteBody q fuel tl
      pure (out ++ rest)

/-- `strutil.Unquote` on a whole token (with its delimiters). -/
def unquote (tok : Bytes) : Option Bytes :=
  match tok with
  | [] => none
  | q :: rest =>
    match rest.getLast? with
    | none => none
    | some l =>
      if l != q then none else
      let body := rest.dropLast
      if q == 96 then (if body.contains 96 then none else some body)
      else if q != 34 && q != 39 then none
      else if body.contains 10 then none
      else if !body.contains 92 && !body.contains q then some body
      else unquoteBody q body.length body

/-! ### durations -/

def msYear : Nat := 1000 * 60 * 60 * 24 * 365
def msWeek : Nat := 1000 * 60 * 60 * 24 * 7
def msDay : Nat := 1000 * 60 * 60 * 24
def msHour : Nat := 1000 * 60 * 60
def msMinute : Nat := 1000 * 60

/-- One `f(unit, mult, exact)` step of `model.Duration.String`: state = (remaining ms, text so far). -/
def durStep (unit : Bytes) (mult : Nat) (exact : Bool) (st : Nat × Bytes) : Nat × Bytes :=
  if exact && st.1 % mult != 0 then st
  else if st.1 / mult > 0 then (st.1 - st.1 / mult * mult, st.2 ++ natDigits (st.1 / mult) ++ unit)
  else st

/-- `model.Duration(d).String()` for a non-negative duration given in whole milliseconds. -/
def fmtDurationMs (ms : Nat) : Bytes :=
  if ms = 0 then bs "0s"
  else
    (durStep (bs "ms") 1 false <| durStep (bs "s") 1000 false <| durStep (bs "m") msMinute false <|
     durStep (bs "h") msHour false <| durStep (bs "d") msDay false <| durStep (bs "w") msWeek true <|
     durStep (bs "y") msYear true (ms, [])).2

/-- `unitMap`: unit ↦ (position, multiplier in ns). -/
def unitInfo (u : Bytes) : Option (Nat × Nat) :=
  if u = bs "ms" then some (7, 1000000)
  else if u = bs "s" then some (6, 1000000000)
  else if u = bs "m" then some (5, 60 * 1000000000)
  else if u = bs "h" then some (4, 3600 * 1000000000)
  else if u = bs "d" then some (3, 86400 * 1000000000)
  else if u = bs "w" then some (2, 7 * 86400 * 1000000000)
  else if u = bs "y" then some (1, 365 * 86400 * 1000000000)
  else none

/-- The loop of `model.ParseDuration` (fuel = length of the input): accumulated ns, last unit position. -/
def parseDurLoop : Nat → Bytes → Nat → Nat → Option Nat
  | 0, s, dur, _ => if s.isEmpty then some dur else none
  | fuel + 1, s, dur, lastPos =>
    match s with
    | [] => some dur
    | c :: _ =>
      if !isDigitB c then none else
      let ds := s.takeWhile isDigitB
      let s1 := s.dropWhile isDigitB
      let v := digitsVal ds
      if v ≥ 2 ^ 64 then none else
      let u := s1.takeWhile (fun c => !isDigitB c)
      let s2 := s1.dropWhile (fun c => !isDigitB c)
      if u.isEmpty then none else
      match unitInfo u with
      | none => none
      | some (pos, mult) =>
        if pos ≤ lastPos then none
        else if v > 2 ^ 63 / mult then none
        else
          let dur' := dur + v * mult
          if dur' > 2 ^ 63 - 1 then none else parseDurLoop fuel s2 dur' pos

/-- `model.ParseDuration`: nanoseconds, `none` on any error. -/
def parseDuration (s : Bytes) : Option Nat :=
  if s = bs "0" then some 0
  else if s.isEmpty then none
  else parseDurLoop s.length s 0 0

/-! ### floats -/

open F64Q

def f64OfInt (i : Int) : F64 := F64.ofRat (i : Rat)

def f1e9 : F64 := f64OfInt 1000000000
def f1000 : F64 := f64OfInt 1000

def ratFloor (q : Rat) : Int := q.num / (q.den : Int)

/-- `int64(x)` for a double on amd64 (truncation toward zero; NaN and out-of-range give MinInt64). -/
def f64ToInt64 (x : F64) : Int :=
  if x.isNaN || x.isInf then -(2 ^ 63 : Int)
  else
    let q := x.toRat
    let t : Int := if q < 0 then -(ratFloor (-q)) else ratFloor q
    if t < -(2 ^ 63 : Int) || t ≥ (2 ^ 63 : Int) then -(2 ^ 63 : Int) else t

/-- `math.Round` (half away from zero) followed by `int64(·)`. -/
def f64RoundToInt64 (x : F64) : Int :=
  if x.isNaN || x.isInf then -(2 ^ 63 : Int)
  else
    let q := x.toRat
    let a := if q < 0 then -q else q
    let r : Int := ratFloor (a + (1 : Rat) / 2)
    let t := if q < 0 then -r else r
    if t < -(2 ^ 63 : Int) || t ≥ (2 ^ 63 : Int) then -(2 ^ 63 : Int) else t

/-- `time.Duration(ns).Seconds()`. -/
def secondsOfNs (ns : Nat) : F64 :=
  F64.add (f64OfInt (ns / 1000000000)) (F64.div (f64OfInt (ns % 1000000000)) f1e9)

def pow10 (n : Nat) : Nat := 10 ^ n

/-- number of decimal digits of the integer part of a positive rational (≤ 0 when q < 1):
    the `k` with `10^(k-1) ≤ q < 10^k`. Fuel-bounded search from an estimate. -/
def decExpAux : Nat → Rat → Int → Int
  | 0, _, k => k
  | fuel + 1, q, k =>
    let lo : Rat := if k - 1 ≥ 0 then ((pow10 (k - 1).toNat : Nat) : Rat) else (1 : Rat) / ((pow10 (1 - k).toNat : Nat) : Rat)
    let hi : Rat := if k ≥ 0 then ((pow10 k.toNat : Nat) : Rat) else (1 : Rat) / ((pow10 (-k).toNat : Nat) : Rat)
    if q < lo then decExpAux fuel q (k - 1)
    else if q ≥ hi then decExpAux fuel q (k + 1)
    else k

def decExp (q : Rat) : Int :=
  let est : Int := ((Nat.log2 q.num.toNat : Int) - (Nat.log2 q.den : Int)) * 30103 / 100000
  decExpAux 8 q est

/-- `m × 10^(-s)` as a rational. -/
def scaled (m : Nat) (s : Int) : Rat :=
  if s ≥ 0 then (m : Rat) / ((pow10 s.toNat : Nat) : Rat) else ((m * pow10 (-s).toNat : Nat) : Rat)

/-- Shortest decimal `(m, s)` (value `m × 10^(-s)`, `m` with `p` digits, `p` minimal) that rounds
    back to the positive finite double `x`; among candidates of that length the one nearest to `x`. -/
def shortestAux (x : F64) (q : Rat) (k : Int) : Nat → Nat → Nat × Int
  | 0, p => (0, p)
  | fuel + 1, p =>
    let s : Int := (p : Int) - k
    let sc : Rat := if s ≥ 0 then q * ((pow10 s.toNat : Nat) : Rat) else q / ((pow10 (-s).toNat : Nat) : Rat)
    let lo : Nat := (ratFloor sc).toNat
    let hi := lo + 1
    let okLo := lo > 0 && (F64.ofRat (scaled lo s)).bits == x.bits
    let okHi := (F64.ofRat (scaled hi s)).bits == x.bits
    let dLo := sc - (lo : Rat)
    let dHi := (hi : Rat) - sc
    if okLo && okHi then
      (if dLo < dHi then (lo, s) else if dHi < dLo then (hi, s) else if lo % 2 == 0 then (lo, s) else (hi, s))
    else if okLo then (lo, s)
    else if okHi then (hi, s)
    else shortestAux x q k fuel (p + 1)

/-- Digits (no trailing zeros) and decimal point position of the shortest representation:
    value = `0.d1d2… × 10^pointPos`. -/
def shortestDigits (x : F64) : Bytes × Int :=
  let q := (F64.abs x).toRat
  let k := decExp q
  let (m, s) := shortestAux (F64.abs x) q k 18 1
  let ds := natDigits m
  -- value = m × 10^(-s); with n = ds.length digits, point position = n - s
  let n := ds.length
  let stripped := (ds.reverse.dropWhile (· == 48)).reverse
  (stripped, (n : Int) - s)

def zerosB (n : Nat) : Bytes := List.replicate n 48

/-- `%f` layout of digits with the given point position, as many fraction digits as there are. -/
def layoutF (ds : Bytes) (pt : Int) : Bytes :=
  if pt ≤ 0 then bs "0." ++ zerosB (-pt).toNat ++ ds
  else if pt.toNat ≥ ds.length then ds ++ zerosB (pt.toNat - ds.length)
  else ds.take pt.toNat ++ [46] ++ ds.drop pt.toNat

/-- `strconv.FormatFloat(x, 'f', -1, 64)`. -/
def fmtFloatF (x : F64) : Bytes :=
  if x.isNaN then bs "NaN"
  else if x.isInf then (if x.neg? then bs "-Inf" else bs "+Inf")
  else
    let sign : Bytes := if x.neg? then [45] else []
    if x.isZero then sign ++ [48]
    else
      let (ds, pt) := shortestDigits x
      sign ++ layoutF ds pt

/-- `fmt.Sprintf("%v", x)` for a float64 (`%g` with the shortest digits, exponent form when the
    decimal exponent is < -4 or ≥ 6: strconv's `%g` with precision -1 uses eprec = 6, so 31536000 prints
    as `3.1536e+07`). -/
def fmtFloatV (x : F64) : Bytes :=
  if x.isNaN then bs "NaN"
  else if x.isInf then (if x.neg? then bs "-Inf" else bs "+Inf")
  else
    let sign : Bytes := if x.neg? then [45] else []
    if x.isZero then sign ++ [48]
    else
      let (ds, pt) := shortestDigits x
      let e : Int := pt - 1
      if e < -4 || e ≥ 6 then
        let mant := match ds with
          | [] => [48]
          | [d] => [d]
          | d :: rest => d :: 46 :: rest
        let ea := natDigits e.natAbs
        let ea := if ea.length < 2 then 48 :: ea else ea
        sign ++ mant ++ [101] ++ (if e < 0 then [45] else [43]) ++ ea
      else sign ++ layoutF ds pt

/-- `fmt.Sprintf("%.3f", x)` for a finite double. -/
def fmtFixed3 (x : F64) : Bytes :=
  if x.isNaN then bs "NaN"
  else if x.isInf then (if x.neg? then bs "-Inf" else bs "+Inf")
  else
    let q := (F64.abs x).toRat * 1000
    let n := q.num.toNat
    let d := q.den
    let r := rneDiv n d
    let sign : Bytes := if x.neg? then [45] else []
    let frac := natDigits (r % 1000)
    sign ++ natDigits (r / 1000) ++ [46] ++ zerosB (3 - frac.length) ++ frac

/-- `strconv.underscoreOK` on an unsigned token: underscores only between digits (a base prefix `0x` / `0o` /
    `0b` counts as a digit).  `saw`: 0 = beginning, 1 = digit or base prefix, 2 = underscore, 3 = anything else. -/
def underscoreOKGo (hex : Bool) : Bytes → Nat → Bool
  | [], saw => saw != 2
  | c :: tl, saw =>
    if isDigitB c || (hex && 97 ≤ (c ||| 32) && (c ||| 32) ≤ 102) then underscoreOKGo hex tl 1
    else if c == 95 then (if saw != 1 then false else underscoreOKGo hex tl 2)
    else if saw == 2 then false
    else underscoreOKGo hex tl 3

def underscoreOK (s : Bytes) : Bool :=
  match s with
  | 48 :: x :: tl =>
    let lx := x ||| 32
    if lx == 98 || lx == 111 || lx == 120 then underscoreOKGo (lx == 120) tl 1 else underscoreOKGo false s 0
  | _ => underscoreOKGo false s 0

/-- `parser.number`: `strconv.ParseInt(s, 0, 64)` falling back to `strconv.ParseFloat(s, 64)`, on a
    token the lexer produced as NUMBER (digits, `.`, `_`, exponent, `0x` prefix, or the words inf/nan).
    `none` = "error parsing number". -/
def parseNumber (tok : Bytes) : Option F64 :=
  let lw := lowerBs tok
  if lw = bs "inf" then some F64.pinf
  else if lw = bs "nan" then some F64.nan
  -- the lexer lets `1_ `, `0x__1` through as NUMBER; both ParseInt and ParseFloat then fail in underscoreOK
  else if tok.contains 95 && !underscoreOK tok then none
  else
    let s := tok.filter (· != 95)
    match s with
    | 48 :: x :: hexs =>
      if x == 120 || x == 88 then
        -- hexadecimal integer (the lexer admits no `p` exponent, so ParseFloat cannot rescue it)
        if hexs.isEmpty then none else
        match hexs.foldlM (fun (acc : Nat) c => do let v ← hexValB? c; pure (acc * 16 + v)) 0 with
        | some v => if v < 2 ^ 63 then some (f64OfInt (v : Int)) else none
        | none => none
      else
        decimal s
    | _ => decimal s
where
  decimal (s : Bytes) : Option F64 :=
    -- integer syntax: all digits
    if !s.isEmpty && s.all isDigitB then
      -- ParseInt base 0: leading 0 means octal when every digit is < 8
      let octal := s.length > 1 && s.head? == some 48
      if octal && s.all (fun c => c < 56) then
        let v : Nat := s.foldl (fun (acc : Nat) c => acc * 8 + (c.toNat - 48)) 0
        if v < 2 ^ 63 then some (f64OfInt (v : Int)) else floatOf s
      else if octal then floatOf s
      else
        let v := digitsVal s
        if v < 2 ^ 63 then some (f64OfInt (v : Int)) else floatOf s
    else floatOf s
  floatOf (s : Bytes) : Option F64 :=
    let intPart := s.takeWhile isDigitB
    let r1 := s.dropWhile isDigitB
    let (fracPart, r2) := match r1 with
      | 46 :: t => (t.takeWhile isDigitB, t.dropWhile isDigitB)
      | _ => ([], r1)
    if intPart.isEmpty && fracPart.isEmpty then none else
    let expo : Option Int := match r2 with
      | [] => some 0
      | e :: t =>
        if e == 101 || e == 69 then
          let (neg, ds) := match t with
            | 45 :: ds => (true, ds)
            | 43 :: ds => (false, ds)
            | ds => (false, ds)
          if ds.isEmpty || !ds.all isDigitB then none
          else
            let v : Int := (Nat.min (digitsVal ds) 100000 : Nat)
            some (if neg then -v else v)
        else none
    match expo with
    | none => none
    | some ex =>
      let mant := digitsVal (intPart ++ fracPart)
      if mant == 0 then some F64.zero else
      let e10 : Int := ex - (fracPart.length : Int)
      -- cheap range cut-offs so that absurd exponents do not build astronomically large numbers
      if e10 > 400 then none
      else if e10 < -1500 then some F64.zero
      else
        let q : Rat := if e10 ≥ 0 then ((mant * pow10 e10.toNat : Nat) : Rat) else (mant : Rat) / ((pow10 (-e10).toNat : Nat) : Rat)
        let x := F64.ofRat q
        if x.isInf then none else some x

end Prom.Promql
