import PromModel.Num.F64Q
/-
  Model of promql/quantile.go (`BucketQuantile`, `coalesceBuckets`,
  `ensureMonotonicAndIgnoreSmallDeltas`, `HistogramQuantile`, `HistogramFraction`), of
  util/almost.Equal and of histogram_count/sum/avg (promql/functions.go).

  Every definition is written ONCE, over a law-free class of float operations `FOps α`, and used at
  two instances:
    * `α = F64` (PromModel/Num/F64Q: correctly rounded IEEE binary64 on bit patterns) — executed by
      the `histfn` suite and compared bit for bit with the Go code;
    * `α = XR`  (`nan | ninf | pinf | fin Rat`, exact arithmetic with IEEE rules on the specials) —
      the instance the theorems in PromProps/C32 are about.
  The exponential interpolation of native histograms (`exp2`/`log2`) is NOT modelled: the functions
  return the *arguments* of the interpolant (`HQRes.expo lower upper fraction`) resp. take the
  in-bucket fraction `fb` as a parameter.
-/
namespace Prom.Quantile
open Prom.F64Q

class FOps (α : Type) where
  add : α → α → α
  sub : α → α → α
  mul : α → α → α
  div : α → α → α
  lt : α → α → Bool
  le : α → α → Bool
  beq : α → α → Bool
  isNaN : α → Bool
  isStaleNaN : α → Bool
  abs : α → α
  min : α → α → α
  zero : α
  one : α
  half : α
  pinf : α
  ninf : α
  nan : α
  maxFloat : α
  minNormal : α
  /-- the constant `smallDeltaTolerance = 1e-12` -/
  tol : α

instance : FOps F64 where
  add := F64.add
  sub := F64.sub
  mul := F64.mul
  div := F64.div
  lt := F64.lt
  le := F64.le
  beq := F64.beq
  isNaN := F64.isNaN
  isStaleNaN := F64.isStaleNaN
  abs := F64.abs
  min := F64.min
  zero := F64.zero
  one := F64.one
  half := F64.half
  pinf := F64.pinf
  ninf := F64.ninf
  nan := F64.nan
  maxFloat := F64.maxFloat
  minNormal := F64.minNormal
  tol := F64.tol

/-- Extended rationals: exact arithmetic, IEEE behaviour on the special values. -/
inductive XR where
  | nan | ninf | pinf
  | fin (r : Rat)
  deriving DecidableEq, Repr, Inhabited

namespace XR

def add : XR → XR → XR
  | fin a, fin b => fin (a + b)
  | nan, _ => nan | _, nan => nan
  | pinf, ninf => nan | ninf, pinf => nan
  | pinf, _ => pinf | _, pinf => pinf
  | ninf, _ => ninf | _, ninf => ninf

def neg : XR → XR
  | fin a => fin (-a) | nan => nan | pinf => ninf | ninf => pinf

def sub : XR → XR → XR
  | fin a, fin b => fin (a - b)
  | x, y => add x (neg y)

def sgnInf (a : Rat) (pos : XR) (ng : XR) : XR := if a = 0 then nan else if a > 0 then pos else ng

def mul : XR → XR → XR
  | fin a, fin b => fin (a * b)
  | nan, _ => nan | _, nan => nan
  | pinf, pinf => pinf | ninf, ninf => pinf | pinf, ninf => ninf | ninf, pinf => ninf
  | pinf, fin a => sgnInf a pinf ninf | fin a, pinf => sgnInf a pinf ninf
  | ninf, fin a => sgnInf a ninf pinf | fin a, ninf => sgnInf a ninf pinf

def div : XR → XR → XR
  | fin a, fin b => if b = 0 then sgnInf a pinf ninf else fin (a / b)
  | nan, _ => nan | _, nan => nan
  | fin _, pinf => fin 0 | fin _, ninf => fin 0
  | pinf, fin b => if b ≥ 0 then pinf else ninf
  | ninf, fin b => if b ≥ 0 then ninf else pinf
  | pinf, pinf => nan | pinf, ninf => nan | ninf, pinf => nan | ninf, ninf => nan

def lt : XR → XR → Bool
  | fin a, fin b => decide (a < b)
  | nan, _ => false | _, nan => false
  | ninf, ninf => false | ninf, _ => true
  | _, ninf => false
  | pinf, _ => false
  | fin _, pinf => true

def beq : XR → XR → Bool
  | fin a, fin b => decide (a = b)
  | pinf, pinf => true | ninf, ninf => true
  | _, _ => false

def le (x y : XR) : Bool := lt x y || beq x y

def isNaN : XR → Bool
  | nan => true | _ => false

def abs : XR → XR
  | fin a => fin (if a < 0 then -a else a) | nan => nan | _ => pinf

def min (x y : XR) : XR := if x.isNaN || y.isNaN then nan else if lt x y then x else y

end XR

instance : FOps XR where
  add := XR.add
  sub := XR.sub
  mul := XR.mul
  div := XR.div
  lt := XR.lt
  le := XR.le
  beq := XR.beq
  isNaN := XR.isNaN
  isStaleNaN := fun _ => false
  abs := XR.abs
  min := XR.min
  zero := .fin 0
  one := .fin 1
  half := .fin (1 / 2)
  pinf := .pinf
  ninf := .ninf
  nan := .nan
  maxFloat := .fin ((2 ^ 1024 - 2 ^ 971 : Nat) : Rat)
  minNormal := .fin (1 / (2 ^ 1022 : Nat))
  tol := .fin (1 / 1000000000000)

open FOps

variable {α : Type} [FOps α]

/-- util/almost.Equal -/
def almostEqual (a b epsilon : α) : Bool :=
  if isStaleNaN a || isStaleNaN b then isStaleNaN a && isStaleNaN b
  else if isNaN a && isNaN b then true
  else if beq a b then true
  else
    let absSum := add (abs a) (abs b)
    let diff := abs (sub a b)
    if beq a zero || beq b zero || lt absSum minNormal then lt diff (mul epsilon minNormal)
    else lt (div diff (min absSum maxFloat)) epsilon

structure Bucket (α : Type) where
  ub : α
  count : α
  deriving Repr, Inhabited

/-- Insert before the first element that is not smaller (stable, like the insertion sort
    `slices.SortFunc` uses for ≤ 12 elements; for longer inputs Go's pdqsort may order buckets with
    *equal* bounds differently, which only matters when their counts do not add exactly). -/
def insertB (b : Bucket α) : List (Bucket α) → List (Bucket α)
  | [] => [b]
  | x :: xs => if lt x.ub b.ub then x :: insertB b xs else b :: x :: xs

def sortB : List (Bucket α) → List (Bucket α)
  | [] => []
  | b :: bs => insertB b (sortB bs)

/-- `coalesceBuckets(buckets)` for `buckets = last :: rest` (sorted). -/
def coalesce (last : Bucket α) : List (Bucket α) → List (Bucket α)
  | [] => [last]
  | b :: bs =>
    if beq b.ub last.ub then coalesce { last with count := add last.count b.count } bs
    else last :: coalesce b bs

/-- The count rewriting of `ensureMonotonicAndIgnoreSmallDeltas` on `buckets[1:]`, `prev` being
    the running reference count. `almost prev curr` is `almost.Equal(prev, curr, tolerance)`. -/
def fixCounts (almost : α → α → Bool) (prev : α) : List (Bucket α) → List (Bucket α)
  | [] => []
  | b :: bs =>
    let curr := b.count
    if beq curr prev then b :: fixCounts almost prev bs
    else if almost prev curr then { b with count := prev } :: fixCounts almost prev bs
    else if lt curr prev then { b with count := prev } :: fixCounts almost prev bs
    else b :: fixCounts almost curr bs

structure MonoInfo (α : Type) where
  forced : Bool
  fixed : Bool
  minB : α
  maxB : α
  maxDiff : α
  deriving Repr, Inhabited

/-- The five extra results of `ensureMonotonicAndIgnoreSmallDeltas`. -/
def monoInfo (almost : α → α → Bool) (prev : α) (st : MonoInfo α) : List (Bucket α) → MonoInfo α
  | [] => st
  | b :: bs =>
    let curr := b.count
    if beq curr prev then monoInfo almost prev st bs
    else if almost prev curr then monoInfo almost prev { st with fixed := true } bs
    else if lt curr prev then
      let diff := sub prev curr
      monoInfo almost prev
        { st with forced := true,
                  minB := if lt b.ub st.minB then b.ub else st.minB,
                  maxB := if lt st.maxB b.ub then b.ub else st.maxB,
                  maxDiff := if lt st.maxDiff diff then diff else st.maxDiff } bs
    else monoInfo almost curr st bs

def ensureMonotonic (almost : α → α → Bool) : List (Bucket α) → List (Bucket α) × MonoInfo α
  | [] => ([], ⟨false, false, pinf, ninf, zero⟩)   -- unreachable: Go would panic on buckets[0]
  | b :: bs => (b :: fixCounts almost b.count bs, monoInfo almost b.count ⟨false, false, pinf, ninf, zero⟩ bs)

/-- `sort.Search(n, f)`, transcribed: `i, j := 0, n; for i < j { h := (i+j)/2; if !f(h) {i = h+1} else {j = h} }`. -/
def searchGo (f : Nat → Bool) : Nat → Nat → Nat → Nat
  | 0, i, _ => i
  | fuel + 1, i, j =>
    if i < j then
      let h := (i + j) / 2
      if !f h then searchGo f fuel (h + 1) j else searchGo f fuel i h
    else i

def sortSearch (n : Nat) (f : Nat → Bool) : Nat := searchGo f (n + 1) 0 n

def ubAt (bs : List (Bucket α)) (i : Nat) : α := match bs[i]? with | some b => b.ub | none => nan
def cntAt (bs : List (Bucket α)) (i : Nat) : α := match bs[i]? with | some b => b.count | none => nan

/-- The tail of `BucketQuantile` after the fix-up: `buckets` has ≥ 2 elements. -/
def bqSelect (bs : List (Bucket α)) (rank : α) : Nat :=
  sortSearch (bs.length - 1) (fun i => le rank (cntAt bs i))

def bqInterp (bs : List (Bucket α)) (rank : α) (b : Nat) : α :=
  let n := bs.length
  if b = n - 1 then ubAt bs (n - 2)
  else if b = 0 && le (ubAt bs 0) zero then ubAt bs 0
  else
    let bucketEnd := ubAt bs b
    let bucketStart := if b > 0 then ubAt bs (b - 1) else zero
    let count := if b > 0 then sub (cntAt bs b) (cntAt bs (b - 1)) else cntAt bs b
    let rank := if b > 0 then sub rank (cntAt bs (b - 1)) else rank
    add bucketStart (mul (sub bucketEnd bucketStart) (div rank count))

inductive Err where
  | panic
  deriving Repr, DecidableEq

structure BQResult (α : Type) where
  quantile : α
  info : MonoInfo α
  deriving Repr

def zeroInfo : MonoInfo α := ⟨false, false, zero, zero, zero⟩

/-- `BucketQuantile` after `coalesceBuckets`: fix-up, special cases, rank search, interpolation. -/
def bqTail (almost : α → α → Bool) (q : α) (cs : List (Bucket α)) : BQResult α :=
  let r := ensureMonotonic almost cs
  let bs := r.1
  if bs.length < 2 then ⟨nan, r.2⟩
  else
    let observations := cntAt bs (bs.length - 1)
    if beq observations zero then ⟨nan, r.2⟩
    else
      let rank := mul q observations
      ⟨bqInterp bs rank (bqSelect bs rank), r.2⟩

/-- `BucketQuantile(q, buckets)`, parameterised by the tolerance predicate. -/
def bucketQuantileWith (almost : α → α → Bool) (q : α) (buckets : List (Bucket α)) : Except Err (BQResult α) :=
  if isNaN q then .ok ⟨nan, zeroInfo⟩
  else if lt q zero then .ok ⟨ninf, zeroInfo⟩
  else if lt one q then .ok ⟨pinf, zeroInfo⟩
  else
    match sortB buckets with
    | [] => .error .panic   -- buckets[len(buckets)-1] with len 0
    | first :: rest =>
      let sorted := first :: rest
      if !beq (ubAt sorted (sorted.length - 1)) pinf then .ok ⟨nan, zeroInfo⟩
      else .ok (bqTail almost q (coalesce first rest))

def bucketQuantile (q : α) (buckets : List (Bucket α)) : Except Err (BQResult α) :=
  bucketQuantileWith (fun p c => almostEqual p c tol) q buckets

/-! ## Native histograms, at the level of the bucket iterators -/

structure NBucket (α : Type) where
  lower : α
  upper : α
  count : α
  deriving Repr, Inhabited

/-- What `HistogramQuantile`/`HistogramFraction` read of a `FloatHistogram`: the schema class, Count,
    Sum, `len(NegativeBuckets)`, `len(PositiveBuckets)` and the bucket sequences produced by
    `AllBucketIterator` (`fwd`) and `AllReverseBucketIterator` (`rev`). -/
structure NHist (α : Type) where
  custom : Bool
  count : α
  sum : α
  nNeg : Nat
  nPos : Nat
  fwd : List (NBucket α)
  rev : List (NBucket α)
  deriving Repr, Inhabited

/-- Result of `HistogramQuantile`: a value, or the arguments of the exponential interpolant
    (`lower`, `upper` of the bucket, both of the same sign and non-zero, and the in-bucket fraction). -/
inductive HQRes (α : Type) where
  | val (v : α)
  | expo (lower upper fraction : α)
  deriving Repr

/-- The iterator loop: `for it.Next() { bucket = it.At(); if bucket.Count == 0 {continue}; count += bucket.Count;
    if count >= rank {break} }`. -/
def hqWalk (rank : α) (bucket : NBucket α) (count : α) : List (NBucket α) → NBucket α × α × List (NBucket α)
  | [] => (bucket, count, [])
  | b :: bs =>
    if beq b.count zero then hqWalk rank b count bs
    else
      let count := add count b.count
      if le rank count then (b, count, bs) else hqWalk rank b count bs

/-- Is `fixes/F-C32-1.patch` in /repo?  (The NaN-observation loop of `HistogramQuantile` no longer assigns
    the outer variable `bucket`.)  `false` = the code as found (finding F-C32-1). -/
def repoFixedC32F1 : Bool := true

/-- `HistogramQuantile` after the first iterator loop: `bucket`, `count` are the loop's variables at
    `break`/exhaustion, `remaining` is what the iterator has not yielded yet.  `fixed = false` is the code as
    found: `if math.IsNaN(h.Sum) { for it.Next() { bucket = it.At(); count += bucket.Count } … }` — the loop
    that looks for NaN observations ASSIGNS the outer variable `bucket`, so from there on `bucket` is the
    last bucket of the iteration whenever buckets remained (finding F-C32-1: interpolation in the wrong
    bucket).  `fixed = true`: the loop only sums (`count += it.At().Count`); `count` is not used afterwards
    except for the annotation, which is not modelled. -/
def hqFinish (fixed : Bool) (h : NHist α) (fwdDir : Bool) (rank : α) (bucket : NBucket α) (count : α)
    (remaining : List (NBucket α)) : HQRes α :=
  -- bound adjustments; `none` = fall through, `some v` = early return
  let adj : NBucket α × Option α :=
    if !h.custom && lt bucket.lower zero && lt zero bucket.upper then
      if h.nNeg = 0 && h.nPos > 0 then ({ bucket with lower := zero }, none)
      else if h.nPos = 0 && h.nNeg > 0 then ({ bucket with upper := zero }, none)
      else (bucket, none)
    else if h.custom then
      if beq bucket.lower ninf then
        (if le bucket.upper zero then (bucket, some bucket.upper) else ({ bucket with lower := zero }, none))
      else if beq bucket.upper pinf then (bucket, some bucket.lower)
      else (bucket, none)
    else (bucket, none)
  match adj with
  | (_, some v) => .val v
  | (bucket, none) =>
    let count := if lt h.count count then h.count else count
    if lt count rank then (if isNaN h.sum then .val nan else .val bucket.upper)
    else
      let rank := if fwdDir then sub rank (sub count bucket.count) else sub count rank
      let bucket :=
        if !fixed && isNaN h.sum then (match remaining.getLast? with | some l => l | none => bucket) else bucket
      let fraction := div rank bucket.count
      if h.custom || (le bucket.lower zero && le zero bucket.upper) then
        .val (add bucket.lower (mul (sub bucket.upper bucket.lower) fraction))
      else .expo bucket.lower bucket.upper fraction

def histogramQuantileWith (fixed : Bool) (q : α) (h : NHist α) : HQRes α :=
  if lt q zero then .val ninf
  else if lt one q then .val pinf
  else if beq h.count zero || isNaN q then .val nan
  else
    let fwdDir := isNaN h.sum || lt q half
    let rank := if fwdDir then mul q h.count else mul (sub one q) h.count
    let (bucket, count, remaining) := hqWalk rank ⟨zero, zero, zero⟩ zero (if fwdDir then h.fwd else h.rev)
    hqFinish fixed h fwdDir rank bucket count remaining

/-- `HistogramQuantile(q, h)` of the code the check is tied to. -/
def histogramQuantile (q : α) (h : NHist α) : HQRes α := histogramQuantileWith repoFixedC32F1 q h

/-- Loop state of `HistogramFraction`. -/
structure FrSt (α : Type) where
  rank : α
  lowerRank : α
  upperRank : α
  lowerSet : Bool
  upperSet : Bool
  deriving Repr

/-- `Bucket.FractionBelow(v, linear)`; the exponential case is the parameter `fb lower upper v`. -/
def fractionBelow (fb : α → α → α → α) (b : NBucket α) (v : α) (linear : Bool) : α :=
  if linear then div (sub v b.lower) (sub b.upper b.lower) else fb b.lower b.upper v

/-- One pass of the `for it.Next()` loop of `HistogramFraction` (returns the state at `break`/exhaustion). -/
def hfLoop (fb : α → α → α → α) (h : NHist α) (lower upper : α) (st : FrSt α) : List (NBucket α) → FrSt α
  | [] => st
  | b0 :: bs =>
    let isZeroB := le b0.lower zero && le zero b0.upper
    let b : NBucket α :=
      if isZeroB then
        (if h.nNeg = 0 && h.nPos > 0 then { b0 with lower := zero }
         else if h.nPos = 0 && h.nNeg > 0 then { b0 with upper := zero } else b0)
      else b0
    -- interpolateLinearly tests the *captured, already adjusted* b.Lower; FractionBelow uses adjusted bounds
    let interp (v : α) : α :=
      if h.custom || isZeroB then
        (if beq b.lower ninf then b.count else add st.rank (mul b.count (fractionBelow fb b v true)))
      else add st.rank (mul b.count (fractionBelow fb b v false))
    let st1 := if !st.lowerSet && le lower b.lower then { st with lowerRank := st.rank, lowerSet := true } else st
    let st2 := if !st1.upperSet && le upper b.lower then { st1 with upperRank := st1.rank, upperSet := true } else st1
    if st2.lowerSet && st2.upperSet then st2
    else
      let st3 := if !st2.lowerSet && lt b.lower lower && lt lower b.upper then { st2 with lowerRank := interp lower, lowerSet := true } else st2
      let st4 := if !st3.upperSet && lt b.lower upper && lt upper b.upper then { st3 with upperRank := interp upper, upperSet := true } else st3
      if st4.lowerSet && st4.upperSet then st4
      else hfLoop fb h lower upper { st4 with rank := add st4.rank b.count } bs

def sumCounts (acc : α) : List (NBucket α) → α
  | [] => acc
  | b :: bs => sumCounts (add acc b.count) bs

/-- `HistogramFraction(lower, upper, h)`. When `h.Sum` is NaN the code re-sums all bucket counts
    (`count`): the loop adds each visited bucket and then the remaining ones, i.e. all of `fwd`. -/
def histogramFraction (fb : α → α → α → α) (lower upper : α) (h : NHist α) : α :=
  if beq h.count zero || isNaN lower || isNaN upper then nan
  else if le upper lower then zero
  else
    let st := hfLoop fb h lower upper ⟨zero, zero, zero, false, false⟩ h.fwd
    let count := if isNaN h.sum then sumCounts zero h.fwd else h.count
    let lowerRank := if !st.lowerSet || lt count st.lowerRank then count else st.lowerRank
    let upperRank := if !st.upperSet || lt count st.upperRank then count else st.upperRank
    div (sub upperRank lowerRank) h.count

/-- histogram_count / histogram_sum / histogram_avg of one histogram sample. -/
def histCount (h : NHist α) : α := h.count
def histSum (h : NHist α) : α := h.sum
def histAvg (h : NHist α) : α := div h.sum h.count

end Prom.Quantile
