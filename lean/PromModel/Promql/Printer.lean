import PromModel.Promql.Ast
/-
  `String()` of every PromQL node (promql/parser/printer.go) and `Pretty` (prettier.go), transcribed
  byte for byte (property C26).  `fixInf = true` is the repaired NumberLiteral printing (±Inf printed
  as `Inf` / `-Inf`, finding F13); the model of the unchanged tree uses `fixInf = false`.
-/
namespace Prom.Promql
open F64Q

/-- `model.LegacyValidation.IsValidLabelName`: `[a-zA-Z_][a-zA-Z0-9_]*`. -/
def isLegacyLabelName (s : Bytes) : Bool :=
  match s with
  | [] => false
  | c :: rest => isAlphaB c && rest.all isAlnumB

/-- `writeLabels`: comma-separated, names that are not legacy-valid are quoted. -/
def writeLabels (ss : List Bytes) : Bytes :=
  (bs ", ").intercalate (ss.map fun s => if isLegacyLabelName s then s else quote s)

/-- `labels.Matcher.shouldQuoteName` (the name is scanned rune-wise; any byte ≥ 0x80 forces quoting). -/
def matcherShouldQuote (name : Bytes) : Bool :=
  match name with
  | [] => true
  | c :: rest => !(isAlphaB c && rest.all isAlnumB)

def Matcher.text (m : Matcher) : Bytes :=
  (if matcherShouldQuote m.name then quote m.name else m.name) ++ m.typ.text ++ quote m.value

/-- bytewise `<` on strings (Go string comparison). -/
def bytesLt : Bytes → Bytes → Bool
  | [], [] => false
  | [], _ :: _ => true
  | _ :: _, [] => false
  | a :: as, b :: bs' => if a < b then true else if b < a then false else bytesLt as bs'

def insertSorted (x : Bytes) : List Bytes → List Bytes
  | [] => [x]
  | y :: ys => if bytesLt x y then x :: y :: ys else y :: insertSorted x ys

/-- `sort.Strings` (the result of sorting is unique, so any sorting algorithm will do). -/
def sortStrings (xs : List Bytes) : List Bytes := xs.foldr insertSorted []

def metricNameB : Bytes := bs "__name__"

/-- `model.Duration(ns).String()` for a signed nanosecond count (printer call sites pass ≥ 0). -/
def fmtDurNs (ns : Int) : Bytes :=
  if ns < 0 then 45 :: fmtDurationMs ((-ns).toNat / 1000000) else fmtDurationMs (ns.toNat / 1000000)

/-- the three-way `offset` rendering shared by selectors and subqueries (offset expression first). -/
def offsetText (off : Int) (offeText : Option Bytes) : Bytes :=
  match offeText with
  | some t => bs " offset " ++ t
  | none =>
    if off > 0 then bs " offset " ++ fmtDurNs off
    else if off < 0 then bs " offset -" ++ fmtDurNs (-off)
    else []

def atText : AtMod → Bytes
  | .none => []
  | .ts ms => bs " @ " ++ fmtFixed3 (F64.div (f64OfInt ms) f1000)
  | .start => bs " @ start()"
  | .end_ => bs " @ end()"

def extText : Ext → Bytes
  | .none => []
  | .anchored | .both => bs " anchored"
  | .smoothed => bs " smoothed"

/-- `NumberLiteral.String`. -/
def numText (fixInf : Bool) (v : F64) (dur : Bool) : Bytes :=
  if dur then
    if !v.isNaN && v.neg? && !v.isZero then 45 :: fmtDurNs (f64ToInt64 (F64.mul (F64.negate v) f1e9))
    else fmtDurNs (f64ToInt64 (F64.mul v f1e9))
  else if fixInf && v.isInf then (if v.neg? then bs "-Inf" else bs "Inf")
  else fmtFloatF v

def fillText (vm : VM) : Bytes :=
  match vm.fillL, vm.fillR with
  | none, none => []
  | some l, some r =>
    -- `*LHS == *RHS` is float comparison: NaN differs from itself, +0 equals -0
    if !l.isNaN && !r.isNaN && (l.bits == r.bits || (l.isZero && r.isZero)) then bs " fill (" ++ fmtFloatV l ++ bs ")"
    else bs " fill_left (" ++ fmtFloatV l ++ bs ")" ++ bs " fill_right (" ++ fmtFloatV r ++ bs ")"
  | some l, none => bs " fill_left (" ++ fmtFloatV l ++ bs ")"
  | none, some r => bs " fill_right (" ++ fmtFloatV r ++ bs ")"

/-- `BinaryExpr.getMatchingStr`. -/
def matchingText (vm : Option VM) : Bytes :=
  match vm with
  | none => []
  | some vm =>
    let grouped := vm.card == 1 || vm.card == 2
    let m1 := if !vm.labels.isEmpty || vm.on || grouped then
        bs " " ++ (if vm.on then bs "on" else bs "ignoring") ++ bs " (" ++ writeLabels vm.labels ++ bs ")"
      else []
    let m2 := if grouped then
        bs " group_" ++ (if vm.card == 1 then bs "left" else bs "right") ++ bs " (" ++ writeLabels vm.incl ++ bs ")"
      else []
    m1 ++ m2 ++ fillText vm

def aggParamOps : List Bytes := [bs "topk", bs "bottomk", bs "count_values", bs "quantile", bs "limitk", bs "limit_ratio"]

/-- `AggregateExpr.writeAggOpStr`. -/
def aggOpText (op : Bytes) (without : Bool) (grouping : List Bytes) : Bytes :=
  op ++ (if without then bs " without (" ++ writeLabels grouping ++ bs ") "
         else if !grouping.isEmpty then bs " by (" ++ writeLabels grouping ++ bs ") "
         else [])

def selectorCoreText (name : Bytes) (ms : List Matcher) : Bytes :=
  let kept := ms.filter fun m => !(m.name == metricNameB && m.typ == .eq && m.value == name && !m.value.isEmpty)
  let strs := sortStrings (kept.map Matcher.text)
  name ++ (if strs.isEmpty then [] else 123 :: ((bs ",").intercalate strs ++ [125]))

mutual
/-- `Expr.String()`. -/
def Expr.print (fixInf : Bool) : Expr → Bytes
  | .nil => []
  | .num v d => numText fixInf v d
  | .str v => quote v
  | .vs name ms off offe atm ext =>
    selectorCoreText name ms ++ atText atm ++ extText ext ++
      offsetText off (if offe.isNil then none else some (offe.print fixInf))
  | .mat sel range rangeE =>
    match sel with
    | .vs name ms off offe atm ext =>
      selectorCoreText name ms ++ [91] ++ (if rangeE.isNil then fmtDurNs range else rangeE.print fixInf) ++ [93] ++
        extText ext ++ atText atm ++ offsetText off (if offe.isNil then none else some (offe.print fixInf))
    | other => other.print fixInf ++ [91] ++ (if rangeE.isNil then fmtDurNs range else rangeE.print fixInf) ++ [93]
  | .sub e range rangeE step stepE off offe atm =>
    e.print fixInf ++ [91] ++ (if rangeE.isNil then fmtDurNs range else rangeE.print fixInf) ++ [58] ++
      (if step != 0 then fmtDurNs step else if stepE.isNil then [] else stepE.print fixInf) ++ [93] ++
      atText atm ++ offsetText off (if offe.isNil then none else some (offe.print fixInf))
  | .call fn args => fn ++ [40] ++ printArgs fixInf args ++ [41]
  | .agg op without grouping param e =>
    aggOpText op without grouping ++ [40] ++
      (if aggParamOps.contains op then param.print fixInf ++ bs ", " else []) ++ e.print fixInf ++ [41]
  | .bin op b vm l r =>
    l.print fixInf ++ [32] ++ op.text ++ (if b then bs " bool" else []) ++ matchingText vm ++ [32] ++ r.print fixInf
  | .un neg e => (if neg then [45] else [43]) ++ e.print fixInf
  | .paren e => [40] ++ e.print fixInf ++ [41]
  | .stepinv e => e.print fixInf
  | .dur op wrapped l r =>
    let inner : Bytes :=
      match op with
      | .step => bs "step()"
      | .range => bs "range()"
      | .minOf => bs "min_of(" ++ l.print fixInf ++ bs ", " ++ r.print fixInf ++ [41]
      | .maxOf => bs "max_of(" ++ l.print fixInf ++ bs ", " ++ r.print fixInf ++ [41]
      | _ =>
        if l.isNil then (if op == .sub then [45] ++ r.print fixInf else r.print fixInf)
        else l.print fixInf ++ [32] ++ op.text ++ [32] ++ r.print fixInf
    if wrapped then [40] ++ inner ++ [41] else inner

/-- `Expressions.String()`: arguments joined by ", ". -/
def printArgs (fixInf : Bool) : List Expr → Bytes
  | [] => []
  | [e] => e.print fixInf
  | e :: rest => e.print fixInf ++ bs ", " ++ printArgs fixInf rest
end

/-! ### Prettify -/

def maxCharactersPerLine : Nat := 100

def indentB (n : Nat) : Bytes := List.replicate (2 * n) 32

def trimSpaceB (s : Bytes) : Bytes :=
  let isWs := fun (c : UInt8) => isSpaceB c || c == 11 || c == 12
  ((s.dropWhile isWs).reverse.dropWhile isWs).reverse

def needsSplit (fixInf : Bool) (e : Expr) : Bool := (e.print fixInf).length > maxCharactersPerLine

/-- `getSubqueryTimeSuffix`. -/
def subquerySuffix (fixInf : Bool) (range : Int) (rangeE : Expr) (step : Int) (stepE : Expr) (off : Int) (offe : Expr) (atm : AtMod) : Bytes :=
  [91] ++ (if rangeE.isNil then fmtDurNs range else rangeE.print fixInf) ++ [58] ++
    (if step != 0 then fmtDurNs step else if stepE.isNil then [] else stepE.print fixInf) ++ [93] ++
    atText atm ++ offsetText off (if offe.isNil then none else some (offe.print fixInf))

mutual
/-- `Node.Pretty(level)`. -/
def Expr.pretty (fixInf : Bool) : Expr → Nat → Bytes
  | .agg op without grouping param e, level =>
    if !needsSplit fixInf (.agg op without grouping param e) then indentB level ++ (Expr.agg op without grouping param e).print fixInf
    else
      indentB level ++ aggOpText op without grouping ++ bs "(\n" ++
        (if aggParamOps.contains op then param.pretty fixInf (level + 1) ++ bs ",\n" else []) ++
        e.pretty fixInf (level + 1) ++ bs "\n" ++ indentB level ++ bs ")"
  | .bin op b vm l r, level =>
    if !needsSplit fixInf (.bin op b vm l r) then indentB level ++ (Expr.bin op b vm l r).print fixInf
    else
      l.pretty fixInf (level + 1) ++ bs "\n" ++ indentB level ++ op.text ++ (if b then bs " bool" else []) ++ matchingText vm ++
        bs "\n" ++ r.pretty fixInf (level + 1)
  | .call fn args, level =>
    if !needsSplit fixInf (.call fn args) then indentB level ++ (Expr.call fn args).print fixInf
    else indentB level ++ fn ++ bs "(\n" ++ prettyArgs fixInf args (level + 1) ++ bs "\n" ++ indentB level ++ bs ")"
  | .paren e, level =>
    if !needsSplit fixInf (.paren e) then indentB level ++ (Expr.paren e).print fixInf
    else indentB level ++ bs "(\n" ++ e.pretty fixInf (level + 1) ++ bs "\n" ++ indentB level ++ bs ")"
  | .stepinv e, level => e.pretty fixInf level
  | .sub e range rangeE step stepE off offe atm, level =>
    if !needsSplit fixInf (.sub e range rangeE step stepE off offe atm) then (Expr.sub e range rangeE step stepE off offe atm).print fixInf
    else e.pretty fixInf level ++ subquerySuffix fixInf range rangeE step stepE off offe atm
  | .un neg e, level =>
    indentB level ++ (if neg then [45] else [43]) ++ trimSpaceB (e.pretty fixInf level)
  | .dur op wrapped l r, _ =>
    -- DurationExpr.Pretty ignores the level; step()/range()/min_of/max_of have LHS == nil or not
    let s : Bytes :=
      if l.isNil then
        (if op == .add && !r.isNil then r.pretty fixInf 0 else op.text ++ r.pretty fixInf 0)
      else l.pretty fixInf 0 ++ [32] ++ op.text ++ [32] ++ r.pretty fixInf 0
    if wrapped then [40] ++ s ++ [41] else s
  | .nil, _ => []
  | e, level => indentB level ++ e.print fixInf

/-- `Expressions.Pretty(level)`: elements joined by ",\n". -/
def prettyArgs (fixInf : Bool) : List Expr → Nat → Bytes
  | [], _ => []
  | [e], level => e.pretty fixInf level
  | e :: rest, level => e.pretty fixInf level ++ bs ",\n" ++ prettyArgs fixInf rest level
end

/-- `parser.Prettify`. -/
def prettify (fixInf : Bool) (e : Expr) : Bytes := e.pretty fixInf 0

end Prom.Promql
