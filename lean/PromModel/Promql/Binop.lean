import PromModel.Promql.Agg
/-
  C29 — promql/engine.go: the signature function of `rangeEval`, `VectorBinop`, `vectorElemBinop` (float × float),
  `resultMetric`, `VectorAnd` / `VectorOr` / `VectorUnless`, `VectorscalarBinop`, and the
  "vector cannot contain metrics with the same labelset" check of instant-query `rangeEval`.
  `enableDelayedNameRemoval` is off (the default).
-/
namespace Prom.Ops
open Prom.F64 (Cls)

inductive BinOp where
  | add | sub | mul | div | mod | eq | ne | gt | lt | ge | le
  deriving DecidableEq, Repr

def BinOp.isComparison : BinOp → Bool
  | .eq | .ne | .gt | .lt | .ge | .le => true
  | _ => false

/-- `changesMetricSchema` -/
def BinOp.changesSchema (op : BinOp) : Bool := !op.isComparison

/-- `vectorElemBinop`, float × float: `(value, keep)`. -/
def elemBinop (A : Arith) (op : BinOp) (l r : Cls) : Cls × Bool :=
  match op with
  | .add => (vadd A l r, true)
  | .sub => (vsub A l r, true)
  | .mul => (vmul A l r, true)
  | .div => (vdiv A l r, true)
  | .mod => (vmod l r, true)
  | .eq => (l, veq l r)
  | .ne => (l, vne l r)
  | .gt => (l, vgt l r)
  | .lt => (l, vlt l r)
  | .ge => (l, vge l r)
  | .le => (l, vle l r)

inductive Card where
  | oneToOne | manyToOne | oneToMany
  deriving DecidableEq, Repr

structure Matching where
  card : Card := .oneToOne
  on : Bool := false
  labels : List String := []
  incl : List String := []
  fillL : Option Cls := none
  fillR : Option Cls := none

inductive Err where
  | dupSeries | multiMatchOne | multiMatchGroup | sameLabelset
  deriving DecidableEq, Repr

def Err.show : Err → String
  | .dupSeries => "dup-series"
  | .multiMatchOne => "multi-match-one"
  | .multiMatchGroup => "multi-match-group"
  | .sameLabelset => "same-labelset"

/-- The join signature of `rangeEval`: `BytesWithLabels(sorted names)` for `on`,
    `BytesWithoutLabels(sorted (__name__ :: names))` otherwise (length-prefixed, hence injective: the model
    keeps the projected labels). -/
def sigOf (on : Bool) (names : List String) (ls : Labels) : Labels :=
  if on then walkWith ls (sortStrings names) else walkWithout ls (sortStrings (metricName :: names))

/-- `Labels.MatchLabels(on, names...)` -/
def matchLabels (on : Bool) (names : List String) (ls : Labels) : Labels :=
  if on then ls.keep names else (ls.del [metricName]).del names

/-- `resultMetric(lhs, rhs, op, matching, dropMetricName)` (the cache is transparent). -/
def resultMetric (lhs rhs : Labels) (op : BinOp) (m : Matching) (dropMetricName : Bool) : Labels :=
  let lb := if dropMetricName || op.changesSchema then lhs.dropMeta else lhs
  let lb := if m.card = .oneToOne then (if m.on then lb.keep m.labels else lb.del m.labels) else lb
  m.incl.foldl (fun lb ln => let v := rhs.get ln; if v ≠ "" then lb.set ln v else lb.del [ln]) lb

/-- `Vector.ContainsSameLabelset` -/
def hasDupLabels : List Sample → Bool
  | [] => false
  | s :: rest => rest.any (fun t => t.labels = s.labels) || hasDupLabels rest

def checkSameLabelset (out : List Sample) : Except Err (List Sample) :=
  if hasDupLabels out then .error .sameLabelset else .ok out

structure BinState where
  /-- match group ↦ result metrics already produced for it (`matchedSigs` / `matchedSigsPresent`) -/
  matched : List (Labels × List Labels) := []
  out : List Sample := []

def lookupSig {α} (sig : Labels) : List (Labels × α) → Option α
  | [] => none
  | (k, v) :: rest => if k = sig then some v else lookupSig sig rest

def markSig (sig metric : Labels) : List (Labels × List Labels) → List (Labels × List Labels)
  | [] => [(sig, [metric])]
  | (k, ms) :: rest => if k = sig then (k, ms ++ [metric]) :: rest else (k, ms) :: markSig sig metric rest

/-- The closure `doBinOp` of `VectorBinop` (`ls` is the "many"-side sample after the sidedness swap). -/
def doBinOp (A : Arith) (op : BinOp) (returnBool : Bool) (m : Matching) (st : BinState)
    (ls rs : Sample) (sig : Labels) : Except Err BinState :=
  let (fl, fr) := if m.card = .oneToMany then (rs.v, ls.v) else (ls.v, rs.v)
  let (val, keep) := elemBinop A op fl fr
  let val := if returnBool then (if keep then ofNat 1 else ofNat 0) else val
  let metric := resultMetric ls.labels rs.labels op m returnBool
  let prior := (lookupSig sig st.matched).getD []
  if m.card = .oneToOne ∧ !prior.isEmpty then .error .multiMatchOne
  else if m.card ≠ .oneToOne ∧ prior.contains metric then .error .multiMatchGroup
  else
    let st := { st with matched := markSig sig metric st.matched }
    if !keep && !returnBool then .ok st
    else .ok { st with out := st.out ++ [⟨metric, val⟩] }

/-- The "add all rhs samples to a map" loop: a second sample with the same signature is the
    "found duplicate series for the match group" error. -/
def buildRightSigs (sigf : Labels → Labels) : List Sample → List (Labels × Sample) → Except Err (List (Labels × Sample))
  | [], acc => .ok acc
  | rs :: rest, acc =>
    let sig := sigf rs.labels
    if (lookupSig sig acc).isSome then .error .dupSeries
    else buildRightSigs sigf rest (acc ++ [(sig, rs)])

/-- `VectorBinop` followed by the same-labelset check of the instant-query path of `rangeEval`. -/
def vectorBinop (A : Arith) (op : BinOp) (returnBool : Bool) (m : Matching) (lhs rhs : List Sample) :
    Except Err (List Sample) := do
  if (lhs.isEmpty && rhs.isEmpty) || ((lhs.isEmpty || rhs.isEmpty) && m.fillR.isNone && m.fillL.isNone) then
    return []
  let sigf := sigOf m.on m.labels
  let (lhs, rhs) := if m.card = .oneToMany then (rhs, lhs) else (lhs, rhs)
  let rightSigs ← buildRightSigs sigf rhs []
  -- for all lhs samples, find the rhs sample (or the fill value)
  let st ← lhs.foldlM (fun (st : BinState) ls =>
      let sig := sigf ls.labels
      match lookupSig sig rightSigs with
      | some rs => doBinOp A op returnBool m st ls rs sig
      | none =>
        match m.fillR with
        | none => pure st
        | some fill => doBinOp A op returnBool m st ls ⟨matchLabels m.on m.labels ls.labels, fill⟩ sig) {}
  -- unmatched rhs samples with a fill value for the lhs
  let st ← match m.fillL with
    | none => pure st
    | some fill => rhs.foldlM (fun (st : BinState) rs =>
        let sig := sigf rs.labels
        if !((lookupSig sig st.matched).getD []).isEmpty then pure st
        else doBinOp A op returnBool m st ⟨matchLabels m.on m.labels rs.labels, fill⟩ rs sig) st
  checkSameLabelset st.out

inductive SetOp where
  | and | or | unless
  deriving DecidableEq, Repr

/-- `VectorAnd` / `VectorOr` / `VectorUnless` (+ the same-labelset check). -/
def vectorSet (op : SetOp) (on : Bool) (names : List String) (lhs rhs : List Sample) : Except Err (List Sample) :=
  let sigf := sigOf on names
  let lsigs := lhs.map fun s => sigf s.labels
  let rsigs := rhs.map fun s => sigf s.labels
  let out := match op with
    | .and => lhs.filter fun s => rsigs.contains (sigf s.labels)
    | .or => lhs ++ rhs.filter fun s => !lsigs.contains (sigf s.labels)
    | .unless => lhs.filter fun s => !rsigs.contains (sigf s.labels)
  checkSameLabelset out

/-- `VectorscalarBinop` (+ the same-labelset check). `swap` = the scalar is the left operand. -/
def vectorScalarBinop (A : Arith) (op : BinOp) (returnBool swap : Bool) (vec : List Sample) (scalar : Cls) :
    Except Err (List Sample) :=
  let out := vec.filterMap fun s =>
    let (lf, rf) := if swap then (scalar, s.v) else (s.v, scalar)
    let (val, keep) := elemBinop A op lf rf
    let val := if op.isComparison && swap then rf else val
    let (val, keep) := if returnBool then ((if keep then ofNat 1 else ofNat 0), true) else (val, keep)
    if keep then
      some ⟨if op.changesSchema || returnBool then s.labels.dropMeta else s.labels, val⟩
    else none
  checkSameLabelset out

end Prom.Ops
