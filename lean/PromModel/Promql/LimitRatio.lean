import PromModel.Prelude.Line
/-
  Model of `promql.HashRatioSampler` (promql/engine.go) — the decision behind `limit_ratio`:

      func (*HashRatioSampler) SampleOffset(metric *labels.Labels) float64 {
          const float64MaxUint64 = float64(math.MaxUint64)            // = 2^64 after rounding
          return float64(metric.Hash()) / float64MaxUint64
      }
      func (*HashRatioSampler) AddRatioSampleWithOffset(ratioLimit, sampleOffset float64) bool {
          return (ratioLimit >= 0 && sampleOffset < ratioLimit) ||
                 (ratioLimit < 0 && sampleOffset >= (1.0+ratioLimit))
      }

  and of the `LIMIT_RATIO` branch of `aggregationK` (early return on `r == 0`, clamping to [-1,1]).

  Two number domains:
  * exact: `Rat` (`sel`, `offsetQ`) — what the comments of the Go code describe;
  * binary64, modelled exactly: a finite double is the rational it denotes (every double is an
    integer multiple of 2^-1074), and every arithmetic step of the Go code is followed by
    `rne53 : Rat → Rat`, IEEE-754 round-to-nearest-even to 53 significant bits with gradual
    underflow. No Lean `Float` anywhere. Overflow to ±Inf cannot occur in `r - 1`, `1 + r`,
    `uint64 → float64` or `/ 2^64`, so `rne53` does not model it.
  The label hash (`Labels.Hash()`, xxhash over the label bytes) is a parameter: the model takes the
  64-bit hash value as input.
-/
namespace Prom.LimitRatio

/-! ## Exact arithmetic -/

/-- `AddRatioSampleWithOffset` read over the rationals. -/
def sel (r o : Rat) : Bool :=
  (decide (0 ≤ r) && decide (o < r)) || (decide (r < 0) && decide (1 + r ≤ o))

/-- `SampleOffset` read over the rationals with divisor 2^64 (the value of `float64(MaxUint64)`). -/
def offsetQ (hash : Nat) : Rat := (hash : Rat) / ((2 ^ 64 : Nat) : Rat)

/-- A sample as `AddRatioSample` sees it: only the label hash enters the decision. -/
structure Sample where
  hash : Nat
  t : Int
  valueBits : Nat
deriving Repr, DecidableEq

/-- `AddRatioSample` over the rationals. -/
def addRatioSample (r : Rat) (s : Sample) : Bool := sel r (offsetQ s.hash)

/-! ## binary64 rounding -/

/-- Round a magnitude given in units of 2^-1075 (`n` = integer part, `sticky` = a non-zero
    remainder below one unit was dropped) to 53 significant bits, ties to even; the result is in
    units of 2^-1075 again. `sh ≥ 1` keeps the result a multiple of 2^-1074 (subnormal spacing). -/
def rneNat (n : Nat) (sticky : Bool) : Nat :=
  let sh := max (n.log2 - 52) 1
  let q := n >>> sh
  let rem := n % 2 ^ sh
  let half := 2 ^ (sh - 1)
  let up := decide (half < rem) || (decide (rem = half) && (sticky || q % 2 == 1))
  (if up then q + 1 else q) <<< sh

/-- The scaling unit: 2^1075. -/
def U : Nat := 2 ^ 1075

/-- Round a non-negative rational to the nearest binary64 value. -/
def rneMag (a : Rat) : Rat :=
  let s := a.num.natAbs * U
  ((rneNat (s / a.den) (s % a.den != 0) : Nat) : Rat) / (U : Rat)

/-- IEEE-754 binary64 round-to-nearest-even of an exact rational (no overflow handling). -/
def rne53 (x : Rat) : Rat := if x < 0 then - rneMag (-x) else rneMag x

/-! ## binary64 domain (finite values as rationals) -/

/-- `AddRatioSampleWithOffset` in binary64: the only rounding step is `1.0 + ratioLimit`. -/
def selF (r o : Rat) : Bool :=
  (decide (0 ≤ r) && decide (o < r)) || (decide (r < 0) && decide (rne53 (1 + r) ≤ o))

/-- The complementary ratio `r - 1` as binary64 computes it (PromQL `limit_ratio(r - 1, v)`). -/
def complF (r : Rat) : Rat := rne53 (r - 1)

/-- `SampleOffset` in binary64: `float64(hash)` rounds, the division by 2^64 is exact. -/
def offsetF (hash : Nat) : Rat := rne53 (rne53 (hash : Rat) / ((2 ^ 64 : Nat) : Rat))

/-- The boundary the complement query compares against: `1 ⊕ (r ⊖ 1)`. -/
def boundaryF (r : Rat) : Rat := rne53 (1 + complF r)

/-! ## Full binary64 values incl. NaN and infinities (for the direct API) -/

inductive F64 where
  | nan
  | inf (neg : Bool)
  | fin (v : Rat)
deriving Repr, DecidableEq

def pow2 (k : Nat) : Rat := ((2 ^ k : Nat) : Rat)

/-- Decode an IEEE-754 binary64 bit pattern; ±0 both denote `fin 0`. -/
def decode (bits : Nat) : F64 :=
  let neg := bits / 2 ^ 63 % 2 == 1
  let e := bits / 2 ^ 52 % 2048
  let m : Nat := bits % 2 ^ 52
  if e = 2047 then (if m = 0 then .inf neg else .nan)
  else
    let sig : Nat := 2 ^ 52 + m
    let mag : Rat :=
      if e = 0 then (m : Rat) / pow2 1074
      else if 1075 ≤ e then (sig : Rat) * pow2 (e - 1075)
      else (sig : Rat) / pow2 (1075 - e)
    .fin (if neg then -mag else mag)

/-- Encode a rational that is a binary64 value (as produced by `rne53`); zero is `+0`. -/
def encodeFin (v : Rat) : Nat :=
  let n := (v.num.natAbs * 2 ^ 1074) / v.den   -- magnitude in units of 2^-1074 (exact for doubles)
  let s := if v < 0 then 2 ^ 63 else 0
  if n < 2 ^ 52 then s + n
  else
    let e := n.log2 - 52
    s + (e + 1) * 2 ^ 52 + (n >>> e - 2 ^ 52)

def encode : F64 → Option Nat
  | .nan => none
  | .inf neg => some ((if neg then 2 ^ 63 else 0) + 2047 * 2 ^ 52)
  | .fin v => some (encodeFin v)

namespace F64

def ge0 : F64 → Bool
  | nan => false | inf neg => !neg | fin v => decide (0 ≤ v)
def lt0 : F64 → Bool
  | nan => false | inf neg => neg | fin v => decide (v < 0)
/-- IEEE `a < b`. -/
def lt : F64 → F64 → Bool
  | nan, _ => false | _, nan => false
  | inf true, inf true => false | inf true, _ => true
  | inf false, _ => false
  | fin _, inf neg => !neg
  | fin a, fin b => decide (a < b)
/-- IEEE `a ≤ b`. -/
def le : F64 → F64 → Bool
  | nan, _ => false | _, nan => false
  | inf true, _ => true
  | inf false, inf false => true | inf false, _ => false
  | fin _, inf neg => !neg
  | fin a, fin b => decide (a ≤ b)
/-- `x - 1` in binary64. -/
def sub1 : F64 → F64
  | fin v => fin (rne53 (v - 1)) | x => x
/-- `1 + x` in binary64. -/
def add1 : F64 → F64
  | fin v => fin (rne53 (1 + v)) | x => x

end F64

/-- `AddRatioSampleWithOffset` on arbitrary binary64 arguments. -/
def selX (r o : F64) : Bool :=
  (r.ge0 && o.lt r) || (r.lt0 && (F64.add1 r).le o)

/-! ## The `LIMIT_RATIO` branch of `aggregationK` -/

/-- `none` = the early `return nil` on `fParam == 0`; otherwise the clamped ratio. -/
def engineRatio (f : Rat) : Option Rat :=
  if f = 0 then none else if f < -1 then some (-1) else if 1 < f then some 1 else some f

/-- Is the series with label hash `hash` part of `limit_ratio(f, v)` (binary64)? -/
def engineSelects (f : Rat) (hash : Nat) : Bool :=
  match engineRatio f with
  | none => false
  | some r => selF r (offsetF hash)

end Prom.LimitRatio
