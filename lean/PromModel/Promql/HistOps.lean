import PromModel.Prelude.Line
/-
  Model of the native-histogram arithmetic of `model/histogram` (property C31):
  `float_histogram.go` (Add, Sub, KahanAdd, Mul, Div, Compact, ReduceResolution, CopyToSchema, DetectReset,
  zeroCountForLargerThreshold, trimBucketsInZeroBucket, reconcileZeroBuckets, addBuckets,
  intersectCustomBucketBounds, addCustomBucketsWithMismatches, detectResetWithMismatchedCustomBounds,
  the bucket iterators), `generic.go` (reduceResolution, compactBuckets) and `histogram.go` (ToFloat).

  Numbers.  Counts and sums are exact rationals (`Rat`, core Lean): the theorems are about exact
  arithmetic ("up to floating-point rounding" in the property statement); the correspondence suite only
  draws small integers / dyadic fractions, for which every binary64 operation involved is exact, so the
  outputs are compared exactly.  Kahan compensation terms are identically zero in exact arithmetic;
  `KahanAdd` is modelled as `Add` (the suite observes that the compensation histogram is all-zero).

  Bucket boundaries are never computed.  A zero threshold is a *position* (`ZT`): `zero` = 0.0, `pos p`
  with `p = 2k` = the schema-8 boundary 2^(k/256), `p = 2k+1` = any float strictly between the
  boundaries k and k+1.  The upper boundary of bucket `idx` in schema `s ≤ 8` is 2^(idx·2^-s), i.e. the
  even position `2·idx·2^(8-s)` (`bpos`); every comparison the code makes between a threshold and a
  bucket boundary is therefore a comparison of integers.  Custom bounds are rationals (only compared).

  Indices/offsets are `Int` (no int32 wrap-around is modelled; the generator stays far inside the range).
  A Go panic is `none` / `Except.error`, never a default value.
-/
namespace Prom.HistOps

structure Span where
  offset : Int
  length : Nat
deriving Repr, DecidableEq, Inhabited

/-- Explicit buckets in iteration order: `(index, count)`. -/
abbrev Buckets := List (Int × Rat)

/-- Zero-threshold position (see the header). -/
inductive ZT
  | zero
  | pos (p : Int)
deriving Repr, DecidableEq, Inhabited

def ZT.lt : ZT → ZT → Bool
  | .zero, .zero => false
  | .zero, .pos _ => true
  | .pos _, .zero => false
  | .pos a, .pos b => decide (a < b)

def customSchema : Int := -53

/-- Position of `getBoundExponential(idx, schema)` (schema ≤ 8). -/
def bpos (schema idx : Int) : Int := 2 * idx * (2 : Int) ^ (8 - schema).toNat

/-- `getBoundExponential(idx, schema) <= t` -/
def boundLe (schema idx : Int) : ZT → Bool
  | .zero => false
  | .pos p => decide (bpos schema idx ≤ p)
/-- `getBoundExponential(idx, schema) >= t` -/
def boundGe (schema idx : Int) : ZT → Bool
  | .zero => true
  | .pos p => decide (bpos schema idx ≥ p)
/-- `getBoundExponential(idx, schema) > t` -/
def boundGt (schema idx : Int) : ZT → Bool
  | .zero => true
  | .pos p => decide (bpos schema idx > p)

/-- `histogram.FloatHistogram`. `hint`: 0 unknown, 1 CounterReset, 2 NotCounterReset, 3 GaugeType. -/
structure FH where
  hint : Nat
  schema : Int
  zt : ZT
  zc : Rat
  count : Rat
  sum : Rat
  ps : List Span
  pb : List Rat
  ns : List Span
  nb : List Rat
  cv : List Rat
deriving Repr, DecidableEq, Inhabited

def FH.isCustom (h : FH) : Bool := h.schema == customSchema

/-! ### Bucket iterators (`floatBucketIterator`, fast path) -/

def idxRange (start : Int) : Nat → List Int
  | 0 => []
  | n + 1 => start :: idxRange (start + 1) n

/-- The bucket indices denoted by a span list, `cur` = index after the previous span. -/
def spanIdx (cur : Int) : List Span → List Int
  | [] => []
  | s :: ss => idxRange (cur + s.offset) s.length ++ spanIdx (cur + s.offset + s.length) ss

/-- What the forward iterator enumerates (it stops when spans or buckets run out). -/
def expand (spans : List Span) (bs : List Rat) : Buckets := (spanIdx 0 spans).zip bs

def spanTotal (spans : List Span) : Nat := (spans.map (·.length)).foldl (· + ·) 0

/-! ### `targetIdx`, `reduceResolution`, and the span builder shared with compaction -/

/-- Go's `x >> k` on a signed integer (arithmetic shift = floor division). -/
def shr (x : Int) (k : Nat) : Int := x / (2 : Int) ^ k

/-- `targetIdx(idx, originSchema, targetSchema)` with `k = originSchema - targetSchema`. -/
def targetIdx (idx : Int) (k : Nat) : Int := shr (idx - 1) k + 1

/-- `targetSpans`, `targetBuckets` (both reversed: head = last element) and `lastTargetBucketIdx`. -/
structure RR where
  rspans : List Span
  rbuckets : List Rat
  last : Int
deriving Repr, Inhabited

def RR.init : RR := ⟨[], [], 0⟩

/-- The `switch` in the loop body of `reduceResolution` (absolute buckets). -/
def RR.push (st : RR) (t : Int) (c : Rat) : RR :=
  match st.rspans, st.rbuckets with
  | [], _ => ⟨[⟨t, 1⟩], [c], t⟩
  | s :: ss, b :: bs =>
    if st.last = t then ⟨s :: ss, (b + c) :: bs, st.last⟩
    else if st.last + 1 = t then ⟨⟨s.offset, s.length + 1⟩ :: ss, c :: b :: bs, st.last + 1⟩
    else if st.last + 1 < t then ⟨⟨t - st.last - 1, 1⟩ :: s :: ss, c :: b :: bs, t⟩
    else st -- no case of the switch matches (indices not increasing): the bucket is dropped
  | _ :: _, [] => st -- unreachable: every span created comes with a bucket

def RR.finish (st : RR) : List Span × List Rat := (st.rspans.reverse, st.rbuckets.reverse)

def rrFold (k : Nat) (st : RR) : Buckets → RR
  | [] => st
  | (i, c) :: r => rrFold k (st.push (targetIdx i k) c) r

/-- `reduceResolution(spans, buckets, origin, target, deltaBuckets=false, _)`; `none` = the error
    (too few / too many buckets, or a negative offset in a later span) that `mustReduceResolution`
    turns into a panic. -/
def reduceResolution (spans : List Span) (bs : List Rat) (k : Nat) : Option (List Span × List Rat) :=
  if spanTotal spans ≠ bs.length then none
  else if (spans.drop 1).any (·.offset < 0) then none
  else some (rrFold k .init (expand spans bs)).finish

/-- What the *merging* path of `floatBucketIterator.Next` enumerates (schema ≠ targetSchema):
    consecutive buckets with the same target index are summed. -/
def mergeTarget (k : Nat) : Buckets → Buckets
  | [] => []
  | (i, c) :: r =>
    match mergeTarget k r with
    | (j, d) :: r' => if targetIdx i k = j then (j, c + d) :: r' else (targetIdx i k, c) :: (j, d) :: r'
    | [] => [(targetIdx i k, c)]

/-! ### `compactBuckets` (absolute buckets)
  Modelled by its contract, which the correspondence checks *including the span layout*: all empty
  buckets are cut, except runs of at most `maxEmptyBuckets` between two populated buckets, which are kept
  (or inserted when the two were in different spans); spans are maximal runs. -/

def dropZeros (l : Buckets) : Buckets := l.filter (fun p => p.2 != 0)

def zerosFrom (start : Int) : Nat → Buckets
  | 0 => []
  | n + 1 => (start, 0) :: zerosFrom (start + 1) n

def fillGaps (m : Nat) : Buckets → Buckets
  | [] => []
  | [x] => [x]
  | x :: y :: r =>
    let gap := y.1 - x.1 - 1
    if 0 < gap ∧ gap ≤ m then x :: (zerosFrom (x.1 + 1) gap.toNat ++ fillGaps m (y :: r))
    else x :: fillGaps m (y :: r)

def compactSide (m : Nat) (spans : List Span) (bs : List Rat) : List Span × List Rat :=
  (rrFold 0 .init (fillGaps m (dropZeros (expand spans bs)))).finish

def compact (m : Nat) (h : FH) : FH :=
  let p := compactSide m h.ps h.pb
  let n := compactSide m h.ns h.nb
  { h with ps := p.1, pb := p.2, ns := n.1, nb := n.2 }

/-! ### zero-bucket reconciliation -/

/-- Positive-bucket loop of `zeroCountForLargerThreshold`: returns (hZeroCount, largerThreshold). -/
def zcPos (schema : Int) (larger : ZT) (zc : Rat) : Buckets → Rat × ZT
  | [] => (zc, larger)
  | (i, c) :: r =>
    if boundGe schema (i - 1) larger then (zc, larger)            -- b.Lower >= largerThreshold: break
    else if boundGt schema i larger then                           -- b.Upper > largerThreshold
      (zc + c, if c != 0 then .pos (bpos schema i) else larger)
    else zcPos schema larger (zc + c) r

/-- Negative-bucket loop: returns (hZeroCount, largerThreshold, continue-outer?). -/
def zcNeg (schema : Int) (larger : ZT) (zc : Rat) : Buckets → Rat × ZT × Bool
  | [] => (zc, larger, false)
  | (i, c) :: r =>
    if boundGe schema (i - 1) larger then (zc, larger, false)      -- b.Upper <= -largerThreshold: break
    else if boundGt schema i larger then                           -- b.Lower < -largerThreshold
      if c != 0 then (zc + c, .pos (bpos schema i), true) else (zc + c, larger, false)
    else zcNeg schema larger (zc + c) r

def zcOuter (h : FH) : Nat → ZT → Option (Rat × ZT)
  | 0, _ => none
  | fuel + 1, larger =>
    let (z1, l1) := zcPos h.schema larger h.zc (expand h.ps h.pb)
    let (z2, l2, again) := zcNeg h.schema l1 z1 (expand h.ns h.nb)
    if again then zcOuter h fuel l2 else some (z2, l2)

/-- `zeroCountForLargerThreshold(largerThreshold, nil)`; `none` = panic (smaller threshold). -/
def zeroCountForLargerThreshold (h : FH) (larger : ZT) : Option (Rat × ZT) :=
  if larger = h.zt then some (h.zc, larger)
  else if larger.lt h.zt then none
  else zcOuter h (h.nb.length + 2) larger

/-- The loops of `trimBucketsInZeroBucket`: leading buckets with `Lower < ZeroThreshold` are set to 0. -/
def zeroLeading (schema : Int) (zt : ZT) (spans : List Span) (bs : List Rat) : List Rat :=
  let n := ((expand spans bs).takeWhile fun p => !boundGe schema (p.1 - 1) zt).length
  (List.replicate n 0) ++ bs.drop n

def trimBucketsInZeroBucket (h : FH) : FH :=
  compact 0 { h with pb := zeroLeading h.schema h.zt h.ps h.pb, nb := zeroLeading h.schema h.zt h.ns h.nb }

/-- `reconcileZeroBuckets(other, nil)`: returns the modified receiver and `otherZeroCount`. -/
def reconcileLoop (other : FH) : Nat → FH → Rat → ZT → Option (FH × Rat)
  | 0, _, _, _ => none
  | fuel + 1, h, ozc, ozt =>
    if ozt = h.zt then some (h, ozc)
    else
      let step1 : Option (Rat × ZT) :=
        if ozt.lt h.zt then zeroCountForLargerThreshold other h.zt else some (ozc, ozt)
      match step1 with
      | none => none
      | some (ozc, ozt) =>
        if h.zt.lt ozt then
          match zeroCountForLargerThreshold h ozt with
          | none => none
          | some (hz, ht) => reconcileLoop other fuel (trimBucketsInZeroBucket { h with zc := hz, zt := ht }) ozc ozt
        else reconcileLoop other fuel h ozc ozt

def reconcileZeroBuckets (h other : FH) : Option (FH × Rat) :=
  reconcileLoop other (2 * (h.pb.length + h.nb.length + other.pb.length + other.nb.length) + 4) h other.zc other.zt

/-! ### `addBuckets`, transcribed statement by statement (Go slices = lists, out-of-range = `none`) -/

def getI? {α} (l : List α) (i : Int) : Option α := if i < 0 then none else l[i.toNat]?

def setI? {α} (l : List α) (i : Int) (x : α) : Option (List α) :=
  if i < 0 ∨ i.toNat ≥ l.length then none else some (l.set i.toNat x)

/-- `s = append(s, zero); copy(s[i+1:], s[i:]); s[i] = x` -/
def insertI? {α} (l : List α) (i : Int) (x : α) : Option (List α) :=
  if i < 0 ∨ i.toNat > l.length then none else some (l.take i.toNat ++ x :: l.drop i.toNat)

structure AB where
  spans : List Span
  buckets : List Rat
  iSpan : Int
  iBucket : Int
  iInSpan : Int
  indexA : Int
deriving Repr, Inhabited

/-- The inner `for` of `addBuckets` (locate / insert bucket `indexB` = `indexA + deltaIndex`). -/
def abInner (b : Rat) : Nat → AB → Int → Option AB
  | 0, _, _ => none
  | fuel + 1, st, delta => do
    let sp ← getI? st.spans st.iSpan
    let remaining : Int := (sp.length : Int) - st.iInSpan
    if delta < remaining then
      let iBucket := st.iBucket + delta
      let old ← getI? st.buckets iBucket
      let bs ← setI? st.buckets iBucket (old + b)
      pure { st with iBucket := iBucket, iInSpan := st.iInSpan + delta, buckets := bs }
    else
      let delta := delta - remaining
      let iBucket := st.iBucket + remaining
      let iSpan := st.iSpan + 1
      let next := getI? st.spans iSpan
      let inGap : Bool := match next with | none => true | some nx => decide (delta < nx.offset)
      if iSpan > st.spans.length then none
      else if inGap then
        let bs ← insertI? st.buckets iBucket b
        if delta = 0 then
          -- directly after previous span: extend previous span
          let spans ← (match next with
            | some nx => setI? st.spans iSpan { nx with offset := nx.offset - 1 }
            | none => some st.spans)
          let prev ← getI? spans (iSpan - 1)
          let spans ← setI? spans (iSpan - 1) { prev with length := prev.length + 1 }
          pure { st with buckets := bs, spans := spans, iSpan := iSpan - 1, iBucket := iBucket, iInSpan := prev.length }
        else
          match next with
          | some nx =>
            if delta = nx.offset - 1 then
              -- directly before next span: extend next span
              let spans ← setI? st.spans iSpan ⟨nx.offset - 1, nx.length + 1⟩
              pure { st with buckets := bs, spans := spans, iSpan := iSpan, iBucket := iBucket, iInSpan := 0 }
            else
              let spans ← setI? st.spans iSpan { nx with offset := nx.offset - (delta + 1) }
              let spans ← insertI? spans iSpan ⟨delta, 1⟩
              pure { st with buckets := bs, spans := spans, iSpan := iSpan, iBucket := iBucket, iInSpan := 0 }
          | none =>
            let spans ← insertI? st.spans iSpan ⟨delta, 1⟩
            pure { st with buckets := bs, spans := spans, iSpan := iSpan, iBucket := iBucket, iInSpan := 0 }
      else
        match next with
        | some nx => abInner b fuel { st with iSpan := iSpan, iBucket := iBucket, iInSpan := 0 } (delta - nx.offset)
        | none => none

/-- One iteration of the loop over the buckets of B (after the threshold test). -/
def abStep (st : AB) (indexB : Int) (b : Rat) : Option AB := do
  let st' ←
    if st.iSpan = -1 then
      match st.spans with
      | [] =>
        -- add bucket before all others (no spans yet)
        pure { st with buckets := b :: st.buckets, spans := [⟨indexB, 1⟩] }
      | s0 :: rest =>
        if s0.offset > indexB then
          if s0.offset = indexB + 1 then
            pure { st with buckets := b :: st.buckets, spans := ⟨s0.offset - 1, s0.length + 1⟩ :: rest }
          else
            pure { st with buckets := b :: st.buckets,
                           spans := ⟨indexB, 1⟩ :: { s0 with offset := s0.offset - (indexB + 1) } :: rest }
        else if s0.offset = indexB then
          -- "just add to first bucket": bucketsA[0] += bucketB  (panics on an empty slice)
          match st.buckets with
          | [] => none
          | b0 :: bs => pure { st with buckets := (b0 + b) :: bs }
        else
          abInner b (st.spans.length + 2) { st with iSpan := 0, iBucket := 0, iInSpan := 0, indexA := s0.offset }
            (indexB - s0.offset)
    else abInner b (st.spans.length + 2) st (indexB - st.indexA)
  pure { st' with indexA := indexB }

def abLoop (neg : Bool) : AB → Buckets → Option AB
  | st, [] => some st
  | st, (i, c) :: r =>
    match abStep st i (if neg then -c else c) with
    | none => none
    | some st' => abLoop neg st' r

/-- Buckets of B that `addBuckets` ignores: leading ones with upper bound ≤ threshold (exponential only). -/
def skipBelow (schema : Int) (zt : ZT) (l : Buckets) : Buckets :=
  if schema == customSchema then l else l.dropWhile fun p => boundLe schema p.1 zt

/-- `addBuckets(schema, threshold, negative, spansA, bucketsA, spansB, bucketsB)`; `none` = panic. -/
def addBuckets (schema : Int) (zt : ZT) (neg : Bool) (sa : List Span) (ba : List Rat) (sb : List Span) (bb : List Rat) :
    Option (List Span × List Rat) :=
  match abLoop neg ⟨sa, ba, -1, -1, 0, 0⟩ (skipBelow schema zt (expand sb bb)) with
  | none => none
  | some st => some (st.spans, st.buckets)

/-! ### custom buckets with mismatched bounds -/

/-- `intersectCustomBucketBounds` -/
def intersectBounds : Nat → List Rat → List Rat → List Rat
  | 0, _, _ => []
  | _, [], _ => []
  | _, _, [] => []
  | fuel + 1, a :: as, b :: bs =>
    if a = b then a :: intersectBounds fuel as bs
    else if a < b then intersectBounds fuel as (b :: bs)
    else intersectBounds fuel (a :: as) bs

def intersectCustomBucketBounds (a b : List Rat) : List Rat := intersectBounds (a.length + b.length) a b

/-- The `for intersectIdx < len(intersectedBounds)` search of `mapBuckets` (pointer kept between buckets). -/
def findTarget (inter : List Rat) (srcBound : Rat) : Nat → Nat → Nat × Option Nat
  | 0, ii => (ii, none)
  | fuel + 1, ii =>
    match inter[ii]? with
    | none => (ii, none)
    | some v => if v ≥ srcBound then (ii, some ii) else findTarget inter srcBound fuel (ii + 1)

def addAt (l : List Rat) (i : Nat) (v : Rat) : List Rat :=
  match l[i]? with
  | some x => l.set i (x + v)
  | none => l

/-- The closure `mapBuckets` of `addCustomBucketsWithMismatches` (exact arithmetic: compensation = 0). -/
def mapBuckets (inter bounds : List Rat) (neg : Bool) : Buckets → Nat → List Rat → List Rat
  | [], _, tgt => tgt
  | (srcIdx, v) :: r, ii, tgt =>
    let dflt := tgt.length - 1
    let (ii', t) :=
      if srcIdx < bounds.length then
        match getI? bounds srcIdx with
        | some sb => (match findTarget inter sb (inter.length + 1) ii with | (ii', some t) => (ii', t) | (ii', none) => (ii', dflt))
        | none => (ii, dflt)
      else (ii, dflt)
    mapBuckets inter bounds neg r ii' (addAt tgt t (if neg then -v else v))

def enumFrom (i : Int) : List Rat → Buckets
  | [] => []
  | x :: xs => (i, x) :: enumFrom (i + 1) xs

/-- `addCustomBucketsWithMismatches(negative, A, B, nil, intersectedBounds)` -/
def addCustomMismatch (neg : Bool) (sa : List Span) (ba ca : List Rat) (sb : List Span) (bb cb : List Rat)
    (inter : List Rat) : List Span × List Rat :=
  let t0 := List.replicate (inter.length + 1) (0 : Rat)
  let t1 := mapBuckets inter ca false (expand sa ba) 0 t0
  let t2 := mapBuckets inter cb neg (expand sb bb) 0 t1
  (rrFold 0 .init (dropZeros (enumFrom 0 t2))).finish

/-! ### Add / Sub -/

/-- `adjustCounterReset`: new hint of the receiver and the collision flag. -/
def adjustCounterReset (h o : Nat) : Nat × Bool :=
  if o = h then (h, false)
  else if h = 3 then (h, false)
  else if o = 3 then (3, false)
  else if h = 0 then (h, false)
  else if o = 0 then (0, false)
  else (0, true)

inductive Err
  | incompatible
  | panic
deriving Repr, DecidableEq

structure AddRes where
  h : FH
  crc : Bool
  nhcb : Bool
deriving Repr

def orPanic {α} : Option α → Except Err α
  | some x => .ok x
  | none => .error .panic

/-- Type of `addBuckets` (schema, threshold, negative, spansA, bucketsA, spansB, bucketsB). -/
abbrev AddBucketsFn := Int → ZT → Bool → List Span → List Rat → List Span → List Rat → Option (List Span × List Rat)

/-- The part of `Add`/`Sub` after the zero buckets are reconciled (exponential schemas): bring the finer
    operand to the coarser schema (`mustReduceResolution`), then `addBuckets` per sign. `none` = panic.
    The `addBuckets` implementation is a parameter so that theorems can be stated against its contract. -/
def alignAndAdd (ab : AddBucketsFn) (neg : Bool) (h other : FH) : Option FH :=
  if other.schema < h.schema then
    let k := (h.schema - other.schema).toNat
    match reduceResolution h.ps h.pb k, reduceResolution h.ns h.nb k with
    | some p, some n =>
      match ab other.schema h.zt neg p.1 p.2 other.ps other.pb, ab other.schema h.zt neg n.1 n.2 other.ns other.nb with
      | some P, some N => some { h with schema := other.schema, ps := P.1, pb := P.2, ns := N.1, nb := N.2 }
      | _, _ => none
    | _, _ => none
  else if other.schema > h.schema then
    let k := (other.schema - h.schema).toNat
    match reduceResolution other.ps other.pb k, reduceResolution other.ns other.nb k with
    | some p, some n =>
      match ab h.schema h.zt neg h.ps h.pb p.1 p.2, ab h.schema h.zt neg h.ns h.nb n.1 n.2 with
      | some P, some N => some { h with ps := P.1, pb := P.2, ns := N.1, nb := N.2 }
      | _, _ => none
    | _, _ => none
  else
    match ab h.schema h.zt neg h.ps h.pb other.ps other.pb, ab h.schema h.zt neg h.ns h.nb other.ns other.nb with
    | some P, some N => some { h with ps := P.1, pb := P.2, ns := N.1, nb := N.2 }
    | _, _ => none

/-- `FloatHistogram.Add` (`neg = false`) / `Sub` (`neg = true`); the receiver is `h`. -/
def addSubG (ab : AddBucketsFn) (neg : Bool) (h other : FH) : Except Err AddRes :=
  if h.isCustom != other.isCustom then .error .incompatible
  else
    let (hint, crc) := adjustCounterReset h.hint other.hint
    let h := { h with hint := hint }
    let pm := fun (x y : Rat) => if neg then x - y else x + y
    if h.isCustom then
      let h := { h with count := pm h.count other.count, sum := pm h.sum other.sum }
      if h.cv = other.cv then
        match ab h.schema h.zt neg h.ps h.pb other.ps other.pb with
        | some r => .ok ⟨{ h with ps := r.1, pb := r.2 }, crc, false⟩
        | none => .error .panic
      else
        let inter := intersectCustomBucketBounds h.cv other.cv
        let r := addCustomMismatch neg h.ps h.pb h.cv other.ps other.pb other.cv inter
        .ok ⟨{ h with ps := r.1, pb := r.2, cv := inter }, crc, true⟩
    else
      match reconcileZeroBuckets h other with
      | none => .error .panic
      | some (h', ozc) =>
        let h' := { h' with zc := pm h'.zc ozc, count := pm h'.count other.count, sum := pm h'.sum other.sum }
        match alignAndAdd ab neg h' other with
        | some r => .ok ⟨r, crc, false⟩
        | none => .error .panic

def addSub : Bool → FH → FH → Except Err AddRes := addSubG addBuckets

/-! ### ReduceResolution / CopyToSchema / Mul / Div / ToFloat -/

/-- `ReduceResolution(target)`: `none` = the returned error. (Invalid layouts are outside the suite.) -/
def reduceTo (h : FH) (target : Int) : Option FH :=
  if h.isCustom ∨ target = customSchema ∨ target ≥ h.schema then none
  else
    let k := (h.schema - target).toNat
    match reduceResolution h.ps h.pb k, reduceResolution h.ns h.nb k with
    | some p, some n => some { h with schema := target, ps := p.1, pb := p.2, ns := n.1, nb := n.2 }
    | _, _ => none

/-- `CopyToSchema(target)`: `none` = panic. Note that the counter-reset hint is only copied on the
    fast path (`target == schema`). -/
def copyToSchema (h : FH) (target : Int) : Option FH :=
  if target = h.schema then
    some (if h.isCustom then { h with zt := .zero, zc := 0, ns := [], nb := [] } else { h with cv := [] })
  else if h.isCustom ∨ target = customSchema ∨ target > h.schema then none
  else
    let k := (h.schema - target).toNat
    match reduceResolution h.ps h.pb k, reduceResolution h.ns h.nb k with
    | some p, some n => some { h with hint := 0, schema := target, ps := p.1, pb := p.2, ns := n.1, nb := n.2, cv := [] }
    | _, _ => none

def mul (x : Rat) (h : FH) : FH :=
  { h with zc := h.zc * x, count := h.count * x, sum := h.sum * x, pb := h.pb.map (· * x), nb := h.nb.map (· * x),
           hint := if x < 0 then 3 else h.hint }

/-- `Div` for a non-zero scalar. -/
def div (x : Rat) (h : FH) : FH :=
  { h with zc := h.zc / x, count := h.count / x, sum := h.sum / x, pb := h.pb.map (· / x), nb := h.nb.map (· / x),
           hint := if x < 0 then 3 else h.hint }

/-- The running sum in `Histogram.ToFloat` (delta buckets → absolute counts). -/
def prefixSums (acc : Rat) : List Int → List Rat
  | [] => []
  | d :: ds => (acc + (d : Rat)) :: prefixSums (acc + (d : Rat)) ds

/-- `histogram.Histogram` (integer counts, delta-encoded buckets). -/
structure IH where
  hint : Nat
  schema : Int
  zt : ZT
  zc : Nat
  count : Nat
  sum : Rat
  ps : List Span
  pb : List Int
  ns : List Span
  nb : List Int
  cv : List Rat
deriving Repr, Inhabited

def toFloat (x : IH) : FH :=
  if x.schema == customSchema then
    { hint := x.hint, schema := x.schema, zt := .zero, zc := 0, count := (x.count : Rat), sum := x.sum,
      ps := x.ps, pb := prefixSums 0 x.pb, ns := [], nb := [], cv := x.cv }
  else
    { hint := x.hint, schema := x.schema, zt := x.zt, zc := (x.zc : Rat), count := (x.count : Rat), sum := x.sum,
      ps := x.ps, pb := prefixSums 0 x.pb, ns := x.ns, nb := prefixSums 0 x.nb, cv := [] }

/-! ### DetectReset -/

def anyNonzero (l : Buckets) : Bool := l.any fun p => p.2 != 0

/-- `detectReset(currIt, prevIt)` on what the two iterators enumerate. -/
def detectResetIt : Buckets → Buckets → Bool
  | _, [] => false
  | [], p :: ps => anyNonzero (p :: ps)
  | c :: cs, p :: ps =>
    if c.1 < p.1 then
      if cs.isEmpty then anyNonzero (p :: ps) else detectResetIt cs (p :: ps)
    else if c.1 > p.1 then
      if p.2 != 0 then true else detectResetIt (c :: cs) ps
    else
      if c.2 < p.2 then true else detectResetIt (c :: cs) ps
termination_by c p => c.length + p.length

/-- `h.floatBucketIterator(positive, absoluteStartValue, targetSchema)` drained. -/
def iterFrom (schema target : Int) (start : ZT) (spans : List Span) (bs : List Rat) : Buckets :=
  let l := if schema = target then expand spans bs else mergeTarget (schema - target).toNat (expand spans bs)
  if target == customSchema then l else l.dropWhile fun p => boundLe target p.1 start

/-- Upper bound of custom bucket `idx`: `none` = +Inf. -/
def customUpper (bounds : List Rat) (idx : Int) : Option Rat := getI? bounds idx

/-- `a <= b` on bounds with `none` = +Inf. -/
def leInf : Option Rat → Option Rat → Bool
  | _, none => true
  | none, some _ => false
  | some a, some b => decide (a ≤ b)

structure RIt where
  started : Bool
  hasMore : Bool
  cur : Int × Rat
  rest : Buckets
deriving Repr, Inhabited

def rollLoop (bounds : List Rat) (bound : Option Rat) : Nat → Rat → (Int × Rat) → Buckets → Rat × RIt
  | 0, sum, cur, rest => (sum, ⟨true, true, cur, rest⟩)
  | fuel + 1, sum, cur, rest =>
    if leInf (customUpper bounds cur.1) bound then
      match rest with
      | [] => (sum + cur.2, ⟨true, false, cur, []⟩)
      | b :: r => rollLoop bounds bound fuel (sum + cur.2) b r
    else (sum, ⟨true, true, cur, rest⟩)

/-- The closure `rollupSumForBound`. -/
def rollup (bounds : List Rat) (it : RIt) (bound : Option Rat) : Rat × RIt :=
  if !it.started then
    match it.rest with
    | [] => (0, { it with started := true, hasMore := false })
    | b :: r => rollLoop bounds bound (r.length + 2) 0 b r
  else rollLoop bounds bound (it.rest.length + 2) 0 it.cur it.rest

def drMismatchLoop (cb pb : List Rat) : Nat → Nat → Nat → RIt → RIt → Bool
  | 0, _, _, _, _ => false
  | fuel + 1, ci, pi, cit, pit =>
    if ci > cb.length ∨ pi > pb.length then false
    else
      let cB := cb[ci]?
      let pB := pb[pi]?
      if cB = pB then
        let (cs, cit) := if !cit.started || cit.hasMore then rollup cb cit cB else (0, cit)
        let (psum, pit) := if !pit.started || pit.hasMore then rollup pb pit cB else (0, pit)
        if cs < psum then true else drMismatchLoop cb pb fuel (ci + 1) (pi + 1) cit pit
      else if leInf cB pB then drMismatchLoop cb pb fuel (ci + 1) pi cit pit
      else drMismatchLoop cb pb fuel ci (pi + 1) cit pit

/-- `detectResetWithMismatchedCustomBounds` -/
def detectResetMismatch (h prev : FH) : Bool :=
  drMismatchLoop h.cv prev.cv (h.cv.length + prev.cv.length + 3) 0 0
    ⟨false, false, (0, 0), expand h.ps h.pb⟩ ⟨false, false, (0, 0), expand prev.ps prev.pb⟩

/-- `h.DetectReset(previous)`; `none` = panic. -/
def detectReset (h prev : FH) : Option Bool :=
  if h.hint = 1 then some true
  else if h.hint = 2 then some false
  else if h.count < prev.count then some true
  else if h.isCustom && !prev.isCustom then some true
  else if h.isCustom && h.cv != prev.cv then some (detectResetMismatch h prev)
  else if h.schema > prev.schema then some true
  else if h.zt.lt prev.zt then some true
  else
    match zeroCountForLargerThreshold prev h.zt with
    | none => none
    | some (pzc, nt) =>
      if nt ≠ h.zt then some true
      else if h.zc < pzc then some true
      else if prev.isCustom && !h.isCustom then none -- floatBucketIterator panics (unreachable: schema test above)
      else
        some (detectResetIt (iterFrom h.schema h.schema h.zt h.ps h.pb) (iterFrom prev.schema h.schema h.zt prev.ps prev.pb)
          || detectResetIt (iterFrom h.schema h.schema h.zt h.ns h.nb) (iterFrom prev.schema h.schema h.zt prev.ns prev.nb))

end Prom.HistOps
