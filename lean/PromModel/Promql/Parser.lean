import PromModel.Promql.Lexer
import PromModel.Promql.Functions
import PromModel.Promql.Printer
/-
  A recursive-descent / precedence-climbing parser for the expression grammar of
  promql/parser/generated_parser.y with the same precedence and associativity table and the same
  resolution of the grammar's conflicts as the generated LALR tables (established by the
  correspondence suite, not by proof), the semantic actions of parse.go and `checkAST` (property C26).

  Three syntactic contexts:
  * expressions (`parseExpr`): the `duration_expr` alternative of `expr` is never chosen by the tables
    (every conflict is resolved in favour of the earlier expression rules);
  * bracket contents `[…]` and parenthesised offset arguments (`parseDur`): `duration_expr`;
  * the argument of `offset` (`parseOffsetArg`): a literal, a signed literal, (signed) step()/range()/
    min_of/max_of and `±( duration_expr )` end the argument at once; an argument starting with `(`
    is a full duration expression that also swallows following arithmetic operators.

  `none` = the Go parser reports a parse error (syntax, semantic action, or type check).
-/
namespace Prom.Promql
open F64Q

structure Opts where
  expFn : Bool
  durExpr : Bool
  extRange : Bool
  fill : Bool
deriving Repr, DecidableEq

abbrev P (α : Type) := List Tok → Option (α × List Tok)

def expect (t : Tok) : List Tok → Option (List Tok)
  | x :: rest => if x == t then some rest else none
  | [] => none

/-! ### regular expressions (validity and nullability only) -/

/-- A small recogniser for the RE2 syntax used by `labels.NewFastRegexMatcher`: returns `none` when the
    pattern does not compile and `some b` where `b` says whether the fully anchored pattern matches "". -/
structure ReSt where
  nullable : Bool
  rest : Bytes

def reClassEnd : Nat → Bytes → Option Bytes
  | 0, _ => none
  | fuel + 1, s =>
    match s with
    | [] => none
    | 93 :: tl => some tl
    | 92 :: _ :: tl => reClassEnd fuel tl
    | 92 :: [] => none
    | 91 :: 58 :: tl =>
      -- [:alpha:] inside a class: skip to ":]"
      let body := tl.dropWhile (· != 58)
      (match body with
       | 58 :: 93 :: tl' => reClassEnd fuel tl'
       | _ => none)
    | a :: 45 :: b :: tl =>
      -- a range `a-b` of plain bytes must be ordered
      if b == 93 then reClassEnd fuel (45 :: b :: tl)
      else if b == 92 then reClassEnd fuel (b :: tl)
      else if a < 0x80 && b < 0x80 && b < a then none
      else if b == 91 then reClassEnd fuel (b :: tl)
      else reClassEnd fuel tl
    | _ :: tl => reClassEnd fuel tl

def reSkipRepeat (s : Bytes) : Option Bytes :=
  -- after '{': digits [ , [digits] ] '}' ; otherwise the brace is a literal
  let d1 := s.takeWhile isDigitB
  let r1 := s.dropWhile isDigitB
  if d1.isEmpty then none else
  match r1 with
  | 125 :: tl => some tl
  | 44 :: tl =>
    let r2 := tl.dropWhile isDigitB
    (match r2 with
     | 125 :: tl' => some tl'
     | _ => none)
  | _ => none

mutual
def reAlt : Nat → Bytes → Option ReSt
  | 0, _ => none
  | fuel + 1, s => do
    let a ← reConcat fuel true s
    match a.rest with
    | 124 :: tl =>
      let b ← reAlt fuel tl
      pure ⟨a.nullable || b.nullable, b.rest⟩
    | _ => pure a

def reConcat : Nat → Bool → Bytes → Option ReSt
  | 0, _, _ => none
  | fuel + 1, acc, s =>
    match s with
    | [] => some ⟨acc, []⟩
    | 124 :: _ => some ⟨acc, s⟩
    | 41 :: _ => some ⟨acc, s⟩
    | _ => do
      let a ← reAtom fuel s
      -- quantifier
      let (n1, r1, quantified) : Bool × Bytes × Bool :=
        match a.rest with
        | 42 :: tl => (true, tl, true)
        | 63 :: tl => (true, tl, true)
        | 43 :: tl => (a.nullable, tl, true)
        | 123 :: tl =>
          (match reSkipRepeat tl with
           | some tl' => (a.nullable || (tl.takeWhile isDigitB).all (· == 48), tl', true)
           | none => (a.nullable, a.rest, false))
        | _ => (a.nullable, a.rest, false)
      let r2 := if quantified then (match r1 with | 63 :: tl => tl | _ => r1) else r1
      -- a second repetition operator directly after a quantifier is an error
      let bad := quantified && (match r2 with
        | 42 :: _ => true | 43 :: _ => true | 63 :: _ => true
        | 123 :: tl => (reSkipRepeat tl).isSome
        | _ => false)
      if bad then none else reConcat fuel (acc && n1) r2

def reAtom : Nat → Bytes → Option ReSt
  | 0, _ => none
  | fuel + 1, s =>
    match s with
    | [] => none
    | c :: tl =>
      if c == 42 || c == 43 || c == 63 then none
      else if c == 40 then
        -- group
        let body : Option Bytes :=
          match tl with
          | 63 :: 58 :: t => some t
          | 63 :: 80 :: 60 :: t =>
            let nm := t.takeWhile isAlnumB
            (match t.dropWhile isAlnumB with
             | 62 :: t' => if nm.isEmpty then none else some t'
             | _ => none)
          | 63 :: 60 :: t =>
            let nm := t.takeWhile isAlnumB
            (match t.dropWhile isAlnumB with
             | 62 :: t' => if nm.isEmpty then none else some t'
             | _ => none)
          | 63 :: t =>
            let fl := t.takeWhile (fun c => c == 105 || c == 109 || c == 115 || c == 85 || c == 45)
            (match t.dropWhile (fun c => c == 105 || c == 109 || c == 115 || c == 85 || c == 45) with
             | 58 :: t' => if fl.isEmpty then none else some t'
             | _ => none)
          | _ => some tl
        match body with
        | none => none
        | some b => do
          let a ← reAlt fuel b
          match a.rest with
          | 41 :: t => pure ⟨a.nullable, t⟩
          | _ => none
      else if c == 41 then none
      else if c == 91 then
        let t1 := match tl with | 94 :: t => t | _ => tl
        let t2 := match t1 with | 93 :: t => t | _ => t1
        (reClassEnd (t2.length + 1) t2).map fun r => ⟨false, r⟩
      else if c == 92 then
        match tl with
        | [] => none
        | e :: t =>
          if inSet (bs "dwsDWS") e then some ⟨false, t⟩
          else if e == 98 then some ⟨false, t⟩
          else if inSet (bs "BAz") e then some ⟨true, t⟩
          else if inSet (bs "afnrtv") e then some ⟨false, t⟩
          else if 48 ≤ e && e ≤ 55 then (if e == 48 then some ⟨false, t.dropWhile (fun c => 48 ≤ c && c ≤ 55)⟩ else if (match t with | d :: _ => 48 ≤ d && d ≤ 55 | [] => false) then some ⟨false, t.dropWhile (fun c => 48 ≤ c && c ≤ 55)⟩ else none)
          else if e == 120 then
            (match t with
             | 123 :: t' =>
               let hs := t'.takeWhile (fun c => (hexValB? c).isSome)
               (match t'.dropWhile (fun c => (hexValB? c).isSome) with
                | 125 :: t'' => if hs.isEmpty then none else some ⟨false, t''⟩
                | _ => none)
             | _ => (hexRun? 2 t).map fun (_, t') => ⟨false, t'⟩)
          else if isAlnumB e && e != 95 then none
          else if e ≥ 0x80 then none
          else some ⟨false, t⟩
      else if c == 94 || c == 36 then some ⟨true, tl⟩
      else if c < 0x80 then some ⟨false, tl⟩
      else
        let (r, w) := decodeRune s
        if r == 0xFFFD && w == 1 then none else some ⟨false, s.drop w⟩
end

/-- `some nullable` if the pattern compiles. -/
def regexInfo (v : Bytes) : Option Bool :=
  match reAlt (4 * v.length + 8) v with
  | some ⟨n, []⟩ => some n
  | _ => none

/-- `labels.Matcher.Matches("")` for a matcher that compiled. -/
def matchesEmpty (m : Matcher) : Bool :=
  match m.typ with
  | .eq => m.value.isEmpty
  | .ne => !m.value.isEmpty
  | .re => (regexInfo m.value).getD false
  | .nre => !((regexInfo m.value).getD false)

/-! ### small pieces -/

def metricIdentOf : Tok → Option Bytes
  | .ident t => some t
  | .metricIdent t => some t
  | .op .land t => some t
  | .op .lor t => some t
  | .op .lunless t => some t
  | .kw k t =>
    match k with
    | .bool | .groupLeft | .groupRight | .ignoring | .on => none
    | _ => some t
  | _ => none

def maybeLabelOf : Tok → Option Bytes
  | .ident t => some t
  | .metricIdent t => some t
  | .op .land t => some t
  | .op .lor t => some t
  | .op .lunless t => some t
  | .op .atan2 t => some t
  | .kw k t =>
    match k with
    | .without => none
    | _ => some t
  | _ => none

/-- `grouping_labels`: `( l1, l2, … [,] )`. -/
def parseGroupingList : Nat → List Bytes → P (List Bytes)
  | 0, _, _ => none
  | fuel + 1, acc, toks =>
    -- expects a label
    let lbl : Option (Bytes × List Tok) :=
      match toks with
      | .string s :: rest =>
        (match unquote s with
         | some u => if !u.isEmpty && validUTF8 (u.length + 1) u then some (u, rest) else none
         | none => none)
      | t :: rest =>
        (match maybeLabelOf t with
         | some l => some (l, rest)
         | none => none)
      | [] => none
    match lbl with
    | none => none
    | some (l, rest) =>
      match rest with
      | .rparen :: rest' => some ((l :: acc).reverse, rest')
      | .comma :: .rparen :: rest' => some ((l :: acc).reverse, rest')
      | .comma :: rest' => parseGroupingList fuel (l :: acc) rest'
      | _ => none

def parseGroupingLabels : P (List Bytes)
  | .lparen :: .rparen :: rest => some ([], rest)
  | .lparen :: rest => parseGroupingList (rest.length + 1) [] rest
  | _ => none

def matchOpOf : Tok → Option MatchType
  | .eql => some .eq
  | .op .neq _ => some .ne
  | .eqlRegex => some .re
  | .neqRegex => some .nre
  | _ => none

def mkMatcher (t : MatchType) (name value : Bytes) : Option Matcher :=
  match t with
  | .re | .nre => if (regexInfo value).isSome then some ⟨t, name, value⟩ else none
  | _ => some ⟨t, name, value⟩

/-- `label_match_list` after `{`, up to and including `}`. -/
def parseMatchers : Nat → List Matcher → P (List Matcher)
  | 0, _, _ => none
  | fuel + 1, acc, toks =>
    let one : Option (Matcher × List Tok) :=
      match toks with
      | .ident n :: o :: .string v :: rest => do
        let t ← matchOpOf o
        let uv ← unquote v
        let m ← mkMatcher t n uv
        pure (m, rest)
      | .string n :: rest => do
        let un ← unquote n
        match rest with
        | o :: .string v :: rest' =>
          (match matchOpOf o with
           | some t => do
             let uv ← unquote v
             let m ← mkMatcher t un uv
             pure (m, rest')
           | none => pure (⟨.eq, metricNameB, un⟩, rest))
        | _ => pure (⟨.eq, metricNameB, un⟩, rest)
      | _ => none
    match one with
    | none => none
    | some (m, rest) =>
      match rest with
      | .rbrace :: rest' => some ((m :: acc).reverse, rest')
      | .comma :: .rbrace :: rest' => some ((m :: acc).reverse, rest')
      | .comma :: rest' => parseMatchers fuel (m :: acc) rest'
      | _ => none

def parseLabelMatchers : P (List Matcher)
  | .lbrace :: .rbrace :: rest => some ([], rest)
  | .lbrace :: rest => parseMatchers (rest.length + 1) [] rest
  | _ => none

/-- `number_duration_literal`. -/
def numLitOf : Tok → Option Expr
  | .number t => (parseNumber t).map fun v => .num v false
  | .duration t => (parseDuration t).map fun ns => .num (secondsOfNs ns) true
  | _ => none

/-- `durationLiteralOutOfRange`. -/
def durLitOutOfRange (v : F64) : Bool :=
  if v.isNaN then false
  else
    let lim : F64 := F64.ofRat ((2 ^ 63 : Nat) / (1000000000 : Nat) : Rat)
    F64.lt lim v || F64.lt v (F64.negate lim)

def negateNum (v : F64) : F64 :=
  -- `nl.Val *= -1`
  F64.mul v (f64OfInt (-1))

/-! ### duration expressions -/

def durBinOp : Tok → Option (DurOp × Nat × Bool)
  | .op .add _ => some (.add, 4, false)
  | .op .sub _ => some (.sub, 4, false)
  | .op .mul _ => some (.mul, 5, false)
  | .op .div _ => some (.div, 5, false)
  | .op .mod _ => some (.mod, 5, false)
  | .op .pow _ => some (.pow, 6, true)
  | _ => none

/-- `applyUnaryOpToDurationExpr` for `wrapped = false`. -/
def applyUnaryDur (neg : Bool) (e : Expr) : Option Expr :=
  match e with
  | .num v d =>
    let v' := if neg then negateNum v else v
    if durLitOutOfRange v' then none else some (.num v' d)
  | .dur op w l r => some (if neg then .dur .sub false .nil (.dur op w l r) else .dur op w l r)
  | _ => none

/-- `wrapParenDurationExpr`. -/
def wrapParenDur (e : Expr) : Expr :=
  match e with
  | .dur op _ l r => .dur op true l r
  | other => .dur .add true .nil other

mutual
/-- `duration_expr` with operators of precedence ≥ `minPrec`. -/
def parseDur (o : Opts) : Nat → Nat → P Expr
  | 0, _, _ => none
  | fuel + 1, minPrec, toks => do
    let (lhs, rest) ← parseDurOperand o fuel toks
    parseDurBinLoop o fuel minPrec lhs rest

def parseDurBinLoop (o : Opts) : Nat → Nat → Expr → P Expr
  | 0, _, _, _ => none
  | fuel + 1, minPrec, lhs, toks =>
    match toks with
    | t :: rest =>
      match durBinOp t with
      | some (op, prec, rassoc) =>
        if prec < minPrec then some (lhs, toks)
        else do
          let (rhs, rest') ← parseDur o fuel (if rassoc then prec else prec + 1) rest
          -- experimentalDurationExpr($1)
          if !o.durExpr then none
          else
            let zeroDiv := (op == .div || op == .mod) && (match rhs with | .num v _ => v.isZero | _ => false)
            if zeroDiv then none
            else parseDurBinLoop o fuel minPrec (.dur op false lhs rhs) rest'
      | none => some (lhs, toks)
    | [] => some (lhs, toks)

def parseDurOperand (o : Opts) : Nat → P Expr
  | 0, _ => none
  | fuel + 1, toks =>
    match toks with
    | .op .add _ :: rest => do
      -- unary_op duration_expr %prec MUL: the operand extends over `^` only
      let (e, rest') ← parseDur o fuel 6 rest
      let e' ← applyUnaryDur false e
      pure (e', rest')
    | .op .sub _ :: rest => do
      let (e, rest') ← parseDur o fuel 6 rest
      let e' ← applyUnaryDur true e
      pure (e', rest')
    | .kw .step _ :: .lparen :: .rparen :: rest => if o.durExpr then some (.dur .step false .nil .nil, rest) else none
    | .kw .range _ :: .lparen :: .rparen :: rest => if o.durExpr then some (.dur .range false .nil .nil, rest) else none
    | .kw .minOf _ :: .lparen :: rest => parseMinMax o fuel .minOf rest
    | .kw .maxOf _ :: .lparen :: rest => parseMinMax o fuel .maxOf rest
    | .lparen :: rest => do
      let (e, rest') ← parseDur o fuel 0 rest
      let rest'' ← expect .rparen rest'
      if !o.durExpr then none else pure (wrapParenDur e, rest'')
    | t :: rest =>
      match numLitOf t with
      | some (.num v d) => if durLitOutOfRange v then none else some (.num v d, rest)
      | _ => none
    | [] => none

def parseMinMax (o : Opts) : Nat → DurOp → P Expr
  | 0, _, _ => none
  | fuel + 1, op, toks => do
    let (a, r1) ← parseDur o fuel 0 toks
    let r2 ← expect .comma r1
    let (b, r3) ← parseDur o fuel 0 r2
    let r4 ← expect .rparen r3
    if !o.durExpr then none else pure (.dur op false a b, r4)
end

/-- `offset_duration_expr`. -/
def parseOffsetArg (o : Opts) (toks : List Tok) : Option (Expr × List Tok) :=
  let fuel := 2 * toks.length + 4
  let signed (neg : Bool) (rest : List Tok) : Option (Expr × List Tok) :=
    match rest with
    | .kw .step _ :: .lparen :: .rparen :: r => if o.durExpr then some (.dur (if neg then .sub else .add) false .nil (.dur .step false .nil .nil), r) else none
    | .kw .range _ :: .lparen :: .rparen :: r => if o.durExpr then some (.dur (if neg then .sub else .add) false .nil (.dur .range false .nil .nil), r) else none
    | .kw .minOf _ :: .lparen :: r => do
      let (e, r') ← parseMinMax o fuel .minOf r
      pure (.dur (if neg then .sub else .add) false .nil e, r')
    | .kw .maxOf _ :: .lparen :: r => do
      let (e, r') ← parseMinMax o fuel .maxOf r
      pure (.dur (if neg then .sub else .add) false .nil e, r')
    | .lparen :: r => do
      -- unary_op ( duration_expr ) : applyUnaryOpToDurationExpr(op, e, wrapped = true); no feature check
      let (e, r') ← parseDur o fuel 0 r
      let r'' ← expect .rparen r'
      let w := wrapParenDur e
      pure (if neg then .dur .sub false .nil w else w, r'')
    | .op .add _ :: _ => parseDur o fuel 0 toks   -- a second sign: general `unary_op duration_expr`
    | .op .sub _ :: _ => parseDur o fuel 0 toks
    | t :: r =>
      match numLitOf t with
      | some (.num v d) =>
        let v' := if neg then negateNum v else v
        if durLitOutOfRange v' then none else some (.num v' d, r)
      | _ => none
    | [] => none
  match toks with
  | .op .add _ :: rest => signed false rest
  | .op .sub _ :: rest => signed true rest
  | .kw .step _ :: .lparen :: .rparen :: r => if o.durExpr then some (.dur .step false .nil .nil, r) else none
  | .kw .range _ :: .lparen :: .rparen :: r => if o.durExpr then some (.dur .range false .nil .nil, r) else none
  | .kw .minOf _ :: .lparen :: r => parseMinMax o fuel .minOf r
  | .kw .maxOf _ :: .lparen :: r => parseMinMax o fuel .maxOf r
  | .lparen :: _ => parseDur o fuel 0 toks
  | t :: r =>
    match numLitOf t with
    | some (.num v d) => if durLitOutOfRange v then none else some (.num v d, r)
    | _ => none
  | [] => none

/-! ### postfix modifiers -/

def nsOfSeconds (v : F64) : Int := f64RoundToInt64 (F64.mul v f1e9)

/-- `addOffset` / `addOffsetExpr`. -/
def addOffset (e : Expr) (arg : Expr) : Option Expr :=
  let set (off : Int) (offe : Expr) : Option (Int × Expr) :=
    if off != 0 || !offe.isNil then none
    else match arg with
      | .num v _ => some (nsOfSeconds v, .nil)
      | other => some (0, other)
  match e with
  | .vs name ms off offe atm ext => do
    let (o', oe') ← set off offe
    pure (.vs name ms o' oe' atm ext)
  | .mat (.vs name ms off offe atm ext) range rangeE => do
    let (o', oe') ← set off offe
    pure (.mat (.vs name ms o' oe' atm ext) range rangeE)
  | .sub x range rangeE step stepE off offe atm => do
    let (o', oe') ← set off offe
    pure (.sub x range rangeE step stepE o' oe' atm)
  | _ => none

/-- `setTimestamp` / `setAtModifierPreprocessor`. -/
def setAt (e : Expr) (a : AtMod) : Option Expr :=
  match e with
  | .vs name ms off offe .none ext => some (.vs name ms off offe a ext)
  | .mat (.vs name ms off offe .none ext) range rangeE => some (.mat (.vs name ms off offe a ext) range rangeE)
  | .sub x range rangeE step stepE off offe .none => some (.sub x range rangeE step stepE off offe a)
  | _ => none

/-- `setAnchored` / `setSmoothed`. -/
def setExt (o : Opts) (e : Expr) (anch : Bool) : Option Expr :=
  if !o.extRange then none else
  let upd (ext : Ext) : Option Ext :=
    match ext, anch with
    | .none, true => some .anchored
    | .none, false => some .smoothed
    | .anchored, true => some .anchored
    | .smoothed, false => some .smoothed
    | _, _ => none
  match e with
  | .vs name ms off offe atm ext => (upd ext).map fun x => .vs name ms off offe atm x
  | .mat (.vs name ms off offe atm ext) range rangeE => (upd ext).map fun x => .mat (.vs name ms off offe atm x) range rangeE
  | _ => none

def tsOfNumber (v : F64) : Option AtMod :=
  if v.isNaN || v.isInf then none
  else
    let q := v.toRat
    if q ≥ ((2 ^ 63 : Nat) : Rat) || q ≤ -((2 ^ 63 : Nat) : Rat) then none
    else some (.ts (f64RoundToInt64 (F64.mul v f1000)))

/-- `number` of the `@` rule: NUMBER or DURATION, value only. -/
def plainNumberOf (t : Tok) : Option F64 :=
  match numLitOf t with
  | some (.num v _) => some v
  | _ => none

/-- positive_duration_expr → (ns, expr): literal durations become nanoseconds. -/
def rangeOf (e : Expr) : Option (Int × Expr) :=
  match e with
  | .num v _ =>
    if v.isNaN then some (nsOfSeconds v, .nil)
    else if v.isZero || v.neg? then none else some (nsOfSeconds v, .nil)
  | other => some (0, other)

def parsePostfix (o : Opts) : Nat → Expr → P Expr
  | 0, _, _ => none
  | fuel + 1, e, toks =>
    match toks with
    | .lbracket :: rest => do
      let (d, r1) ← parseDur o (2 * rest.length + 4) 0 rest
      let (rng, rngE) ← rangeOf d
      match r1 with
      | .rbracket :: r2 =>
        -- matrix_selector
        (match e with
         | .vs _ _ off offe atm _ =>
           if off != 0 || !offe.isNil then none
           else if atm != .none then none
           else parsePostfix o fuel (.mat e rng rngE) r2
         | _ => none)
      | .colon :: .rbracket :: r2 => parsePostfix o fuel (.sub e rng rngE 0 .nil 0 .nil .none) r2
      | .colon :: r2 => do
        let (s, r3) ← parseDur o (2 * r2.length + 4) 0 r2
        let (stp, stpE) ← rangeOf s
        let r4 ← expect .rbracket r3
        parsePostfix o fuel (.sub e rng rngE stp stpE 0 .nil .none) r4
      | _ => none
    | .kw .offset _ :: rest => do
      let (arg, r1) ← parseOffsetArg o rest
      let e' ← addOffset e arg
      parsePostfix o fuel e' r1
    | .at :: rest =>
      (match rest with
       | .kw .start _ :: .lparen :: .rparen :: r1 => do
         let e' ← setAt e .start
         parsePostfix o fuel e' r1
       | .kw .end_ _ :: .lparen :: .rparen :: r1 => do
         let e' ← setAt e .end_
         parsePostfix o fuel e' r1
       | .op .add _ :: t :: r1 => do
         let v ← plainNumberOf t
         let a ← tsOfNumber v
         let e' ← setAt e a
         parsePostfix o fuel e' r1
       | .op .sub _ :: t :: r1 => do
         let v ← plainNumberOf t
         let a ← tsOfNumber (F64.negate v)
         let e' ← setAt e a
         parsePostfix o fuel e' r1
       | t :: r1 => do
         let v ← plainNumberOf t
         let a ← tsOfNumber v
         let e' ← setAt e a
         parsePostfix o fuel e' r1
       | [] => none)
    | .kw .anchored _ :: rest => do
      let e' ← setExt o e true
      parsePostfix o fuel e' rest
    | .kw .smoothed _ :: rest => do
      let e' ← setExt o e false
      parsePostfix o fuel e' rest
    | _ => some (e, toks)

/-! ### binary operator modifiers -/

def fillValue : P F64
  | .lparen :: .op .add _ :: t :: .rparen :: rest => (plainNumberOf t).map fun v => (v, rest)
  | .lparen :: .op .sub _ :: t :: .rparen :: rest => (plainNumberOf t).map fun v => (negateNum v, rest)
  | .lparen :: t :: .rparen :: rest => (plainNumberOf t).map fun v => (v, rest)
  | _ => none

/-- `bin_modifier`: returns (bool, vector matching). -/
def parseBinModifier (o : Opts) (toks : List Tok) : Option ((Bool × VM) × List Tok) := do
  let (b, r0) : Bool × List Tok := match toks with
    | .kw .bool _ :: r => (true, r)
    | _ => (false, toks)
  let vm0 : VM := ⟨0, false, [], [], none, none⟩
  let (vm1, r1) ← (match r0 with
    | .kw .on _ :: r => do
      let (ls, r') ← parseGroupingLabels r
      pure ({ vm0 with on := true, labels := ls }, r')
    | .kw .ignoring _ :: r => do
      let (ls, r') ← parseGroupingLabels r
      pure ({ vm0 with labels := ls }, r')
    | _ => pure (vm0, r0) : Option (VM × List Tok))
  let hasOn := match r0 with | .kw .on _ :: _ => true | .kw .ignoring _ :: _ => true | _ => false
  let (vm2, r2) ← (if hasOn then
      (match r1 with
       | .kw .groupLeft _ :: .lparen :: r => do
         let (ls, r') ← parseGroupingLabels (.lparen :: r)
         pure ({ vm1 with card := 1, incl := ls }, r')
       | .kw .groupLeft _ :: r => pure ({ vm1 with card := 1 }, r)
       | .kw .groupRight _ :: .lparen :: r => do
         let (ls, r') ← parseGroupingLabels (.lparen :: r)
         pure ({ vm1 with card := 2, incl := ls }, r')
       | .kw .groupRight _ :: r => pure ({ vm1 with card := 2 }, r)
       | _ => pure (vm1, r1))
    else pure (vm1, r1) : Option (VM × List Tok))
  let (vm3, r3) ← (match r2 with
    | .kw .fill _ :: r => do
      let (v, r') ← fillValue r
      pure ({ vm2 with fillL := some v, fillR := some v }, r')
    | .kw .fillLeft _ :: r => do
      let (v, r') ← fillValue r
      match r' with
      | .kw .fillRight _ :: r'' => do
        let (w, r''') ← fillValue r''
        pure ({ vm2 with fillL := some v, fillR := some w }, r''')
      | _ => pure ({ vm2 with fillL := some v }, r')
    | .kw .fillRight _ :: r => do
      let (v, r') ← fillValue r
      match r' with
      | .kw .fillLeft _ :: r'' => do
        let (w, r''') ← fillValue r''
        pure ({ vm2 with fillL := some w, fillR := some v }, r''')
      | _ => pure ({ vm2 with fillR := some v }, r')
    | _ => pure (vm2, r2) : Option (VM × List Tok))
  -- newBinaryExpression: fill modifiers need the feature flag
  if !o.fill && (vm3.fillL.isSome || vm3.fillR.isSome) then none
  else pure ((b, vm3), r3)

/-! ### expressions -/

def isCallHead : Tok → Option Bytes
  | .ident t => some t
  | .kw .start t => some t
  | .kw .end_ t => some t
  | .kw .step t => some t
  | .kw .range t => some t
  | .kw .maxOf t => some t
  | .kw .minOf t => some t
  | _ => none

def experimentalAggs : List Bytes := [bs "limitk", bs "limit_ratio"]

/-- `newAggregateExpr`. -/
def mkAggregate (o : Opts) (op : Bytes) (without : Bool) (grouping : List Bytes) (args : List Expr) : Option Expr :=
  if args.isEmpty then none
  else if aggParamOps.contains op then
    if !o.expFn && experimentalAggs.contains op then none
    else match args with
      | [p, e] => some (.agg op without grouping p e)
      | _ => none
  else match args with
    | [e] => some (.agg op without grouping .nil e)
    | _ => none

mutual
/-- `expr` with binary operators of precedence ≥ `minPrec`. -/
def parseExpr (o : Opts) : Nat → Nat → P Expr
  | 0, _, _ => none
  | fuel + 1, minPrec, toks => do
    let (lhs, rest) ← parseOperand o fuel toks
    parseBinLoop o fuel minPrec lhs rest

def parseBinLoop (o : Opts) : Nat → Nat → Expr → P Expr
  | 0, _, _, _ => none
  | fuel + 1, minPrec, lhs, toks =>
    match toks with
    | .op op _ :: rest =>
      if op.prec < minPrec then some (lhs, toks)
      else do
        let ((b, vm), r1) ← parseBinModifier o rest
        let (rhs, r2) ← parseExpr o fuel (if op.rightAssoc then op.prec else op.prec + 1) r1
        parseBinLoop o fuel minPrec (.bin op b (some vm) lhs rhs) r2
    | _ => some (lhs, toks)

/-- unary expressions and primaries with their postfix modifiers. -/
def parseOperand (o : Opts) : Nat → P Expr
  | 0, _ => none
  | fuel + 1, toks =>
    match toks with
    | .op .add _ :: rest => do
      -- unary_op expr %prec MUL
      let (e, r) ← parseExpr o fuel 6 rest
      pure ((match e with | .num v d => .num v d | other => .un false other), r)
    | .op .sub _ :: rest => do
      let (e, r) ← parseExpr o fuel 6 rest
      pure ((match e with | .num v d => .num (negateNum v) d | other => .un true other), r)
    | _ => do
      let (p, r) ← parsePrimary o fuel toks
      parsePostfix o (2 * r.length + 4) p r

def parsePrimary (o : Opts) : Nat → P Expr
  | 0, _ => none
  | fuel + 1, toks =>
    match toks with
    | .number t :: rest => (numLitOf (.number t)).map fun e => (e, rest)
    | .duration t :: rest => (numLitOf (.duration t)).map fun e => (e, rest)
    | .string t :: rest => (unquote t).map fun u => (.str u, rest)
    | .lparen :: rest => do
      let (e, r) ← parseExpr o fuel 0 rest
      let r' ← expect .rparen r
      pure (.paren e, r')
    | .lbrace :: _ => do
      let (ms, r) ← parseLabelMatchers toks
      pure (.vs [] ms 0 .nil .none .none, r)
    | t :: rest =>
      -- aggregation?
      let aggStart : Bool := match t, rest with
        | .kw .agg _, .lparen :: _ => true
        | .kw .agg _, .kw .by _ :: _ => true
        | .kw .agg _, .kw .without _ :: _ => true
        | _, _ => false
      if aggStart then
        match t with
        | .kw .agg w =>
          let op := lowerBs w
          (match rest with
           | .kw .by _ :: r => do
             let (g, r1) ← parseGroupingLabels r
             let (args, r2) ← parseCallBody o fuel r1
             let e ← mkAggregate o op false g args
             pure (e, r2)
           | .kw .without _ :: r => do
             let (g, r1) ← parseGroupingLabels r
             let (args, r2) ← parseCallBody o fuel r1
             let e ← mkAggregate o op true g args
             pure (e, r2)
           | _ => do
             let (args, r1) ← parseCallBody o fuel rest
             match r1 with
             | .kw .by _ :: r => do
               let (g, r2) ← parseGroupingLabels r
               let e ← mkAggregate o op false g args
               pure (e, r2)
             | .kw .without _ :: r => do
               let (g, r2) ← parseGroupingLabels r
               let e ← mkAggregate o op true g args
               pure (e, r2)
             | _ => do
               let e ← mkAggregate o op false [] args
               pure (e, r1))
        | _ => none
      else
        match isCallHead t, rest with
        | some name, .lparen :: _ => do
          let (args, r1) ← parseCallBody o fuel rest
          let f ← getFunction name
          if f.experimental && !o.expFn then none else pure (.call name args, r1)
        | _, _ =>
          match metricIdentOf t with
          | some name =>
            (match rest with
             | .lbrace :: _ => do
               let (ms, r) ← parseLabelMatchers rest
               pure (.vs name (ms ++ [⟨.eq, metricNameB, name⟩]) 0 .nil .none .none, r)
             | _ => some (.vs name [⟨.eq, metricNameB, name⟩] 0 .nil .none .none, rest))
          | none => none
    | [] => none

/-- `function_call_body`: `( [expr {, expr}] )`. -/
def parseCallBody (o : Opts) : Nat → P (List Expr)
  | 0, _ => none
  | fuel + 1, toks =>
    match toks with
    | .lparen :: .rparen :: rest => some ([], rest)
    | .lparen :: rest => parseArgs o fuel [] rest
    | _ => none

def parseArgs (o : Opts) : Nat → List Expr → P (List Expr)
  | 0, _, _ => none
  | fuel + 1, acc, toks => do
    let (e, r) ← parseExpr o fuel 0 toks
    match r with
    | .rparen :: r' => pure ((e :: acc).reverse, r')
    | .comma :: r' => parseArgs o fuel (e :: acc) r'
    | _ => none
end

/-! ### checkAST -/

def Expr.typ : Expr → VT
  | .agg .. => .vector
  | .call fn _ => (getFunction fn).elim .none (·.ret)
  | .mat .. => .matrix
  | .sub .. => .matrix
  | .num .. => .scalar
  | .paren e => e.typ
  | .str _ => .string
  | .un _ e => e.typ
  | .vs .. => .vector
  | .bin _ _ _ l r => if l.typ == .scalar && r.typ == .scalar then .scalar else .vector
  | .stepinv e => e.typ
  | .dur .. => .scalar
  | .nil => .none

def nthOrLast (xs : List VT) (i : Nat) : Option VT :=
  if i < xs.length then xs[i]? else xs.getLast?

mutual
/-- `checkAST`: the (possibly rewritten) node, or `none` when a type error is reported. -/
def check : Expr → Option Expr
  | .agg op without grouping param e => do
    let e' ← check e
    if e'.typ != .vector then none else
    let p' ← (if param.isNil then some .nil else check param)
    if [bs "topk", bs "bottomk", bs "quantile", bs "limitk", bs "limit_ratio"].contains op && p'.typ != .scalar then none
    else if op == bs "count_values" && p'.typ != .string then none
    else pure (.agg op without grouping p' e')
  | .bin op b vm l r => do
    let l' ← check l
    let r' ← check r
    let lt := l'.typ
    let rt := r'.typ
    let vm0 := vm.getD ⟨0, false, [], [], none, none⟩
    if b && !op.isComparison then none
    else if op.isComparison && !b && rt == .scalar && lt == .scalar then none
    else
      let vm1 := if op.isSet && vm0.card == 0 then { vm0 with card := 3 } else vm0
      if vm1.on && vm1.labels.any (fun l1 => vm1.incl.contains l1) then none
      else if lt != .scalar && lt != .vector then none
      else if rt != .scalar && rt != .vector then none
      else
        let hasFill := vm1.fillL.isSome || vm1.fillR.isSome
        if lt != .vector || rt != .vector then
          if !vm1.labels.isEmpty then none
          else if hasFill then none
          else if (lt == .scalar || rt == .scalar) && op.isSet then none
          else pure (.bin op b none l' r')
        else if op.isSet then
          if vm1.card == 1 || vm1.card == 2 then none
          else if vm1.card != 3 then none
          else if hasFill then none
          else pure (.bin op b (some vm1) l' r')
        else pure (.bin op b (some vm1) l' r')
  | .call fn args => do
    let f ← getFunction fn
    let nargs := f.args.length
    let n := args.length
    if f.variadic == 0 && nargs != n then none
    else if f.variadic != 0 && nargs - 1 > n then none
    else if f.variadic > 0 && (nargs - 1 + f.variadic.toNat) < n then none
    else
      let infoOk : Bool :=
        if fn == bs "info" && n > 1 then
          match args with
          | _ :: (.vs name _ _ _ _ _) :: _ => name.isEmpty
          | _ => false
        else true
      if !infoOk then none
      else do
        let args' ← checkArgs f.args (fn == bs "info") 0 args
        pure (.call fn args')
  | .paren e => do
    let e' ← check e
    pure (.paren e')
  | .un neg e => do
    let e' ← check e
    if e'.typ != .scalar && e'.typ != .vector then none else pure (.un neg e')
  | .sub e range rangeE step stepE off offe atm => do
    let e' ← check e
    if e'.typ != .vector then none else pure (.sub e' range rangeE step stepE off offe atm)
  | .mat sel range rangeE => do
    let s' ← check sel
    pure (.mat s' range rangeE)
  | .vs name ms off offe atm ext =>
    if !name.isEmpty then
      if (ms.dropLast).any (fun m => m.name == metricNameB) then none else some (.vs name ms off offe atm ext)
    else if ms.any (fun m => !matchesEmpty m) then some (.vs name ms off offe atm ext)
    else none
  | .num v d => some (.num v d)
  | .str v => some (.str v)
  | _ => none

/-- arguments of a call against the declared argument types (the last type repeats for variadics);
    `info`'s second argument bypasses the empty-matcher check. -/
def checkArgs (tys : List VT) (isInfo : Bool) : Nat → List Expr → Option (List Expr)
  | _, [] => some []
  | i, a :: rest => do
    let a' ← (match isInfo && i == 1, a with
      | true, .vs name ms off offe atm ext => (if (ms.dropLast).any (fun m => m.name == metricNameB) && !name.isEmpty then none else some (.vs name ms off offe atm ext))
      | _, _ => check a)
    match nthOrLast tys i with
    | some t => if a'.typ != t then none else do
        let rest' ← checkArgs tys isInfo (i + 1) rest
        pure (a' :: rest')
    | none => none
end

/-- `parser.ParseExpr`: `none` = parse error (syntax or type). -/
def parse (o : Opts) (text : Bytes) : Option Expr := do
  let toks ← lex text
  let (e, rest) ← parseExpr o (4 * toks.length + 8) 0 toks
  if !rest.isEmpty then none else check e

end Prom.Promql
