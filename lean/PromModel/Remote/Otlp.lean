import PromModel.Prelude.Line
/-
  Model of the OTLP → Prometheus conversion kernels of
  `storage/remote/otlptranslator/prometheusremotewrite` (property C43):

  * `convertBucketsLayout` (histograms.go), transcribed loop by loop,
  * `exponentialToNativeHistogram`, `explicitHistogramToCustomBucketsHistogram` (histograms.go),
  * `addGaugeNumberDataPoints` / `addSumNumberDataPoints` value rule (number_data_points.go),
  * `convertTimeStamp` (helper.go), and the temporality admission rule of `FromMetrics`.

  Numbers: bucket indices, offsets and counts are `Int` (no wrap-around is modelled: the theorems
  are about the mathematical integers; the generator keeps `|offset| + len < 2^31` and the total
  count below `2^63`, where Go's int32/int64 arithmetic coincides).  Go's `x >> k` on a signed
  integer is the arithmetic shift, i.e. floor division by `2^k` (`shr`).  Floats travel as bit
  patterns (`Nat` < 2^64), never through Lean `Float`.
-/
namespace Prom.Otlp

/-- `histogram.Span{Offset int32, Length uint32}`. -/
structure Span where
  offset : Int
  length : Nat
deriving Repr, DecidableEq, Inhabited

/-- Go's `x >> k` for signed `x`: arithmetic shift = floor division by `2^k`
    (`Int./` is Euclidean division, which is floor division for a positive divisor;
    `shr_eq_shiftRight` in PromProps/C43 states the agreement with `Int.shiftRight`). -/
def shr (x : Int) (k : Nat) : Int := x / (2 : Int) ^ k

/-- The local variables of `convertBucketsLayout`. `spans` is never empty inside the loop, so it is
    kept as `done ++ [cur]`: `spans[len(spans)-1]` is `cur`. `mergeIdx` exists only in the repaired
    code (F24); in the code as found it is a ghost variable that nothing reads. -/
structure St where
  done      : List Span
  cur       : Span
  deltas    : List Int
  count     : Int
  prevCount : Int
  bucketIdx : Int
  mergeIdx  : Int
deriving Repr, Inhabited

namespace St

/-- The closure `appendDelta`. -/
def appendDelta (st : St) (c : Int) : St :=
  { st with cur := { st.cur with length := st.cur.length + 1 },
            deltas := st.deltas ++ [c - st.prevCount],
            prevCount := c }

/-- `spans = append(spans, histogram.Span{Offset: gap, Length: 0})`. -/
def newSpan (st : St) (gap : Int) : St :=
  { st with done := st.done ++ [st.cur], cur := ⟨gap, 0⟩ }

/-- `for range gap { appendDelta(0) }`. -/
def fillZeros : Nat → St → St
  | 0, st => st
  | n + 1, st => fillZeros n (st.appendDelta 0)

/-- `if gap > 2 { new span } else { for range gap { appendDelta(0) } }`
    (a negative `gap` runs the loop zero times). -/
def emitGap (st : St) (gap : Int) : St :=
  if gap > 2 then st.newSpan gap else fillZeros gap.toNat st

def spans (st : St) : List Span := st.done ++ [st.cur]

end St

/-- `nextBucketIdx := (int32(i)+offset)>>scaleDown + 1`. -/
def nextIdx (offset : Int) (k : Nat) (i : Nat) : Int := shr ((i : Int) + offset) k + 1

/-- One iteration of `for i := range numBuckets`. `fixed = false` is the code as found
    (merge test against `bucketIdx`), `fixed = true` the repaired code (test against `mergeIdx`). -/
def step (fixed : Bool) (offset : Int) (k : Nat) (i : Nat) (c : Int) (st : St) : St :=
  let next := nextIdx offset k i
  if (if fixed then st.mergeIdx else st.bucketIdx) = next then
    { st with count := st.count + c }
  else
    let st := { st with mergeIdx := next }
    if st.count = 0 then { st with count := c }
    else
      let gap := next - st.bucketIdx - 1
      let st := (st.emitGap gap).appendDelta st.count
      { st with count := c, bucketIdx := next }

def loop (fixed : Bool) (offset : Int) (k : Nat) : Nat → List Int → St → St
  | _, [], st => st
  | i, c :: cs, st => loop fixed offset k (i + 1) cs (step fixed offset k i c st)

def initSt (offset : Int) (k : Nat) (adj : Bool) : St :=
  { done := [], cur := ⟨if adj then shr offset k + 1 else offset, 0⟩, deltas := [],
    count := 0, prevCount := 0, bucketIdx := shr offset k + 1, mergeIdx := shr offset k + 1 }

/-- The code after the loop. -/
def finish (offset : Int) (k : Nat) (n : Nat) (st : St) : St :=
  let gap := shr ((n : Int) + offset - 1) k + 1 - st.bucketIdx
  (st.emitGap gap).appendDelta st.count

/-- `convertBucketsLayout(bucketCounts, offset, scaleDown, adjustOffset)`. -/
def convertG (fixed : Bool) (counts : List Int) (offset : Int) (k : Nat) (adj : Bool) :
    List Span × List Int :=
  match counts with
  | [] => ([], [])
  | _ =>
    let st := finish offset k counts.length (loop fixed offset k 0 counts (initSt offset k adj))
    (st.spans, st.deltas)

/-- Does /repo contain the repair of F24 (`fixes/F24.patch`)?  The correspondence suite `otlp`
    keeps this honest: with the wrong value model and implementation differ on down-scaled inputs. -/
def repoFixed : Bool := true

/-- The code as it stands in /repo. -/
def convert (counts : List Int) (offset : Int) (k : Nat) (adj : Bool) : List Span × List Int :=
  convertG repoFixed counts offset k adj

/-! ### Semantics of the sparse layout: `spans × deltas → (index ↦ absolute count)` -/

/-- The bucket indices denoted by a span list, starting from cursor `cur`. -/
def spanIdx (cur : Int) : List Span → List Int
  | [] => []
  | s :: ss =>
    (List.range s.length).map (fun (t : Nat) => cur + s.offset + (t : Int))
      ++ spanIdx (cur + s.offset + s.length) ss

/-- Absolute counts denoted by a delta list. -/
def prefixSums (acc : Int) : List Int → List Int
  | [] => []
  | d :: ds => (acc + d) :: prefixSums (acc + d) ds

/-- (index, absolute count) pairs in layout order. -/
def entries (l : List Span × List Int) : List (Int × Int) :=
  (spanIdx 0 l.1).zip (prefixSums 0 l.2)

def sumAt (j : Int) : List (Int × Int) → Int
  | [] => 0
  | e :: es => (if e.1 = j then e.2 else 0) + sumAt j es

/-- The count stored for bucket index `j` (absent = 0). -/
def bucket (l : List Span × List Int) (j : Int) : Int := sumAt j (entries l)

/-- Reference re-bucketing: sum of the source buckets `i` (starting at position `i0`) whose
    target satisfies `P`. -/
def refSum (P : Nat → Bool) : Nat → List Int → Int
  | _, [] => 0
  | i, c :: cs => (if P i then c else 0) + refSum P (i + 1) cs

/-- Documented target index of OTLP exponential source bucket `i` (`offset + i` scaled down by
    `2^k`, plus one because OTLP bucket 0 is `(1, base]` and Prometheus bucket 0 is `(1/base, 1]`). -/
def target (offset : Int) (k : Nat) (i : Nat) : Int := shr ((i : Int) + offset) k + 1

/-! ### Scalars -/

def two63 : Nat := 9223372036854775808
def two64 : Nat := 18446744073709551616

/-- `int64(x)` for a `uint64` `x`. -/
def toI64 (n : Nat) : Int := if n % two64 < two63 then (n % two64 : Nat) else ((n % two64 : Nat) : Int) - two64

/-- `convertTimeStamp`: `int64(timestamp) / 1_000_000` (Go's `/` truncates toward zero). -/
def convTime (ns : Nat) : Int := Int.tdiv (toI64 ns) 1000000

def staleNaN : Nat := 0x7ff0000000000002
def defaultZeroThresholdBits : Nat := 0x255bba08cf8c979d  -- 1e-128
def customBucketsSchema : Int := -53
def schemaMin : Int := -4
def schemaMax : Int := 8
def hintUnknown : Int := 0
def hintGauge : Int := 3

/-- `float64(x)` for an `int64` `x`, as a bit pattern (round to nearest, ties to even). -/
def i64ToF64Bits (x : Int) : Nat :=
  if x = 0 then 0 else
  let sign : Nat := if x < 0 then 1 else 0
  let m := x.natAbs
  let e := Nat.log2 m
  let (e, q) : Nat × Nat :=
    if e ≤ 52 then (e, m <<< (52 - e))
    else
      let sh := e - 52
      let q := m >>> sh
      let rem := m % 2 ^ sh
      let half := 2 ^ (sh - 1)
      let q := if rem > half ∨ (rem = half ∧ q % 2 = 1) then q + 1 else q
      if q = 2 ^ 53 then (e + 1, 2 ^ 52) else (e, q)
  sign * 2 ^ 63 + (e + 1023) * 2 ^ 52 + (q - 2 ^ 52)

/-- `f != 0` on a bit pattern (true for NaN). -/
def f64NonZero (bits : Nat) : Bool := bits % 2 ^ 63 ≠ 0

inductive Temp | unspec | delta | cum
deriving Repr, DecidableEq, Inhabited

/-- `FromMetrics`: a metric that has a temporality is converted only if it is cumulative, or delta
    with `AllowDeltaTemporality`. -/
def temporalityOk (allowDelta : Bool) : Temp → Bool
  | .cum => true
  | .delta => allowDelta
  | .unspec => false

/-- What reaches the appender for a histogram sample. -/
structure Hist where
  hint      : Int
  schema    : Int
  ztBits    : Nat
  zeroCount : Nat
  count     : Nat
  sumBits   : Nat
  pos       : List Span × List Int
  neg       : List Span × List Int
  custom    : List Nat
deriving Repr, Inhabited

structure ExpPoint where
  scale      : Int
  noRecorded : Bool
  hasSum     : Bool
  sumBits    : Nat
  count      : Nat
  zeroCount  : Nat
  pOff       : Int
  pCounts    : List Int
  nOff       : Int
  nCounts    : List Int
deriving Repr, Inhabited

/-- Count, sum and the zero-count-non-zero-sum warning (shared tail of both histogram converters). -/
def countSum (noRecorded hasSum : Bool) (sumBits count : Nat) : Nat × Nat × Nat :=
  if noRecorded then (staleNaN, staleNaN, 0)
  else
    let s := if hasSum then sumBits else 0
    (count, s, if count = 0 ∧ f64NonZero s then 1 else 0)

/-- `exponentialToNativeHistogram`; `none` = the scale error. Second component: number of warnings. -/
def expToNativeG (fixed : Bool) (p : ExpPoint) (t : Temp) : Option (Hist × Nat) :=
  if p.scale < schemaMin then none else
  let scaleDown : Nat := if p.scale > schemaMax then (p.scale - schemaMax).toNat else 0
  let scale := if p.scale > schemaMax then schemaMax else p.scale
  let pos := convertG fixed p.pCounts p.pOff scaleDown true
  let neg := convertG fixed p.nCounts p.nOff scaleDown true
  let hint := if t = .delta then hintGauge else hintUnknown
  let (cnt, sum, warn) := countSum p.noRecorded p.hasSum p.sumBits p.count
  some ({ hint := hint, schema := scale, ztBits := defaultZeroThresholdBits, zeroCount := p.zeroCount,
          count := cnt, sumBits := sum, pos := pos, neg := neg, custom := [] }, warn)

def expToNative := expToNativeG repoFixed

/-- `getBucketOffset`: number of leading zero buckets. -/
def bucketOffset : List Int → Nat
  | [] => 0
  | c :: cs => if c = 0 then bucketOffset cs + 1 else 0

structure ExplicitPoint where
  noRecorded : Bool
  hasSum     : Bool
  sumBits    : Nat
  count      : Nat
  bounds     : List Nat
  counts     : List Int
deriving Repr, Inhabited

/-- `explicitHistogramToCustomBucketsHistogram`. -/
def explicitToCustomG (fixed : Bool) (p : ExplicitPoint) (t : Temp) : Hist × Nat :=
  let off := bucketOffset p.counts
  let pos := convertG fixed (p.counts.drop off) off 0 false
  let hint := if t = .delta then hintGauge else hintUnknown
  let (cnt, sum, warn) := countSum p.noRecorded p.hasSum p.sumBits p.count
  ({ hint := hint, schema := customBucketsSchema, ztBits := 0, zeroCount := 0,
     count := cnt, sumBits := sum, pos := pos, neg := ([], []), custom := p.bounds }, warn)

def explicitToCustom := explicitToCustomG repoFixed

inductive NumVal
  | int (x : Int)
  | double (bits : Nat)
  | empty
deriving Repr, Inhabited

/-- The value rule of `addGaugeNumberDataPoints` / `addSumNumberDataPoints`. -/
def numberValue (v : NumVal) (noRecorded : Bool) : Nat :=
  if noRecorded then staleNaN else
  match v with
  | .int x => i64ToF64Bits x
  | .double b => b
  | .empty => 0

end Prom.Otlp
