import PromModel.Ingest.Relabel
/-
  What `QueueManager.StoreSeries` (storage/remote/queue_manager.go) does to the labels of one series
  (property C40, clause "labels = relabeled(series labels + external labels)"), core Lean only:

      t.builder.Reset(s.Labels)
      processExternalLabels(t.builder, t.externalLabels)      -- (1) merge, the series' own value wins
      keep := relabel.ProcessBuilder(t.builder, t.relabelConfigs...)   -- (2) write_relabel_configs
      if !keep { t.droppedSeries[s.Ref] = struct{}{}; continue }       -- (3) dropped: nothing is sent
      t.seriesLabels[s.Ref] = t.builder.Labels()                       -- (4) what every sample carries

  The ORDER (1) before (2) is the documented one (`write_relabel_configs` "is applied after external
  labels"): a drop/keep rule whose source label is an external label fires, and labeldrop / labelkeep /
  replace of an external label shows in what is sent.  The relabel machinery is the model of C38
  (`PromModel/Ingest/Relabel.lean`: `labels.Builder`, regex class, `ProcessBuilder`).
-/
namespace Prom.WriteRelabel
open Prom.Relabel

/-- One iteration of `processExternalLabels`. -/
def mergeOne (b : Builder) (el : Label) : Builder :=
  if b.get el.name == "" then b.set el.name el.value else b

/-- `processExternalLabels(b, externalLabels)`: a label the builder already has (non-empty) wins. -/
def mergeExt (b : Builder) (ext : List Label) : Builder := ext.foldl mergeOne b

/-- The builder `write_relabel_configs` are run on. -/
def merged (ext ls : List Label) : Builder := mergeExt (Builder.new ls) ext

/-- `StoreSeries` for one series with (sorted) labels `ls`: `none` = the ref goes to `droppedSeries`,
    `some l` = `seriesLabels[ref] = l`. -/
def storeLabels (ext : List Label) (cfgs : List Config) (ls : List Label) : Option (List Label) :=
  let r := process cfgs (merged ext ls)
  if r.1 then some r.2.labels else none

/-- The order the seeded mistake produces (relabel first, external labels merged into what is kept);
    only used to state that the order matters (`C40.relabel_order_matters_witness`). -/
def storeLabelsRelabelFirst (ext : List Label) (cfgs : List Config) (ls : List Label) : Option (List Label) :=
  let r := process cfgs (Builder.new ls)
  if r.1 then some (mergeExt r.2 ext).labels else none

end Prom.WriteRelabel
