/-
  Model of the fanout storage (property C54): storage/fanout.go (`fanout.Querier`, `fanoutAppender`,
  `fanoutAppenderV2`), storage/secondary.go (`secondaryQuerier`), storage/merge.go (`NewMergeQuerier`,
  `mergeGenericQuerier.Select/LabelValues/LabelNames`, `genericMergeSeriesSet`), storage/lazy.go.

  Storages are *scripted objects*: data (series sorted by label id, samples sorted by timestamp) plus a
  failure script (`Fault`).  Index 0 is the primary, index p+1 the p-th secondary.

  What is transcribed and what is abstracted:
  * `fanout.Querier`: primary creation error is returned as is; a secondary creation error closes the
    primary and the secondaries created so far (`mkQuerier`).
  * `mergeGenericQuerier.Select` collects the sets of all queriers in the *arrival order* of the concurrent
    Selects (`ord`, an input: the scheduler's choice).  `newGenericMergeSeriesSet` pre-advances every set in
    that order and returns `errorOnlySeriesSet` at the first set whose `Err()` is non-nil — only the primary
    can do that, because `secondaryQuerier` turns first-`Next` failures into warnings (`drain`).
  * `secondaryQuerier.Select`: the sets of one secondary are probed together under `sync.Once` at the first
    `Next` of any of them (`SecQ.probe`): a failure of the first `Next` of ANY set replaces the set being
    initialised (`curr`) by a warnings-only set and all others by no-op sets; an exhausted set becomes an
    (empty) warnings-only set; otherwise the set stays (already advanced by one).
  * `genericMergeSeriesSet.Next` never looks at `Err()`: a set whose `Next` returns false is dropped.  A
    scripted set therefore contributes the series it emits before its failure point (`SetScript.emitted`),
    and `Err()` of the merged set, asked after exhaustion, is the error of the first set in arrival order
    that failed (`firstErr`).  This is where finding F10 lives: a secondary failing at its k-th `Next`, k ≥ 2,
    has already contributed k-1 series and fails the query.
  * The heap-based k-way merge and `ChainedSeriesMerge`/`chainSampleIterator` are abstracted to the sorted
    de-duplicating union (`mergeSeries`, `mergeAll`; that they coincide is C19's subject and is re-checked
    against the real code by the correspondence).  Assumption: equal (label set, timestamp) pairs carry equal
    values in all storages (the generator guarantees it), so which duplicate wins is immaterial.
  * `fanoutAppender.Append*`: primary first, its ref is handed to every secondary, the first secondary error
    aborts (V1 returns ref 0, V2 returns the primary's ref).  `Commit`: primary first; each secondary commits
    only while no error has occurred, otherwise it is rolled back.  `Rollback`: everybody, first error wins.
-/
namespace Prom.Fanout

/-! ## data -/

abbrev Sample := Int × Int          -- (timestamp, value)

structure Series where
  lid : Nat
  samples : List Sample
deriving Repr, DecidableEq, Inhabited

inductive Fault where
  | create                -- `Querier()` fails
  | sel (j : Nat)         -- the j-th Select returns an error-only set
  | next (j k : Nat)      -- the k-th Next (k ≥ 1) of the set of the j-th Select fails
  | lv | ln               -- LabelValues / LabelNames fail
  | app (k : Nat)         -- the k-th append call of an appender fails
  | commit | rollback
deriving Repr, DecidableEq, Inhabited

structure Storage where
  faults : List Fault
  data : List Series
deriving Repr, DecidableEq, Inhabited

/-! ## sorted de-duplicating union -/

/-- Insert into a list sorted by `key`, combining with an existing element of equal key (`comb old new`). -/
def insertK {α : Type} (key : α → Int) (comb : α → α → α) (x : α) : List α → List α
  | [] => [x]
  | y :: ys =>
    if key x < key y then x :: y :: ys
    else if key x = key y then comb y x :: ys
    else y :: insertK key comb x ys

/-- Union of two sorted keyed lists: every element of `a` is inserted into `b`. -/
def unionK {α : Type} (key : α → Int) (comb : α → α → α) (a b : List α) : List α :=
  a.foldr (insertK key comb) b

/-- `ChainedSeriesMerge` on samples: union by timestamp, one sample per timestamp. -/
def mergeSamples (a b : List Sample) : List Sample := unionK (·.1) (fun old _ => old) a b

def combSeries (old new : Series) : Series := { lid := old.lid, samples := mergeSamples new.samples old.samples }

/-- Merge of two series lists sorted by label id (`genericMergeSeriesSet` over two sets). -/
def mergeSeries (a b : List Series) : List Series := unionK (fun s => (s.lid : Int)) combSeries a b

def mergeAll (ls : List (List Series)) : List Series := ls.foldr mergeSeries []

/-! ## scripted series sets -/

/-- What one storage returns from one `Select`. -/
structure SetScript where
  data : List Series
  selErr : Bool
  failAt : Option Nat
deriving Repr, DecidableEq, Inhabited

def SetScript.firstFails (s : SetScript) : Bool := s.selErr || s.failAt == some 1

/-- Series handed out before the failure point (all of them if the script never fails). -/
def SetScript.emitted (s : SetScript) : List Series :=
  if s.selErr then [] else
  match s.failAt with
  | some k => s.data.take (k - 1)
  | none => s.data

/-- Does iterating the set to its end hit the failure? (`Next` number `k` is reached iff `k ≤ len + 1`.) -/
def SetScript.errs (s : SetScript) : Bool :=
  s.selErr || match s.failAt with
    | some k => decide (1 ≤ k ∧ k ≤ s.data.length + 1)
    | none => false

def maskSel (mask : Option (List Nat)) (d : List Series) : List Series :=
  match mask with
  | none => d
  | some m => d.filter fun s => m.contains s.lid

def nextFault (faults : List Fault) (j : Nat) : Option Nat :=
  faults.findSome? fun f => match f with
    | .next j' k => if j' = j then some k else none
    | _ => none

def Storage.select (st : Storage) (j : Nat) (mask : Option (List Nat)) : SetScript :=
  { data := maskSel mask st.data, selErr := st.faults.contains (.sel j), failAt := nextFault st.faults j }

/-! ## secondaryQuerier -/

inductive LazySt where
  | real      -- the wrapped set itself (first Next succeeded)
  | warn      -- warningsOnlySeriesSet carrying the secondary's error
  | quiet     -- noopGenericSeriesSet, or warningsOnlySeriesSet of an exhausted set (no warnings)
deriving Repr, DecidableEq, Inhabited

/-- One secondary querier: the sets its Selects returned (`asyncSets`) and, once `sync.Once` has run,
    what each of them was replaced by. -/
structure SecQ where
  sets : List SetScript
  lazy : Option (List LazySt)
deriving Repr, DecidableEq, Inhabited

def probeStates (curr : Nat) (sets : List SetScript) : List LazySt :=
  if sets.any (·.firstFails) then
    (List.range sets.length).map fun i => if i = curr then LazySt.warn else LazySt.quiet
  else
    sets.map fun s => if s.data.isEmpty then LazySt.quiet else LazySt.real

/-- First `Next` of the lazy set number `curr` of this secondary (`once.Do` body; no-op when done). -/
def SecQ.probe (s : SecQ) (curr : Nat) : SecQ :=
  match s.lazy with
  | some _ => s
  | none => { s with lazy := some (probeStates curr s.sets) }

def SecQ.state (s : SecQ) (j : Nat) : Option LazySt := s.lazy.bind (·[j]?)

/-- Series the secondary contributes to the merged set of Select `j`. -/
def SecQ.contrib (s : SecQ) (j : Nat) : List Series :=
  if s.state j = some .real then (s.sets.getD j default).emitted else []

def SecQ.errsAt (s : SecQ) (j : Nat) : Bool :=
  s.state j = some .real && (s.sets.getD j default).errs

def SecQ.warnsAt (s : SecQ) (j : Nat) : Bool := s.state j = some .warn

/-! ## the merge querier -/

structure QSt where
  prim : List SetScript          -- primary's sets, one per Select
  secs : List SecQ
  ords : List (List Nat)         -- arrival order of each Select
  drained : Bool
deriving Repr, DecidableEq, Inhabited

/-- Storages whose set is pre-advanced by `newGenericMergeSeriesSet` before it returns: everything in
    arrival order, cut after the primary when the primary's first `Next` fails. -/
def reached (ord : List Nat) (primFails : Bool) : List Nat :=
  if primFails then ord.takeWhile (· ≠ 0) else ord

/-- Probe every secondary (index `i`, `i+1`, …) whose storage index occurs in `rs`. -/
def probeAll (rs : List Nat) (j : Nat) : Nat → List SecQ → List SecQ
  | _, [] => []
  | i, s :: rest => (if rs.contains i then s.probe j else s) :: probeAll rs j (i + 1) rest

def errOf (prim : SetScript) (secs : List SecQ) (j : Nat) (idx : Nat) : Bool :=
  match idx with
  | 0 => prim.errs
  | p + 1 => match secs[p]? with
    | some s => s.errsAt j
    | none => false

def firstErr (prim : SetScript) (secs : List SecQ) (j : Nat) (ord : List Nat) : Option Nat :=
  ord.find? (errOf prim secs j)

def warnIdx (j : Nat) : Nat → List SecQ → List Nat
  | _, [] => []
  | i, s :: rest => (if s.warnsAt j then [i] else []) ++ warnIdx j (i + 1) rest

structure DrainOut where
  series : List Series
  err : Option Nat
  warn : List Nat
deriving Repr, DecidableEq, Inhabited

/-- Iterate the merged set of Select `j` to exhaustion, then ask `Err()` and `Warnings()`. -/
def drain (prim : SetScript) (secs : List SecQ) (ord : List Nat) (j : Nat) : List SecQ × DrainOut :=
  let secs' := probeAll (reached ord prim.firstFails) j 1 secs
  if prim.firstFails then
    (secs', { series := [], err := some 0, warn := [] })      -- errorOnlySeriesSet
  else
    (secs', { series := mergeAll (prim.emitted :: secs'.map (·.contrib j)),
              err := firstErr prim secs' j ord,
              warn := warnIdx j 1 secs' })

/-- With no secondary, `NewMergeQuerier` returns the primary querier itself. -/
def drainPrimaryOnly (prim : SetScript) : DrainOut :=
  { series := prim.emitted, err := if prim.errs then some 0 else none, warn := [] }

/-! ## fanout.Querier -/

def Storage.createFails (s : Storage) : Bool := s.faults.contains .create

/-- `none` = success; `some (i, closed)` = creation of storage `i` failed after closing `closed`. -/
def mkQuerierSecs : Nat → List Storage → Option (Nat × List Nat)
  | _, [] => none
  | i, s :: rest =>
    if s.createFails then some (i, List.range i) else mkQuerierSecs (i + 1) rest

def mkQuerier (prim : Storage) (secs : List Storage) : Option (Nat × List Nat) :=
  if prim.createFails then some (0, []) else mkQuerierSecs 1 secs

/-! ## label queries (`mergeGenericQuerier.mergeResults`, `secondaryQuerier.LabelValues/LabelNames`) -/

def insertS (x : String) : List String → List String
  | [] => [x]
  | y :: ys => if x < y then x :: y :: ys else if x = y then y :: ys else y :: insertS x ys

def unionS (a b : List String) : List String := a.foldr insertS b

def labelNamesOf (lid : Nat) : List String := ["l", "x" ++ toString (lid % 3)]

def Storage.labelVals (s : Storage) : List String := unionS (s.data.map fun x => toString x.lid) []
def Storage.labelNames (s : Storage) : List String := unionS (s.data.flatMap fun x => labelNamesOf x.lid) []

structure LabelOut where
  err : Option Nat
  vals : List String
  warn : List Nat
deriving Repr, DecidableEq, Inhabited

def labelSecs (fault : Fault) (get : Storage → List String) : Nat → List Storage → List String × List Nat
  | _, [] => ([], [])
  | i, s :: rest =>
    let (v, w) := labelSecs fault get (i + 1) rest
    if s.faults.contains fault then (v, i :: w) else (unionS (get s) v, w)

def labelQuery (fault : Fault) (get : Storage → List String) (prim : Storage) (secs : List Storage) : LabelOut :=
  if prim.faults.contains fault then { err := some 0, vals := [], warn := [] } else
  let (v, w) := labelSecs fault get 1 secs
  { err := none, vals := unionS (get prim) v, warn := w }

/-! ## fanoutAppender -/

structure Rec where
  kind : String
  lid : Nat
  t : Int
  v : Int
deriving Repr, DecidableEq, Inhabited

/-- One scripted appender: number of append calls so far and the pending (uncommitted) records. -/
structure FakeApp where
  n : Nat
  pending : List Rec
deriving Repr, DecidableEq, Inhabited

def appFault (faults : List Fault) : Option Nat :=
  faults.findSome? fun f => match f with
    | .app k => some k
    | _ => none

/-- A scripted storage's append: `(new state, returned ref, failed?)`. -/
def fakeAppend (idx : Nat) (st : Storage) (a : FakeApp) (ref : Nat) (r : Rec) : FakeApp × Nat × Bool :=
  let n := a.n + 1
  if appFault st.faults = some n then ({ a with n := n }, 900 + idx, true)
  else ({ n := n, pending := a.pending ++ [r] }, if ref ≠ 0 then ref else 100 * (idx + 1) + r.lid, false)

structure AppendOut where
  ref : Nat
  err : Option Nat
  saw : List (Option Nat)     -- ref each storage was called with (`none` = not called)
deriving Repr, DecidableEq, Inhabited

/-- Secondaries in order; stops at the first error. Returns new appender states, the failing index, refs seen. -/
def appendSecs (ref : Nat) (r : Rec) : Nat → List Storage → List FakeApp → List FakeApp × Option Nat × List (Option Nat)
  | i, st :: sts, a :: as =>
    let (a', _, failed) := fakeAppend i st a ref r
    if failed then (a' :: as, some i, some ref :: as.map fun _ => none)
    else
      let (as', e, saw) := appendSecs ref r (i + 1) sts as
      (a' :: as', e, some ref :: saw)
  | _, _, as => (as, none, as.map fun _ => none)

/-- `fanoutAppender.Append*` (`v2 = false`) / `fanoutAppenderV2.Append` (`v2 = true`). -/
def fanoutAppend (v2 : Bool) (prim : Storage) (secs : List Storage) (pa : FakeApp) (sas : List FakeApp)
    (ref : Nat) (r : Rec) : FakeApp × List FakeApp × AppendOut :=
  let (pa', pref, pfailed) := fakeAppend 0 prim pa ref r
  if pfailed then (pa', sas, { ref := pref, err := some 0, saw := some ref :: sas.map fun _ => none })
  else
    let (sas', e, saw) := appendSecs pref r 1 secs sas
    match e with
    | some i => (pa', sas', { ref := if v2 then pref else 0, err := some i, saw := some ref :: saw })
    | none => (pa', sas', { ref := pref, err := none, saw := some ref :: saw })

inductive Call where | commit | rollback | nothing
deriving Repr, DecidableEq, Inhabited

structure TxOut where
  err : Option Nat
  calls : List Call
  committed : List (List Rec)    -- what each storage added to its committed data
deriving Repr, DecidableEq, Inhabited

def Storage.commitFails (s : Storage) : Bool := s.faults.contains .commit
def Storage.rollbackFails (s : Storage) : Bool := s.faults.contains .rollback

/-- The loop of `fanoutAppender.Commit` over the secondaries, `err` being the error so far. -/
def commitSecs (err : Option Nat) : Nat → List Storage → List FakeApp → Option Nat × List Call × List (List Rec)
  | i, st :: sts, a :: as =>
    match err with
    | none =>
      let err' := if st.commitFails then some i else none
      let (e, cs, ds) := commitSecs err' (i + 1) sts as
      (e, Call.commit :: cs, (if st.commitFails then [] else a.pending) :: ds)
    | some _ =>
      let (e, cs, ds) := commitSecs err (i + 1) sts as
      (e, Call.rollback :: cs, [] :: ds)
  | _, _, _ => (err, [], [])

def fanoutCommit (prim : Storage) (secs : List Storage) (pa : FakeApp) (sas : List FakeApp) : TxOut :=
  let err := if prim.commitFails then some 0 else none
  let (e, cs, ds) := commitSecs err 1 secs sas
  { err := e, calls := Call.commit :: cs, committed := (if prim.commitFails then [] else pa.pending) :: ds }

def rollbackSecs (err : Option Nat) : Nat → List Storage → Option Nat
  | _, [] => err
  | i, st :: sts =>
    rollbackSecs (match err with
      | none => if st.rollbackFails then some i else none
      | some e => some e) (i + 1) sts

def fanoutRollback (prim : Storage) (secs : List Storage) : TxOut :=
  { err := rollbackSecs (if prim.rollbackFails then some 0 else none) 1 secs,
    calls := Call.rollback :: secs.map fun _ => Call.rollback,
    committed := [] :: secs.map fun _ => [] }

end Prom.Fanout
