import PromModel.Tsdb.Merge
import PromModel.Tsdb.Intervals
/-
  Model of the remote-read data path (property C42): `storage/remote/codec.go`, `read_handler.go`,
  `read.go`, `chunked.go`.

  * external labels / matchers: `querier.addExternalLabels`, the required-matchers gate of
    `querier.Select`, `filterExtLabelsFromMatchers` (server), `MergeLabels` (server), `seriesFilter.Labels`
    (client strips the names it added).
  * sampled path: `ToQueryResult` (split into float and histogram arrays, cumulative sample limit), the
    protobuf wire (proto3 omits a double that compares equal to 0, so `-0.0` arrives as `+0.0`),
    `FromQueryResult` (`validateLabelsAndMetricName`, sort by labels), `concreteSeriesIterator`
    (`Next`/`Seek` transcribed with their cursors; `interleave` is what draining it returns).
  * chunked path: `StreamChunkedReadResponses` (frames cut by the byte budget `maxBytesInFrame −
    Σ label.Size()`, charged with `Chunk.Size()`; a series that does not fit is split over several frames
    that repeat the labels), `chunkedSeriesSet.Next` (one series PER FRAME — finding F22; `fixed = true`
    merges adjacent frames with equal labels), `chunkedSeriesIterator` (`Next`/`Seek` transcribed;
    `trimWalk` is what draining it returns).
  * `chunked.go` frame layout: uvarint length, big-endian CRC32 (uninterpreted `crc`), payload.

  Chunks are abstract: (mint, maxt, encoding, byte length, decoded samples).  Histogram payloads are the
  opaque ids of `Prom.Merge.Sample`.
-/
namespace Prom.ReadCodec
open Prom.Merge (Sample Kind Labels)

def MaxI64 : Int := 9223372036854775807
def MinI64 : Int := -9223372036854775808
def negZeroBits : Nat := 0x8000000000000000

/-! ## Labels and matchers -/

/-- `MergeLabels(primary, secondary)`: both sorted by name, primary wins (`fuel` ≥ the two lengths). -/
def mergeLabelsF : Nat → Labels → Labels → Labels
  | 0, p, s => p ++ s
  | _ + 1, [], s => s
  | _ + 1, p :: pr, [] => p :: pr
  | fuel + 1, p :: pr, s :: sr =>
    if p.1 < s.1 then p :: mergeLabelsF fuel pr (s :: sr)
    else if s.1 < p.1 then s :: mergeLabelsF fuel (p :: pr) sr
    else p :: mergeLabelsF fuel pr sr

def mergeLabels (p s : Labels) : Labels := mergeLabelsF (p.length + s.length) p s

inductive MT | eq | ne | re | nre
deriving DecidableEq, Repr, Inhabited

structure Matcher where
  ty : MT
  name : String
  value : String
deriving DecidableEq, Repr, Inhabited

/-- `querier.addExternalLabels`: external labels without a user matcher of that name become equality
    matchers; returns the matchers and the names that were added. -/
def addExternalLabels (ms : List Matcher) (ext : Labels) : List Matcher × List String :=
  let el := ext.filter fun l => !ms.any fun m => m.name = l.1
  (ms ++ el.map (fun l => ⟨.eq, l.1, l.2⟩), el.map (·.1))

/-- remove the first element satisfying `p` -/
def removeFirst (p : α → Bool) : List α → List α
  | [] => []
  | x :: xs => if p x then xs else x :: removeFirst p xs

/-- the required-matchers loop of `querier.Select`: what is left unmatched -/
def requiredLeft (req ms : List Matcher) : List Matcher :=
  ms.foldl (fun req m => removeFirst (fun r => m.ty = .eq ∧ m.name = r.name ∧ m.value = r.value) req) req

def lookup (ls : Labels) (n : String) : String :=
  match ls.find? (·.1 = n) with
  | some l => l.2
  | none => ""

/-- `filterExtLabelsFromMatchers` -/
def filterExt (ms : List Matcher) (ext : Labels) : List Matcher :=
  ms.map fun m => if m.ty = .eq ∧ lookup ext m.name = m.value then ⟨.eq, m.name, ""⟩ else m

/-- `seriesFilter.Labels`: `Builder.Del(names…)` -/
def stripNames (names : List String) (ls : Labels) : Labels :=
  ls.filter fun l => !names.contains l.1

/-- `validateLabelsAndMetricName` (UTF-8 validity is not modelled): empty names, an empty metric
    name and adjacent duplicate names are rejected. -/
def validLabels : Labels → Bool
  | [] => true
  | [l] => l.1 ≠ "" && !(l.1 = "__name__" && l.2 = "")
  | l :: l' :: rest => l.1 ≠ "" && !(l.1 = "__name__" && l.2 = "") && l.1 ≠ l'.1 && validLabels (l' :: rest)

/-! ## Series -/

structure Series where
  labels : Labels
  samples : List Sample
deriving DecidableEq, Repr, Inhabited

/-- stable insertion sort by `labels.Compare` of a key (what `slices.SortFunc` returns for distinct
    label sets) -/
def insertBy (key : α → Labels) (x : α) : List α → List α
  | [] => [x]
  | y :: ys => if Labels.compare (key x) (key y) != .gt then x :: y :: ys else y :: insertBy key x ys

def sortBy (key : α → Labels) : List α → List α
  | [] => []
  | x :: xs => insertBy key x (sortBy key xs)

def sortSeries (ss : List Series) : List Series := sortBy (·.labels) ss

/-! ## Sampled path -/

/-- `prompb.Sample` -/
structure PF where
  t : Int
  bits : Nat
deriving DecidableEq, Repr, Inhabited

/-- `prompb.Histogram` (payload opaque; `isFloat` = which count oneof is set) -/
structure PH where
  t : Int
  isFloat : Bool
  payload : Nat
deriving DecidableEq, Repr, Inhabited

/-- `prompb.TimeSeries` -/
structure PbSeries where
  labels : Labels
  floats : List PF
  hists : List PH
deriving DecidableEq, Repr, Inhabited

def splitFloats : List Sample → List PF
  | [] => []
  | s :: r => match s.kind with
    | .float => ⟨s.t, s.payload⟩ :: splitFloats r
    | _ => splitFloats r

def splitHists : List Sample → List PH
  | [] => []
  | s :: r => match s.kind with
    | .float => splitHists r
    | .hist => ⟨s.t, false, s.payload⟩ :: splitHists r
    | .fhist => ⟨s.t, true, s.payload⟩ :: splitHists r

inductive RErr | limit | invalidLabels
deriving DecidableEq, Repr, Inhabited

/-- `ToQueryResult`: the sample counter runs over all series; `limit ≤ 0` = no limit. -/
def toQueryResultAux (limit : Int) : Nat → List Series → Except RErr (List PbSeries)
  | _, [] => .ok []
  | n, s :: rest =>
    let n' := n + s.samples.length
    if limit > 0 ∧ (n' : Int) > limit then .error .limit
    else match toQueryResultAux limit n' rest with
      | .ok r => .ok (⟨s.labels, splitFloats s.samples, splitHists s.samples⟩ :: r)
      | .error e => .error e

def toQueryResult (ss : List Series) (limit : Int) : Except RErr (List PbSeries) :=
  toQueryResultAux limit 0 ss

/-- proto3 marshalling of `Sample.value`: a field equal to zero (`-0.0 == 0`) is omitted. -/
def wireFloat (f : PF) : PF := if f.bits = negZeroBits then ⟨f.t, 0⟩ else f

def wire (ps : List PbSeries) : List PbSeries :=
  ps.map fun p => { p with floats := p.floats.map wireFloat }

def PF.sample (f : PF) : Sample := ⟨f.t, .float, f.bits⟩
def PH.sample (h : PH) : Sample := ⟨h.t, if h.isFloat then .fhist else .hist, h.payload⟩

/-- What draining a fresh `concreteSeriesIterator` returns: floats and histograms interleaved by
    timestamp; on a tie the float wins and the histogram is skipped. -/
def interleave : List PF → List PH → List Sample
  | [], [] => []
  | f :: fr, [] => f.sample :: interleave fr []
  | [], h :: hr => h.sample :: interleave [] hr
  | f :: fr, h :: hr =>
    if f.t < h.t then f.sample :: interleave fr (h :: hr)
    else if h.t < f.t then h.sample :: interleave (f :: fr) hr
    else f.sample :: interleave fr hr
termination_by fs hs => fs.length + hs.length

/-- `FromQueryResult` followed by draining every series. -/
def fromQueryResult (sort : Bool) (ps : List PbSeries) : Except RErr (List Series) :=
  if ps.all (fun p => validLabels p.labels) then
    .ok ((if sort then sortBy (·.labels) ps else ps).map fun p => (⟨p.labels, interleave p.floats p.hists⟩ : Series))
  else .error .invalidLabels

/-! ### `concreteSeriesIterator`, transcribed -/

inductive VT | none | float | hist | fhist
deriving DecidableEq, Repr, Inhabited

structure CIt where
  floats : List PF
  hists : List PH
  fc : Int := -1
  hc : Int := -1
  cur : VT := .none
deriving Repr, Inhabited

def CIt.fresh (p : PbSeries) : CIt := { floats := p.floats, hists := p.hists }

def fAt (xs : List PF) (i : Int) : PF := if i < 0 then default else xs.getD i.toNat default
def hAt (xs : List PH) (i : Int) : PH := if i < 0 then default else xs.getD i.toNat default

/-- the current sample (`At`/`AtHistogram`/`AtFloatHistogram`) -/
def CIt.at (c : CIt) : Option Sample :=
  match c.cur with
  | .none => none
  | .float => some (fAt c.floats c.fc).sample
  | _ => some (hAt c.hists c.hc).sample

/-- `setCurrentHistogram` (all generated histograms validate) -/
def CIt.setHist (c : CIt) : CIt :=
  if c.cur = .hist then { c with cur := if (hAt c.hists c.hc).isFloat then .fhist else .hist } else c

/-- `Next` -/
def CIt.next (c : CIt) : CIt :=
  let nf : Int := c.floats.length
  let nh : Int := c.hists.length
  let peekF := if c.fc + 1 < nf then (fAt c.floats (c.fc + 1)).t else MaxI64
  let peekH := if c.hc + 1 < nh then (hAt c.hists (c.hc + 1)).t else MaxI64
  let c' : CIt :=
    if peekF < peekH then { c with fc := c.fc + 1, cur := .float }
    else if peekH < peekF then { c with hc := c.hc + 1, cur := .hist }
    else if peekF = MaxI64 ∧ peekH = MaxI64 then { c with fc := nf, hc := nh, cur := .none }
    else { c with fc := c.fc + 1, hc := c.hc + 1, cur := .float }
  c'.setHist

/-- `Seek` -/
def CIt.seek (c : CIt) (t : Int) : CIt :=
  let nf : Int := c.floats.length
  let nh : Int := c.hists.length
  let c := { c with fc := if c.fc = -1 then 0 else c.fc, hc := if c.hc = -1 then 0 else c.hc }
  if c.fc ≥ nf ∧ c.hc ≥ nh then { c with cur := .none }   -- Go returns ValNone without touching curValType
  else if (c.cur = .float ∧ (fAt c.floats c.fc).t ≥ t) ∨
          ((c.cur = .hist ∨ c.cur = .fhist) ∧ (hAt c.hists c.hc).t ≥ t) then c
  else
    let fc := c.fc + (Prom.Intervals.goSearch (nf - c.fc).toNat fun n => decide ((fAt c.floats (n + c.fc)).t ≥ t))
    let hc := c.hc + (Prom.Intervals.goSearch (nh - c.hc).toNat fun n => decide ((hAt c.hists (n + c.hc)).t ≥ t))
    let c' : CIt :=
      if fc < nf ∧ hc < nh then
        let ft := (fAt c.floats fc).t
        let ht := (hAt c.hists hc).t
        let ty : VT := if ft ≤ ht then .float else .hist
        if ft ≠ ht then
          if ty = .float then { c with fc := fc, hc := hc - 1, cur := ty } else { c with fc := fc - 1, hc := hc, cur := ty }
        else { c with fc := fc, hc := hc, cur := ty }
      else if fc < nf then { c with fc := fc, hc := hc, cur := .float }
      else if hc < nh then { c with fc := fc, hc := hc, cur := .hist }
      else { c with fc := fc, hc := hc, cur := .none }
    c'.setHist

/-! ## Chunked path -/

structure RChunk where
  mint : Int
  maxt : Int
  enc : Nat
  len : Nat
  samples : List Sample
deriving DecidableEq, Repr, Inhabited

structure ChunkSeries where
  labels : Labels
  chunks : List RChunk
deriving DecidableEq, Repr, Inhabited

/-- `sovTypes(x) = (bits.Len64(x|1) + 6) / 7`: the number of 7-bit groups of `x` (x < 2^64) -/
def sovAux : Nat → Nat → Nat
  | 0, _ => 1
  | fuel + 1, x => if x < 128 then 1 else 1 + sovAux fuel (x / 128)

def sov (x : Nat) : Nat := sovAux 9 x

def u64 (x : Int) : Nat := (x % 18446744073709551616).toNat

def strSize (s : String) : Nat :=
  let l := s.utf8ByteSize
  if l > 0 then 1 + l + sov l else 0

/-- `prompb.Label.Size()` -/
def labelSize (l : String × String) : Nat := strSize l.1 + strSize l.2

/-- `prompb.Chunk.Size()` -/
def chunkSize (c : RChunk) : Nat :=
  (if c.mint ≠ 0 then 1 + sov (u64 c.mint) else 0) + (if c.maxt ≠ 0 then 1 + sov (u64 c.maxt) else 0) +
  (if c.enc ≠ 0 then 1 + sov c.enc else 0) + (if c.len > 0 then 1 + c.len + sov c.len else 0)

/-- the inner loop of `StreamChunkedReadResponses` for one series: `left` = `frameBytesLeft`,
    `acc` = `chks` (reversed). A frame is cut when the budget is used up or the series ends. -/
def framesAux (maxData : Int) : Int → List RChunk → List RChunk → List (List RChunk)
  | _, _, [] => []
  | left, acc, c :: rest =>
    let left' := left - chunkSize c
    match rest with
    | [] => [(c :: acc).reverse]
    | _ :: _ =>
      if left' > 0 then framesAux maxData left' (c :: acc) rest
      else (c :: acc).reverse :: framesAux maxData maxData [] rest

structure Frame where
  labels : Labels
  chunks : List RChunk
deriving DecidableEq, Repr, Inhabited

def maxDataLength (maxBytes : Int) (lbls : Labels) : Int :=
  maxBytes - ((lbls.map labelSize).sum : Nat)

def streamSeries (ext : Labels) (maxBytes : Int) (s : ChunkSeries) : List Frame :=
  let lbls := mergeLabels s.labels ext
  (framesAux (maxDataLength maxBytes lbls) (maxDataLength maxBytes lbls) [] s.chunks).map fun cs => ⟨lbls, cs⟩

/-- `StreamChunkedReadResponses` -/
def stream (ext : Labels) (maxBytes : Int) (ss : List ChunkSeries) : List Frame :=
  ss.flatMap (streamSeries ext maxBytes)

/-- The repaired `chunkedSeriesSet.Next`: adjacent frames with equal labels are one series. -/
def mergeAdj : List Frame → List Frame
  | [] => []
  | f :: rest =>
    match mergeAdj rest with
    | [] => [f]
    | g :: gs => if f.labels = g.labels then ⟨f.labels, f.chunks ++ g.chunks⟩ :: gs else f :: g :: gs

/-- `chunkedSeriesSet`: the series the client hands out (`fixed = false`: one per frame). -/
def clientFrames (fixed : Bool) (fs : List Frame) : List Frame := if fixed then mergeAdj fs else fs

/-- What draining a `chunkedSeriesIterator` returns: the decoded samples of all chunks in order; stops
    at the first timestamp above `maxt`, skips timestamps below `mint`. -/
def trimWalk (mint maxt : Int) : List Sample → List Sample
  | [] => []
  | s :: r => if s.t > maxt then [] else if s.t ≥ mint then s :: trimWalk mint maxt r else trimWalk mint maxt r

def decodeFrame (mint maxt : Int) (f : Frame) : Series :=
  ⟨f.labels, trimWalk mint maxt (f.chunks.flatMap (·.samples))⟩

/-- client side of a streamed read -/
def decodeFrames (fixed : Bool) (mint maxt : Int) (fs : List Frame) : List Series :=
  (clientFrames fixed fs).map (decodeFrame mint maxt)

/-! ### `chunkedSeriesIterator`, transcribed -/

/-- `it.cur`: a chunk iterator (`atT` is `MinInt64` before the first `Next` and for the nop iterator, the
    last timestamp read afterwards) -/
structure Inner where
  rest : List Sample
  atT : Int
deriving Repr, Inhabited

structure KIt where
  chunks : List RChunk
  idx : Nat
  inner : Inner
  val : Option Sample
  mint : Int
  maxt : Int
deriving Repr, Inhabited

/-- `resetIterator` -/
def KIt.resetInner (it : KIt) : KIt :=
  match it.chunks[it.idx]? with
  | some c => { it with inner := ⟨c.samples, MinI64⟩ }
  | none => { it with inner := ⟨[], MinI64⟩ }

def KIt.fresh (chunks : List RChunk) (mint maxt : Int) : KIt :=
  let it : KIt := { chunks, idx := 0, inner := ⟨[], MinI64⟩, val := none, mint, maxt }
  if chunks.isEmpty then it else it.resetInner

/-- the `for it.valType = it.cur.Next(); …` loop; `lo` is the lower bound a sample must reach.
    Result: the iterator and whether the loop returned (`true`) or fell through (`false`). -/
def scanInner (maxt : Int) (lo : Int) : List Sample → Int → (Inner × Option Sample × Bool × Bool)
  | [], atT => (⟨[], atT⟩, none, false, false)
  | s :: r, _ =>
    if s.t > maxt then (⟨r, s.t⟩, none, true, true)        -- returned, exhausted (`it.chunks = nil`)
    else if s.t ≥ lo then (⟨r, s.t⟩, some s, true, false)
    else scanInner maxt lo r s.t

/-- `Next`; `fuel` bounds the recursion over chunks. -/
def KIt.next : Nat → KIt → KIt
  | 0, it => { it with val := none }
  | fuel + 1, it =>
    if it.chunks.isEmpty then { it with val := none } else
    match scanInner it.maxt it.mint it.inner.rest it.inner.atT with
    | (inner, v, true, exhausted) =>
      if exhausted then { it with inner := inner, val := none, chunks := [] } else { it with inner := inner, val := v }
    | (inner, _, false, _) =>
      let it := { it with inner := inner, val := none }
      if it.idx + 1 ≥ it.chunks.length then it
      else KIt.next fuel ({ it with idx := it.idx + 1 }).resetInner

def KIt.next' (it : KIt) : KIt := KIt.next (it.chunks.length + 1) it

/-- `Seek` -/
def KIt.seek (it : KIt) (t : Int) : KIt :=
  if it.chunks.isEmpty then { it with val := none } else
  let start := it.idx
  let idx := start + Prom.Intervals.goSearch (it.chunks.length - start) fun i =>
    decide ((it.chunks.getD (start + i) default).maxt ≥ t)
  let it := if idx > start then ({ it with idx := idx }).resetInner else it
  if idx ≤ start ∧ it.inner.atT ≥ t then it
  else
    match scanInner it.maxt (max t it.mint) it.inner.rest it.inner.atT with
    | (inner, v, true, exhausted) =>
      if exhausted then { it with inner := inner, val := none, chunks := [] } else { it with inner := inner, val := v }
    | (inner, _, false, _) => { it with inner := inner, val := none }

/-! ## `chunked.go`: frame layout on the wire -/

/-- uvarint (LEB128) of a length -/
def uvarint : Nat → Nat → List UInt8
  | 0, n => [UInt8.ofNat (n % 128)]
  | fuel + 1, n => if n < 128 then [UInt8.ofNat n] else UInt8.ofNat (n % 128 + 128) :: uvarint fuel (n / 128)

def be32 (n : Nat) : List UInt8 :=
  [UInt8.ofNat (n / 16777216 % 256), UInt8.ofNat (n / 65536 % 256), UInt8.ofNat (n / 256 % 256), UInt8.ofNat (n % 256)]

/-- `ChunkedWriter.Write`: nothing for an empty message -/
def writeFrame (crc : List UInt8 → Nat) (b : List UInt8) : List UInt8 :=
  if b.isEmpty then [] else uvarint 9 b.length ++ be32 (crc b) ++ b

inductive FrameErr | eof | unexpectedEof | tooLarge | checksum | varint
deriving DecidableEq, Repr, Inhabited

def readUvarint : Nat → Nat → Nat → List UInt8 → Option (Nat × List UInt8)
  | 0, _, _, _ => none
  | _ + 1, _, _, [] => none
  | fuel + 1, shift, acc, b :: rest =>
    if b.toNat < 128 then some (acc + b.toNat * 2 ^ shift, rest)
    else readUvarint fuel (shift + 7) (acc + (b.toNat - 128) * 2 ^ shift) rest

/-- `ChunkedReader.Next` -/
def readFrame (crc : List UInt8 → Nat) (limit : Nat) (bs : List UInt8) : Except FrameErr (List UInt8 × List UInt8) :=
  if bs.isEmpty then .error .eof else
  match readUvarint 10 0 0 bs with
  | none => .error .varint
  | some (size, rest) =>
    if size > limit then .error .tooLarge else
    match rest with
    | a :: b :: c :: d :: rest' =>
      if rest'.length < size then .error .unexpectedEof else
      let data := rest'.take size
      if crc data % 4294967296 = a.toNat * 16777216 + b.toNat * 65536 + c.toNat * 256 + d.toNat
      then .ok (data, rest'.drop size) else .error .checksum
    | _ => .error .unexpectedEof

end Prom.ReadCodec
