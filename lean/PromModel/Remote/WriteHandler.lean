import PromModel.Tsdb.Appendable
import PromModel.Tsdb.Exemplars
/-
  Model of the remote-write receiver (storage/remote/write_handler.go) and of the codecs it uses
  (prompb/io/prometheus/write/v2/symbols.go, codec.go; prompb/codec.go), transcribed.

  * `SymTab.symbolize / symbolizeLabels`  = `SymbolsTable.Symbolize / SymbolizeLabels`
    (the Go `symbolsMap` is the first-index search `findIdx` over `strings`; `symbols_roundtrip` proves the
    table never holds a duplicate, which is what makes the two the same thing)
  * `desymbolize`                         = `desymbolizeLabels` (odd length, bounds checks, `b.Sort()`)
  * `toMetadata`, `addTypeUnit`           = `TimeSeries.ToMetadata`, the `enableTypeAndUnitLabels` rewrite
  * `Hist.validate`                       = `Histogram.Validate / FloatHistogram.Validate`
  * `deltasToCounts`, `Hist.toFloat`      = `deltasToCounts`, `ToFloatHistogram` of an integer histogram
  * `App.append / appendST / commit`      = `remoteWriteAppender` over the head appender, by the C02 rules
    (`Prom.Admit.appendable`, `commitOne`, `commitList`): the admission answer is computed against the
    head as it was when the appender took its window snapshot, the commit re-checks every accepted sample
    in append order (C02 `commit_eq_sequential`) — this is where a sample counted as written is dropped.
  * `coreV2`, `finishV2`                  = `appendV2`, `writeV2` + `Store` (status, headers)
  * `coreV1`, `finishV1`                  = `write` + `appendV1Samples/appendV1Histograms` + `Store`

  Strings (label names/values, symbols) travel as lowercase hex of their bytes (`Sym`); `""` is the empty
  string.  Hex comparison is byte-wise comparison.  Float values are 64-bit patterns (`Nat`).  A histogram
  is its canonical token (see `Hist.parse?`); histograms are interned (`St.hists`) so that the C02 sample
  value `v` is the token's index + 1.

  Not modelled: `ReduceResolution` for reserved schemas 9..52 (never generated), int64/uint32 wrap-around,
  float staleness markers in requests that also touch histogram series (C02 finding C02-F1 territory),
  metadata persistence (only the `__type__`/`__unit__` label rewrite is observable here).
-/
namespace Prom.RW
open Prom Prom.Admit

/-! ## symbol table (generic in the string type) -/

section Sym
variable {α : Type} [DecidableEq α]

def findIdx (s : α) : List α → Option Nat
  | [] => none
  | x :: xs => if x = s then some 0 else (findIdx s xs).map (· + 1)

structure SymTab (α : Type) where
  strings : List α
deriving Repr

/-- `NewSymbolTable`: the empty string is required as the first element. -/
def SymTab.new (empty : α) : SymTab α := ⟨[empty]⟩

/-- `Symbolize`. -/
def SymTab.symbolize (t : SymTab α) (s : α) : SymTab α × Nat :=
  match findIdx s t.strings with
  | some i => (t, i)
  | none => (⟨t.strings ++ [s]⟩, t.strings.length)

/-- `SymbolizeLabels`. -/
def SymTab.symbolizeLabels (t : SymTab α) : List (α × α) → SymTab α × List Nat
  | [] => (t, [])
  | (n, v) :: rest =>
    let r1 := t.symbolize n
    let r2 := r1.1.symbolize v
    let r3 := r2.1.symbolizeLabels rest
    (r3.1, r1.2 :: r2.2 :: r3.2)

inductive DesymErr | oddLen | outOfRange
deriving DecidableEq, Repr

/-- the loop of `desymbolizeLabels` (before `b.Sort()`) -/
def desymPairs (symbols : List α) : List Nat → Except DesymErr (List (α × α))
  | [] => .ok []
  | [_] => .error .oddLen
  | a :: b :: rest =>
    match symbols[a]?, symbols[b]? with
    | some n, some v =>
      match desymPairs symbols rest with
      | .ok l => .ok ((n, v) :: l)
      | .error e => .error e
    | _, _ => .error .outOfRange

def desymRaw (symbols : List α) (refs : List Nat) : Except DesymErr (List (α × α)) :=
  if refs.length % 2 ≠ 0 then .error .oddLen else desymPairs symbols refs

end Sym

/-! ## labels -/

abbrev Sym := String
abbrev Labels := List (Sym × Sym)

/-- `ScratchBuilder.Sort`: by name, bytewise; stable. -/
def insLabel (x : Sym × Sym) : Labels → Labels
  | [] => [x]
  | y :: ys => if y.1 < x.1 then y :: insLabel x ys else x :: y :: ys

def sortLabels : Labels → Labels
  | [] => []
  | x :: xs => insLabel x (sortLabels xs)

/-- `desymbolizeLabels`. -/
def desymbolize (symbols : List Sym) (refs : List Nat) : Except DesymErr Labels :=
  match desymRaw symbols refs with
  | .ok l => .ok (sortLabels l)
  | .error e => .error e

def nameHex : Sym := "5f5f6e616d655f5f"
def typeHex : Sym := "5f5f747970655f5f"
def unitHex : Sym := "5f5f756e69745f5f"

def validUtf8 (s : Sym) : Bool := (hexDec? (if s = "" then "-" else s)).isSome

def Labels.has (ls : Labels) (n : Sym) : Bool := ls.any (·.1 == n)

/-- `Labels.IsValid(model.UTF8Validation)`. -/
def Labels.isValid (ls : Labels) : Bool :=
  ls.all fun l =>
    (if l.1 == nameHex then (l.2 != "" && validUtf8 l.2) else true) &&
    (l.1 != "" && validUtf8 l.1 && validUtf8 l.2)

/-- `HasDuplicateLabelNames` on sorted labels. -/
def hasDupNames : Labels → Bool
  | a :: b :: rest => a.1 == b.1 || hasDupNames (b :: rest)
  | _ => false

/-- `Labels.WithoutEmpty`. -/
def withoutEmpty (ls : Labels) : Labels := ls.filter (·.2 != "")

/-- canonical token of a label set; equal tokens ⇔ equal label sets -/
def lblTok (ls : Labels) : String :=
  if ls.isEmpty then "-" else ",".intercalate (ls.map fun l => l.1 ++ ":" ++ l.2)

/-- the strings of `model.MetricType` for the v2 enum values 1..7 -/
def typeStr (t : Nat) : Sym :=
  match t with
  | 1 => "636f756e746572"              -- counter
  | 2 => "6761756765"                  -- gauge
  | 3 => "686973746f6772616d"          -- histogram
  | 4 => "6761756765686973746f6772616d" -- gaugehistogram
  | 5 => "73756d6d617279"              -- summary
  | 6 => "696e666f"                    -- info
  | 7 => "7374617465736574"            -- stateset
  | _ => ""                            -- unknown

/-- `ToMetadata`: `none` = a reference outside the symbols table.  Result: (type, unit). -/
def toMetadata (symbols : List Sym) (mtype helpRef unitRef : Nat) : Option (Sym × Sym) :=
  match symbols[unitRef]?, symbols[helpRef]? with
  | some u, some _ => some (typeStr mtype, u)
  | _, _ => none

/-- the `enableTypeAndUnitLabels` rewrite of `appendV2` -/
def addTypeUnit (ls : Labels) (ty unit : Sym) : Labels :=
  if ty != "" || unit != "" then
    sortLabels ((ls.filter fun l => l.1 != typeHex && l.1 != unitHex)
      ++ (if ty != "" then [(typeHex, ty)] else []) ++ (if unit != "" then [(unitHex, unit)] else []))
  else ls

/-! ## histograms -/

structure Hist where
  isFloat : Bool
  schema : Int
  zth : Nat                 -- bits
  zc : Nat                  -- integer count, or bits
  count : Nat               -- integer count, or bits
  sum : Nat                 -- bits
  pspans : List (Int × Nat)
  pb : List Int             -- deltas, or bits
  nspans : List (Int × Nat)
  nb : List Int
  custom : List Nat         -- bits
deriving DecidableEq, Repr, Inhabited

open Prom.Exemplars (f64NaN f64lt f64eq)

inductive HistErr
  | customNaN | customInvalid | customInfinite | spanNegOffset | spansBuckets | customMismatch
  | customZeroCount | customZeroThresh | customNegSpans | customNegBuckets | negBucket | expCustom
  | invalidSchema | negCount | countNotBigEnough | countMismatch
deriving DecidableEq, Repr

def posInfBits : Nat := 0x7ff0000000000000
def negInfBits : Nat := 0xfff0000000000000

def checkBounds : List Nat → Nat → Bool → Option HistErr
  | [], _, _ => none
  | c :: rest, prev, first =>
    if f64NaN c then some .customNaN
    else if !first && (f64lt c prev || f64eq c prev) then some .customInvalid
    else checkBounds rest c false

/-- `checkHistogramCustomBounds`. -/
def checkCustomBounds (bounds : List Nat) (spans : List (Int × Nat)) (numBuckets : Nat) : Option HistErr :=
  match checkBounds bounds negInfBits true with
  | some e => some e
  | none =>
    if bounds.getLast? == some posInfBits then some .customInfinite
    else if spans.any (fun s => s.1 < 0) then some .spanNegOffset
    else if (spans.map (·.2)).sum ≠ numBuckets then some .spansBuckets
    else if ((bounds.length : Int) + 1) < (spans.map fun s => (s.2 : Int) + s.1).sum then some .customMismatch
    else none

/-- `checkHistogramSpans`. -/
def checkSpans (spans : List (Int × Nat)) (numBuckets : Nat) : Option HistErr :=
  if (spans.drop 1).any (fun s => s.1 < 0) then some .spanNegOffset
  else if (spans.map (·.2)).sum ≠ numBuckets then some .spansBuckets
  else none

/-- `checkHistogramBuckets(…, deltas = true)`: `none` = negative bucket, else the total. -/
def sumDeltas : List Int → Int → Nat → Option Nat
  | [], _, acc => some acc
  | d :: rest, last, acc =>
    let c := last + d
    if c < 0 then none else sumDeltas rest c (acc + c.toNat)

def fNeg (b : Nat) : Bool := f64lt b 0

def orElse (a : Option HistErr) (b : Unit → Option HistErr) : Option HistErr :=
  match a with | some e => some e | none => b ()

/-- `Histogram.Validate` / `FloatHistogram.Validate`; `none` = valid. -/
def Hist.validate (h : Hist) : Option HistErr :=
  let isCustom := h.schema == -53
  let isExp := -4 ≤ h.schema ∧ h.schema ≤ 8
  if h.isFloat then
    orElse
      (if isCustom then
        orElse (checkCustomBounds h.custom h.pspans h.pb.length) fun _ =>
          if !(f64eq h.zc 0) then some .customZeroCount
          else if !(f64eq h.zth 0) then some .customZeroThresh
          else if h.nspans.length > 0 then some .customNegSpans
          else if h.nb.length > 0 then some .customNegBuckets
          else none
      else if isExp then
        orElse (checkSpans h.pspans h.pb.length) fun _ =>
        orElse (checkSpans h.nspans h.nb.length) fun _ =>
          if h.nb.any (fun b => fNeg b.toNat) then some .negBucket
          else if fNeg h.zc then some .negBucket
          else if h.custom ≠ [] then some .expCustom
          else none
      else some .invalidSchema) fun _ =>
    if fNeg h.count then some .negCount
    else if h.pb.any (fun b => fNeg b.toNat) then some .negBucket
    else none
  else
    let head : Option HistErr × Nat :=
      if isCustom then
        (orElse (checkCustomBounds h.custom h.pspans h.pb.length) fun _ =>
          if h.zc ≠ 0 then some .customZeroCount
          else if !(f64eq h.zth 0) then some .customZeroThresh
          else if h.nspans.length > 0 then some .customNegSpans
          else if h.nb.length > 0 then some .customNegBuckets
          else none, 0)
      else if isExp then
        match checkSpans h.pspans h.pb.length with
        | some e => (some e, 0)
        | none =>
          match checkSpans h.nspans h.nb.length with
          | some e => (some e, 0)
          | none =>
            match sumDeltas h.nb 0 0 with
            | none => (some .negBucket, 0)
            | some n => (if h.custom ≠ [] then some .expCustom else none, n)
      else (some .invalidSchema, 0)
    match head with
    | (some e, _) => some e
    | (none, nCount) =>
      match sumDeltas h.pb 0 0 with
      | none => some .negBucket
      | some pCount =>
        let total := nCount + pCount + h.zc
        if f64NaN h.sum then (if total > h.count then some .countNotBigEnough else none)
        else (if total ≠ h.count then some .countMismatch else none)

/-- `deltasToCounts` on exact integers (the Go code accumulates in float64; exact below 2^53). -/
def deltasToCounts : List Int → Int → List Int
  | [], _ => []
  | d :: rest, cur => (cur + d) :: deltasToCounts rest (cur + d)

/-! ### histogram tokens
  `<I|F>.<schema>.<zth>.<zc>.<count>.<sum>.<pspans>.<pb>.<nspans>.<nb>.<custom>`; bits are 16 hex digits,
  integer counts decimal, lists comma-separated (`-` = empty), spans `off|len`. -/

def parseList? {β : Type} (f : String → Option β) (s : String) : Option (List β) :=
  if s = "-" then some [] else (s.splitOn ",").mapM f

def parseSpan? (s : String) : Option (Int × Nat) :=
  match s.splitOn "|" with
  | [a, b] => do let o ← a.toInt?; let l ← b.toNat?; pure (o, l)
  | _ => none

def Hist.parse? (tok : String) : Option Hist :=
  match tok.splitOn "." with
  | [k, sc, zth, zc, cnt, sum, ps, pb, ns, nb, cv] => do
    let isFloat ← (if k = "F" then some true else if k = "I" then some false else none)
    let sc ← sc.toInt?
    let zth ← natOfHex? zth
    let zc ← if isFloat then natOfHex? zc else zc.toNat?
    let cnt ← if isFloat then natOfHex? cnt else cnt.toNat?
    let sum ← natOfHex? sum
    let ps ← parseList? parseSpan? ps
    let ns ← parseList? parseSpan? ns
    let bk : String → Option Int := fun s => if isFloat then (natOfHex? s).map Int.ofNat else s.toInt?
    let pb ← parseList? bk pb
    let nb ← parseList? bk nb
    let cv ← parseList? natOfHex? cv
    pure ⟨isFloat, sc, zth, zc, cnt, sum, ps, pb, ns, nb, cv⟩
  | _ => none

def showList {β : Type} (f : β → String) (l : List β) : String :=
  if l.isEmpty then "-" else ",".intercalate (l.map f)

def Hist.render (h : Hist) : String :=
  let num := fun (n : Nat) => if h.isFloat then hexOfNat n 16 else toString n
  let bk := fun (b : Int) => if h.isFloat then hexOfNat b.toNat 16 else toString b
  let sp := fun (s : Int × Nat) => s!"{s.1}|{s.2}"
  ".".intercalate [if h.isFloat then "F" else "I", toString h.schema, hexOfNat h.zth 16, num h.zc,
    num h.count, hexOfNat h.sum 16, showList sp h.pspans, showList bk h.pb, showList sp h.nspans,
    showList bk h.nb, showList (fun n => hexOfNat n 16) h.custom]

/-- bucket indices described by a span list -/
def spanIdx : List (Int × Nat) → Int → List Int
  | [], _ => []
  | (off, len) :: rest, cur =>
    (List.range len).map (fun (i : Nat) => cur + off + (i : Int)) ++ spanIdx rest (cur + off + len)

/-- The layout-independent content of one side: `(bucket index, absolute count)` of the populated
    buckets.  (A chunk re-encodes earlier histograms with the union layout of later ones, so spans and
    explicit empty buckets are not an observable of the storage.) -/
def nfSide (isFloat : Bool) (spans : List (Int × Nat)) (b : List Int) : List (Int × Int) :=
  let abs := if isFloat then b else deltasToCounts b 0
  ((spanIdx spans 0).zip abs).filter fun p =>
    if isFloat then p.2 != 0 && p.2 != 0x8000000000000000 else p.2 != 0

/-- normal form of a histogram as the storage dump prints it -/
def Hist.nf (h : Hist) : String :=
  let num := fun (n : Nat) => if h.isFloat then hexOfNat n 16 else toString n
  let side := fun (l : List (Int × Int)) =>
    showList (fun (p : Int × Int) => s!"{p.1}:{if h.isFloat then hexOfNat p.2.toNat 16 else toString p.2}") l
  ".".intercalate [if h.isFloat then "F" else "I", toString h.schema, hexOfNat h.zth 16, num h.zc,
    num h.count, hexOfNat h.sum 16, side (nfSide h.isFloat h.pspans h.pb), side (nfSide h.isFloat h.nspans h.nb),
    showList (fun n => hexOfNat n 16) h.custom]

/-- the zero histogram of `AppendHistogramSTZeroSample` -/
def Hist.zeroLike (h : Hist) : Hist :=
  { isFloat := h.isFloat, schema := h.schema, zth := h.zth, zc := 0, count := 0, sum := 0,
    pspans := [], pb := [], nspans := [], nb := [], custom := h.custom }

/-! ## the request, decoded -/

/-- proto3 scalar `double` fields are omitted by the (gogo) marshaller when `v == 0`, which holds for
    `-0.0` too: a negative zero in `Sample.value` / `Exemplar.value` arrives as `+0.0`. -/
def wireF64 (b : Nat) : Nat := if b = 0x8000000000000000 then 0 else b

structure Smp where
  t : Int
  v : Nat
  st : Int
deriving DecidableEq, Repr, Inhabited

structure HSmp where
  t : Int
  st : Int
  tok : String            -- identity of the value = `h.nf`
  h : Hist
deriving DecidableEq, Repr, Inhabited

/-- an exemplar of the request: `lbl = none` = its label references do not resolve (v2 only) -/
structure ExIn where
  lbl : Option String     -- token of the exemplar's labels (sorted, empty values removed)
  t : Int
  v : Nat
  hash : Nat
deriving DecidableEq, Repr, Inhabited

/-- why a series is rejected before anything is appended -/
inductive Bad | symRef | metaRef | badLabels | dupLabel | empty
deriving DecidableEq, Repr

/-- one time series after label decoding and validation -/
structure SeriesD where
  bad : Option Bad
  key : String            -- `lblTok (withoutEmpty labels)`: the identity of the stored series
  hasEmpty : Bool := false -- the decoded label set carries an empty-valued label
  samples : List Smp
  hists : List HSmp
  exs : List ExIn
deriving Repr, Inhabited

/-! ## the appender (remoteWriteAppender over the head appender, C02 rules) -/

/-- `time.Now() + 10 min` lies between the small timestamps and the "far future" ones of the harness. -/
def futureLimit : Int := 4000000000000
/-- the fault-injecting appendable of the harness answers this timestamp with a non-classified error -/
def magicT : Int := 7777777

inductive AErr | oobFuture | oob | tooOld | ooo | dup | histInvalid | internal
deriving DecidableEq, Repr

def AErr.ofReject : Reject → AErr
  | .oob => .oob | .tooOld => .tooOld | .ooo => .ooo | .dup => .dup

structure App where
  live : Bool := false
  w : Window := ⟨0, 0, 0⟩
  pend : List (String × Sample) := []           -- accepted samples, append order
  pendEx : List (String × Exemplars.Ex) := []   -- accepted exemplars, append order
deriving Repr, Inhabited

/-- `getOrCreate`: the series exists from now on (possibly empty). -/
def ensure (st : Store) (n : String) : Store :=
  match st.find? (·.1 = n) with | some _ => st | none => st ++ [(n, {})]

def known (st : Store) (n : String) : Bool := (st.find? (·.1 = n)).isSome

def seriesId : Store → String → Nat
  | [], _ => 0
  | (m, _) :: rest, n => if m = n then 0 else seriesId rest n + 1

/-- `initAppender`: `initTime(t)` on a fresh head, then take the window snapshot. -/
def App.mat (h : Head) (a : App) (t : Int) : Head × App :=
  if a.live then (h, a)
  else
    let h := if h.initialized then h
      else { h with initialized := true, maxTime := (if h.maxTime = minI64 then t else h.maxTime) }
    (h, { a with live := true, w := h.window })

/-- `remoteWriteAppender.Append / AppendHistogram` down to `headAppender.Append / AppendHistogram`. -/
def App.append (h : Head) (a : App) (key : String) (x : Sample) (invalid : Bool) :
    Head × App × Option AErr :=
  if x.t > futureLimit then (h, a, some .oobFuture)
  else if x.t = magicT then (h, a, some .internal)
  else
    let m := a.mat h x.t
    if m.2.w.oooWin = 0 ∧ x.t < m.2.w.minValid then (m.1, m.2, some .oob)
    else if invalid then (m.1, m.2, some .histInvalid)
    else
      let h1 := { m.1 with store := ensure m.1.store key }
      match appendable x.kind x.t x.v (h1.store.get key).view m.2.w with
      | .error e => (h1, m.2, some (AErr.ofReject e))
      | .ok _ => (h1, { m.2 with pend := m.2.pend ++ [(key, x)] }, none)

/-- Which `remoteWriteAppender` /repo has: `false` = the code as found (finding C41-F4: the embedded head
    appender's `AppendSTZeroSample / AppendHistogramSTZeroSample` are reached without the `maxTime` bound),
    `true` = fixes/C41-F4.patch applied (the wrapper rejects `t > maxTime ∨ st > maxTime` like `Append`). -/
def repoFixedFutureST : Bool := true

/-- `AppendSTZeroSample / AppendHistogramSTZeroSample`: every error is swallowed by the handler; the only
    effect is the synthetic zero sample `z` at `st` when it is appendable in order. -/
def App.appendSTG (fixed : Bool) (h : Head) (a : App) (key : String) (t st : Int) (z : Sample) : Head × App :=
  if fixed && (decide (t > futureLimit) || decide (st > futureLimit)) then (h, a)
  else
  let m := a.mat h t
  if st ≥ t then m
  else
    let h1 := { m.1 with store := ensure m.1.store key }
    match appendable z.kind st z.v (h1.store.get key).view m.2.w with
    | .ok .inOrder => (h1, { m.2 with pend := m.2.pend ++ [(key, { z with t := st })] })
    | _ => (h1, m.2)

def App.appendST : Head → App → String → Int → Int → Sample → Head × App := App.appendSTG repoFixedFutureST

/-- `counted`: accepted, a valid series reference comes back; `countedNoRef`: `0, nil` (duplicate of the
    newest stored exemplar) — counted as written by the handler, reference lost -/
inductive ExRes | counted | countedNoRef | oooEx | swallowed
deriving DecidableEq, Repr

def mkEx (e : ExIn) (lbl : String) : Exemplars.Ex :=
  { ts := e.t, val := e.v, hasTs := e.t != 0, lbl := lbl, hash := e.hash }

/-- `remoteWriteAppender.AppendExemplar` down to `headAppender.AppendExemplar`. -/
def App.appendEx (h : Head) (a : App) (ring : Exemplars.Ring) (key : String) (byRef rawOk : Bool)
    (e : ExIn) (lbl : String) : Head × App × ExRes :=
  if e.t > futureLimit then (h, a, .swallowed)
  else
    let m := a.mat h e.t
    -- series lookup: by reference, else by the *raw* label set (an empty-valued label never matches)
    if !(byRef || (rawOk && known m.1.store key)) then (m.1, m.2, .swallowed)
    else
      match Exemplars.validateOp ring (seriesId m.1.store key) (mkEx e lbl) with
      | some .dup => (m.1, m.2, .countedNoRef)   -- "don't return an error but don't accept": `0, nil`
      | some .disabled => (m.1, m.2, .countedNoRef)
      | some .ooo => (m.1, m.2, .oooEx)
      | some .toolong => (m.1, m.2, .swallowed)
      | none => (m.1, { m.2 with pendEx := m.2.pendEx ++ [(key, mkEx e lbl)] }, .counted)

def commitExs (st : Store) : List (String × Exemplars.Ex) → Exemplars.Ring → Exemplars.Ring
  | [], r => r
  | (k, e) :: rest, r => commitExs st rest (Exemplars.add r (seriesId st k) e).1

/-- `Commit` of the head appender: the sequential re-check of every accepted sample (C02). -/
def App.commit (h : Head) (a : App) : Head :=
  if !a.live then h
  else
    let acc := commitList a.w h.capMax a.pend { store := h.store }
    { h with store := acc.store, maxTime := max h.maxTime acc.inOrderMaxt }

/-! ## `appendV2` / `writeV2` -/

/-- one entry of `badRequestErrs` (or the error that ended a v1 request) -/
inductive ErrC
  | symRef | metaRef | badLabels | dupLabel | empty
  | oob | tooOld | ooo | dup | histInvalid | exRef | oooEx | internal
deriving DecidableEq, Repr

def ErrC.ofBad : Bad → ErrC
  | .symRef => .symRef | .metaRef => .metaRef | .badLabels => .badLabels | .dupLabel => .dupLabel
  | .empty => .empty

def ErrC.ofA : AErr → ErrC
  | .oobFuture => .oob | .oob => .oob | .tooOld => .tooOld | .ooo => .ooo | .dup => .dup
  | .histInvalid => .histInvalid | .internal => .internal

structure Flags where
  ingestST : Bool := false
  typeUnit : Bool := false
deriving Repr, Inhabited

/-- the running state of one request -/
structure Run where
  head : Head
  app : App := {}
  ring : Exemplars.Ring
  hists : List String              -- interning table of histogram tokens (index + 1 = sample value)
  samples : Nat := 0
  histograms : Nat := 0
  exemplars : Nat := 0
  errs : List ErrC := []
  fatal : Bool := false            -- a non-classified appender error ended the loop (5xx)
  ref : Bool := false              -- the handler's `ref` variable is a valid series reference

def intern (tbl : List String) (tok : String) : List String × Nat :=
  match findIdx tok tbl with
  | some i => (tbl, i + 1)
  | none => (tbl ++ [tok], tbl.length + 1)

/-- the float-sample loop of `appendV2` for one series -/
def v2Samples (fl : Flags) (key : String) : List Smp → Run → Run
  | [], r => r
  | s :: rest, r =>
    let (h0, a0) :=
      if fl.ingestST ∧ s.st ≠ 0 ∧ s.t ≠ 0 then r.app.appendST r.head key s.t s.st ⟨s.st, .f, 0⟩
      else (r.head, r.app)
    match App.append h0 a0 key ⟨s.t, .f, s.v⟩ false with
    | (h1, a1, none) =>
      v2Samples fl key rest { r with head := h1, app := a1, samples := r.samples + 1, ref := true }
    | (h1, a1, some .internal) => { r with head := h1, app := a1, fatal := true, errs := [.internal] }
    | (h1, a1, some e) =>
      v2Samples fl key rest { r with head := h1, app := a1, errs := r.errs ++ [ErrC.ofA e], ref := false }

/-- the native-histogram loop of `appendV2` for one series -/
def v2Hists (fl : Flags) (key : String) : List HSmp → Run → Run
  | [], r => r
  | s :: rest, r =>
    let kind : Kind := if s.h.isFloat then .fh else .h
    let (tbl0, h0, a0) :=
      if fl.ingestST ∧ s.st ≠ 0 ∧ s.t ≠ 0 then
        let (tbl, zid) := intern r.hists s.h.zeroLike.nf
        let (h, a) := r.app.appendST r.head key s.t s.st ⟨s.st, kind, zid⟩
        (tbl, h, a)
      else (r.hists, r.head, r.app)
    let (tbl1, id) := intern tbl0 s.tok
    match App.append h0 a0 key ⟨s.t, kind, id⟩ s.h.validate.isSome with
    | (h1, a1, none) =>
      v2Hists fl key rest
        { r with head := h1, app := a1, hists := tbl1, histograms := r.histograms + 1, ref := true }
    | (h1, a1, some .internal) =>
      { r with head := h1, app := a1, hists := tbl1, fatal := true, errs := [.internal] }
    | (h1, a1, some e) =>
      v2Hists fl key rest
        { r with head := h1, app := a1, hists := tbl1, errs := r.errs ++ [ErrC.ofA e], ref := false }

/-- the exemplar loop of `appendV2` for one series -/
def v2Exs (key : String) (hasEmpty : Bool) : List ExIn → Run → Run
  | [], r => r
  | e :: rest, r =>
    match e.lbl with
    | none => v2Exs key hasEmpty rest { r with errs := r.errs ++ [.exRef] }
    | some lbl =>
      match App.appendEx r.head r.app r.ring key r.ref (!hasEmpty) e lbl with
      | (h1, a1, .counted) =>
        v2Exs key hasEmpty rest { r with head := h1, app := a1, exemplars := r.exemplars + 1, ref := true }
      | (h1, a1, .countedNoRef) =>
        v2Exs key hasEmpty rest { r with head := h1, app := a1, exemplars := r.exemplars + 1, ref := false }
      | (h1, a1, .oooEx) =>
        v2Exs key hasEmpty rest { r with head := h1, app := a1, errs := r.errs ++ [.oooEx], ref := false }
      | (h1, a1, .swallowed) => v2Exs key hasEmpty rest { r with head := h1, app := a1, ref := false }

/-- the body of the `for _, ts := range req.Timeseries` loop of `appendV2` -/
def v2Series (fl : Flags) (s : SeriesD) (r : Run) : Run :=
  match s.bad with
  | some b => { r with errs := r.errs ++ [ErrC.ofBad b] }
  | none =>
    let r1 := v2Samples fl s.key s.samples { r with ref := false }
    if r1.fatal then r1 else
    let r2 := v2Hists fl s.key s.hists r1
    if r2.fatal then r2 else
    v2Exs s.key s.hasEmpty s.exs r2

def coreV2 (fl : Flags) : List SeriesD → Run → Run
  | [], r => r
  | s :: rest, r =>
    let r1 := v2Series fl s r
    if r1.fatal then r1 else coreV2 fl rest r1

/-- what the client sees, and the storage afterwards -/
structure Resp where
  status : Nat
  samples : Nat
  histograms : Nat
  exemplars : Nat
  errs : List ErrC
  head : Head
  ring : Exemplars.Ring
  hists : List String

/-- `writeV2` + the v2 part of `Store`: rollback on 5xx (stats zeroed), else commit; 400 iff any
    bad-request error was collected. -/
def finishV2 (r : Run) : Resp :=
  if r.fatal then
    { status := 500, samples := 0, histograms := 0, exemplars := 0, errs := r.errs,
      head := r.head, ring := r.ring, hists := r.hists }
  else
    { status := if r.errs.isEmpty then 204 else 400,
      samples := r.samples, histograms := r.histograms, exemplars := r.exemplars, errs := r.errs,
      head := r.app.commit r.head,
      ring := if r.app.live then commitExs r.head.store r.app.pendEx r.ring else r.ring,
      hists := r.hists }

def writeV2 (fl : Flags) (head : Head) (ring : Exemplars.Ring) (hists : List String) (req : List SeriesD) :
    Resp :=
  finishV2 (coreV2 fl req { head := head, ring := ring, hists := hists })

/-! ## `write` (v1) -/

/-- `appendV1Samples`: the first error ends the request. -/
def v1Samples (key : String) : List Smp → Run → Run
  | [], r => r
  | s :: rest, r =>
    match App.append r.head r.app key ⟨s.t, .f, s.v⟩ false with
    | (h1, a1, none) => v1Samples key rest { r with head := h1, app := a1, samples := r.samples + 1 }
    | (h1, a1, some e) => { r with head := h1, app := a1, fatal := true, errs := [ErrC.ofA e] }

def v1Hists (key : String) : List HSmp → Run → Run
  | [], r => r
  | s :: rest, r =>
    let kind : Kind := if s.h.isFloat then .fh else .h
    let (tbl1, id) := intern r.hists s.tok
    match App.append r.head r.app key ⟨s.t, kind, id⟩ s.h.validate.isSome with
    | (h1, a1, none) =>
      v1Hists key rest { r with head := h1, app := a1, hists := tbl1, histograms := r.histograms + 1 }
    | (h1, a1, some e) => { r with head := h1, app := a1, hists := tbl1, fatal := true, errs := [ErrC.ofA e] }

/-- v1 exemplars: every error is only logged -/
def v1Exs (key : String) (hasEmpty : Bool) : List ExIn → Run → Run
  | [], r => r
  | e :: rest, r =>
    match App.appendEx r.head r.app r.ring key false (!hasEmpty) e (e.lbl.getD "-") with
    | (h1, a1, .counted) => v1Exs key hasEmpty rest { r with head := h1, app := a1, exemplars := r.exemplars + 1 }
    | (h1, a1, _) => v1Exs key hasEmpty rest { r with head := h1, app := a1 }

def v1Series (s : SeriesD) (r : Run) : Run :=
  match s.bad with
  | some _ => r                      -- logged and counted in a metric only
  | none =>
    let r1 := v1Samples s.key s.samples r
    if r1.fatal then r1 else
    let r2 := v1Exs s.key s.hasEmpty s.exs r1
    v1Hists s.key s.hists r2

def coreV1 : List SeriesD → Run → Run
  | [], r => r
  | s :: rest, r =>
    let r1 := v1Series s r
    if r1.fatal then r1 else coreV1 rest r1

/-- the status switch of `Store` for v1 -/
def v1Status : ErrC → Nat
  | .ooo | .oob | .dup | .tooOld | .histInvalid => 400
  | _ => 500

def finishV1 (r : Run) : Resp :=
  if r.fatal then
    { status := (match r.errs with | e :: _ => v1Status e | [] => 500),
      samples := 0, histograms := 0, exemplars := 0, errs := r.errs,
      head := r.head, ring := r.ring, hists := r.hists }
  else
    { status := 204, samples := r.samples, histograms := r.histograms, exemplars := r.exemplars, errs := [],
      head := r.app.commit r.head,
      ring := if r.app.live then commitExs r.head.store r.app.pendEx r.ring else r.ring,
      hists := r.hists }

def writeV1 (head : Head) (ring : Exemplars.Ring) (hists : List String) (req : List SeriesD) : Resp :=
  finishV1 (coreV1 req { head := head, ring := ring, hists := hists })

/-! ## decoding a request into `SeriesD` -/

/-- a v2 time series as it is on the wire -/
structure Wire2 where
  refs : List Nat
  mtype : Nat
  helpRef : Nat
  unitRef : Nat
  samples : List Smp
  hists : List HSmp
  exs : List (List Nat × Int × Nat × Nat)     -- label refs, t, value bits, hash of the decoded labels
deriving Repr, Inhabited

def exLblTok (ls : Labels) : String := lblTok (withoutEmpty ls)

/-- label part of `appendV2` up to "Validate that the TimeSeries has at least one sample or histogram" -/
def decode2 (fl : Flags) (symbols : List Sym) (w : Wire2) : SeriesD :=
  let exs : List ExIn := w.exs.map fun (refs, t, v, hash) =>
    { lbl := (match desymbolize symbols refs with | .ok l => some (exLblTok l) | .error _ => none),
      t := t, v := v, hash := hash }
  let mk := fun (bad : Option Bad) (ls : Labels) =>
    ({ bad := bad, key := lblTok (withoutEmpty ls), hasEmpty := ls.any (·.2 == ""),
       samples := w.samples, hists := w.hists, exs := exs } : SeriesD)
  match desymbolize symbols w.refs with
  | .error _ => mk (some .symRef) []
  | .ok ls0 =>
    match toMetadata symbols w.mtype w.helpRef w.unitRef with
    | none => mk (some .metaRef) ls0
    | some (ty, unit) =>
      let ls := if fl.typeUnit then addTypeUnit ls0 ty unit else ls0
      if !ls.has nameHex || !ls.isValid then mk (some .badLabels) ls
      else if hasDupNames ls then mk (some .dupLabel) ls
      else if w.samples.isEmpty && w.hists.isEmpty then mk (some .empty) ls
      else mk none ls

structure Wire1 where
  labels : Labels
  samples : List Smp
  hists : List HSmp
  exs : List (Labels × Int × Nat × Nat)
deriving Repr, Inhabited

def decode1 (w : Wire1) : SeriesD :=
  let ls := sortLabels w.labels
  let exs : List ExIn := w.exs.map fun (l, t, v, hash) =>
    { lbl := some (exLblTok (sortLabels l)), t := t, v := v, hash := hash }
  let bad : Option Bad :=
    if !ls.has nameHex || !ls.isValid then some .badLabels
    else if hasDupNames ls then some .dupLabel else none
  { bad := bad, key := lblTok (withoutEmpty ls), hasEmpty := ls.any (·.2 == ""),
    samples := w.samples, hists := w.hists, exs := exs }

end Prom.RW
