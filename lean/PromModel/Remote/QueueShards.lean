import PromModel.Prelude.Line
/-
  C40 — remote-write queue manager as a transition system (storage/remote/queue_manager.go).

  State = what `QueueManager` + `shards` + the `queue`s hold, plus the endpoint's log and ghost
  bookkeeping (`fed`, `lostUnrec`, `lostHard`, `reachedF`) used only by the theorems.
  Atomic actions = the code's critical sections / channel operations:

    storeSeries ref keep   `StoreSeries`: relabel + external labels; `keep = false` ⇒ `droppedSeries`
    seriesReset refs       `SeriesReset`: the refs whose segment index is below the checkpoint are forgotten
    append ref id old      one sample through `Append*`: too old ⇒ counted and skipped; unknown/dropped series ⇒
                           counted and skipped; otherwise `shards.enqueue` under RLock: shard `ref % n`,
                           refused after soft shutdown, `queue.Append` (partial batch; a full batch is pushed
                           to the channel, refused — the caller sleeps and retries — when the channel is full)
    recv i                 `runShard`: `batch := <-batchQueue`
    timer i                `runShard`: `<-timer.C` ⇒ `queue.Batch()` (channel first, else the partial batch)
    sendOk / sendRecov reached / sendUnrecov i
                           one `Store` attempt for the batch in flight: success; `RecoverableError`
                           (`reached`: the endpoint stored the request but the reply was an error) ⇒ the SAME
                           batch stays in flight; any other error ⇒ batch dropped and counted
    softStop               `shards.stop`: `close(softShutdown)`
    flush i                `queue.FlushAndShutdown`: partial batch pushed (needs room), `q.batch = nil`, channel closed
    exit i                 `runShard` sees the closed, drained channel and returns (`running.Dec()`)
    hardStop               `flushDeadline` fired: `hardShutdown()` cancels the shards' context
    hardExit i             shard `i` observes `ctx.Done()` (an in-flight `Store` returns `context.Canceled`):
                           everything it still holds is dropped and counted, it returns
    start n                `shards.start(n)` — enabled only when `running = 0` (`<-s.done` in `stop`)

  `reshardLoop` is `stop(); start(n)`, `Stop()` is `stop()`.  Wall-clock deadlines are the nondeterministic
  actions `timer` and `hardStop`.  Not modelled: exemplars/metadata, the retry-time age filter, the
  one-instruction window inside `FlushAndShutdown` between publishing `q.batch` and clearing it (see C40.lean).
-/
namespace Prom.QueueShards

structure Sample where
  ref : Nat
  id : Nat          -- position in the WAL
deriving DecidableEq, Repr, Inhabited

structure Shard where
  part : List Sample := []             -- `q.batch`, oldest first
  chan : List (List Sample) := []      -- `q.batchQueue`, oldest first
  inflight : List Sample := []         -- batch the send loop is working on (`[]` = idle)
  reachedF : Bool := false             -- ghost: the batch in flight has been stored by the endpoint already
  closed : Bool := false               -- `FlushAndShutdown` done
  exited : Bool := false               -- `runShard` returned
deriving Repr, Inhabited

/-- Everything a shard still holds, oldest first. -/
def Shard.rest (sh : Shard) : List Sample := sh.chan.flatten ++ sh.part
def Shard.pipe (sh : Shard) : List Sample := sh.inflight ++ sh.rest

structure St where
  mss : Nat                            -- MaxSamplesPerSend (≥ 1)
  chanCap : Nat                        -- max(1, Capacity / MaxSamplesPerSend)
  n : Nat                              -- len(s.queues)
  shards : Nat → Shard                 -- index < n
  kept : List Nat := []                -- refs in `seriesLabels`
  droppedRefs : List Nat := []         -- refs in `droppedSeries`
  soft : Bool := false                 -- softShutdown closed
  hard : Bool := false                 -- hard shutdown context cancelled
  running : Nat                        -- `s.running`
  received : List Sample := []         -- endpoint log, NEWEST FIRST
  nextId : Nat := 0                    -- ids fed so far are < nextId
  -- ghost
  fed : List Sample := []              -- every sample ever enqueued
  lostUnrec : List Sample := []        -- dropped with a non-recoverable error
  lostHard : List Sample := []         -- dropped by a hard shutdown
  hardExits : Nat := 0                 -- number of hardExit actions so far
  -- counters (metrics)
  enqueuedCnt : Nat := 0               -- `s.enqueuedSamples` (shared by all shards)
  attemptCnt : Nat := 0                -- samples_total: samples in every Store attempt
  failedCnt : Nat := 0                 -- samples_failed_total
  retriedCnt : Nat := 0                -- samples_retried_total
  droppedOld : Nat := 0
  droppedSeriesCnt : Nat := 0
  droppedUnknown : Nat := 0

def freshShards : Nat → Shard := fun _ => {}

def init (mss chanCap n : Nat) : St :=
  { mss := mss, chanCap := chanCap, n := n, shards := freshShards, running := n }

def upd (f : Nat → Shard) (i : Nat) (sh : Shard) : Nat → Shard := fun j => if j = i then sh else f j

inductive Act
  | storeSeries (ref : Nat) (keep : Bool)
  | seriesReset (refs : List Nat)
  | append (ref id : Nat) (old : Bool)
  | recv (i : Nat)
  | timer (i : Nat)
  | sendOk (i : Nat)
  | sendRecov (i : Nat) (reached : Bool)
  | sendUnrecov (i : Nat)
  | softStop
  | flush (i : Nat)
  | exit (i : Nat)
  | hardStop
  | hardExit (i : Nat)
  | start (n : Nat)
deriving Repr, DecidableEq, Inhabited

/-- Is the sample enqueued by `append` (as opposed to counted as dropped)? -/
def St.admits (s : St) (ref : Nat) (old : Bool) : Bool := !old && s.kept.contains ref

/-- `queue.Append` succeeds: the partial batch does not become full, or the channel has room. -/
def Shard.roomFor (sh : Shard) (mss chanCap : Nat) : Bool :=
  decide (sh.part.length + 1 < mss) || decide (sh.chan.length < chanCap)

def Shard.push (sh : Shard) (mss : Nat) (x : Sample) : Shard :=
  if sh.part.length + 1 < mss then { sh with part := sh.part ++ [x] }
  else { sh with part := [], chan := sh.chan ++ [sh.part ++ [x]] }

/-- The guard: is the action possible in this state? -/
def enabled (s : St) : Act → Bool
  | .storeSeries _ _ => true
  | .seriesReset _ => true
  | .append ref id old =>
    decide (s.nextId ≤ id) &&
      (!s.admits ref old ||
        (decide (0 < s.n) && !s.soft && (s.shards (ref % s.n)).roomFor s.mss s.chanCap))
  | .recv i => decide (i < s.n) && !(s.shards i).exited && (s.shards i).inflight.isEmpty && !(s.shards i).chan.isEmpty
  | .timer i => decide (i < s.n) && !(s.shards i).exited && (s.shards i).inflight.isEmpty
  | .sendOk i => decide (i < s.n) && !(s.shards i).exited && !(s.shards i).inflight.isEmpty && !s.hard
  | .sendRecov i _ => decide (i < s.n) && !(s.shards i).exited && !(s.shards i).inflight.isEmpty && !s.hard
  | .sendUnrecov i => decide (i < s.n) && !(s.shards i).exited && !(s.shards i).inflight.isEmpty && !s.hard
  | .softStop => !s.soft
  | .flush i => decide (i < s.n) && s.soft && !(s.shards i).closed && !(s.shards i).exited &&
      ((s.shards i).part.isEmpty || decide ((s.shards i).chan.length < s.chanCap))
  | .exit i => decide (i < s.n) && !(s.shards i).exited && (s.shards i).closed &&
      (s.shards i).chan.isEmpty && (s.shards i).inflight.isEmpty
  | .hardStop => s.soft && !s.hard
  | .hardExit i => decide (i < s.n) && s.hard && !(s.shards i).exited
  | .start _ => s.soft && decide (s.running = 0)

def apply (s : St) : Act → St
  | .storeSeries ref keep =>
    if keep then { s with kept := ref :: s.kept } else { s with droppedRefs := ref :: s.droppedRefs }
  | .seriesReset refs =>
    { s with kept := s.kept.filter (!refs.contains ·), droppedRefs := s.droppedRefs.filter (!refs.contains ·) }
  | .append ref id old =>
    let s := { s with nextId := id + 1 }
    if old then { s with droppedOld := s.droppedOld + 1 }
    else if !s.kept.contains ref then
      if s.droppedRefs.contains ref then { s with droppedSeriesCnt := s.droppedSeriesCnt + 1 }
      else { s with droppedUnknown := s.droppedUnknown + 1 }
    else
      let i := ref % s.n
      { s with shards := upd s.shards i ((s.shards i).push s.mss ⟨ref, id⟩),
               fed := ⟨ref, id⟩ :: s.fed, enqueuedCnt := s.enqueuedCnt + 1 }
  | .recv i =>
    match (s.shards i).chan with
    | b :: rest => { s with shards := upd s.shards i { s.shards i with chan := rest, inflight := b, reachedF := false } }
    | [] => s
  | .timer i =>
    match (s.shards i).chan with
    | b :: rest => { s with shards := upd s.shards i { s.shards i with chan := rest, inflight := b, reachedF := false } }
    | [] => { s with shards := upd s.shards i { s.shards i with part := [], inflight := (s.shards i).part, reachedF := false } }
  | .sendOk i =>
    let b := (s.shards i).inflight
    { s with shards := upd s.shards i { s.shards i with inflight := [], reachedF := false },
             received := b.reverse ++ s.received,
             attemptCnt := s.attemptCnt + b.length, enqueuedCnt := s.enqueuedCnt - b.length }
  | .sendRecov i reached =>
    let b := (s.shards i).inflight
    { s with shards := if reached then upd s.shards i { s.shards i with reachedF := true } else s.shards,
             received := if reached then b.reverse ++ s.received else s.received,
             attemptCnt := s.attemptCnt + b.length, retriedCnt := s.retriedCnt + b.length }
  | .sendUnrecov i =>
    let b := (s.shards i).inflight
    { s with shards := upd s.shards i { s.shards i with inflight := [], reachedF := false },
             lostUnrec := b ++ s.lostUnrec,
             attemptCnt := s.attemptCnt + b.length, failedCnt := s.failedCnt + b.length,
             enqueuedCnt := s.enqueuedCnt - b.length }
  | .softStop => { s with soft := true }
  | .flush i =>
    let sh := s.shards i
    let sh' : Shard :=
      { sh with part := [], chan := if sh.part.isEmpty then sh.chan else sh.chan ++ [sh.part], closed := true }
    { s with shards := upd s.shards i sh' }
  | .exit i => { s with shards := upd s.shards i { s.shards i with exited := true }, running := s.running - 1 }
  | .hardStop => { s with hard := true }
  | .hardExit i =>
    let sh := s.shards i
    -- the in-flight batch is counted by `updateMetrics` (and taken off `enqueuedSamples`), then the shard
    -- adds the WHOLE shared `enqueuedSamples` counter — including what other shards still hold
    let e := s.enqueuedCnt - sh.inflight.length
    { s with shards := upd s.shards i { sh with part := [], chan := [], inflight := [], reachedF := false, exited := true },
             lostHard := sh.pipe ++ s.lostHard, hardExits := s.hardExits + 1,
             running := s.running - 1,
             enqueuedCnt := e,
             failedCnt := s.failedCnt + sh.inflight.length + e }
  | .start n =>
    { s with n := n, shards := freshShards, soft := false, hard := false, running := n, enqueuedCnt := 0 }

def step (s : St) (a : Act) : Option St := if enabled s a then some (apply s a) else none

/-- Run a schedule; `none` as soon as an action is not enabled. -/
def run (s : St) : List Act → Option St
  | [] => some s
  | a :: rest => match step s a with
    | some s' => run s' rest
    | none => none

end Prom.QueueShards
