/-
  C47 — discovery/manager.go as a labelled transition system.

  Threads of the real manager and their atomic actions (critical sections):

    updater(p)   U1  `updateGroup` for every subscribed job of provider p (under `p.mu.RLock`, `targetsMtx`)
                 U2  non-blocking send on `triggerSend`                         (`pending := true`)
    sender       S1  timer tick: non-blocking receive from `triggerSend`        (needs `pending`)
                 S2a `allGroups()` — evaluated *before* the `select` on `syncCh`; it holds `m.mtx.RLock` for
                     the whole loop but takes `targetsMtx` once PER PROVIDER, so the snapshot is not atomic:
                     `s2begin` (take `m.mtx.RLock`, fix the provider list), then one `s2prov` per provider —
                     updaters may run in between
                 S2b non-blocking send of the snapshot on the unbuffered `syncCh`: succeeds iff the consumer
                     is blocked in its receive; otherwise `triggerSend` is re-armed  (`pending := true`)
    reload       `ApplyConfig` (holds `m.mtx.Lock` for its whole duration, so it excludes a snapshot in
                 progress and vice versa; it waits for the `cleaner` of every cancelled provider before
                 returning): one atomic action, enabled only while the sender is not inside `allGroups`
    consumer     `receive` (starts waiting on `SyncCh`), `leave` (gives up waiting)

  Go maps are partial functions here (`targets : (job, provider) → Option (source map)`); a source map is an
  association list (its order is the unspecified Go map iteration order; the suite sorts before printing).
  A target group is identified by `(src, ver)` and carries only its number of targets `n` — the manager looks
  at nothing else (`len(tg.Targets) > 0`).  Timers/backoff are abstracted: S1 may fire whenever `pending`.

  `hist` is a ghost variable (never read by any action): all update slices a provider's updater has applied,
  concatenated in order.  The theorems in `PromProps/C47.lean` relate what is delivered to `latest (hist p)`.
-/
namespace Prom.Discovery

abbrev Job := Nat
abbrev Cfg := Nat
abbrev Src := Nat
abbrev Pid := Nat

/-- A target group as the manager sees it. `n = len(tg.Targets)`. -/
structure Group where
  src : Src
  ver : Nat
  n : Nat
deriving DecidableEq, Repr, Inhabited

/-- One slice sent by a discoverer; Go allows nil entries. -/
abbrev Upd := List (Option Group)

/-- `map[string]*targetgroup.Group`. -/
abbrev SrcMap := List (Src × Group)

def smGet : SrcMap → Src → Option Group
  | [], _ => none
  | (k, g) :: r, s => if k = s then some g else smGet r s

def smDel (m : SrcMap) (s : Src) : SrcMap := m.filter (fun e => e.1 ≠ s)

def smSet (m : SrcMap) (g : Group) : SrcMap := (g.src, g) :: smDel m g.src

/-- Body of the loop in `updateGroup`. -/
def applyGroup (m : SrcMap) : Option Group → SrcMap
  | none => m
  | some g => if g.n > 0 then smSet m g else smDel m g.src

def applyUpd (m : SrcMap) (u : Upd) : SrcMap := u.foldl applyGroup m

/-- The last group of an update history that names source `s` (specification level). -/
def latest : Upd → Src → Option Group
  | [], _ => none
  | og :: r, s =>
    match latest r s with
    | some g => some g
    | none => match og with
      | some g => if g.src = s then some g else none
      | none => none

structure Provider where
  id : Pid
  cfg : Cfg
  subs : List Job
  newSubs : List Job
  started : Bool
deriving DecidableEq, Repr, Inhabited

/-- What travels over `syncCh`: job ↦ groups. -/
abbrev Snap := List (Job × List Group)

inductive SenderPc
  | idle
  | took
  /-- inside `allGroups` (or just after it, `rest = []`): accumulated map, providers still to visit -/
  | snapping (acc : Snap) (rest : List Provider)
deriving DecidableEq, Repr, Inhabited

abbrev Targets := Job × Pid → Option SrcMap

structure State where
  targets : Targets := fun _ => none
  providers : List Provider := []
  lastProvider : Nat := 0
  pending : Bool := false
  sender : SenderPc := .idle
  /-- providers whose updater is between U1 and U2 -/
  mid : List Pid := []
  consumerReady : Bool := false
  /-- the last map the consumer received (the empty map before the first delivery) -/
  delivered : Snap := []
  deliveries : Nat := 0
  /-- ghost: everything provider `p`'s updater applied so far -/
  hist : Pid → Upd := fun _ => []

instance : Inhabited State := ⟨{}⟩

def tgetD (t : Targets) (j : Job) (p : Pid) : SrcMap := (t (j, p)).getD []

/-! ### allGroups -/

def snapHas (acc : Snap) (j : Job) : Bool := acc.any (fun e => e.1 == j)

def snapAppend (acc : Snap) (j : Job) (gs : List Group) : Snap :=
  acc.map (fun e => if e.1 = j then (e.1, e.2 ++ gs) else e)

/-- Inner loop body of `allGroups` for one `(provider, job)`. -/
def agJob (t : Targets) (pid : Pid) (acc : Snap) (j : Job) : Snap :=
  let acc := if snapHas acc j then acc else acc ++ [(j, [])]
  match t (j, pid) with
  | some m => snapAppend acc j (m.map (·.2))
  | none => acc

def agProv (t : Targets) (acc : Snap) (p : Provider) : Snap := p.subs.foldl (agJob t p.id) acc

def allGroups (s : State) : Snap := s.providers.foldl (agProv s.targets) []

def snapGet (sn : Snap) (j : Job) : Option (List Group) := (sn.find? (fun e => e.1 == j)).map (·.2)

/-! ### ApplyConfig -/

def addSub (js : List Job) (j : Job) : List Job := if j ∈ js then js else js ++ [j]

/-- `reflect.DeepEqual(cfg, p.config)` hit: the first provider with that configuration gets the new subscriber. -/
def markFirst : List Provider → Cfg → Job → List Provider
  | [], _, _ => []
  | p :: r, c, j =>
    if p.cfg = c then { p with newSubs := addSub p.newSubs j } :: r else p :: markFirst r c j

/-- `add` inside `registerProviders`. -/
def addCfg (j : Job) (st : List Provider × Nat) (c : Cfg) : List Provider × Nat :=
  if st.1.any (fun p => p.cfg == c) then (markFirst st.1 c j, st.2)
  else (st.1 ++ [{ id := st.2, cfg := c, subs := [], newSubs := [j], started := false }], st.2 + 1)

/-- Configuration id of the fallback `StaticConfig{{}}` (one empty group). -/
def staticEmptyCfg : Cfg := 0

/-- `registerProviders` (no `NewDiscoverer` failures). -/
def registerJob (st : List Provider × Nat) (jc : Job × List Cfg) : List Provider × Nat :=
  match jc.2 with
  | [] => addCfg jc.1 st staticEmptyCfg
  | cs => cs.foldl (addCfg jc.1) st

def eraseKeys (t : Targets) (js : List Job) (pid : Pid) : Targets :=
  fun k => if k.2 = pid ∧ k.1 ∈ js then none else t k

def setKeys (t : Targets) (js : List Job) (pid : Pid) (m : SrcMap) : Targets :=
  fun k => if k.2 = pid ∧ k.1 ∈ js then some m else t k

/-- `refTargets`: the targets of (some — here the last) current subscriber. -/
def refTargets (t : Targets) (p : Provider) : Option SrcMap :=
  match p.subs.getLast? with
  | some j => t (j, p.id)
  | none => none

/-- The targets part of one iteration of the provider loop of `ApplyConfig`. -/
def provTargets (t : Targets) (p : Provider) : Targets :=
  if p.newSubs.isEmpty && p.started then
    -- cancel; delete the subs' targets (and the `cleaner` deletes them again)
    eraseKeys t p.subs p.id
  else
    let t1 := eraseKeys t (p.subs.filter (fun j => j ∉ p.newSubs)) p.id
    match refTargets t p with
    | some m => if m.length > 0 then setKeys t1 p.newSubs p.id m else t1
    | none => t1

/-- The provider-list part of one iteration: `none` = cancelled. -/
def provKeep (p : Provider) : Option Provider :=
  if p.newSubs.isEmpty && p.started then none
  else some { p with subs := p.newSubs, newSubs := [], started := true }

def applyConfig (s : State) (cfg : List (Job × List Cfg)) : State :=
  let reg := cfg.foldl registerJob (s.providers, s.lastProvider)
  let kept := reg.1.filterMap provKeep
  { s with
    targets := reg.1.foldl provTargets s.targets
    providers := kept
    lastProvider := reg.2
    pending := if reg.1.length > 0 then true else s.pending
    -- the updaters of cancelled providers are gone (their `cleaner` has run)
    mid := s.mid.filter (fun pid => kept.any (fun p => p.id == pid)) }

/-! ### Actions -/

inductive Action
  | u1 (pid : Pid) (u : Upd)
  | u2 (pid : Pid)
  | s1
  | s2begin
  | s2prov
  | s2send
  | applyConfig (cfg : List (Job × List Cfg))
  | receive
  | leave
deriving Repr, Inhabited

def findProv (s : State) (pid : Pid) : Option Provider := s.providers.find? (fun p => p.id == pid)

/-- U1: `for s := range p.subs { m.updateGroup(poolKey{s, p.name}, tgs) }`. -/
def updateTargets (t : Targets) (p : Provider) (u : Upd) : Targets :=
  fun k => if k.2 = p.id ∧ k.1 ∈ p.subs then some (applyUpd ((t k).getD []) u) else t k

/-- One atomic action; `none` when it is not enabled. -/
def step (s : State) : Action → Option State
  | .u1 pid u =>
    match findProv s pid with
    | some p =>
      if pid ∈ s.mid then none else
      some { s with
        targets := updateTargets s.targets p u
        mid := pid :: s.mid
        hist := fun q => if q = pid then s.hist q ++ u else s.hist q }
    | none => none
  | .u2 pid =>
    if pid ∈ s.mid then some { s with mid := s.mid.erase pid, pending := true } else none
  | .s1 =>
    if s.sender = .idle ∧ s.pending = true then some { s with sender := .took, pending := false } else none
  | .s2begin =>
    if s.sender = .took then some { s with sender := .snapping [] s.providers } else none
  | .s2prov =>
    match s.sender with
    | .snapping acc (p :: rest) => some { s with sender := .snapping (agProv s.targets acc p) rest }
    | _ => none
  | .s2send =>
    match s.sender with
    | .snapping snap [] =>
      if s.consumerReady then
        some { s with sender := .idle, consumerReady := false, delivered := snap, deliveries := s.deliveries + 1 }
      else
        some { s with sender := .idle, pending := true }
    | _ => none
  | .applyConfig cfg =>
    match s.sender with
    | .snapping _ _ => none      -- `m.mtx` is read-locked by `allGroups`
    | _ => some (applyConfig s cfg)
  | .receive => some { s with consumerReady := true }
  | .leave => some { s with consumerReady := false }

def run (s : State) : List Action → Option State
  | [] => some s
  | a :: rest => match step s a with
    | some s' => run s' rest
    | none => none

/-- No thread is inside an action and no trigger is outstanding. -/
def quiescent (s : State) : Prop := s.sender = .idle ∧ s.pending = false ∧ s.mid = []

instance (s : State) : Decidable (quiescent s) := by unfold quiescent; exact inferInstance

end Prom.Discovery
