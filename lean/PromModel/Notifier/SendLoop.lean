import PromModel.Prelude.Line
/-
  C46 — the notifier's per-Alertmanager send loop (notifier/sendloop.go) as a labelled transition system,
  and on top of it the alertmanager sets and the manager (alertmanagerset.go, manager.go).

  Level A (`Loop`, `step`): one `sendLoop`. Atomic actions = the code's critical sections:
    * `add as`      `sendLoop.add` as called from `alertmanagerSet.send` (set mutex held for the whole call):
                    stopped ⇒ nothing; else drop the oldest alerts of an over-long batch, drop the oldest
                    queued alerts, append, `notifyWork`, set the gauge, count the drops;
    * `wake`        the loop goroutine receives from `hasWork` (the 1-buffered flag);
    * `exit`        the loop goroutine sees `stopped` closed;
    * `take`        `nextBatch` by the loop goroutine (front `maxBatch` alerts); an empty batch sends nothing;
    * `result v`    the outcome of the loop goroutine's request (`ok` 2xx, `fail` non-2xx answer — the
                    Alertmanager did receive the request —, `err` transport error): `sent` += n, or
                    `errors` += n *and* `dropped` += n — a failed batch is not retried;
    * `post`        `if queueLen() > 0 { notifyWork() }` and back to the select;
    * `stop`        `sendLoop.stop` (once): close `stopped`; with DrainOnShutdown start draining, otherwise
                    count `len(queue)` as dropped (the queue is left as it is) and delete the metrics;
    * `dtake`, `dresult v`   the drain loop run by the caller of `stop` (`drainQueue` → `sendOneBatch`),
                    `dtake` on an empty queue ends it (metrics deleted).
  The caller of `stop` holds `alertmanagerSet.mtx` until `stop` returns, and `add` is only called with that
  mutex held, so `add` is not enabled between `stop` and the end of the drain (`Loop.midStop`).
  `wake` is enabled whenever the flag is set, even after `stop` (the real select may pick either ready
  case; if the outer non-blocking check already saw `stopped` the goroutine exits instead): the model
  over-approximates the goroutine's choices, so safety theorems cover every real schedule.

  Ghost state (never reset, unlike the real metrics which `stop` deletes): `sentIn`, `taken`, `received`,
  `batchSizes`, `nIn`, `nSent`, `nOverflow`, `nFailed`, `nStopDropped`.
  The real counters are `sent = nSent`, `errors = nFailed`, `dropped = nOverflow + nFailed + nStopDropped`.

  Level B (`World`): what the harness drives — sets keyed by position, loops keyed by endpoint, the
  per-URL metric rows (shared by successive loops of one URL), requests parked at the harness gate.
  The harness has two gates for the loop goroutine, both inside the `sending b` state of Level A (between
  `take` and `result`): the request gate (`Options.Do`, after the batch was JSON-encoded: `Eff.arrive`) and,
  on demand (`LoopW.armed`), the pause point "notifier.batchTaken" between `nextBatch()` and `sendAll()`:
  the goroutine then stays in `sending b` *without* the request having been built (`LoopW.pre`), other
  actions (`add`, `stop`, the drain) run, and `arrive b` happens when the harness lets it continue
  (`World.unpark`). So the schedules `take; add…; result` are realised with the adds before the encoding.
-/
namespace Prom.SendLoop

structure Cfg where
  cap : Nat
  maxBatch : Nat
  drain : Bool
deriving Repr, Inhabited

inductive Verdict | ok | fail | err
deriving DecidableEq, Repr, Inhabited

inductive Pc
  | idle | woke | sending (b : List Nat) | post | exited
deriving DecidableEq, Repr, Inhabited

inductive DPc
  | none | draining | dsending (b : List Nat) | done
deriving DecidableEq, Repr, Inhabited

/-- Observable side effects of an action (metrics, warnings, the request reaching the wire / the server). -/
inductive Eff
  | setQ (n : Nat) | sent (n : Nat) | dropped (n : Nat) | errors (n : Nat) | delete
  | logFull (n : Nat) | logBig (n : Nat) | logNoDrain (n : Nat)
  | arrive (b : List Nat)          -- the loop goroutine's request is on the wire
  | darrive (b : List Nat)         -- the drain's request is on the wire
  | rx (b : List Nat) (status : Nat)
deriving Repr, Inhabited

inductive Act
  | add (alerts : List Nat)
  | wake | exit | take | result (v : Verdict) | post
  | stop | dtake | dresult (v : Verdict)
deriving DecidableEq, Repr, Inhabited

structure Loop where
  queue : List Nat := []
  flag : Bool := false
  stopped : Bool := false
  pc : Pc := .idle
  dpc : DPc := .none
  -- ghost
  sentIn : List Nat := []
  taken : List Nat := []
  received : List Nat := []
  batchSizes : List Nat := []
  nIn : Nat := 0
  nSent : Nat := 0
  nOverflow : Nat := 0
  nFailed : Nat := 0
  nStopDropped : Nat := 0
deriving Repr, Inhabited

/-- `add`'s queue arithmetic: (new queue, dropped from the batch, dropped from the queue). -/
def addQueue (cap : Nat) (q alerts : List Nat) : List Nat × Nat × Nat :=
  let d1 := alerts.length - cap
  let alerts' := alerts.drop d1
  let d2 := (q.length + alerts'.length) - cap
  (q.drop d2 ++ alerts', d1, d2)

def Loop.midStop (s : Loop) : Bool :=
  match s.dpc with
  | .draining | .dsending _ => true
  | _ => false

/-- Alerts in flight (taken by `nextBatch`, outcome not yet known). -/
def Loop.inflight (s : Loop) : Nat :=
  (match s.pc with | .sending b => b.length | _ => 0) + (match s.dpc with | .dsending b => b.length | _ => 0)

/-- Counting the outcome of a request for batch `b`. -/
def Loop.outcome (s : Loop) (b : List Nat) : Verdict → Loop × List Eff
  | .ok => ({ s with nSent := s.nSent + b.length, received := s.received ++ b,
                     batchSizes := s.batchSizes ++ [b.length] },
            [.rx b 200, .sent b.length])
  | .fail => ({ s with nFailed := s.nFailed + b.length, received := s.received ++ b,
                       batchSizes := s.batchSizes ++ [b.length] },
              [.rx b 500, .errors b.length, .dropped b.length])
  | .err => ({ s with nFailed := s.nFailed + b.length }, [.errors b.length, .dropped b.length])

/-- One atomic action; `none` = not enabled in this state. -/
def step (c : Cfg) (s : Loop) : Act → Option (Loop × List Eff)
  | .add alerts =>
    if s.midStop then none                       -- the set mutex is held by the caller of `stop`
    else if s.stopped then some (s, [])
    else
      let r := addQueue c.cap s.queue alerts
      some ({ s with queue := r.1, flag := true, sentIn := s.sentIn ++ alerts, nIn := s.nIn + alerts.length,
                     nOverflow := s.nOverflow + (r.2.1 + r.2.2) },
            (if r.2.1 > 0 then [Eff.logBig r.2.1] else []) ++ (if r.2.2 > 0 then [Eff.logFull r.2.2] else [])
              ++ [.setQ r.1.length] ++ (if r.2.1 + r.2.2 > 0 then [Eff.dropped (r.2.1 + r.2.2)] else []))
  | .wake =>
    if s.pc = .idle ∧ s.flag then some ({ s with flag := false, pc := .woke }, []) else none
  | .exit =>
    if s.pc = .idle ∧ s.stopped then some ({ s with pc := .exited }, []) else none
  | .take =>
    if s.pc = .woke then
      let b := s.queue.take c.maxBatch
      let s' := { s with queue := s.queue.drop c.maxBatch, taken := s.taken ++ b }
      if b.isEmpty then some ({ s' with pc := .post }, [.setQ s'.queue.length])
      else some ({ s' with pc := .sending b }, [.setQ s'.queue.length, .arrive b])
    else none
  | .result v =>
    match s.pc with
    | .sending b => let r := s.outcome b v; some ({ r.1 with pc := .post }, r.2)
    | _ => none
  | .post =>
    if s.pc = .post then
      some ({ s with pc := .idle, flag := s.flag || (!s.queue.isEmpty && !s.stopped) }, [])
    else none
  | .stop =>
    if s.midStop then none
    else if s.stopped then some (s, [])          -- stopOnce
    else if c.drain then some ({ s with stopped := true, dpc := .draining }, [])
    else some ({ s with stopped := true, dpc := .done, nStopDropped := s.nStopDropped + s.queue.length },
               [.logNoDrain s.queue.length, .dropped s.queue.length, .delete])
  | .dtake =>
    if s.dpc = .draining then
      if s.queue.isEmpty then some ({ s with dpc := .done }, [.delete])
      else
        let b := s.queue.take c.maxBatch
        let s' := { s with queue := s.queue.drop c.maxBatch, taken := s.taken ++ b }
        if b.isEmpty then some (s', [.setQ s'.queue.length])      -- maxBatch = 0 cannot happen (NewManager)
        else some ({ s' with dpc := .dsending b }, [.setQ s'.queue.length, .darrive b])
    else none
  | .dresult v =>
    match s.dpc with
    | .dsending b => let r := s.outcome b v; some ({ r.1 with dpc := .draining }, r.2)
    | _ => none

/-- Run a schedule; `none` if some action is not enabled. -/
def run (c : Cfg) (s : Loop) : List Act → Option Loop
  | [] => some s
  | a :: rest => match step c s a with
    | some (s', _) => run c s' rest
    | none => none

/-- Two requests of one loop in flight at once: the loop goroutine's and the draining `stop` caller's. -/
def Loop.overlap (s : Loop) : Bool :=
  match s.pc, s.dpc with
  | .sending _, .dsending _ => true
  | _, _ => false

/-- Run a schedule during which the loop goroutine and the drain never have requests in flight together. -/
def runNoOverlap (c : Cfg) (s : Loop) : List Act → Option Loop
  | [] => some s
  | a :: rest => match step c s a with
    | some (s', _) => if s'.overlap then none else runNoOverlap c s' rest
    | none => none

/-! ## Level B: sets, manager, metric rows, the gate -/

structure Row where
  q : Option Nat := none
  s : Option Nat := none
  d : Option Nat := none
  e : Option Nat := none
deriving Repr, Inhabited, DecidableEq

structure LoopW where
  gen : Nat
  e : Nat
  loop : Loop
  armed : Bool := false               -- the next `take` parks the goroutine before the batch is encoded
  pre : Option (List Nat) := none     -- parked there with this batch: its `arrive` is still to come
deriving Repr, Inhabited

structure SetW where
  tag : String
  drops : List Nat
  ams : List Nat := []
  loops : List LoopW := []
deriving Repr, Inhabited

structure Held where
  name : String
  gen : Nat
  batch : List Nat
deriving Repr, Inhabited

structure World where
  c : Cfg
  gdrops : List Nat := []
  sets : List SetW := []
  zombies : List (String × LoopW) := []        -- stopped loops whose goroutine still has a request in flight
  metrics : List (String × Row) := []
  held : List Held := []                         -- requests parked at the gate, arrival order
  stopped : Bool := false
  nextGen : Nat := 0
  -- outputs of the current op
  rx : List (String × List Nat × Nat) := []
  log : List (String × String × Nat) := []
  dr : List (String × List Nat × Verdict) := []
deriving Repr, Inhabited

def nameOf (tag : String) (e : Nat) : String := s!"{tag}.{e}"

def World.updRow (w : World) (nm : String) (f : Row → Row) : World :=
  if w.metrics.any (·.1 == nm) then
    { w with metrics := w.metrics.map fun p => if p.1 == nm then (p.1, f p.2) else p }
  else { w with metrics := w.metrics ++ [(nm, f {})] }

def optAdd (o : Option Nat) (n : Nat) : Option Nat := some (o.getD 0 + n)

def World.applyEff (w : World) (nm : String) (gen : Nat) : Eff → World
  | .setQ n => w.updRow nm fun r => { r with q := some n }
  | .sent n => w.updRow nm fun r => { r with s := optAdd r.s n }
  | .dropped n => w.updRow nm fun r => { r with d := optAdd r.d n }
  | .errors n => w.updRow nm fun r => { r with e := optAdd r.e n }
  | .delete => { w with metrics := w.metrics.filter (·.1 != nm) }
  | .logFull n => { w with log := w.log ++ [(nm, "full", n)] }
  | .logBig n => { w with log := w.log ++ [(nm, "big", n)] }
  | .logNoDrain n => { w with log := w.log ++ [(nm, "nodrain", n)] }
  | .arrive b => { w with held := w.held ++ [⟨nm, gen, b⟩] }
  | .darrive _ => w                       -- answered at once from the op's pattern, never parked
  | .rx b st => { w with rx := w.rx ++ [(nm, b, st)] }

def World.applyEffs (w : World) (nm : String) (gen : Nat) (effs : List Eff) : World :=
  effs.foldl (fun w e => w.applyEff nm gen e) w

def Eff.arriveBatch : Eff → Option (List Nat)
  | .arrive b => some b
  | _ => none

/-- Apply an action of loop `l` (named `nm`); a disabled action leaves everything unchanged. The `take` of an
    armed loop parks the goroutine before the encoding: every effect but `arrive` happens now. -/
def actW (w : World) (nm : String) (l : LoopW) (a : Act) : World × LoopW :=
  match step w.c l.loop a with
  | some (s', effs) =>
    if a = .take ∧ l.armed then
      (w.applyEffs nm l.gen (effs.filter fun e => e.arriveBatch.isNone),
       { l with loop := s', armed := false, pre := some ((effs.findSome? Eff.arriveBatch).getD []) })
    else (w.applyEffs nm l.gen effs, { l with loop := s' })
  | none => (w, l)

/-- Let the loop goroutine run until it blocks: parked before the encoding, or parked with a request, or idle
    without work, or exited. -/
def settle (w : World) (nm : String) (l : LoopW) : Nat → World × LoopW
  | 0 => (w, l)
  | fuel + 1 =>
    if l.pre.isSome then (w, l) else
    match l.loop.pc with
    | .idle =>
      if l.loop.stopped then actW w nm l .exit
      else if l.loop.flag then let (w, l) := actW w nm l .wake; settle w nm l fuel
      else (w, l)
    | .woke => let (w, l) := actW w nm l .take; settle w nm l fuel
    | .post => let (w, l) := actW w nm l .post; settle w nm l fuel
    | _ => (w, l)

def settleFuel : Nat := 8

/-- `newSendLoop`: the four `WithLabelValues` calls create missing series with value 0. -/
def World.initRow (w : World) (nm : String) : World :=
  w.updRow nm fun r => { q := some (r.q.getD 0), s := some (r.s.getD 0), d := some (r.d.getD 0), e := some (r.e.getD 0) }

def patternAt (pat : List Char) (k : Nat) : Verdict :=
  match pat[k % (max pat.length 1)]? with
  | some 'f' => .fail
  | some 'x' => .err
  | _ => .ok

/-- `sendLoop.stop()` as run by `cleanSendLoops`: stop, drain synchronously (answers from the pattern),
    then the loop either has exited or stays behind as a zombie with its request in flight. -/
def stopLoop (w : World) (nm : String) (l : LoopW) (pat : List Char) : World :=
  let (w, l) := actW w nm l .stop
  let rec drain (w : World) (l : LoopW) (k : Nat) : Nat → World × LoopW
    | 0 => (w, l)
    | fuel + 1 =>
      match l.loop.dpc with
      | .draining =>
        let (w, l) := actW w nm l .dtake
        drain w l k fuel
      | .dsending b =>
        let v := patternAt pat k
        let (w, l) := actW w nm l (.dresult v)
        drain { w with dr := w.dr ++ [(nm, b, v)] } l (k + 1) fuel
      | _ => (w, l)
  let (w, l) := drain w l 0 (2 * l.loop.queue.length + 4)
  let (w, l) := settle w nm l settleFuel
  match l.loop.pc with
  | .sending _ => { w with zombies := w.zombies ++ [(nm, l)] }
  | _ => if l.pre.isSome then { w with zombies := w.zombies ++ [(nm, l)] } else w

/-- Replace the loop with generation `gen` wherever it lives (a set or the zombie list). -/
def World.putLoop (w : World) (l : LoopW) : World :=
  { w with
    sets := w.sets.map fun st => { st with loops := st.loops.map fun x => if x.gen == l.gen then l else x },
    zombies := w.zombies.map fun z => if z.2.gen == l.gen then (z.1, l) else z }

def World.findLoop (w : World) (gen : Nat) : Option LoopW :=
  match (w.sets.flatMap (·.loops)).find? (·.gen == gen) with
  | some l => some l
  | none => (w.zombies.find? (·.2.gen == gen)).map (·.2)

def survivors (ids drops : List Nat) : List Nat := ids.filter fun i => !drops.contains i

/-- `Manager.Send`: stop requested ⇒ nothing; global relabelling; per set its own relabelling (a set whose
    relabelling drops everything is skipped); `add` on every loop of the set; the loops then run. -/
def World.send (w : World) (ids : List Nat) : World :=
  if w.stopped then w else
  let g := survivors ids w.gdrops
  if g.isEmpty then w else
  let targets : List (String × LoopW × List Nat) := w.sets.flatMap fun st =>
    let a := survivors g st.drops
    if a.isEmpty then [] else st.loops.map fun l => (nameOf st.tag l.e, l, a)
  targets.foldl (fun w (nm, l, a) =>
    let (w, l) := actW w nm l (.add a)
    let (w, l) := settle w nm l settleFuel
    w.putLoop l) w

def dedupNat : List Nat → List Nat
  | [] => []
  | x :: xs => x :: (dedupNat xs).filter (· != x)

/-- Stop and forget the loops of `st` for the endpoints `es` (`cleanSendLoops`). -/
def cleanLoops (w : World) (st : SetW) (es : List Nat) (pat : List Char) : World × SetW :=
  es.foldl (fun (w, st) e =>
    match st.loops.find? (·.e == e) with
    | some l => (stopLoop w (nameOf st.tag e) l pat, { st with loops := st.loops.filter (·.e != e) })
    | none => (w, st)) (w, st)

/-- A target update for the set at position `pos` (`reload` → `alertmanagerSet.sync`). -/
def World.sync (w : World) (pos : Nat) (es : List Nat) (pat : List Char) : World :=
  match w.sets[pos]? with
  | none => w
  | some st =>
    let ams := dedupNat es
    let prev := st.ams
    -- addSendLoops
    let (w, st) := ams.foldl (fun (w, st) e =>
      if st.loops.any (·.e == e) then (w, st)
      else
        let w := w.initRow (nameOf st.tag e)
        ({ w with nextGen := w.nextGen + 1 }, { st with loops := st.loops ++ [{ gen := w.nextGen, e := e, loop := {} }] }))
      (w, { st with ams := ams })
    let (w, st) := cleanLoops w st ((dedupNat prev).filter fun e => !ams.contains e) pat
    { w with sets := w.sets.set pos st }

/-- `ApplyConfig`: a new set takes over the loops of the old set with the same configuration (same tag
    and relabelling); loops of every other old set are stopped. -/
def World.applyConfig (w : World) (g : List Nat) (sets : List (String × List Nat)) : World :=
  let old := w.sets
  let newSets : List SetW := sets.map fun (tag, drops) =>
    match old.find? (fun o => o.tag == tag && o.drops == drops) with
    | some o => { tag := tag, drops := drops, ams := o.ams, loops := o.loops }
    | none => { tag := tag, drops := drops }
  let gone := old.filter fun o => !sets.any fun (tag, drops) => o.tag == tag && o.drops == drops
  let w := gone.foldl (fun w o => (cleanLoops w o o.ams ['o']).1) w
  { w with sets := newSets, gdrops := g }

/-- `Stop` + the clean-up at the end of `Run`: every loop listed in `ams` is stopped. The `ams` lists stay. -/
def World.stop (w : World) (pat : List Char) : World :=
  let w := { w with stopped := true }
  let n := w.sets.length
  (List.range n).foldl (fun w i =>
    match w.sets[i]? with
    | none => w
    | some st =>
      let (w, st) := cleanLoops w st st.ams pat
      { w with sets := w.sets.set i st }) w

/-- Release the `k`-th oldest parked request of URL `nm`. Returns the released batch. -/
def World.release (w : World) (nm : String) (k : Nat) (v : Verdict) : World × Option (List Nat) :=
  match (w.held.filter (·.name == nm))[k]? with
  | none => (w, none)
  | some h =>
    let w := { w with held := w.held.filter fun x => !(x.name == nm && x.gen == h.gen) }
    match w.findLoop h.gen with
    | none => (w, some h.batch)
    | some l =>
      let (w, l) := actW w nm l (.result v)
      let (w, l) := settle w nm l settleFuel
      let w := w.putLoop l
      -- a zombie whose goroutine has exited is forgotten
      ({ w with zombies := w.zombies.filter fun z => z.2.loop.pc != .exited }, some h.batch)

/-- The loops of URL `nm`, running or not, with their names. -/
def World.loopsNamed (w : World) (nm : String) : List LoopW :=
  (w.zombies.filter (·.1 == nm)).map (·.2) ++
  (w.sets.flatMap fun st => st.loops.filter fun l => nameOf st.tag l.e == nm)

def World.runningLoop (w : World) (nm : String) : Option LoopW :=
  (w.sets.flatMap fun st => st.loops.filter fun l => nameOf st.tag l.e == nm).head?

/-- Arm the second gate for the running loop of URL `nm`: its next `take` parks before the encoding. Refused
    if the manager is stopped, nothing can ever be queued (capacity 0: only empty takes), no such loop runs,
    it is armed already, or a goroutine of that URL is still parked there. -/
def World.park (w : World) (nm : String) : World × Bool :=
  if w.stopped || w.c.cap == 0 || (w.loopsNamed nm).any (·.pre.isSome) then (w, false) else
  match w.runningLoop nm with
  | none => (w, false)
  | some l => if l.armed then (w, false) else (w.putLoop { l with armed := true }, true)

/-- Let the goroutine of URL `nm` parked before the encoding continue: its request arrives at the request gate. -/
def World.unpark (w : World) (nm : String) : World × Option (List Nat) :=
  match (w.loopsNamed nm).find? (·.pre.isSome) with
  | none => (w, none)
  | some l =>
    let b := l.pre.getD []
    let w := if b.isEmpty then w else w.applyEff nm l.gen (.arrive b)
    let (w, l) := settle w nm { l with pre := none } settleFuel
    let w := w.putLoop l
    ({ w with zombies := w.zombies.filter fun z => z.2.loop.pc != .exited }, some b)

end Prom.SendLoop
