/-
  Bit streams (model of `tsdb/chunkenc/bstream.go`), reusable.

  A bit stream is a `List Bool`, most significant bit first.  `bstream.writeBits(u, n)` appends the `n`
  right-most bits of `u` in left-to-right order (`natToBits u n`); `bstreamReader.readBits(n)` consumes
  `n` bits and fails (`io.EOF`) when fewer are left.  `toBytes` packs MSB-first and pads the last byte with
  zero bits — exactly what `bstream.stream` holds (`bstream.count` = number of padding bits).
  Bytes are `Nat`s below 256.  Go's `encoding/binary` (u)varints are included because the chunk encodings
  write them byte by byte through the bit stream.
-/
namespace Prom.Bits

abbrev Bits := List Bool

/-- The `n` low bits of `v`, most significant first (`bstream.writeBits`). -/
def natToBits (v : Nat) : Nat → Bits
  | 0 => []
  | n + 1 => v.testBit n :: natToBits v n

/-- Value of a bit string read MSB-first. -/
def bitsToNat : Bits → Nat
  | [] => 0
  | b :: bs => b.toNat * 2 ^ bs.length + bitsToNat bs

/-- `bstream.writeBits(v, n)` on a stream. -/
def writeBits (s : Bits) (v n : Nat) : Bits := s ++ natToBits v n

/-- `bstreamReader.readBits(n)`: `none` is `io.EOF`. -/
def readBits (n : Nat) (s : Bits) : Option (Nat × Bits) :=
  let h := s.take n
  if h.length = n then some (bitsToNat h, s.drop n) else none

/-- One byte from up to 8 bits, zero-padded on the right. -/
def byteOf (bs : Bits) : Nat := bitsToNat (bs ++ List.replicate (8 - bs.length) false)

def toBytesF : Nat → Bits → List Nat
  | 0, _ => []
  | f + 1, bs => if bs.isEmpty then [] else byteOf (bs.take 8) :: toBytesF f (bs.drop 8)

/-- Pack MSB-first, zero padding in the last byte. -/
def toBytes (bs : Bits) : List Nat := toBytesF bs.length bs

def fromBytes (bytes : List Nat) : Bits := bytes.flatMap fun b => natToBits b 8

/-- Number of zero padding bits `toBytes` adds (`bstream.count` after writing `n` bits). -/
def padLen (n : Nat) : Nat := (8 - n % 8) % 8

/-- Pad with zero bits to a whole number of bytes (what a reloaded `bstream` with `count = 0` amounts to). -/
def padTo8 (bs : Bits) : Bits := bs ++ List.replicate (padLen bs.length) false

/-! ### Go `encoding/binary` varints, written through the bit stream byte by byte -/

def putUvarintF : Nat → Nat → Bits
  | 0, _ => []
  | f + 1, x => if x < 128 then natToBits x 8 else natToBits (x % 128 + 128) 8 ++ putUvarintF f (x / 128)

/-- `binary.PutUvarint` (at most 10 bytes for a uint64). -/
def putUvarint (x : Nat) : Bits := putUvarintF 10 x

/-- `ux := uint64(x) << 1; if x < 0 { ux = ^ux }`. -/
def zigzag (x : Int) : Nat := if 0 ≤ x then (2 * x).toNat else (2 * (-x - 1) + 1).toNat

def unzigzag (u : Nat) : Int := if u % 2 = 0 then (u / 2 : Nat) else -((u / 2 : Nat) : Int) - 1

def putVarint (x : Int) : Bits := putUvarint (zigzag x)

/-- `binary.ReadUvarint` over `ReadByte`; `strict` = the standard library's overflow check on the 10th byte
    (`bstreamReader.readUvarint` of xor2.go does not have it and truncates instead). `none` = any error. -/
def readUvarintF (strict : Bool) : Nat → Nat → Nat → Bits → Option (Nat × Bits)
  | 0, _, _, _ => none
  | f + 1, x, s, bits =>
    match readBits 8 bits with
    | none => none
    | some (b, rest) =>
      if b < 128 then
        if strict ∧ f = 0 ∧ b > 1 then none else some ((x + b * 2 ^ s) % 2 ^ 64, rest)
      else readUvarintF strict f (x + (b % 128) * 2 ^ s) (s + 7) rest

def readUvarint (strict : Bool) (bits : Bits) : Option (Nat × Bits) := readUvarintF strict 10 0 0 bits

def readVarint (strict : Bool) (bits : Bits) : Option (Int × Bits) :=
  match readUvarint strict bits with
  | none => none
  | some (u, rest) => some (unzigzag u, rest)

/-! ### 64-bit helpers -/

def two64 : Nat := 18446744073709551616
def two63 : Nat := 9223372036854775808

/-- `uint64(x)` for an integer `x`. -/
def toU (x : Int) : Nat := (x % (two64 : Int)).toNat

/-- `int64(u)` for `u < 2^64`. -/
def toI (u : Nat) : Int := if u < two63 then (u : Int) else (u : Int) - (two64 : Int)

def I64 (x : Int) : Prop := -(two63 : Int) ≤ x ∧ x < (two63 : Int)

instance (x : Int) : Decidable (I64 x) := by unfold I64; exact inferInstance

def hexByte (b : Nat) : List Char :=
  let d (n : Nat) : Char := if n < 10 then Char.ofNat (48 + n) else Char.ofNat (87 + n)
  [d (b / 16 % 16), d (b % 16)]

def hexOfByteList (bs : List Nat) : String :=
  if bs.isEmpty then "-" else String.ofList (bs.flatMap hexByte)

end Prom.Bits
