/-
  Byte-level encoding prelude (core Lean only): a transcription of the parts of Go's
  `encoding/binary`, `github.com/dennwc/varint` and prometheus `tsdb/encoding` (Encbuf / Decbuf)
  that the WAL record, tombstone, index and chunk codecs are built from.

  * bytes are `List UInt8`;
  * unsigned 64-bit values are `Nat` (callers keep them `< 2^64`), signed ones are `Int`
    (callers keep them in `I64`); every place where Go converts `uint64(x)` / `int64(u)` or relies
    on wrap-around is explicit (`toU64`, `toI64`, `wrap64`, `wrap32`);
  * floats never appear: a float64 travels as its 64-bit pattern (`Nat < 2^64`);
  * decoders return `Except DecErr (value × remaining bytes)`. `DecErr.invalid` is Decbuf's sticky
    `ErrInvalidSize`; `DecErr.panic` is a Go run-time panic (never a default value).

  Lemmas about these definitions live in `PromProofs/Enc.lean`.
-/
namespace Prom.Enc

abbrev Bytes := List UInt8

/-! ## 64/32-bit two's complement -/

def two63 : Nat := 9223372036854775808
def two64 : Nat := 18446744073709551616
def two31 : Nat := 2147483648
def two32 : Nat := 4294967296

/-- `x` is representable as a Go `int64`. -/
def I64 (x : Int) : Prop := -9223372036854775808 ≤ x ∧ x < 9223372036854775808
/-- `n` is representable as a Go `uint64`. -/
def U64 (n : Nat) : Prop := n < 18446744073709551616
def I32 (x : Int) : Prop := -2147483648 ≤ x ∧ x < 2147483648
def U32 (n : Nat) : Prop := n < 4294967296
def U8 (n : Nat) : Prop := n < 256

instance (x : Int) : Decidable (I64 x) := by unfold I64; infer_instance
instance (n : Nat) : Decidable (U64 n) := by unfold U64; infer_instance
instance (x : Int) : Decidable (I32 x) := by unfold I32; infer_instance
instance (n : Nat) : Decidable (U32 n) := by unfold U32; infer_instance
instance (n : Nat) : Decidable (U8 n) := by unfold U8; infer_instance

/-- Go `uint64(x)` for an integer `x` (two's complement, any width of `x`). -/
def toU64 (x : Int) : Nat := (x % 18446744073709551616).toNat

/-- Go `int64(u)` for `u : uint64` (and the wrap-around of any mathematical integer). -/
def toI64 (n : Nat) : Int :=
  let m := n % 18446744073709551616
  if m < 9223372036854775808 then (m : Int) else (m : Int) - 18446744073709551616

/-- Result of an `int64` computation whose mathematical value is `x` (wrap-around). -/
def wrap64 (x : Int) : Int := toI64 (toU64 x)

/-- Go `int32(x)` for an `int64` `x`. -/
def wrap32 (x : Int) : Int :=
  let m := x % 4294967296
  if m < 2147483648 then m else m - 4294967296

/-! ## Fixed-width big endian -/

def byteAt (n : Nat) (shift : Nat) : UInt8 := UInt8.ofNat (n / 2 ^ shift % 256)

/-- `Encbuf.PutBE64` -/
def putBE64 (n : Nat) : Bytes :=
  [byteAt n 56, byteAt n 48, byteAt n 40, byteAt n 32, byteAt n 24, byteAt n 16, byteAt n 8, byteAt n 0]

/-- `Encbuf.PutBE32` -/
def putBE32 (n : Nat) : Bytes :=
  [byteAt n 24, byteAt n 16, byteAt n 8, byteAt n 0]

inductive DecErr where
  /-- Decbuf's sticky `ErrInvalidSize` (short buffer, malformed/overflowing varint) -/
  | invalid
  /-- a Go run-time panic -/
  | panic
  deriving DecidableEq, Repr

abbrev Res (α : Type) := Except DecErr (α × Bytes)

/-- `Decbuf.Byte` -/
def getByte : Bytes → Res Nat
  | [] => .error .invalid
  | b :: rest => .ok (b.toNat, rest)

/-- `Decbuf.Be64` -/
def getBE64 : Bytes → Res Nat
  | a :: b :: c :: d :: e :: f :: g :: h :: rest =>
    .ok (((((((a.toNat * 256 + b.toNat) * 256 + c.toNat) * 256 + d.toNat) * 256 + e.toNat) * 256
          + f.toNat) * 256 + g.toNat) * 256 + h.toNat, rest)
  | _ => .error .invalid

/-- `Decbuf.Be32` -/
def getBE32 : Bytes → Res Nat
  | a :: b :: c :: d :: rest =>
    .ok (((a.toNat * 256 + b.toNat) * 256 + c.toNat) * 256 + d.toNat, rest)
  | _ => .error .invalid

/-! ## Uvarint / zig-zag varint -/

/-- `binary.PutUvarint` with `fuel + 1` bytes available. -/
def putUvarintAux : Nat → Nat → Bytes
  | 0, n => [UInt8.ofNat n]
  | fuel + 1, n =>
    if n < 128 then [UInt8.ofNat n]
    else UInt8.ofNat (n % 128 + 128) :: putUvarintAux fuel (n / 128)

/-- `binary.PutUvarint(x)` for `x : uint64` (at most 10 bytes). Intended for `n < 2^64`. -/
def putUvarint (n : Nat) : Bytes := putUvarintAux 9 n

/-- `binary.Uvarint` / `varint.Uvarint`: `k` = bytes still allowed (10 at the start),
    `mul = 128^(10-k)`, `acc` = value of the bytes read so far.
    Fails on a short buffer, on an 11th byte and on a 10th byte `> 1` (64-bit overflow). -/
def getUvarintAux : Nat → Nat → Nat → Bytes → Option (Nat × Bytes)
  | 0, _, _, _ => none
  | _ + 1, _, _, [] => none
  | k + 1, mul, acc, b :: rest =>
    if b.toNat < 128 then
      if k = 0 ∧ b.toNat > 1 then none else some (acc + b.toNat * mul, rest)
    else getUvarintAux k (mul * 128) (acc + (b.toNat - 128) * mul) rest

def getUvarint (bs : Bytes) : Option (Nat × Bytes) := getUvarintAux 10 1 0 bs

/-- Zig-zag: `ux := uint64(x) << 1; if x < 0 { ux = ^ux }`. -/
def zigzag (x : Int) : Nat := if 0 ≤ x then (2 * x).toNat else (-2 * x - 1).toNat

/-- `x := int64(ux >> 1); if ux&1 != 0 { x = ^x }`. -/
def unzigzag (u : Nat) : Int := if u % 2 = 0 then (u / 2 : Nat) else -((u / 2 : Nat) : Int) - 1

/-- `binary.PutVarint(x)` for `x : int64`. -/
def putVarint (x : Int) : Bytes := putUvarint (zigzag x)

def getVarint (bs : Bytes) : Option (Int × Bytes) :=
  match getUvarint bs with
  | some (u, rest) => some (unzigzag u, rest)
  | none => none

/-- `Decbuf.Uvarint64` -/
def decUvarint (bs : Bytes) : Res Nat :=
  match getUvarint bs with
  | some r => .ok r
  | none => .error .invalid

/-- `Decbuf.Varint64` -/
def decVarint (bs : Bytes) : Res Int :=
  match getVarint bs with
  | some r => .ok r
  | none => .error .invalid

/-- Go `int(l)` used as a loop bound / slice length: a value `≥ 2^63` is negative, i.e. no iteration. -/
def countOf (l : Nat) : Nat := if l < 9223372036854775808 then l else 0

/-! ## Length-prefixed strings -/

/-- `Encbuf.PutUvarintStr` / `PutUvarintBytes` -/
def putUvarintStr (s : Bytes) : Bytes := putUvarint s.length ++ s

/-- `Decbuf.UvarintBytes` / `UvarintStr`. A length `l ≥ 2^63` passes the `len(d.B) < int(l)` test
    (the conversion is negative) and the slice expression `d.B[:l]` then panics. -/
def decUvarintStr (bs : Bytes) : Res Bytes :=
  match decUvarint bs with
  | .error e => .error e
  | .ok (l, rest) =>
    if l ≥ 9223372036854775808 then .error .panic
    else if rest.length < l then .error .invalid
    else .ok (rest.take l, rest.drop l)

/-- `n` consecutive items. -/
def readN (get : Bytes → Res α) : Nat → Bytes → Res (List α)
  | 0, bs => .ok ([], bs)
  | n + 1, bs =>
    match get bs with
    | .error e => .error e
    | .ok (x, rest) =>
      match readN get n rest with
      | .error e => .error e
      | .ok (xs, rest') => .ok (x :: xs, rest')

/-- Decoder loop `for len(dec.B) > 0 && dec.Err() == nil { … }`: `step` decodes one entry, updates the
    loop state and optionally emits an item. `fuel` bounds the number of iterations; every entry of
    every format consumes at least one byte, so `fuel = bs.length` is never exhausted
    (`PromProofs.Enc.loop_…`); should a step not progress, the Go loop would spin, the model stops with
    `invalid`. -/
def loopFuel (step : σ → Bytes → Except DecErr (σ × Option β × Bytes)) : Nat → σ → Bytes → Except DecErr (List β)
  | _, _, [] => .ok []
  | 0, _, _ :: _ => .error .invalid
  | fuel + 1, s, b :: bs =>
    match step s (b :: bs) with
    | .error e => .error e
    | .ok (s', o, rest) =>
      match loopFuel step fuel s' rest with
      | .error e => .error e
      | .ok ys => .ok (match o with | some y => y :: ys | none => ys)

/-- Encoder loop with a running state (`first`/`prev` values). -/
def encAll (enc : σ → α → Bytes) (next : σ → α → σ) : σ → List α → Bytes
  | _, [] => []
  | s, x :: xs => enc s x ++ encAll enc next (next s x) xs

/-- What the decoder loop is expected to emit for `encAll`. -/
def outAll (out : σ → α → Option β) (next : σ → α → σ) : σ → List α → List β
  | _, [] => []
  | s, x :: xs => (match out s x with | some y => [y] | none => []) ++ outAll out next (next s x) xs

end Prom.Enc
