/-
  Go's `container/heap` transcribed over `Array α` with a strict "less" test `lt`.

  `push a x`  = `heap.Push`  : append, then `up`.
  `pop a`     = `heap.Pop`   : swap(0,n-1), `down(0,n-1)`, remove last.

  The loops carry fuel (the index / the array size bound them); the out-of-range branches are
  unreachable and return the array unchanged. The layout — hence which of several *equal* minima is
  popped first — is exactly Go's, which is what the correspondence suites compare.
  The abstract contract (pop returns a minimum, contents are preserved as a multiset) is proved in
  `PromProofs/GoHeap.lean`.
-/
namespace Prom.GoHeap
variable {α : Type}

/-- `heap.up(h, j)` -/
def up (lt : α → α → Bool) : Nat → Array α → Nat → Array α
  | 0, a, _ => a
  | fuel + 1, a, j =>
    let i := (j - 1) / 2
    if i = j then a
    else if h : j < a.size ∧ i < a.size then
      if lt a[j] a[i] then up lt fuel (a.swap i j h.2 h.1) i else a
    else a

/-- the smaller child of `i` among the first `n` slots (the left one on ties), as `down` picks it -/
def child (lt : α → α → Bool) (a : Array α) (i n : Nat) : Nat :=
  if h : 2 * i + 2 < n ∧ 2 * i + 2 < a.size then (if lt a[2 * i + 2] a[2 * i + 1] then 2 * i + 2 else 2 * i + 1)
  else 2 * i + 1

/-- `heap.down(h, i, n)` (the boolean result is not used by Push/Pop) -/
def down (lt : α → α → Bool) : Nat → Array α → Nat → Nat → Array α
  | 0, a, _, _ => a
  | fuel + 1, a, i, n =>
    if 2 * i + 1 < n ∧ n ≤ a.size then
      if hj : child lt a i n < a.size ∧ i < a.size then
        if lt a[child lt a i n] a[i] then down lt fuel (a.swap i (child lt a i n) hj.2 hj.1) (child lt a i n) n else a
      else a
    else a

/-- `heap.Push` -/
def push (lt : α → α → Bool) (a : Array α) (x : α) : Array α :=
  up lt (a.size + 1) (a.push x) a.size

/-- `heap.Pop`; `none` where Go would panic (empty heap). -/
def pop (lt : α → α → Bool) (a : Array α) : Option (α × Array α) :=
  if h : 0 < a.size then
    let n := a.size - 1
    let a1 := a.swap 0 n h (by omega)
    let a2 := down lt (a.size + 1) a1 0 n
    match a2.back? with
    | some x => some (x, a2.pop)
    | none => none
  else none

end Prom.GoHeap
