/-
  Line protocol helpers shared by every suite (core Lean only).

  A *case* is a list of op lines; the model answers with one output line per op line.
  Tokens are separated by single spaces; arbitrary strings travel hex-encoded (`hexEnc`).
-/
namespace Prom

/-- Split a line into space-separated tokens, dropping empty tokens. -/
def toks (s : String) : List String :=
  (s.splitOn " ").filter (· ≠ "")

def hexDigit (n : Nat) : Char :=
  if n < 10 then Char.ofNat (48 + n) else Char.ofNat (87 + n)

def hexVal? (c : Char) : Option Nat :=
  if '0' ≤ c ∧ c ≤ '9' then some (c.toNat - 48)
  else if 'a' ≤ c ∧ c ≤ 'f' then some (c.toNat - 87)
  else if 'A' ≤ c ∧ c ≤ 'F' then some (c.toNat - 55)
  else none

/-- Bytes → lowercase hex. -/
def hexOfBytes (bs : List UInt8) : String :=
  String.ofList (bs.flatMap fun b => [hexDigit (b.toNat / 16), hexDigit (b.toNat % 16)])

/-- Hex → bytes; `none` on odd length or a non-hex digit. `-` denotes the empty string. -/
def bytesOfHex? (s : String) : Option (List UInt8) :=
  if s = "-" then some [] else
  let rec go : List Char → Option (List UInt8)
    | [] => some []
    | [_] => none
    | a :: b :: rest => do
      let x ← hexVal? a
      let y ← hexVal? b
      let r ← go rest
      pure (UInt8.ofNat (x * 16 + y) :: r)
  go s.toList

def hexEncBytes (bs : List UInt8) : String :=
  if bs.isEmpty then "-" else hexOfBytes bs

def hexEnc (s : String) : String := hexEncBytes s.toUTF8.toList

def hexDec? (s : String) : Option String := do
  let bs ← bytesOfHex? s
  String.fromUTF8? ⟨bs.toArray⟩

/-- Parse an unsigned hex number (no prefix). -/
def natOfHex? (s : String) : Option Nat :=
  if s.isEmpty then none else
  s.toList.foldlM (fun acc c => do let v ← hexVal? c; pure (acc * 16 + v)) 0

def hexOfNat (n : Nat) (width : Nat) : String :=
  let rec go (fuel : Nat) (n : Nat) (acc : List Char) : List Char :=
    match fuel with
    | 0 => acc
    | fuel + 1 => go fuel (n / 16) (hexDigit (n % 16) :: acc)
  String.ofList (go width n [])

def parseInt? (s : String) : Option Int := s.toInt?
def parseNat? (s : String) : Option Nat := s.toNat?

def showIntList (xs : List Int) : String :=
  if xs.isEmpty then "-" else ",".intercalate (xs.map toString)

def parseIntList? (s : String) : Option (List Int) :=
  if s = "-" then some [] else (s.splitOn ",").mapM parseInt?

/-- A correspondence suite: the executable model and the property statement as an oracle. -/
structure Suite where
  name  : String
  /-- op lines of one case ↦ one output line per op line -/
  model : List String → List String
  /-- op lines and the *implementation's* output lines ↦ `"ok"` or `"violation <signature> <detail>"`.
      This evaluates the decidable property predicate (`holds`) the theorems are about. -/
  judge : List String → List String → String

end Prom
