import PromModel.Prelude.Line
import PromModel.Labels.Regex
/-
  Suite `regex` (property C17): `labels.FastRegexMatcher` against the regular-expression semantics.
  One case = one pattern.
  ops:  `pat <hex v> <ast> <reast|-> [tree]`
            v      the pattern text handed to `NewFastRegexMatcher`
            ast    `syntax.Parse(v, Perl|DotNL)` (what the optimiser works on), prefix notation without blanks:
                   l<f>[r,..] literal · c<f>[lo,hi,..] class · `.` any · `_` any-not-NL · `!` no-match · e<f> empty ·
                   `^` begin text · `$` end text · C(..) concat · A(..) alternate · *(x) +(x) ?(x) · R<min>,<max|->(x) ·
                   P(x) capture     (f = FoldCase flag 0/1)
            reast  parse tree of the text the matcher really handed to `regexp.Compile` (hook `VerifReString`),
                   `-` when nothing was compiled
            tree   (development aid) also print the compiled matcher structure
        `m <hex s> <rt>`   match the string s; rt = does the standard library match s with the *re-printed*
                   pattern `^(?s:Parse(v).String())$` (only used by the judge to name finding F28)
  out:  pat: `set=<hex,hex,…|->` (sorted) [` tree=<dump>`]     m: `fast=<0|1> std=<0|1>`
        fast = FastRegexMatcher.MatchString(s), std = regexp.MustCompile("^(?s:" + v + ")$").MatchString(s)
  The model computes `fast` with the transcribed optimiser (fallback = derivative matcher on reast) and `std` with
  the derivative matcher on ast. The judge only looks at the implementation's outputs: fast = std for every
  string, and a non-empty set enumerates exactly the matching strings among those tried.
-/
namespace Prom.RegexSuite
open Prom.Regex

/-! ### AST text -/

def readNat : List Char → Nat → Nat × List Char
  | c :: cs, acc => if c.isDigit then readNat cs (acc * 10 + (c.toNat - 48)) else (acc, c :: cs)
  | [], acc => (acc, [])

/-- after `[`: numbers separated by `,` up to `]` -/
def readNatList : Nat → List Char → Option (List Nat × List Char)
  | 0, _ => none
  | _ + 1, ']' :: rest => some ([], rest)
  | fuel + 1, ',' :: rest => readNatList fuel rest
  | fuel + 1, cs =>
    let (n, rest) := readNat cs 0
    match readNatList fuel rest with
    | some (l, r) => some (n :: l, r)
    | none => none

def flagOf (c : Char) : Bool := c == '1'

mutual
def parseRe : Nat → List Char → Option (Re × List Char)
  | 0, _ => none
  | fuel + 1, cs =>
    match cs with
    | 'l' :: f :: '[' :: rest => (readNatList (rest.length + 1) rest).map fun (l, r) => (.lit (flagOf f) l, r)
    | 'c' :: f :: '[' :: rest => (readNatList (rest.length + 1) rest).map fun (l, r) => (.cls (flagOf f) l, r)
    | '.' :: rest => some (.any, rest)
    | '_' :: rest => some (.anyNotNL, rest)
    | '!' :: rest => some (.noMatch, rest)
    | 'e' :: f :: rest => some (.empty (flagOf f), rest)
    | '^' :: rest => some (.bot, rest)
    | '$' :: rest => some (.eot, rest)
    | 'C' :: '(' :: rest => (parseList fuel rest).map fun (l, r) => (.cat l, r)
    | 'A' :: '(' :: rest => (parseList fuel rest).map fun (l, r) => (.alt l, r)
    | '*' :: '(' :: rest => parseOne fuel rest .star
    | '+' :: '(' :: rest => parseOne fuel rest .plus
    | '?' :: '(' :: rest => parseOne fuel rest .quest
    | 'P' :: '(' :: rest => parseOne fuel rest .cap
    | 'R' :: rest =>
      let (mn, r1) := readNat rest 0
      match r1 with
      | ',' :: '-' :: '(' :: r2 => parseOne fuel r2 (.rep mn none)
      | ',' :: r2 =>
        let (mx, r3) := readNat r2 0
        match r3 with
        | '(' :: r4 => parseOne fuel r4 (.rep mn (some mx))
        | _ => none
      | _ => none
    | _ => none
def parseOne : Nat → List Char → (Re → Re) → Option (Re × List Char)
  | 0, _, _ => none
  | fuel + 1, cs, k =>
    match parseRe fuel cs with
    | some (r, ')' :: rest) => some (k r, rest)
    | _ => none
def parseList : Nat → List Char → Option (List Re × List Char)
  | 0, _ => none
  | fuel + 1, cs =>
    match cs with
    | ')' :: rest => some ([], rest)
    | _ =>
      match parseRe fuel cs with
      | some (r, rest) =>
        (match parseList fuel rest with
         | some (l, rest') => some (r :: l, rest')
         | none => none)
      | none => none
  end

def parseAst (s : String) : Option Re :=
  let cs := s.toList
  match parseRe (cs.length + 1) cs with
  | some (r, []) => some r
  | _ => none

/-! ### strings -/

def strOfHex? (h : String) : Option Str := (hexDec? h).map fun s => s.toList.map Char.toNat

/-- UTF-8 bytes of a model string (raw-byte markers `0x110000 + b` become the byte `b`) -/
def bytesOf (s : List Nat) : List UInt8 :=
  s.flatMap fun c => if c ≥ 0x110000 then [UInt8.ofNat (c - 0x110000)] else (utf8Bytes c).map UInt8.ofNat

def hexOf (s : List Nat) : String := hexEncBytes (bytesOf s)

def ltStr : List Nat → List Nat → Bool
  | [], [] => false
  | [], _ :: _ => true
  | _ :: _, [] => false
  | a :: s, b :: t => a < b || (a == b && ltStr s t)

def insertSorted (x : List Nat) : List (List Nat) → List (List Nat)
  | [] => [x]
  | y :: ys => if ltStr y x then y :: insertSorted x ys else x :: y :: ys

def sortStrs (l : List (List Nat)) : List (List Nat) := l.foldr insertSorted []

def setStr (l : List Str) : String :=
  if l.isEmpty then "-" else ",".intercalate ((sortStrs l).map hexOf)

def b01 (b : Bool) : String := if b then "1" else "0"

/-! ### matcher tree dump (development aid, compared only when the op carries `tree`) -/

mutual
def dumpSM : SM → String
  | .eq s cs => s!"eq({b01 cs},{hexOf s})"
  | .multiSlice cs vs => s!"ms({b01 cs},[{",".intercalate (vs.map hexOf)}])"
  | .multiMap cs vs mpl pfx => s!"mm({b01 cs},{mpl},[{",".intercalate ((sortStrs (dedup vs)).map hexOf)}],[{dumpPfx pfx}])"
  | .contains l subs r => s!"ct({dumpOpt l},[{",".intercalate (subs.map hexOf)}],{dumpOpt r})"
  | .prefixS p r => s!"ps({hexOf p},{dumpSM r})"
  | .prefixI p r => s!"pi({hexOf p},{dumpSM r})"
  | .suffix l p cs => s!"sf({dumpSM l},{hexOf p},{b01 cs})"
  | .or ms => s!"or({dumpList ms})"
  | .emptyM => "em"
  | .trueM => "tr"
  | .anyNoNL => "nn"
  | .anyNonEmpty nl => s!"ne({b01 nl})"
  | .zeroOrOne nl => s!"zo({b01 nl})"
def dumpOpt : Option SM → String
  | none => "nil"
  | some m => dumpSM m
def dumpList : List SM → String
  | [] => ""
  | [m] => dumpSM m
  | m :: ms => dumpSM m ++ "," ++ dumpList ms
def dumpPfx : List (List Nat × List SM) → String
  | [] => ""
  | (k, ms) :: rest => hexOf k ++ ":[" ++ dumpList ms ++ "];" ++ dumpPfx rest
  end

def sortPfx (l : List (List Nat × List SM)) : List (List Nat × List SM) :=
  l.foldr (fun x acc =>
    let rec ins : List (List Nat × List SM) → List (List Nat × List SM)
      | [] => [x]
      | y :: ys => if ltStr y.1 x.1 then y :: ins ys else x :: y :: ys
    ins acc) []

def sortTop : Option SM → Option SM
  | some (.multiMap cs vs mpl pfx) => some (.multiMap cs vs mpl (sortPfx pfx))
  | m => m

def dumpFast (f : Fast) : String :=
  let o := f.opt
  s!"d{b01 f.direct};p{b01 o.ciPrefix}:{hexOf o.pfx};s:{hexOf o.sfx};c:[{",".intercalate (o.contains.map hexOf)}];{dumpOpt (sortTop f.sm)}"

/-! ### ops -/

structure Pat where
  v : Str
  ast : Re
  reast : Option Re
  tree : Bool

inductive Op
  | pat (p : Pat)
  | m (s : Str) (rt : Bool)
  | bad

def parseOp (line : String) : Op :=
  match toks line with
  | "pat" :: hv :: a :: ra :: rest =>
    match strOfHex? hv, parseAst a with
    | some v, some ast =>
      if ra = "-" then .pat ⟨v, ast, none, rest.contains "tree"⟩
      else match parseAst ra with
        | some r => .pat ⟨v, ast, some r, rest.contains "tree"⟩
        | none => .bad
    | _, _ => .bad
  | ["m", hs, rt] =>
    match strOfHex? hs with
    | some s => .m s (rt == "1")
    | none => .bad
  | _ => .bad

/-! ### model -/

def compilePat (p : Pat) : Fast := compile repoFixedF14 p.v p.ast (p.reast.getD p.ast)

def runOps : Option (Pat × Fast) → List Op → List String
  | _, [] => []
  | st, op :: rest =>
    match op with
    | .pat p =>
      let f := compilePat p
      (s!"set={setStr f.setMatches}" ++ (if p.tree then " tree=" ++ dumpFast f else "")) :: runOps (some (p, f)) rest
    | .m s _ =>
      match st with
      | some (p, f) => s!"fast={b01 (f.matches s)} std={b01 (matchD p.ast s)}" :: runOps st rest
      | none => "bad-op" :: runOps st rest
    | .bad => "bad-op" :: runOps st rest

def model (ops : List String) : List String := runOps none (ops.map parseOp)

/-! ### the property statement as an oracle (reads only the implementation's outputs) -/

def isAscii (s : Str) : Bool := s.all (· < 128)

structure Obs where
  s : Str
  rt : Bool
  fast : Bool
  std : Bool

def parseKV (key : String) (tok : String) : Option String :=
  if tok.startsWith (key ++ "=") then some (String.ofList (tok.toList.drop (key.length + 1))) else none

def parseBit (s : String) : Option Bool :=
  if s = "1" then some true else if s = "0" then some false else none

def parseMOut (out : String) : Option (Bool × Bool) :=
  match toks out with
  | [a, b] => do
    let f ← (parseKV "fast" a) >>= parseBit
    let s ← (parseKV "std" b) >>= parseBit
    pure (f, s)
  | _ => none

def parseSetOut (out : String) : Option (List Str) :=
  match toks out with
  | a :: _ =>
    match parseKV "set" a with
    | some "-" => some []
    | some l => (l.splitOn ",").mapM strOfHex?
    | none => none
  | _ => none

/-- Is the compiled matcher the case-insensitive multi-value (map) matcher? Only used to *name* finding F15
    (the verdict itself never depends on the model). -/
def isCiMultiMap (p : Pat) : Bool :=
  match (compile repoFixedF14 p.v p.ast (p.reast.getD p.ast)).sm with
  | some (.multiMap cs _ _ _) => !cs
  | _ => false

/-- rank of a disagreement: lower = reported first.
    0 ascii, 1 unicode-other, 2 string-roundtrip (F29), 3 unicode-fold-multimatcher (F15) -/
def classify (p : Pat) (o : Obs) (got : Bool) : Nat × String :=
  if o.rt != o.std && got == o.rt then (2, "string-roundtrip")
  else if isAscii p.v && isAscii o.s then (0, "ascii")
  else if isCiMultiMap p then (3, "unicode-fold-multimatcher") else (1, "unicode-other")

def better (a b : Option (Nat × String)) : Option (Nat × String) :=
  match a, b with
  | none, b => b
  | a, none => a
  | some (ra, sa), some (rb, sb) => if rb < ra then some (rb, sb) else some (ra, sa)

/-- all disagreements of one case, best (most serious) first kept -/
def verdictCase (p : Pat) (set : List Str) (obs : List Obs) : Option String :=
  let v := obs.foldl (fun acc o =>
    let a1 : Option (Nat × String) :=
      if o.fast != o.std then
        let (rk, kind) := classify p o o.fast
        some (rk, s!"violation mismatch kind={kind} pat={hexOf p.v} s={hexOf o.s} fast={b01 o.fast} std={b01 o.std}")
      else none
    let a2 : Option (Nat × String) :=
      if !set.isEmpty && set.contains o.s != o.std then
        let (rk, kind) := classify p o (set.contains o.s)
        some (rk, s!"violation setmatches kind={kind} pat={hexOf p.v} s={hexOf o.s} inset={b01 (set.contains o.s)} std={b01 o.std}")
      else none
    better (better acc a1) a2) none
  v.map (·.2)

def judge (ops outs : List String) : String :=
  match ops.map parseOp, outs with
  | .pat p :: restOps, o0 :: restOuts =>
    match parseSetOut o0 with
    | none => "violation unparsable set"
    | some set =>
      let rec collect : List Op → List String → Option (List Obs)
        | .m s rt :: ops, o :: outs =>
          match parseMOut o with
          | some (f, sd) => (collect ops outs).map (⟨s, rt, f, sd⟩ :: ·)
          | none => none
        | [], _ => some []
        | _, _ => none
      match collect restOps restOuts with
      | none => "violation unparsable match-line"
      | some obs =>
        match verdictCase p set obs with
        | none => "ok"
        | some v => v
  | [], _ => "ok"
  | _, _ => "ok"   -- unparsable op lines are outside the statement

def suite : Suite := { name := "regex", model := model, judge := judge }

end Prom.RegexSuite
