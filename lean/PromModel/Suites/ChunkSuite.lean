import PromModel.Prelude.Line
import PromModel.Tsdb.ChunkXor
/-
  Suite `chunk` (property C10): float chunks return exactly what was appended.

  ops:  `new xor`               fresh `chunkenc.NewXORChunk()` + `Appender()`          → `ok`
        `app <t> <v16hex>`      `app.Append(0, t, float64frombits(v))`                 → `ok` | `panic`
        `bytes`                 `chunk.Bytes()`                                        → hex
        `iter`                  fresh iterator, `Next` until `ValNone`                 → `ok|err n=<k> t:v,t:v,…`
        `reopen`                `FromData(enc, copy(Bytes()))` + `Appender()`; later `app`s go there → `ok` | `err`
        `it`                    new iterator on the current bytes                      → `ok`
        `next` / `seek <t>`     on that iterator                                       → `<t>:<v16hex>` | `none` | `err`
-/
namespace Prom.ChunkSuite
open Prom.Bits Prom.ChunkXor

def showSample (s : Sample) : String := s!"{s.1}:{hexOfNat s.2 16}"

def showSamples (xs : List Sample) : String :=
  if xs.isEmpty then "-" else ",".intercalate (xs.map showSample)

structure S where
  chunk : Chunk := Chunk.empty
  it : Option Iter := none

def showIterRes (r : Iter × Bool) : String :=
  if r.2 then showSample (r.1.st.t, r.1.st.v) else if r.1.err then "err" else "none"

def stepModel (s : S) (line : String) : S × String :=
  match toks line with
  | ["new", "xor"] => ({}, "ok")
  | ["app", t, v] =>
    match t.toInt?, natOfHex? v with
    | some t, some v =>
      match s.chunk.append t v with
      | .ok c => ({ s with chunk := c }, "ok")
      | .error _ => (s, "panic")
    | _, _ => (s, "bad-op")
  | ["bytes"] => (s, hexOfByteList s.chunk.bytes)
  | ["iter"] =>
    let r := decodeChunk s.chunk.bytes
    (s, s!"{if r.2 then "ok" else "err"} n={r.1.length} {showSamples r.1}")
  | ["reopen"] =>
    match reopen s.chunk.bytes with
    | some c => ({ s with chunk := c }, "ok")
    | none => (s, "err")
  | ["it"] => ({ s with it := some (iterNew s.chunk.bytes) }, "ok")
  | ["next"] =>
    match s.it with
    | none => (s, "bad-op")
    | some it => let r := iterNext it; ({ s with it := some r.1 }, showIterRes r)
  | ["seek", t] =>
    match s.it, t.toInt? with
    | some it, some t => let r := iterSeek it t; ({ s with it := some r.1 }, showIterRes r)
    | _, _ => (s, "bad-op")
  | _ => (s, "bad-op")

def model (ops : List String) : List String :=
  let rec go (st : S) : List String → List String
    | [] => []
    | l :: rest => let (st', o) := stepModel st l; o :: go st' rest
  go {} ops

/-! ### Judge: the property statement evaluated on the implementation's outputs (no encoder/decoder model) -/

def twoPow62 : Int := 4611686018427387904

/-- The hypotheses of the statement: strictly increasing timestamps within ±2^62. -/
def inStatement : List Sample → Bool
  | [] => true
  | [(t, _)] => decide (-twoPow62 ≤ t ∧ t ≤ twoPow62)
  | (t, _) :: (t', v') :: rest => decide (-twoPow62 ≤ t ∧ t < t') && inStatement ((t', v') :: rest)

/-- Reference cursor over the appended list: `k` samples consumed, `cur` = last returned sample. -/
structure Cursor where
  ys : List Sample
  k : Nat
  cur : Option Sample

def Cursor.next (c : Cursor) : Cursor × Option Sample :=
  match c.ys[c.k]? with
  | some s => ({ c with k := c.k + 1, cur := some s }, some s)
  | none => (c, none)

/-- First sample at or after the cursor with timestamp ≥ t (the current sample counts if it qualifies). -/
def Cursor.seek (c : Cursor) (t : Int) : Cursor × Option Sample :=
  match c.cur with
  | some s =>
    if c.k ≠ 0 ∧ t ≤ s.1 then (c, some s)
    else
      match (c.ys.drop c.k).findIdx? (fun y => decide (y.1 ≥ t)) with
      | some j => ({ c with k := c.k + j + 1, cur := c.ys[c.k + j]? }, c.ys[c.k + j]?)
      | none => ({ c with k := c.ys.length, cur := if c.ys.isEmpty then c.cur else c.ys.getLast? }, none)
  | none =>
    match (c.ys.drop c.k).findIdx? (fun y => decide (y.1 ≥ t)) with
    | some j => ({ c with k := c.k + j + 1, cur := c.ys[c.k + j]? }, c.ys[c.k + j]?)
    | none => ({ c with k := c.ys.length, cur := if c.ys.isEmpty then c.cur else c.ys.getLast? }, none)

structure J where
  enc : String := "xor"
  xs : List Sample := []          -- appended so far (reversed)
  reopenAt : Option Nat := none   -- number of samples at the first reopen that was followed by an append
  pendingReopen : Option Nat := none
  cur : Option Cursor := none

def firstDiff (a b : List String) : Nat :=
  let rec go (a b : List String) (i : Nat) : Nat :=
    match a, b with
    | x :: a, y :: b => if x = y then go a b (i + 1) else i
    | _, _ => i
  go a b 0

def showOpt (o : Option Sample) : String := match o with | some s => showSample s | none => "none"

/-- Signature of a mismatch whose first wrong sample has index `bad`: `resume` when that sample was written
    (or would be read) after an `Appender()` resumed on reloaded bytes, otherwise `other`. -/
def sigPos (j : J) (bad : Nat) (other : String) : String :=
  match j.reopenAt with
  | some p => if bad ≥ p then s!"resume enc={j.enc} reopen-at={p}" else s!"{other} enc={j.enc}"
  | none => s!"{other} enc={j.enc}"

def judge (ops outs : List String) : String :=
  let rec go (j : J) (ops outs : List String) (k : Nat) : String :=
    match ops, outs with
    | op :: ops, out :: outs =>
      match toks op with
      | ["new", e] => go { enc := e } ops outs (k + 1)
      | ["app", t, v] =>
        match t.toInt?, natOfHex? v with
        | some t, some v =>
          if out = "ok" then
            let j := { j with xs := (t, v) :: j.xs }
            let j := match j.pendingReopen, j.reopenAt with
              | some p, none => { j with reopenAt := some p, pendingReopen := none }
              | _, _ => j
            go j ops outs (k + 1)
          else if j.xs.length < 65535 then s!"violation append-failed enc={j.enc} op={k} out={out}"
          else go j ops outs (k + 1)
        | _, _ => "ok"
      | ["bytes"] => go j ops outs (k + 1)
      | ["reopen"] =>
        if out = "ok" then go { j with pendingReopen := some j.xs.length } ops outs (k + 1)
        else if inStatement j.xs.reverse then s!"violation reopen-failed enc={j.enc} op={k} n={j.xs.length}"
        else "ok"
      | ["iter"] =>
        let want := j.xs.reverse
        if !inStatement want then "ok" -- outside the statement's hypotheses: not judged
        else
          let wantS := s!"ok n={want.length} {showSamples want}"
          if out = wantS then go j ops outs (k + 1)
          else
            let got := match toks out with | [_, _, l] => if l = "-" then [] else l.splitOn "," | _ => []
            let bad := firstDiff (want.map showSample) got
            s!"violation {sigPos j bad "iter-mismatch"} op={k} n={want.length} first-bad={bad} want={showOpt want[bad]?} got={got[bad]?.getD "none"} status={(toks out).headD "?"}"
      | ["it"] => go { j with cur := some ⟨j.xs.reverse, 0, none⟩ } ops outs (k + 1)
      | ["next"] =>
        match j.cur with
        | none => "ok"
        | some c =>
          if !inStatement c.ys then "ok" else
          let (c', w) := c.next
          if out = showOpt w then go { j with cur := some c' } ops outs (k + 1)
          else s!"violation {sigPos j c.k "next-mismatch"} op={k} pos={c.k} want={showOpt w} got={out}"
      | ["seek", t] =>
        match j.cur, t.toInt? with
        | some c, some t =>
          if !inStatement c.ys then "ok" else
          let (c', w) := c.seek t
          if out = showOpt w then go { j with cur := some c' } ops outs (k + 1)
          else s!"violation {sigPos j (if w.isNone then c.ys.length else c'.k - 1) "seek-not-first-geq"} op={k} pos={c.k} t={t} want={showOpt w} got={out}"
        | _, _ => "ok"
      | _ => "ok"
    | _, _ => "ok"
  go {} ops outs 0

def suite : Suite := { name := "chunk", model := model, judge := judge }

end Prom.ChunkSuite
