import PromModel.Tsdb.SeriesRefs
import PromModel.Suites.DbSuite
/-
  Suite `refs` (C22): histories on a real `tsdb.DB` in which `Append` carries a series reference.
  ops:  the ops of suite `db`, except
        app <s> <t> <vbits-hex> <ref> <zero|own|other|stale>   -> ok <ref> | oob | ooo | dup | noapp
  `<ref>` is the literal reference passed to `Append`; the last token says where the client got it from
  (ignored by the model, read by the judge — see `Prom.Refs.Client`).
  Model = `RefDb.step`; judge = `Prom.Refs.holdsFrom` on the implementation's outputs.
-/
namespace Prom.Refs
open Prom.Db Prom.Intervals

def kindOf? (s : String) : Option Nat :=
  if s = "zero" then some 0 else if s = "own" then some 1 else if s = "other" then some 2
  else if s = "stale" then some 3 else none

def parseROp? (line : String) : Option ROp :=
  match toks line with
  | ["app", s, t, v, r, k] => do pure (.app (← r.toNat?) (← s.toNat?) (← t.toInt?) (← natOfHex? v) (← kindOf? k))
  | _ => (parseOp? line).map .base

def renderROut : ROut → String
  | .okRef r => s!"ok {r}"
  | .base o => renderOut o

def parseROut (op : ROp) (s : String) : ROut :=
  match op, toks s with
  | .app .., ["ok", r] => match r.toNat? with | some n => .okRef n | none => .base (.other s)
  | .app _ i t v _, _ => .base (parseOut (.app i t v) s)
  | .base o, _ => .base (parseOut o s)

def model (lines : List String) : List String :=
  let rec go (d : RefDb) : List String → List String
    | [] => []
    | l :: rest =>
      match parseCfg? l with
      | some c => "ok" :: go (RefDb.init c) rest
      | none =>
        match parseROp? l with
        | some op => let (d', o) := d.step op; renderROut o :: go d' rest
        | none => "bad-op" :: go d rest
  go (RefDb.init ⟨1, 0⟩) lines

def renderVerdict : Verdict → String
  | .ok => "ok"
  | .staleRef k r i j => s!"violation misattributed kind=stale-ref step={k} ref={r} given=s{i} went-to=s{j}"
  | .foreignRow k i x => s!"violation misattributed kind=foreign-row step={k} series=s{i} sample={x.t}:{hexOfNat x.v 16}"

def judge (ops outs : List String) : String :=
  let pairs := ops.zip outs
  match pairs.findIdx? (fun p => p.2.startsWith "panic" || p.2.startsWith "err:") with
  | some k => s!"violation internal-error op={k} `{(pairs[k]?.getD ("", "")).1}` {(pairs[k]?.getD ("", "")).2}"
  | none =>
    let typed : List (ROp × ROut) := pairs.filterMap fun p =>
      match parseROp? p.1 with
      | some op => some (op, parseROut op p.2)
      | none => none
    renderVerdict (holdsFrom {} typed 0)

def suite : Suite := { name := "refs", model := model, judge := judge }

end Prom.Refs
