import PromModel.Tsdb.SeriesRefs
import PromModel.Suites.DbSuite
/-
  Suite `refs` (C22): histories on a real `tsdb.DB` in which `Append` carries a series reference.
  ops:  the ops of suite `db`, except
        app <s> <t> <vbits-hex> <ref> <zero|own|other|stale>   -> ok <ref> | oob | ooo | dup | noapp
  `<ref>` is the literal reference passed to `Append`; the last token says where the client got it from
  (ignored by the model, read by the judge — see `Prom.Refs.Client`).
  Model = `RefDb.step`; judge = `Prom.Refs.holdsFrom` on the implementation's outputs; a detected
  violation is then NAMED by the mechanism the history shows (`classifyStale` / `classifyForeign`).
  `win` prints `~` for `Head.MinTime()` from the first restart of a case on (see `renderWinAfterRestart`).
-/
namespace Prom.Refs
open Prom.Db Prom.Intervals

def kindOf? (s : String) : Option Nat :=
  if s = "zero" then some 0 else if s = "own" then some 1 else if s = "other" then some 2
  else if s = "stale" then some 3 else none

def parseROp? (line : String) : Option ROp :=
  match toks line with
  | ["app", s, t, v, r, k] => do pure (.app (← r.toNat?) (← s.toNat?) (← t.toInt?) (← natOfHex? v) (← kindOf? k))
  | _ => (parseOp? line).map .base

def renderROut : ROut → String
  | .okRef r => s!"ok {r}"
  | .base o => renderOut o

def parseROut (op : ROp) (s : String) : ROut :=
  match op, toks s with
  | .app .., ["ok", r] => match r.toNat? with | some n => .okRef n | none => .base (.other s)
  | .app _ i t v _, _ => .base (parseOut (.app i t v) s)
  | .base o, _ => .base (parseOut o s)

/-- `win` after a restart: `Head.MinTime()` then depends on the head chunk files, which the
    reference-layer model does not contain — on which samples sit in m-mapped chunks (the WAL replay
    skips samples at or below a series' `mmMaxTime`; suite `db` compares it with an oracle read from the
    real head), and on whether `chunks_head` survives the start: a label set with two series records
    (`multiRef`) gets a chunk m-mapped twice by a replaying start, the next start then fails
    `loadMmappedChunks` ("out of sequence m-mapped chunk"), `removeCorruptedMmappedChunks` resets the
    in-memory state (forgetting the `Truncate(blocks' maxt)` done before `Init`) and the head is rebuilt
    from the WAL alone, with `MinTime()` = lowest replayed sample. No sample is lost or misattributed and
    `MinTime()` is not part of C22's statement. From the first `reopen` of a case on, harness and model
    both print `~` for the first component; `MaxTime()` and the appendable minimum are still compared. -/
def renderWinAfterRestart (s : String) : String :=
  match toks s with
  | _ :: rest => " ".intercalate ("~" :: rest)
  | [] => s

def model (lines : List String) : List String :=
  let rec go (d : RefDb) (restarted : Bool) : List String → List String
    | [] => []
    | l :: rest =>
      match parseCfg? l with
      | some c => "ok" :: go (RefDb.init c) false rest
      | none =>
        match parseROp? l with
        | some op =>
          let (d', o) := d.step op
          let txt := renderROut o
          match op with
          | .base .reopen => txt :: go d' true rest
          | .base .win => (if restarted then renderWinAfterRestart txt else txt) :: go d' restarted rest
          | _ => txt :: go d' restarted rest
        | none => "bad-op" :: go d restarted rest
  go (RefDb.init ⟨1, 0⟩) false lines

/-! ### Classification of a violation by mechanism

  Detection is `Prom.Refs.holdsFrom` (C22's statement on the observed outputs), unchanged. What follows
  only decides which NAME a detected violation gets, from what the history before it shows — never from
  the position in the history, and not from the `zero|own|other|stale` token alone (a minimiser that
  drops op lines leaves the tokens behind).

  `Trail` is the judge's memory across process lifetimes: for every lifetime the owner table of
  `Client` (first acknowledged label set per reference), and every committed acknowledged sample with
  the lifetime, the reference it was acknowledged under and the label set it went to. -/

structure Ack where
  life : Nat
  ref : Nat
  lbl : Nat
deriving Repr, Inhabited

structure SentR where
  life : Nat
  ref : Nat
  lbl : Nat
  smp : Smp
deriving Repr, Inhabited

structure Trail where
  life : Nat := 0                 -- number of restarts so far
  acks : List Ack := []           -- chronological; one entry per (lifetime, reference)
  pendR : List SentR := []        -- open transaction
  sentR : List SentR := []        -- committed
deriving Repr, Inhabited

/-- Mirrors `Client.step` (`c` = the client state BEFORE the step). -/
def Trail.step (tr : Trail) (c : Client) (op : ROp) (o : ROut) : Trail :=
  match op, o with
  | .app _ i t v _, .okRef ref =>
    match lookup c.owner ref with
    | some j => { tr with pendR := tr.pendR ++ [⟨tr.life, ref, j, ⟨t, v⟩⟩] }
    | none => { tr with acks := tr.acks ++ [⟨tr.life, ref, i⟩], pendR := tr.pendR ++ [⟨tr.life, ref, i, ⟨t, v⟩⟩] }
  | .base .begin, _ => { tr with pendR := [] }
  | .base .commit, .base .ok => { tr with sentR := tr.sentR ++ tr.pendR, pendR := [] }
  | .base .commit, _ => { tr with pendR := [] }
  | .base .rollback, _ => { tr with pendR := [] }
  | .base .reopen, _ => { tr with life := tr.life + 1, pendR := [] }
  | _, _ => tr

def trailOf (h : List (ROp × ROut)) : Client × Trail :=
  h.foldl (fun (acc : Client × Trail) p => ((acc.1.step 0 p.1 p.2).1, acc.2.step acc.1 p.1 p.2)) ({}, {})

/-- The first lifetime in which reference `r` was acknowledged for label set `x`. -/
def Trail.firstLife (tr : Trail) (r x : Nat) : Option Nat :=
  (tr.acks.find? fun a => a.ref = r ∧ a.lbl = x).map (·.life)

/-- `kind=stale-ref` (finding C22-F2) is assigned only when the history shows its mechanism:
      * the sample went where the PASSED reference points (returned = passed);
      * the client was given that reference for the labels it passes now in an EARLIER lifetime;
      * the same reference was acknowledged for the label set it denotes now, for the first time ever,
        in another lifetime: a new series received a reference that had been handed out before a restart,
        i.e. `lastSeriesID` came back from a restart below it (the series record of the highest reference
        was no longer in checkpoint ∪ segments).
    A reference claim (`own`/`stale`/`zero` token) that the history does not bear out is an ill-formed
    history (`bad-annotation`, another verdict class: nothing is minimised into it). Everything else is
    `kind=wrong-series` and fires. -/
def classifyStale (c : Client) (tr : Trail) (op : ROp) (o : ROut) (k r i j : Nat) : String :=
  match op, o with
  | .app _ _ _ _ kind, .okRef ref =>
    let heldBefore := tr.acks.find? fun a => a.life < tr.life ∧ a.ref = r ∧ a.lbl = i
    let heldNow := (lookup c.owner r) = some i
    let claimOk : Bool :=
      if kind = 0 then r = 0 else if kind = 1 then heldNow else if kind = 3 then heldBefore.isSome || heldNow else true
    if !claimOk then
      s!"violation bad-annotation kind=unsupported-ref-claim step={k} ref={r} labels=s{i} claim={kind} (the history never acknowledged this reference for these labels)"
    else
      let other := s!"violation misattributed kind=wrong-series step={k} passed={r} returned={ref} given=s{i} went-to=s{j}"
      if ref ≠ r then other else
      match heldBefore, tr.firstLife r i, tr.firstLife r j with
      | some a, some li, some lj =>
        if li = lj then other else
        s!"violation misattributed kind=stale-ref step={k} ref={r} given=s{i} went-to=s{j} held-since-life={a.life} reissued-in-life={max li lj} now-life={tr.life}"
      | _, _, _ => other
  | _, _ => s!"violation misattributed kind=wrong-series step={k} passed={r} given=s{i} went-to=s{j}"

/-- `kind=foreign-row` (finding C22-F1) is assigned only when the history shows its mechanism: the
    returned sample was acknowledged and committed for ANOTHER label set `c` before lifetime `lb`; a
    reference `r` acknowledged for `c` in a lifetime before `lb` was received by the label set the sample
    is returned under, for the first time ever, in `lb` (the reference of `c` was re-issued after a
    restart); and the query runs in a lifetime after `lb` (the restart that replays / re-attaches what is
    stored under `r`). (`r` need not be the reference the sample was acknowledged under: after a replay
    with duplicate series records the series lives on under the older of its references.) Everything
    else is `kind=unsent-row` and fires. -/
def classifyForeign (tr : Trail) (k i : Nat) (x : Smp) : String :=
  let ev := tr.sentR.flatMap fun s =>
    if s.smp = x ∧ s.lbl ≠ i then
      tr.acks.filterMap fun a =>
        if a.lbl = s.lbl then
          match tr.firstLife a.ref i with
          | some lb => if a.life < lb ∧ s.life < lb ∧ lb < tr.life then some (s, a, lb) else none
          | none => none
        else none
    else []
  match ev.head? with
  | some (s, a, lb) =>
    s!"violation misattributed kind=foreign-row step={k} series=s{i} sample={x.t}:{hexOfNat x.v 16} sent-to=s{s.lbl} sent-in-life={s.life} ref={a.ref} held-in-life={a.life} reissued-in-life={lb} now-life={tr.life}"
  | none => s!"violation misattributed kind=unsent-row step={k} series=s{i} sample={x.t}:{hexOfNat x.v 16}"

/-- `modelled k`: on every `app` line up to and including step `k` the implementation acknowledged
    exactly what the reference-layer model acknowledges (same reference / same refusal). The model
    re-issues a reference after a restart through ONE route only — the checkpoint dropped the series
    record of the highest reference (`RefDb.truncateWAL` / `keep` / `replayRec`), the route of C22-F2 and
    C22-F1. A re-issue that the model does not predict (any other way for `lastSeriesID` to come back
    lower) therefore never gets the listed kinds: it is `…-unmodelled` and fires. -/
def renderVerdict (typed : List (ROp × ROut)) (modelled : Nat → Bool) : Verdict → String
  | .ok => "ok"
  | .staleRef k r i j =>
    let (c, tr) := trailOf (typed.take k)
    match typed[k]? with
    | some (op, o) =>
      let v := classifyStale c tr op o k r i j
      if v.startsWith "violation misattributed kind=stale-ref " && !modelled k then
        v.replace "kind=stale-ref " "kind=stale-ref-unmodelled "
      else v
    | none => s!"violation misattributed kind=wrong-series step={k} passed={r} given=s{i} went-to=s{j}"
  | .foreignRow k i x =>
    let v := classifyForeign (trailOf (typed.take k)).2 k i x
    if v.startsWith "violation misattributed kind=foreign-row " && !modelled k then
      v.replace "kind=foreign-row " "kind=foreign-row-unmodelled "
    else v

def judge (ops outs : List String) : String :=
  let pairs := ops.zip outs
  match pairs.findIdx? (fun p => p.2.startsWith "panic" || p.2.startsWith "err:") with
  | some k => s!"violation internal-error op={k} `{(pairs[k]?.getD ("", "")).1}` {(pairs[k]?.getD ("", "")).2}"
  | none =>
    let typed : List (ROp × ROut) := pairs.filterMap fun p =>
      match parseROp? p.1 with
      | some op => some (op, parseROut op p.2)
      | none => none
    -- per typed step: is it an `app` line on which implementation and model differ?
    let differs : List Bool := (ops.zip (outs.zip (model ops))).filterMap fun p =>
      match parseROp? p.1 with
      | some (.app ..) => some (p.2.1 != p.2.2)
      | some _ => some false
      | none => none
    renderVerdict typed (fun k => !(differs.take (k + 1)).any id) (holdsFrom {} typed 0)

def suite : Suite := { name := "refs", model := model, judge := judge }

end Prom.Refs
