import PromModel.Tsdb.Damage
import PromModel.Suites.WalSuite
/-
  Suite `damage` (property C04).  See harness/suites/damage/main.go for the op lines.

  model:
    * wlog-level ops (`wopen wlog wclose wdamage wread wrepair wreopen wlogmore wreadall`): exact — the
      Lean writer/reader/`repairDir` on the real 32 KiB page, one page per segment.
    * `site …` lines of the DB-level cases: the model predicts the position `WL.Repair` is called with
      (`repair=<none|wal:seg:off|wbl:seg:off>`) from the segment bytes of the `logs` line, by the control
      flow of `Damage.openLogs` (checkpoint, then WAL segment by segment with the decoders of `loadWAL`,
      then the WBL only when the WAL was clean).  Everything else on a `site` line is an observation of
      the real database and is decided by the judge.  The extra fields `cb=` (truncation of a NON-newest head-chunk
      file at a chunk boundary) and `cut=` (kinds I/O of the chunks a truncation removes) describe the site.
  judge (independent of the framing/replay model; it only uses the workload description of the `db` line):
    see `judgeSite`.
-/
namespace Prom.Damage.Suite
open Prom Prom.Wal Prom.Damage
open Prom.Wal.Suite (genRec recId hex64 showRecs parsePairs? showRStatusLoc pageSize)

/-! ### wlog-level model -/

def fnvL (b : Bytes) : UInt64 := fnv b

def fileId (b : Bytes) : String := s!"{b.length}:{hex64 (fnvL b)}"

def summary (files : List Bytes) : String :=
  if files.isEmpty then "-" else ",".intercalate (files.map fileId)

/-- The harness' `mutate`: `none` when nothing would change. -/
def mutate (b : Bytes) (off : Nat) (mu : String) : Option Bytes :=
  if mu = "trunc" then (if off < b.length then some (b.take off) else none)
  else match b[off]? with
    | none => none
    | some x =>
      if mu = "flip0" then some (b.set off (x ^^^ 1))
      else if mu = "flip7" then some (b.set off (x ^^^ 0x80))
      else if mu = "zero" then (if x = 0 then none else some (b.set off 0))
      else if mu.startsWith "xor" then
        match (mu.drop 3).toString.toNat? with
        | some m => if m % 256 = 0 then none else some (b.set off (x ^^^ UInt8.ofNat m))
        | none => none
      else none

structure WSt where
  pps : Nat := 1
  files : List Bytes := []
  corr : Option Corruption := none

def numbered (files : List Bytes) : Dir := (List.range files.length).zip files

def logRecs (pps : Nat) (files : List Bytes) (recs : List Bytes) : List Bytes :=
  let st := recs.foldl (logRec pageSize pps crc32c) ⟨files.dropLast, files.getLast?.getD []⟩
  st.done ++ [st.cur]

/-- Every segment with its own reader, stop at the first error (`Head.Init`). -/
def readPerSegment (files : List Bytes) : String × Option Corruption :=
  let rec go (k : Nat) (parts : List String) : List Bytes → String × Option Corruption
    | [] => ((if parts.isEmpty then "-" else "/".intercalate parts) ++ " eof", none)
    | f :: rest =>
      let (rs, status) := readAll pageSize crc32c [f]
      let parts := parts ++ [showRecs (rs.map recId)]
      match status with
      | .eof _ => go (k + 1) parts rest
      | .err e a => (s!"{"/".intercalate parts} err:{e.name}@{k}:{a}", some ⟨k, a⟩)
  go 0 [] files

def wStep (st : WSt) (line : String) : WSt × String :=
  match toks line with
  | ["wopen", pps] => ({ pps := pps.toNat?.getD 1, files := [[]] }, "ok")
  | [op, recs] =>
    if op = "wlog" ∨ op = "wlogmore" then
      match parsePairs? recs with
      | some ps =>
        let files := logRecs st.pps st.files (ps.map fun (l, s) => genRec l s)
        ({ st with files := files }, s!"ok segs={files.length}")
      | none => (st, "bad-op")
    else (st, "bad-op")
  | ["wclose"] =>
    let files := st.files.dropLast ++ [closePad pageSize (st.files.getLast?.getD [])]
    ({ st with files := files }, "ok " ++ summary files)
  | ["wdamage", seg, off, mu] =>
    match seg.toNat?, off.toNat? with
    | some k, some off =>
      match st.files[k]? with
      | none => (st, "no-segment")
      | some b =>
        match mutate b off mu with
        | none => (st, "no-change")
        | some d => ({ st with files := st.files.set k d }, "ok " ++ fileId d)
    | _, _ => (st, "bad-op")
  | ["wread"] =>
    let (out, c) := readPerSegment st.files
    ({ st with corr := c }, out)
  | ["wrepair"] =>
    match st.corr with
    | none => (st, "none")
    | some c =>
      let r := repairDir pageSize st.pps crc32c (numbered st.files) c
      if r.ok then ({ st with files := r.dir.map (·.2), corr := none }, "ok " ++ summary (r.dir.map (·.2)))
      else ({ st with files := r.dir.map (·.2), corr := none }, "err:repair")
  | ["wreopen"] =>
    let files := st.files ++ [[]]
    ({ st with files := files }, s!"ok segs={files.length}")
  | ["wreadall"] =>
    let (rs, s) := readAll pageSize crc32c st.files
    (st, s!"{showRecs (rs.map recId)} {showRStatusLoc st.files s}")
  | _ => (st, "bad-op")

/-! ### DB-level: prediction of the repair position -/

def field (fs : List String) (name : String) : Option String :=
  (fs.find? (·.startsWith (name ++ "="))).map fun f => (f.drop (name.length + 1)).toString

/-- `idx:len:hex;…` → segments (the file is `hex` followed by zeros up to `len`). -/
def parseSegs (s : String) : Dir :=
  if s = "-" then [] else
  (s.splitOn ";").filterMap fun e =>
    match e.splitOn ":" with
    | [i, l, hx] => do
      let i ← i.toNat?
      let l ← l.toNat?
      let b ← bytesOfHex? hx
      pure (i, b ++ zeros (l - b.length))
    | _ => none

structure MSt where
  w : WSt := {}
  ckptIdx : Option Nat := none
  wal : Dir := []
  wbl : Dir := []
  ckpt : Dir := []

def damageDir (d : Dir) (seg off : Nat) (mu : String) : Dir :=
  d.map fun (k, b) => if k = seg then (k, (mutate b off mu).getD b) else (k, b)

def summaryDir (d : Dir) : String :=
  if d.isEmpty then "-" else ",".intercalate (d.map fun (k, b) => s!"{k}:{fileId b}")

def predictRepair (st : MSt) (cls : String) (seg off : Nat) (mu : String) : String :=
  let wal := if cls = "wal" then damageDir st.wal seg off mu else st.wal
  let wbl := if cls = "wbl" then damageDir st.wbl seg off mu else st.wbl
  let ckpt := if cls = "ckpt" then damageDir st.ckpt seg off mu else st.ckpt
  let logs : Logs := { ckpt := st.ckptIdx.map fun i => (i, ckpt), wal := wal, wbl := wbl }
  let (res, after) := openLogs pageSize 1 crc32c walDec wblDec logs
  let dirs := s!" wal={summaryDir after.wal} wbl={summaryDir after.wbl}"
  match res with
  | .clean _ _ => "repair=none" ++ dirs
  | .walRepaired c _ => s!"repair=wal:{c.seg}:{c.off}" ++ dirs
  | .wblRepaired c _ _ => s!"repair=wbl:{c.seg}:{c.off}" ++ dirs
  | .failed c => s!"repair={if cls = "wbl" then "wbl" else "wal"}:{c.seg}:{c.off}" ++ dirs

def stepModel (st : MSt) (line : String) : MSt × String :=
  match toks line with
  | "db" :: _ :: fs =>
    let ck := (field fs "ckpt").bind fun s => s.toNat?
    ({ st with ckptIdx := ck }, "-")
  | "logs" :: _ :: fs =>
    ({ st with wal := parseSegs ((field fs "wal").getD "-"), wbl := parseSegs ((field fs "wbl").getD "-"),
               ckpt := parseSegs ((field fs "ckpt").getD "-") }, "-")
  | "site" :: _ :: cls :: seg :: off :: mu :: _ =>
    match seg.toNat?, off.toNat? with
    | some seg, some off => (st, predictRepair st cls seg off mu)
    | _, _ => (st, "bad-op")
  | _ =>
    let (w, out) := wStep st.w line
    ({ st with w := w }, out)

def model (ops : List String) : List String :=
  let rec go (st : MSt) : List String → List String
    | [] => []
    | l :: rest => let (st', o) := stepModel st l; o :: go st' rest
  go {} ops

/-! ### Judge -/

structure Smp where
  s : String
  t : Int
  v : String
deriving BEq, Repr

def Smp.show (x : Smp) : String := s!"{x.s}:{x.t}:{x.v}"

def parseSmp? (e : String) : Option (Smp × Bool) :=
  match e.splitOn ":" with
  | [s, t, v] => do pure (⟨s, ← t.toInt?, v⟩, false)
  | [s, t, v, o] => do pure (⟨s, ← t.toInt?, v⟩, o = "o")
  | _ => none

def parseSet (s : String) : List Smp :=
  if s = "-" then [] else (s.splitOn ",").filterMap fun e => (parseSmp? e).map (·.1)

inductive Ev
  | commit (walSeg walEnd wblSeg wblEnd : Int) (xs : List (Smp × Bool))
  | delete (s : String) (a b : Int)

def parsePos (p : String) : Int × Int :=
  match p.splitOn ":" with
  | [a, b] => (a.toInt?.getD 0, b.toInt?.getD 0)
  | _ => (0, 0)

def parseEv? (e : String) : Option Ev :=
  match e.splitOn "/" with
  | ["c", wal, wbl, xs] =>
    let (ws, we) := parsePos wal
    let (bs, be) := parsePos wbl
    some (.commit ws we bs be ((if xs = "-" ∨ xs = "" then [] else xs.splitOn ",").filterMap parseSmp?))
  | ["c", wal, wbl] => let (ws, we) := parsePos wal; let (bs, be) := parsePos wbl; some (.commit ws we bs be [])
  | ["d", _, _, d] =>
    match d.splitOn ":" with
    | [s, a, b] => do pure (.delete s (← a.toInt?) (← b.toInt?))
    | _ => none
  | _ => none

structure Db where
  events : List Ev
  base : List Smp

def has (xs : List Smp) (x : Smp) : Bool := xs.contains x

/-- Everything ever written: block content plus every committed sample. -/
def Db.written (d : Db) : List Smp :=
  d.base ++ d.events.flatMap fun
    | .commit _ _ _ _ xs => xs.map (·.1)
    | .delete _ _ _ => []

def Db.oooAll (d : Db) : List Smp :=
  d.events.flatMap fun
    | .commit _ _ _ _ xs => (xs.filter (·.2)).map (·.1)
    | .delete _ _ _ => []

def Db.inoAll (d : Db) : List Smp :=
  d.base ++ d.events.flatMap fun
    | .commit _ _ _ _ xs => (xs.filter (!·.2)).map (·.1)
    | .delete _ _ _ => []

/-- Series that exist after the first `j` events (the checkpoint / blocks know the base series). -/
def Db.knownSeries (d : Db) (j : Nat) : List String :=
  (d.base.map (·.s)) ++ (d.events.take j).flatMap fun
    | .commit _ _ _ _ xs => xs.map (·.1.s)
    | .delete _ _ _ => []

/-- In-order samples that must be there when the first `j` events were replayed: base ∪ commits, minus what
    the deletions among them removed. -/
def Db.mustIno (d : Db) (j : Nat) : List Smp :=
  (d.events.take j).foldl (fun acc e =>
    match e with
    | .commit _ _ _ _ xs => acc ++ (xs.filter (!·.2)).map (·.1)
    | .delete s a b => acc.filter fun x => !(x.s = s ∧ a ≤ x.t ∧ x.t ≤ b ∧ !has d.base x)) d.base

/-- Samples covered by some deletion (may or may not be visible, depending on whether the tombstone record
    survived), and those covered by a deletion among the first `j` events (must be gone). -/
def Db.deleted (d : Db) (j : Nat) : List Smp :=
  let dels := (d.events.take j).filterMap fun | .delete s a b => some (s, a, b) | _ => none
  d.inoAll.filter fun x => !has d.base x ∧ dels.any fun (s, a, b) => x.s = s ∧ a ≤ x.t ∧ x.t ≤ b

/-- OOO samples whose WBL record lies in the first `jw` events. -/
def Db.oooUpTo (d : Db) (jw : Nat) : List Smp :=
  (d.events.take jw).flatMap fun
    | .commit _ _ _ _ xs => (xs.filter (·.2)).map (·.1)
    | .delete _ _ _ => []

structure Site where
  cls : String
  seg : Nat
  off : Nat
  mu : String
  j : Nat
  jw : Nat
  cb : Bool
  open1 : String
  tree1 : String
  present1 : List Smp
  news : List Smp
  app : String
  open2 : String
  present2 : List Smp
  repair : String

def Site.tag (s : Site) : String :=
  s!"class={s.cls} seg={s.seg} off={s.off} mu={s.mu} cb={if s.cb then 1 else 0}"

/-- A sample that was never written: name the written sample it was taken from, if any. -/
def inventionSig (d : Db) (news : List Smp) (x : Smp) (sess : Nat) (site : Site) : String :=
  match (d.written ++ news).find? (fun y => y.t = x.t ∧ y.v = x.v ∧ y.s ≠ x.s) with
  | some y =>
    if has d.oooAll y then s!"wbl-sample-reattributed {site.tag} session={sess} sample={x.show} written-as={y.show}"
    else s!"sample-reattributed {site.tag} session={sess} sample={x.show} written-as={y.show}"
  | none => s!"invented {site.tag} session={sess} sample={x.show}"

/-- The in-order part of one session's query result against the history: nothing but written samples, the
    events before the damage fully there (and their deletions applied), and per series a prefix in time
    order of what was logged (deleted samples may be missing or back). -/
def checkIno (d : Db) (site : Site) (sess : Nat) (pres : List Smp) : Option String :=
  let n := d.events.length
  let must := d.mustIno site.j
  match must.find? (fun x => !has pres x) with
  | some x => some s!"inorder-lost {site.tag} session={sess} sample={x.show} events-before-damage={site.j}/{n}"
  | none =>
    match (d.deleted site.j).find? (fun x => has pres x) with
    | some x => some s!"deleted-sample-back {site.tag} session={sess} sample={x.show}"
    | none =>
      let all := d.inoAll
      let delAny := d.deleted n
      -- prefix per series: a present sample has every earlier in-order sample of its series present or deleted
      let missing := all.filter fun y => !has pres y ∧ !has delAny y
      match pres.find? (fun x => missing.any fun y => y.s = x.s ∧ y.t < x.t) with
      | some x =>
        let y := (missing.find? fun y => y.s = x.s ∧ y.t < x.t).getD x
        some s!"inorder-gap {site.tag} session={sess} missing={y.show} but-present={x.show}"
      | none => none

/-- The property statement on one damage site.  `none` = holds; `some (low, msg)`, `low` = the signature is
    one of the documented finding patterns (reported only when nothing else is wrong in the case). -/
def judgeSite (d : Db) (site : Site) : Option (Bool × String) :=
  if site.open1.startsWith "panic" then some (false, s!"panic {site.tag} {site.open1}") else
  if site.open1 ≠ "ok" then
    -- a failed open must leave every undamaged file alone
    if site.tree1 = "same" then none
    else
      let ch := (site.tree1.splitOn ",").filter fun c => !(c.endsWith (s!"/{site.seg}") ∧ false)
      some (site.cls = "ckpt", s!"failed-open-altered-files {site.tag} open={site.open1} tree={",".intercalate ch}")
  else
  -- session 1: nothing invented
  let ooo := d.oooAll
  match site.present1.find? (fun x => !has d.written x) with
  | some x => let m := inventionSig d [] x 1 site; some ((m.startsWith "wbl-sample-reattributed" ∨ m.startsWith "sample-reattributed") ∧ site.cls = "wal", m)
  | none =>
  let ino1 := site.present1.filter fun x => !has ooo x
  let ooo1 := site.present1.filter fun x => has ooo x
  match checkIno d site 1 ino1 with
  | some m =>
    -- documented patterns: a clean truncation that leaves a well-formed but shorter file is not detected
    some ((site.cls = "chunks" ∧ site.cb ∧ site.mu = "trunc") ∨
          (site.cls = "ckpt" ∧ site.mu = "trunc" ∧ site.repair = "repair=none"), m ++ " " ++ site.repair)
  | none =>
  -- out-of-order samples: the undamaged part of the WBL, for the series that exist
  let known := d.knownSeries site.j
  let mustOoo := (d.oooUpTo site.jw).filter fun x => known.contains x.s
  let f18 := site.cls = "wal" ∧ site.repair.startsWith "repair=wal:" ∧ ooo1.isEmpty ∧ !mustOoo.isEmpty
  -- documented pattern (C04-F5): a head-chunk file that is NOT the newest one, cut at a chunk boundary, reads as
  -- complete; the WBL markers of the out-of-order chunks behind the cut point into a file older than the last
  -- chunk loaded, are honoured, and the samples replayed from the intact WBL are thrown away.  In the NEWEST
  -- file (cb = 0) the marker comparison (file sequence, then offset) must keep them: never a documented pattern.
  let f5 := site.cls = "chunks" ∧ site.cb ∧ site.mu = "trunc" ∧ site.repair.startsWith "repair=none"
  let r1 : Option (Bool × String) :=
    if f18 then some (true, s!"wbl-skipped-after-wal-repair {site.tag} {site.repair} missing-ooo={mustOoo.length}")
    else match mustOoo.find? (fun x => !has ooo1 x) with
      | some x => some (f5, s!"ooo-lost {site.tag} session=1 sample={x.show} {site.repair}")
      | none => none
  -- what the second session must still have: everything, except what the documented pattern already lost
  let mustOoo2 := if f5 then mustOoo.filter (fun x => has ooo1 x) else mustOoo
  -- further writes and the second restart
  let r2 : Option (Bool × String) :=
    if site.app ≠ "ok" then some (false, s!"writes-rejected {site.tag} app={site.app}")
    else if site.open2 ≠ "ok" then some (false, s!"second-open-failed {site.tag} open2={site.open2}")
    else match site.news.find? (fun x => !has site.present2 x) with
      | some x => some (false, s!"new-write-lost {site.tag} sample={x.show}")
      | none =>
        match site.present2.find? (fun x => !has d.written x ∧ !has site.news x) with
        | some x => let m := inventionSig d site.news x 2 site; some ((m.startsWith "wbl-sample-reattributed" ∨ m.startsWith "sample-reattributed") ∧ site.cls = "wal", m)
        | none =>
          let ino2 := site.present2.filter fun x => !has ooo x ∧ !has site.news x
          let ooo2 := site.present2.filter fun x => has ooo x
          match ino1.find? (fun x => !has ino2 x), ino2.find? (fun x => !has ino1 x) with
          | some x, _ => some (false, s!"restart-lost-data {site.tag} sample={x.show}")
          | _, some x => some (false, s!"restart-added-data {site.tag} sample={x.show}")
          | none, none =>
            match mustOoo2.find? (fun x => !has ooo2 x) with
            | some x => some (false, s!"ooo-lost {site.tag} session=2 sample={x.show}")
            | none => none
  match r1, r2 with
  | some (false, m), _ => some (false, m)
  | _, some (false, m) => some (false, m)
  | some r, _ => some r
  | none, _ => r2

def parseSite (fs : List String) (implOut : String) : Option Site :=
  match fs with
  | _ :: cls :: seg :: off :: mu :: rest => do
    let g := fun k => field rest k
    pure { cls := cls, seg := ← seg.toNat?, off := ← off.toNat?, mu := mu,
           j := ((g "j").bind (·.toNat?)).getD 0, jw := ((g "jw").bind (·.toNat?)).getD 0,
           cb := (g "cb") = some "1",
           open1 := (g "open1").getD "?", tree1 := (g "tree1").getD "?",
           present1 := parseSet ((g "present1").getD "-"), news := parseSet ((g "new").getD "-"),
           app := (g "app").getD "?", open2 := (g "open2").getD "?",
           present2 := parseSet ((g "present2").getD "-"), repair := (toks implOut).headD "" }
  | _ => none

def parseDb (fs : List String) : Db :=
  let evs := ((field fs "events").getD "").splitOn "|" |>.filterMap parseEv?
  { events := evs, base := parseSet ((field fs "base").getD "-") }

/-! wlog-level statement: what the reader returns from a damaged log is a prefix of what was logged (the
    reader may add one empty record: a cut 1–2 bytes into a fragment header is zero padded into a valid
    empty fragment); after `Repair` further records are accepted and the log reads back, without error, as
    that prefix followed by the new records. -/

def emptyId : String := recId []

def idsOf (out : String) : List String × String :=
  match toks out with
  | [r, s] => ((r.splitOn "/").flatMap (fun p => if p = "-" then [] else p.splitOn ","), s)
  | _ => ([], "?")

def isPrefixOf (a b : List String) : Bool := b.take a.length == a

structure JW where
  first : List String := []       -- wlog
  more : List String := []        -- wlogmore
  opened : Bool := false
  damaged : Bool := false
  dmgSeg : Nat := 0
  dmgOff : Nat := 0
  dmgMu : String := ""
  nsegs : Nat := 0
  afterDamage : Option (List String) := none   -- records of the first read after the damage
  repaired : Bool := false

def judgeW (js : JW) (op out : String) : JW × Option String :=
  match toks op with
  | ["wlog", recs] =>
    ({ js with first := js.first ++ ((parsePairs? recs).getD []).map fun (l, s) => recId (genRec l s) },
     if out.startsWith "ok" then none else some s!"log-error `{op}` {out}")
  | ["wlogmore", recs] =>
    ({ js with more := js.more ++ ((parsePairs? recs).getD []).map fun (l, s) => recId (genRec l s) },
     if out.startsWith "ok" then none else some s!"repaired-log-rejects-writes `{op}` {out}")
  | ["wdamage", seg, off, mu] =>
    ({ js with damaged := true, dmgSeg := seg.toNat?.getD 0, dmgOff := off.toNat?.getD 0, dmgMu := mu }, none)
  | ["wclose"] =>
    (if js.damaged then js else { js with nsegs := (((toks out).getD 1 "").splitOn ",").length }, none)
  | ["wrepair"] => ({ js with repaired := true }, if out.startsWith "ok" ∨ out = "none" then none else some s!"repair-failed {out}")
  | ["wopen", _] => ({ js with opened := true }, none)
  | [rd] =>
    if (rd = "wread" ∨ rd = "wreadall") ∧ js.opened ∧ js.damaged then
      let (ids, status) := idsOf out
      match js.afterDamage with
      | none =>
        -- first read after the damage
        let real := ids.filter (· ≠ emptyId)
        let firstReal := js.first.filter (· ≠ emptyId)
        match ids.find? (fun i => i ≠ emptyId ∧ !js.first.contains i) with
        | some i => (js, some s!"reader-invented record={i} status={status}")
        | none =>
          if !isPrefixOf real firstReal then
            -- a contiguous run of records missing from the middle?
            let i := ((List.range (real.length + 1)).filter fun i => real.take i == firstReal.take i).getLast?.getD 0
            let tail := real.drop i
            let gap := tail.length ≤ firstReal.length ∧ firstReal.drop (firstReal.length - tail.length) == tail
            if gap ∧ js.dmgMu = "trunc" ∧ js.dmgSeg + 1 < js.nsegs then
              (js, some s!"nonlast-segment-truncation-undetected seg={js.dmgSeg}/{js.nsegs} off={js.dmgOff} status={status} got={ids.length}")
            else (js, some s!"reader-not-prefix status={status} got={ids.length}")
          else ({ js with afterDamage := some ids }, none)
      | some kept =>
        -- after repair / reopen, further writes and close
        if status ≠ "eof" ∧ !js.repaired ∧ rd = "wreadall" ∧ status.startsWith "err:seq-" ∧ js.dmgMu ≠ "trunc" then
          -- no corruption was found segment by segment, yet a reader spanning the segments trips over a
          -- fragment left open by the damaged byte
          (js, some s!"undetected-open-fragment {rd} status={status} seg={js.dmgSeg} off={js.dmgOff} mu={js.dmgMu}")
        else if status ≠ "eof" then (js, some s!"repaired-log-unreadable {rd} status={status}")
        else if js.repaired ∧ ids ≠ kept.take (ids.length - js.more.length) ++ js.more then
          (js, some s!"repaired-log-mismatch {rd} got={ids.length} kept={kept.length} more={js.more.length}")
        else if js.repaired ∧ ids.length < js.more.length then (js, some s!"repaired-log-short {rd}")
        else if !js.repaired ∧ ids ≠ kept ++ js.more then (js, some s!"reopened-log-mismatch {rd} got={ids.length}")
        else (js, none)
    else (js, none)
  | _ => (js, none)

def judge (ops outs : List String) : String :=
  let rec go (db : Option Db) (low : List String) (ops outs : List String) : String :=
    match ops, outs with
    | op :: ops, out :: outs =>
      match toks op with
      | "db" :: _ :: fs =>
        if fs.head? = some "build-failed" then s!"violation harness-build-failed {out}" else go (some (parseDb fs)) low ops outs
      | "site" :: fs =>
        match db, parseSite fs out with
        | some d, some site =>
          if (field fs "open1").isNone then s!"violation harness-error {op.take 80}" else
          match judgeSite d site with
          | none => go db low ops outs
          | some (false, m) => "violation " ++ m
          | some (true, m) =>
            -- documented finding patterns: keep the first instance of each signature
            let sig := (toks m).headD ""
            go db (if low.any (fun x => (toks x).headD "" = sig) then low else low ++ [m]) ops outs
        | _, _ => go db low ops outs
      | _ =>
        if out.startsWith "panic" then s!"violation panic `{op}` {out}" else go db low ops outs
    | _, _ => if low.isEmpty then "ok" else "violation " ++ " ;; ".intercalate low
  let rec goW (js : JW) (ops outs : List String) : Option String :=
    match ops, outs with
    | op :: ops, out :: outs =>
      match judgeW js op out with
      | (_, some m) => some m
      | (js, none) => goW js ops outs
    | _, _ => none
  match goW {} ops outs with
  | some m => "violation " ++ m
  | none => go none [] ops outs

def suite : Suite := { name := "damage", model := model, judge := judge }

end Prom.Damage.Suite
