import PromModel.Prelude.Line
import PromModel.Promql.Parser
/-
  Suite `promqlprint` (property C26): parse → print → parse → print and Prettify round trips.

  op:   `rt <flags> <hex text>`   flags = 4 bits: experimental functions, duration expressions,
                                  extended range selectors, binop fill modifiers
  out:  `err` | `internal <what>` |
        `ok <ast> ; <hex printed> ; <ast2|err> ; <hex printed2|-> ; <hex pretty> ; <ast3|err> ; <hex printed3|->`

  model: the Lean lexer/parser/printer/prettifier on the same text (must reproduce Go's line exactly:
         accept/reject, the tree, and the printed text byte for byte).
  judge: the property statement on the implementation's line alone: never `internal`; the re-parsed
         trees equal the first tree modulo the order of matchers inside one selector; printing is
         idempotent; the same through Prettify.  The verdict names the known defect class the input
         belongs to (`kind=`), computed from the shipped tree only.
-/
namespace Prom.PromqlPrint
open Prom.Promql Prom.F64Q

/-! ### S-expression rendering of a model AST (same format as the harness) -/

def hexB (b : Bytes) : String := hexEncBytes b

def f64Str (v : F64) : String := if v.isNaN then "nan" else hexOfNat v.bits 16

def b01 (b : Bool) : String := if b then "1" else "0"

def sxStrings (tag : String) (ss : List Bytes) : String :=
  "( " ++ tag ++ String.join (ss.map fun s => " " ++ hexB s) ++ " )"

def sxAt : AtMod → String
  | .none => "-"
  | .ts ms => s!"( ts {ms} )"
  | .start => "start"
  | .end_ => "end"

def sxExt : Ext → String
  | .none => "-" | .anchored => "anchored" | .smoothed => "smoothed" | .both => "both"

def sxFill : Option F64 → String
  | none => "-"
  | some v => f64Str v

mutual
def sx : Expr → String
  | .nil => "-"
  | .num v d => "( num " ++ f64Str v ++ " " ++ b01 d ++ " )"
  | .str v => "( str " ++ hexB v ++ " )"
  | .vs name ms off offe atm ext =>
    "( vs " ++ hexB name ++ " ( ms" ++
      String.join (ms.map fun m => " ( m " ++ hexB m.typ.text ++ " " ++ hexB m.name ++ " " ++ hexB m.value ++ " )") ++
      " ) " ++ (if !offe.isNil then "( offe " ++ sx offe ++ " )" else if off != 0 then s!"( off {off} )" else "-") ++
      " " ++ sxAt atm ++ " " ++ sxExt ext ++ " )"
  | .mat sel range rangeE => "( mat " ++ sx sel ++ s!" {range} " ++ sx rangeE ++ " )"
  | .sub e range rangeE step stepE off offe atm =>
    "( sub " ++ sx e ++ s!" {range} " ++ sx rangeE ++ s!" {step} " ++ sx stepE ++ " " ++
      (if !offe.isNil then "( offe " ++ sx offe ++ " )" else if off != 0 then s!"( off {off} )" else "-") ++ " " ++ sxAt atm ++ " )"
  | .call fn args => "( call " ++ hexB fn ++ sxList args ++ " )"
  | .agg op without grouping param e =>
    "( agg " ++ hexB op ++ " " ++ b01 without ++ " " ++ sxStrings "grp" grouping ++ " " ++ sx param ++ " " ++ sx e ++ " )"
  | .bin op b vm l r =>
    "( bin " ++ hexB op.text ++ " " ++ b01 b ++ " " ++
      (match vm with
       | none => "-"
       | some m => s!"( vm {m.card} " ++ b01 m.on ++ " " ++ sxStrings "l" m.labels ++ " " ++ sxStrings "l" m.incl ++ " " ++ sxFill m.fillL ++ " " ++ sxFill m.fillR ++ " )") ++
      " " ++ sx l ++ " " ++ sx r ++ " )"
  | .un neg e => "( un " ++ (if neg then "2d" else "2b") ++ " " ++ sx e ++ " )"
  | .paren e => "( paren " ++ sx e ++ " )"
  | .stepinv e => "( stepinv " ++ sx e ++ " )"
  | .dur op w l r => "( dur " ++ hexB op.text ++ " " ++ b01 w ++ " " ++ sx l ++ " " ++ sx r ++ " )"

def sxList : List Expr → String
  | [] => ""
  | e :: rest => " " ++ sx e ++ sxList rest
 end

/-! ### model -/

def optsOf (flags : String) : Option Opts :=
  match flags.toList with
  | [a, b, c, d] =>
    if [a, b, c, d].all (fun x => x == '0' || x == '1') then some ⟨a == '1', b == '1', c == '1', d == '1'⟩ else none
  | _ => none

def reparse (fixInf : Bool) (o : Opts) (text : Bytes) : String × String :=
  match parse o text with
  | none => ("err", "-")
  | some e => (sx e, hexB (e.print fixInf))

def runRT (fixInf : Bool) (o : Opts) (text : Bytes) : String :=
  match parse o text with
  | none => "err"
  | some e =>
    let printed := e.print fixInf
    let pretty := prettify fixInf e
    let (a2, p2) := reparse fixInf o printed
    let (a3, p3) := reparse fixInf o pretty
    "ok " ++ sx e ++ " ; " ++ hexB printed ++ " ; " ++ a2 ++ " ; " ++ p2 ++ " ; " ++ hexB pretty ++ " ; " ++ a3 ++ " ; " ++ p3

/-- The repaired printer (finding F13) is in force in /repo once fixes/F13.patch is applied. -/
def repoFixedInf : Bool := false

def modelLine (line : String) : String :=
  match toks line with
  | ["rt", flags, hx] =>
    match optsOf flags, bytesOfHex? hx with
    | some o, some text => runRT repoFixedInf o text
    | _, _ => "bad"
  | _ => "bad"

def model (ops : List String) : List String := ops.map modelLine

/-! ### judge -/

inductive SExp
  | atom (s : String)
  | list (xs : List SExp)
deriving Repr, Inhabited

mutual
def readSExp : Nat → List String → Option (SExp × List String)
  | 0, _ => none
  | fuel + 1, ts =>
    match ts with
    | [] => none
    | "(" :: rest => (readSList fuel rest []).map fun (xs, r) => (.list xs, r)
    | ")" :: _ => none
    | a :: rest => some (.atom a, rest)

def readSList : Nat → List String → List SExp → Option (List SExp × List String)
  | 0, _, _ => none
  | fuel + 1, ts, acc =>
    match ts with
    | [] => none
    | ")" :: rest => some (acc.reverse, rest)
    | _ =>
      match readSExp fuel ts with
      | some (x, rest) => readSList fuel rest (x :: acc)
      | none => none
 end

def readWhole (s : String) : Option SExp :=
  let ts := toks s
  match readSExp (ts.length + 1) ts with
  | some (x, []) => some x
  | _ => none

mutual
def SExp.render : SExp → String
  | .atom a => a
  | .list xs => "(" ++ renderList xs ++ " )"
def renderList : List SExp → String
  | [] => ""
  | x :: rest => " " ++ x.render ++ renderList rest
 end

def insertStr (x : String) : List String → List String
  | [] => [x]
  | y :: ys => if x < y then x :: y :: ys else y :: insertStr x ys

mutual
/-- canonical text of a tree: the matchers of every selector (`( ms … )`) sorted. -/
def SExp.canon : SExp → String
  | .atom a => a
  | .list (.atom "ms" :: ms) => "( ms" ++ String.join (((canonEach ms).foldr insertStr []).map (" " ++ ·)) ++ " )"
  | .list xs => "(" ++ String.join ((canonEach xs).map (" " ++ ·)) ++ " )"
def canonEach : List SExp → List String
  | [] => []
  | x :: rest => x.canon :: canonEach rest
 end

def decodeHexAtom (a : String) : Bytes := (bytesOfHex? a).getD []

def lowerStr (b : Bytes) : Bytes := lowerBs b

def badLabel (a : String) : Bool :=
  let l := lowerBs (decodeHexAtom a)
  l == bs "inf" || l == bs "nan" || l == bs "without"

/-- the string contains U+FFFD (bytes EF BF BD) -/
def hasReplacementChar : Bytes → Bool
  | 0xEF :: 0xBF :: 0xBD :: _ => true
  | _ :: rest => hasReplacementChar rest
  | [] => false

def atomHasRC (a : String) : Bool := hasReplacementChar (decodeHexAtom a)

def durLitTruncated (bitsHex : String) : Bool :=
  match natOfHex? bitsHex with
  | none => false
  | some bits =>
    let v : F64 := ⟨bits⟩
    if v.isNaN || v.isInf then false else
    let a := F64.abs v
    let printedMs := (f64ToInt64 (F64.mul a f1e9)) / 1000000
    let exactMs : Int := ratFloor (a.toRat * 1000 + (1 : Rat) / 2)
    printedMs != exactMs

def subMs (a : String) : Bool :=
  match a.toInt? with
  | some n => n % 1000000 != 0
  | none => false

/-- does the printed form of a duration expression start with `(`? (wrapped, or an unwrapped binary
    node whose left operand does) -/
def startsWithParen : Nat → SExp → Bool
  | 0, _ => false
  | fuel + 1, e =>
    match e with
    | .list [.atom "dur", _, .atom "1", _, _] => true
    | .list [.atom "dur", _, .atom "0", .list l, _] => startsWithParen fuel (.list l)
    | _ => false

/-- does the printed form of an operand END with an `offset` whose argument starts with `(` (no `@` /
    anchored / smoothed, which the printer would move in front of it: that is the class
    offset-expr-moved-behind-modifier)?  Such an operand can only stand in front of an arithmetic operator
    if the source had `offset +( … )`: without the sign the parenthesis opens a greedy duration expression. -/
def endsWithParenOffset : Nat → SExp → Bool
  | 0, _ => false
  | fuel + 1, e =>
    match e with
    | .list [.atom "vs", _, _, .list [.atom "offe", x], .atom "-", .atom "-"] => startsWithParen 64 x
    | .list [.atom "sub", _, _, _, _, _, .list [.atom "offe", x], .atom "-"] => startsWithParen 64 x
    | .list [.atom "mat", sel, _, _] => endsWithParenOffset fuel sel
    | .list [.atom "bin", _, _, _, _, r] => endsWithParenOffset fuel r
    | .list [.atom "un", _, x] => endsWithParenOffset fuel x
    | _ => false

/-- the operators a duration expression continues with: + - * / % ^ -/
def isArithOpHex (op : String) : Bool := ["2b", "2d", "2a", "2f", "25", "5e"].contains op

mutual
/-- defect classes present in a tree (see known_findings.jsonl). -/
def SExp.features : SExp → List String
  | .atom _ => []
  | .list xs =>
    let here : List String :=
      match xs with
      | [.atom "bin", .atom "5e", _, _, .list [.atom "num", .atom "7ff0000000000000", .atom "0"], _] => ["inf-literal-unary-plus"]
      | [.atom "off", .atom n] => if subMs n then ["submillisecond-duration"] else []
      | [.atom "mat", _, .atom n, _] => if subMs n then ["submillisecond-duration"] else []
      | [.atom "sub", _, .atom n, _, .atom m, _, _, _] => if subMs n || subMs m then ["submillisecond-duration"] else []
      | [.atom "num", .atom b, .atom "1"] =>
        -- `-0s`: NumberLiteral{Val: -0, Duration: true}; the printer tests `Val < 0`, so the sign of the zero is lost
        (if b == "8000000000000000" then ["duration-literal-negative-zero"] else []) ++
        (if durLitTruncated b then ["duration-literal-truncated"] else [])
      | .atom "grp" :: ls =>
        (if ls.any (fun | .atom a => badLabel a | _ => false) then ["label-lexed-as-keyword"] else []) ++
        (if ls.any (fun | .atom a => atomHasRC a | _ => false) then ["replacement-char-in-string"] else [])
      | .atom "l" :: ls =>
        (if ls.any (fun | .atom a => badLabel a | _ => false) then ["label-lexed-as-keyword"] else []) ++
        (if ls.any (fun | .atom a => atomHasRC a | _ => false) then ["replacement-char-in-string"] else [])
      | [.atom "m", _, .atom n, .atom v] => if atomHasRC n || atomHasRC v then ["replacement-char-in-string"] else []
      | [.atom "str", .atom v] => if atomHasRC v then ["replacement-char-in-string"] else []
      | [.atom "bin", .atom op, _, _, l, _] =>
        -- `x offset +(step()) - 60s` prints `x offset (step()) - 1m`: the dropped `+` lets the parenthesis swallow `- 1m`
        if isArithOpHex op && endsWithParenOffset 64 l then ["offset-expr-sign-dropped"] else []
      | [.atom "vm", _, _, _, _, .atom fl, .atom fr] =>
        -- fill_left / fill_right with zeros of opposite sign: the printer compares them with `==` and prints one `fill (…)`
        if (fl == "0000000000000000" && fr == "8000000000000000") || (fl == "8000000000000000" && fr == "0000000000000000")
        then ["fill-zero-signs-merged"] else []
      | [.atom "vs", _, _, .list [.atom "offe", x], atm, ext] =>
        if startsWithParen 64 x && (atm.render != "-" || ext.render != "-") then ["offset-expr-moved-behind-modifier"] else []
      | [.atom "sub", _, _, _, _, _, .list [.atom "offe", x], atm] =>
        if startsWithParen 64 x && atm.render != "-" then ["offset-expr-moved-behind-modifier"] else []
      | [.atom "offe", .list (.atom "dur" :: .atom "2b" :: _ :: .atom "-" :: _)] => ["offset-expr-sign-dropped"]
      | [.atom "offe", .list [.atom "dur", .atom _, .atom "0", .list l, _]] =>
        if startsWithParen 64 (.list l) then [] else ["offset-expr-sign-dropped"]
      | _ => []
    here ++ featuresEach xs
def featuresEach : List SExp → List String
  | [] => []
  | x :: rest => x.features ++ featuresEach rest
 end

def kindOrder : List String :=
  ["inf-literal-unary-plus", "label-lexed-as-keyword", "replacement-char-in-string", "offset-expr-sign-dropped", "offset-expr-moved-behind-modifier", "duration-literal-truncated", "submillisecond-duration", "duration-literal-negative-zero", "fill-zero-signs-merged"]

def kindOf (a : SExp) : String :=
  let fs := a.features
  match kindOrder.find? (fs.contains ·) with
  | some k => k
  | none => "none"

/-- split `ok …` payload into its 7 fields. -/
def fieldsOf (payload : String) : List String := payload.splitOn " ; "

def judgeLine (op out : String) : Option String :=
  match toks op with
  | ["rt", flags, hx] =>
    if out == "err" then none
    else if out.startsWith "internal" then some s!"violation totality kind=internal-error flags={flags} text={hx} what={out.replace " " "_"}"
    else if out.startsWith "ok " then
      match fieldsOf (String.ofList (out.toList.drop 3)) with
      | [a, p, a2, p2, _y, a3, p3] =>
        match readWhole a with
        | none => some s!"violation unparsable flags={flags} text={hx}"
        | some ta =>
          let kind := kindOf ta
          let chk (which : String) (ax px : String) : Option String :=
            if ax.startsWith "( internal" then some s!"violation totality kind=internal-error-on-{which} flags={flags} text={hx}"
            else if ax == "err" then some s!"violation {which} kind={kind} clause=reparse-rejected flags={flags} text={hx}"
            else match readWhole ax with
              | none => some s!"violation unparsable flags={flags} text={hx}"
              | some tx =>
                if tx.canon != ta.canon then some s!"violation {which} kind={kind} clause=tree-changed flags={flags} text={hx}"
                else if px != p then some s!"violation {which} kind={kind} clause=print-not-idempotent flags={flags} text={hx}"
                else none
          match chk "roundtrip" a2 p2 with
          | some v => some v
          | none => chk "pretty-roundtrip" a3 p3
      | _ => some s!"violation unparsable flags={flags} text={hx}"
    else if out == "bad" then none
    else some s!"violation unparsable flags={flags} text={hx}"
  | _ => none

def judge (ops outs : List String) : String :=
  let rec go : List String → List String → String
    | op :: ops, out :: outs =>
      match judgeLine op out with
      | some v => v
      | none => go ops outs
    | _, _ => "ok"
  go ops outs

def suite : Suite := { name := "promqlprint", model := model, judge := judge }

end Prom.PromqlPrint
