import PromModel.Suites.DbSuite
/-
  Suite `dbooo` (C01 with out-of-order ingestion enabled). The mechanism model `Db` covers in-order
  ingestion only, so here the op lines carry the observations of the real `tsdb.DB`
  (`<op> | <output>`), the implementation and model columns are `-`, and the judge evaluates C01's
  statement in the form that out-of-order ingestion allows:

    * every sample whose append was acknowledged and whose transaction was committed is returned by
      every later query whose range contains its timestamp (through head, OOO head, WBL replay, OOO
      and regular compaction, restart);
    * nothing is returned that was not acknowledged and committed;
    * the value returned at a timestamp is one of the values committed for that series and timestamp
      (two writers of one timestamp: the store keeps one of them; which one is not prescribed).
  No deletions occur in this stream (deleting out-of-order samples is finding F20).
-/
namespace Prom.DbOoo
open Prom.Db

/-- per series: timestamp ↦ admissible values -/
abbrev Store := List (Nat × List (Int × List Nat))

def Store.add (st : Store) (s : Nat) (t : Int) (v : Nat) : Store :=
  let upd := fun (xs : List (Int × List Nat)) =>
    if xs.any (·.1 = t) then xs.map fun p => if p.1 = t then (p.1, if p.2.contains v then p.2 else v :: p.2) else p
    else xs ++ [(t, [v])]
  if st.any (·.1 = s) then st.map fun p => if p.1 = s then (s, upd p.2) else p else st ++ [(s, upd [])]

def Store.tsIn (st : Store) (s : Nat) (a b : Int) : List Int :=
  match st.find? (·.1 = s) with
  | some (_, xs) => (xs.filter fun p => a ≤ p.1 ∧ p.1 ≤ b).map (·.1)
  | none => []

def Store.admits (st : Store) (s : Nat) (t : Int) (v : Nat) : Bool :=
  match st.find? (·.1 = s) with
  | some (_, xs) => xs.any fun p => p.1 = t && p.2.contains v
  | none => false

def splitObs (l : String) : String × String :=
  match l.splitOn " | " with
  | [a, b] => (a, b)
  | a :: rest => (a, " | ".intercalate rest)
  | [] => ("", "")

def judge (ops _outs : List String) : String :=
  let rec go (st : Store) (pending : List (Nat × Smp)) (ops : List String) (k : Nat) : String :=
    match ops with
    | [] => "ok"
    | l :: rest =>
      let (op, out) := splitObs l
      if out.startsWith "panic" || out.startsWith "err:" then s!"violation internal-error op={k} `{op}` {out}" else
      match parseOp? op with
      | some .begin => go st [] rest (k + 1)
      | some (.app s t v) => go st (if out = "ok" then pending ++ [(s, ⟨t, v⟩)] else pending) rest (k + 1)
      | some .commit =>
        if out = "ok" then go (pending.foldl (fun st p => st.add p.1 p.2.t p.2.v) st) [] rest (k + 1)
        else go st [] rest (k + 1)
      | some .rollback => go st [] rest (k + 1)
      | some .reopen => go st [] rest (k + 1)
      | some (.q a b) =>
        match parseRows? out with
        | none => s!"violation unparsable op={k} {out}"
        | some rows =>
          -- nothing invented, values admissible
          match rows.findSome? (fun r => (r.2.find? fun x => !st.admits r.1 x.t x.v).map fun x => (r.1, x)) with
          | some (s, x) => s!"violation ooo-query kind=not-committed step={k} range=[{a},{b}] s{s}@{x.t}={hexOfNat x.v 16}"
          | none =>
            -- nothing lost
            let missing := st.flatMap fun p =>
              ((Store.tsIn st p.1 a b).filter fun t =>
                !(rows.any fun r => r.1 = p.1 && r.2.any fun x => x.t = t)).map fun t => (p.1, t)
            match missing with
            | (s, t) :: _ => s!"violation ooo-query kind=committed-sample-missing step={k} range=[{a},{b}] s{s}@{t}"
            | [] =>
              -- strictly increasing timestamps per series
              if rows.all fun r => (r.2.zip (r.2.drop 1)).all fun p => decide (p.1.t < p.2.t) then go st pending rest (k + 1)
              else s!"violation ooo-query kind=not-increasing step={k} range=[{a},{b}]"
      | _ => go st pending rest (k + 1)
  go [] [] ops 0

def suite : Suite := { name := "dbooo", model := fun ops => ops.map fun _ => "-", judge := judge }

end Prom.DbOoo
