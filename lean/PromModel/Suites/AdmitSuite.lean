import PromModel.Tsdb.Appendable
/-
  Suite `admit` (property C02).  Op language: see harness/suites/admit/main.go.

  `model`  = the transcribed mechanism (`Prom.Admit.model`).
  `judge`  = the *statement* of C02 as a sequential specification, written without the batch machinery:
     * every `Append*` answer must be the decision-table entry for (newest in-order sample of the series
       as committed **by now**, window snapshot **of that appender**, OOO window), incl. the
       reject-out-of-order option;
     * at `commit` the samples accepted by that appender are applied **in append order**, each one
       re-decided by the same table — same snapshot — against the state left by its predecessors and by
       whatever other appenders committed meanwhile: stored in order / stored out of order (first writer
       wins on an equal OOO timestamp) / dropped;
     * up to three appenders are open at once (`@1`/`@2` op prefix); the snapshot is per appender: the head
       (max time, min valid time) at `app` for an initialised head, at the appender's first sample for a
       lazily created one.  The live head times move with every commit and are reported by `win`;
     * rejected and rolled-back samples never appear; queries must show exactly the resulting samples,
       with strictly increasing timestamps.
  The kind of a staleness marker that was appended as a *float* is left free (the code converts it to the
  series' histogram kind by two different heuristics); stale markers are compared kind-less.
-/
namespace Prom.Admit.Judge
open Prom Prom.Admit

structure JSample where
  t : Int
  kind : Kind
  v : Nat
  wild : Bool := false     -- staleness marker whose kind is unspecified (appended as float)
deriving Repr, Inhabited

def JSample.stale (x : JSample) : Bool := isStale x.kind x.v

structure JSeries where
  inorder : List JSample := []   -- newest first
  ooo : List JSample := []       -- sorted by t, first writer wins
deriving Inhabited

inductive Outcome | store | noop | noopOrDup | dup | ooo | tooOld | oob | oooErr
deriving DecidableEq, Repr

/-- The documented decision table. -/
def decide (minValid headMaxt oooWin : Int) (s : JSeries) (x : JSample) : Outcome :=
  let inZone := x.t ≥ minValid
  match s.inorder with
  | [] => if inZone then .store else
      if oooWin > 0 ∧ x.t ≥ headMaxt - oooWin then .ooo else if oooWin > 0 then .tooOld else .oob
  | l :: _ =>
    if inZone ∧ x.t > l.t then .store
    else if inZone ∧ x.t = l.t then
      if x.stale ∧ l.stale ∧ (x.kind = .f ∨ l.wild) then .noopOrDup
      else if x.kind = l.kind ∧ x.v = l.v then .noop else .dup
    else if oooWin > 0 ∧ x.t ≥ headMaxt - oooWin then .ooo
    else if oooWin > 0 then .tooOld
    else if x.t < minValid then .oob
    else .oooErr

def insertFirstWins : List JSample → JSample → List JSample
  | [], x => [x]
  | y :: ys, x => if x.t < y.t then x :: y :: ys else if x.t = y.t then y :: ys else y :: insertFirstWins ys x

def applyOutcome (s : JSeries) (x : JSample) : Outcome → JSeries
  | .store => { s with inorder := { x with wild := x.kind = .f ∧ x.stale } :: s.inorder }
  | .ooo => { s with ooo := insertFirstWins s.ooo x }
  | _ => s

def allowedAnswers (o : Outcome) (reject : Bool) : List String :=
  match o with
  | .store | .noop => ["ok"]
  | .noopOrDup => ["ok", "dup"]
  | .dup => ["dup"]
  | .ooo => if reject then ["ooo"] else ["ok"]
  | .tooOld => if reject then ["tooold", "ooo"] else ["tooold"]
  | .oob => ["oob"]
  | .oooErr => ["ooo"]

def getS (st : List (String × JSeries)) (n : String) : JSeries :=
  match st.find? (·.1 = n) with | some p => p.2 | none => {}

def setS (st : List (String × JSeries)) (n : String) (s : JSeries) : List (String × JSeries) :=
  if st.any (·.1 = n) then st.map fun p => if p.1 = n then (n, s) else p else st ++ [(n, s)]

def renderJ (x : JSample) : String :=
  if x.stale then s!"{x.t}:S" else
  match x.kind with
  | .f => s!"{x.t}:F:{hexOfNat x.v 16}"
  | .h => s!"{x.t}:H:{x.v}"
  | .fh => s!"{x.t}:G:{x.v}"

/-- Expected `q` answer with staleness markers rendered kind-less. -/
def expectedQ (s : JSeries) : String :=
  let io := s.inorder.reverse
  let oo := s.ooo.filter fun x => !(io.any (·.t == x.t))
  let all := (io.map fun x => (x.t, s!"{x.t}:*")) ++ (oo.map fun x => (x.t, renderJ x))
  let sorted := all.foldl (fun acc p =>
      let rec ins : List (Int × String) → List (Int × String)
        | [] => [p]
        | q :: qs => if p.1 < q.1 then p :: q :: qs else q :: ins qs
      ins acc) []
  s!"io={joinOrDash (io.map renderJ)} all={joinOrDash (sorted.map (·.2))}"

/-- Normalise one implementation token: staleness markers become `t:S`. -/
def normTok (tok : String) : String :=
  match tok.splitOn ":" with
  | [t, "F", v] => if v = "7ff0000000000002" then s!"{t}:S" else tok
  | [t, "H", "0"] => s!"{t}:S"
  | [t, "G", "0"] => s!"{t}:S"
  | _ => tok

def normList (s : String) : String :=
  if s = "-" then "-" else ",".intercalate ((s.splitOn ",").map normTok)

def normQ (out : String) : String :=
  match toks out with
  | [a, b] =>
    if a.startsWith "io=" ∧ b.startsWith "all=" then
      s!"io={normList (a.drop 3).toString} all={normList (b.drop 4).toString}"
    else out
  | _ => out

def tsOfList (s : String) : List Int :=
  if s = "-" then [] else (s.splitOn ",").filterMap fun tok => (tok.splitOn ":").head?.bind String.toInt?

def strictlyIncreasing : List Int → Bool
  | a :: b :: rest => a < b && strictlyIncreasing (b :: rest)
  | _ => true

structure Pending where
  n : String
  x : JSample

/-- What the statement tracks per open appender: its window snapshot and the samples it accepted. -/
structure JApp where
  open_ : Bool := false
  v2 : Bool := false
  live : Bool := false
  win : Int × Int := (0, 0)         -- (minValid, headMaxt) snapshot
  reject : Bool := false            -- option as requested by the caller
  rejectLazyOnly : Bool := false    -- requested only while the v1 appender was still lazy
  pending : List Pending := []      -- accepted, in append order (reversed)
deriving Inhabited

structure JState where
  oooWin : Int := 0
  cr : Int := 0
  hMax : Option Int := none        -- head max time (none = head not initialised)
  truncMin : Option Int := none
  store : List (String × JSeries) := []
  -- appender slots: `a` is the one the current op addresses
  a : JApp := {}
  a1 : JApp := {}
  a2 : JApp := {}
deriving Inhabited

def JState.swap1 (s : JState) : JState := { s with a := s.a1, a1 := s.a }
def JState.swap2 (s : JState) : JState := { s with a := s.a2, a2 := s.a }

def JState.minValidNow (s : JState) (hMax : Int) : Int :=
  let a := hMax - Int.tdiv s.cr 2
  match s.truncMin with | some m => max a m | none => a

def parseJ? (k t v : String) : Option JSample := do
  let x ← parseSample? k t v
  pure { t := x.t, kind := x.kind, v := x.v }

/-- Does the transaction so far contain an accepted histogram / float histogram for series `n`? -/
def hasHistBefore (p : List Pending) (n : String) : Bool :=
  p.any fun q => q.n = n ∧ q.x.kind ≠ .f

/-- Applies the samples accepted by the addressed appender in append order: each one re-decided by the
    table against the **appender's own window snapshot** and the series as they are *now* (including what
    other appenders committed since the sample was accepted).  Second component: the transaction contains a
    float staleness marker for a series whose newest in-order sample at that point is a histogram, followed
    by a later accepted sample for the same series (the shape of finding C02-F1). -/
def commitPending (s : JState) : JState × Bool :=
  let ps := s.a.pending.reverse
  let rec go (ps : List Pending) (store : List (String × JSeries)) (hm : Int) (flag : Bool) :
      List (String × JSeries) × Int × Bool :=
    match ps with
    | [] => (store, hm, flag)
    | p :: rest =>
      let ser := getS store p.n
      let o := decide s.a.win.1 s.a.win.2 s.oooWin ser p.x
      let lastIsHist := match ser.inorder with | l :: _ => l.kind ≠ .f || l.wild | [] => false
      let flag := flag || (p.x.kind = .f && p.x.stale && lastIsHist && rest.any (fun q => q.n = p.n))
      go rest (setS store p.n (applyOutcome ser p.x o)) (if o = .store then max hm p.x.t else hm) flag
  let (store, hm, flag) := go ps s.store (s.hMax.getD minI64) false
  ({ s with store := store, hMax := (if s.a.live then some hm else s.hMax), a := {} }, flag)

/-- Verdict of one op: `.error` = the violation text or `"ok"` (stop: out-of-protocol input),
    `.ok` = the next state and the "last commit had the C02-F1 shape" flag. -/
def judgeOp (s : JState) (deferredInLastTx : Bool) (k : Nat) (op out : String) (tk : List String) :
    Except String (JState × Bool) :=
    match tk with
    | ["cfg", w, cr, _] =>
      match w.toInt?, cr.toInt? with
      | some w, some cr => .ok ({ s with oooWin := (if w < 0 then 0 else w), cr := cr }, false)
      | _, _ => .error "ok"
    | ["trunc", m] =>
      match m.toInt? with
      | some m =>
        if out = "ok" then
          .ok ({ s with truncMin := some m, hMax := some (match s.hMax with | some h => max h m | none => m) }, false)
        else .ok (s, deferredInLastTx)
      | none => .error "ok"
    | ["win"] =>
      let want := match s.hMax with | none => "uninit" | some h => s!"{s.minValidNow h} {h}"
      if out ≠ want then .error s!"violation window op={k} got={out} want={want}" else .ok (s, deferredInLastTx)
    | ["app", v] =>
      if out = "busy" then .ok (s, deferredInLastTx) else
      let a : JApp := { open_ := true, v2 := (v = "v2") }
      match s.hMax with
      | none =>
        if out ≠ "lazy" then .error s!"violation window op={k} got={out} want=lazy"
        else .ok ({ s with a := { a with live := false } }, deferredInLastTx)
      | some h =>
        -- the window snapshot of this appender: the head as it is now
        let want := s!"ok {s.minValidNow h} {h}"
        if out ≠ want then .error s!"violation window op={k} got={out} want={want}"
        else .ok ({ s with a := { a with live := true, win := (s.minValidNow h, h) } }, deferredInLastTx)
    | ["opt", b] =>
      if !s.a.open_ then .ok (s, deferredInLastTx) else
      let on := b = "1"
      .ok ({ s with a := { s.a with reject := on, rejectLazyOnly := on ∧ !s.a.v2 ∧ !s.a.live } }, deferredInLastTx)
    | ["commit"] =>
      if !s.a.open_ then .ok (s, deferredInLastTx) else
      if out ≠ "ok" then .error s!"violation commit-error op={k} {out}" else
      .ok (commitPending s)
    | ["rollback"] =>
      if !s.a.open_ then .ok (s, deferredInLastTx) else
      if out ≠ "ok" then .error s!"violation rollback-error op={k} {out}" else
      .ok ({ s with a := {} }, false)
    | ["q", n] =>
      let want := expectedQ (getS s.store n)
      let got := normQ out
      let ioTs := match toks out with | [a, _] => tsOfList (a.drop 3).toString | _ => []
      let allTs := match toks out with | [_, b] => tsOfList (b.drop 4).toString | _ => []
      if !(strictlyIncreasing ioTs && strictlyIncreasing allTs) then .error s!"violation not-increasing op={k} series={n} got={out}"
      else if got ≠ want then
        let sig := if deferredInLastTx then "stored-stale-deferred" else "stored"
        .error s!"violation {sig} op={k} series={n} want={want} got={got}"
      else .ok (s, deferredInLastTx)
    | [kd, n, t, v] =>
      match parseJ? kd t v with
      | none => .error "ok"
      | some x =>
        if !s.a.open_ then .ok (s, deferredInLastTx) else
        -- a lazily created appender takes its window when its first sample is appended: from the head as
        -- it is then (initialised by this very timestamp if nobody did it before)
        let s := if s.a.live then s else
          let h := match s.hMax with | some h => h | none => x.t
          { s with hMax := some h, a := { s.a with live := true, win := (s.minValidNow h, h) } }
        -- admission: the appender's snapshot + the series' newest in-order sample as committed by now
        let o := decide s.a.win.1 s.a.win.2 s.oooWin (getS s.store n) x
        let allowed := allowedAnswers o s.a.reject
        if allowed.contains out then
          .ok ((if out = "ok" then { s with a := { s.a with pending := ⟨n, x⟩ :: s.a.pending } } else s), deferredInLastTx)
        else
          let ver := if s.a.v2 then "v2" else "v1"
          let sig :=
            if out = "ok" ∧ o = .ooo ∧ s.a.reject then
              (if !s.a.v2 ∧ (x.kind ≠ .f ∨ (x.stale ∧ hasHistBefore s.a.pending n)) then "reject-ignored-v1-histogram"
               else if s.a.rejectLazyOnly then "reject-lost-initappender"
               else "reject-ignored")
            else "append-decision"
          .error s!"violation {sig} op={k} `{op}` ver={ver} got={out} allowed={allowed} outcome={repr o} window={s.a.win.1},{s.a.win.2} oooWin={s.oooWin}"
    | _ => .error "ok"

def slotOpJ (tk : List String) : Bool :=
  match tk with
  | op :: _ => op = "app" || op = "opt" || op = "f" || op = "h" || op = "fh" || op = "commit" || op = "rollback"
  | [] => false

def judgeGo (s : JState) (deferredInLastTx : Bool) (k : Nat) : List String → List String → String
  | op :: ops, out :: outs =>
    if out.startsWith "panic" then s!"violation panic op={k} `{op}` {out}" else
    -- malformed / out-of-protocol op sequences (only produced by the shrinker) are outside the statement
    if out = "bad-op" ∨ out = "noapp" ∨ out = "busy" then "ok" else
    let r : Except String (JState × Bool) :=
      match toks op with
      | "@1" :: rest =>
        if slotOpJ rest then (judgeOp s.swap1 deferredInLastTx k op out rest).map (fun p => (p.1.swap1, p.2)) else .error "ok"
      | "@2" :: rest =>
        if slotOpJ rest then (judgeOp s.swap2 deferredInLastTx k op out rest).map (fun p => (p.1.swap2, p.2)) else .error "ok"
      | tk => judgeOp s deferredInLastTx k op out tk
    match r with
    | .error v => v
    | .ok (s', flag) => judgeGo s' flag (k + 1) ops outs
  | _, _ => "ok"

def judge (ops outs : List String) : String := judgeGo {} false 0 ops outs

end Prom.Admit.Judge

namespace Prom.Admit
def suite : Suite := { name := "admit", model := model, judge := Judge.judge }
end Prom.Admit
