import PromModel.Prelude.Line
import PromModel.Promql.RateFns
/-
  Suite `promqlrate` (property C30).
  ops:  `s <t_ms> <value f64 hex> <st_ms>`                        append a sample to the case's series
        `q <fn> <range_ms> <offset_ms> <eval_ts_ms> <useST 0|1> [obs=v:<hex>|obs=none] [exact]`
                                                                  fn ∈ rate increase delta irate idelta resets changes;
                                                                  `obs=` records the value the harness observed (ignored on replay,
                                                                  re-observed), see `renderTol`
  out:  s → `ok` | `err`
        q → `none w=<0|1>` | `v <f64 hex> w=<0|1>`   (w = start-time-overlap warning)

  model : the transcription run with `Arith.f64` (every operation correctly rounded to binary64).
          With the `exact` token its output must equal the engine's bit for bit (true on the anchored
          tree, `-x exact=1`); by default an observed value within 2^-40 relative of the model value is
          echoed, so only numerically significant differences are disagreements.
  judge : the *documented* algorithm over exact rationals, evaluated independently of the
          transcription, compared with the implementation's value decoded exactly from its bits.
          Tolerance (documented): |impl − exact| ≤ 2^-40 · max(|exact|, 2^-4 · max|v| · unit)
          where unit = 1 (increase/delta/idelta) or 1/seconds (rate/irate); the second term only
          matters for non-dyadic sample values (cancellation in last − first). At an exact tie
          `distance to boundary = 1.1 · average interval` binary64 rounding of `1.1·avg` decides,
          so both sides of the tie are admissible (probed with 1.1·(1 ± 2^-40)).
          Plus the property's own inequalities on the implementation's values: rate/increase/irate
          ≥ 0 for non-negative counters; |result| ≤ |raw|·(1 + 2·1.1·avg/sampled); increase = rate ×
          range seconds for sibling queries of the same case.
-/
namespace Prom.RateSuite
open Prom.RateFns

structure Raw where
  t : Int
  bits : Nat
  st : Int

/-- engine.go: start timestamps are collected only for these functions (and only when enabled). -/
def tracksST (fn : String) : Bool := fn = "rate" || fn = "irate" || fn = "increase" || fn = "resets"

def toFS (useST : Bool) (r : Raw) : FSample := ⟨r.t, F64.decode r.bits, if useST then r.st else 0⟩

def toS? (s : FSample) : Option Sample :=
  match s.v with
  | .fin q => some ⟨s.t, q, s.st⟩
  | _ => none

def windowRaw (rs re : Int) (xs : List Raw) : List Raw := xs.filter fun r => rs < r.t ∧ r.t ≤ re

def w01 (b : Bool) : String := if b then "1" else "0"

def renderBits (n : Nat) (w : Bool) : String := s!"v {hexOfNat n 16} w={w01 w}"

def render (r : Option Rat) (w : Bool) : String :=
  match r with
  | none => s!"none w={w01 w}"
  | some q => renderBits (F64.roundBits q) w

structure Query where
  fn : String
  range : Int
  off : Int
  ts : Int
  useST : Bool
  /-- the value the harness observed (recorded in the op line), if any -/
  obs : Option Nat := none
  /-- `exact` token: compare bit for bit instead of up to the rounding tolerance -/
  exact : Bool := false

def parseQuery? (ts : List String) : Option Query :=
  match ts with
  | "q" :: fn :: r :: o :: t :: u :: extra => do
    let r ← r.toInt?
    let o ← o.toInt?
    let t ← t.toInt?
    if r ≤ 0 then none else
    let obs := extra.findSome? fun e =>
      if e.startsWith "obs=v:" then natOfHex? (e.drop 6).toString else none
    pure { fn := fn, range := r, off := o, ts := t, useST := u = "1", obs := obs, exact := extra.contains "exact" }
  | _ => none

def parseSample? (ts : List String) : Option Raw :=
  match ts with
  | ["s", t, b, st] => do
    let t ← t.toInt?
    let b ← natOfHex? b
    let st ← st.toInt?
    pure ⟨t, b, st⟩
  | _ => none

def Query.rs (q : Query) : Int := q.ts - q.off - q.range
def Query.re (q : Query) : Int := q.ts - q.off

def windowOf (q : Query) (st : List Raw) : List FSample :=
  (windowRaw q.rs q.re st).map (toFS (q.useST && tracksST q.fn))

def absR (q : Rat) : Rat := if q < 0 then -q else q
def maxR (a b : Rat) : Rat := if a < b then b else a
def eps : Rat := F64.pow2 (-40)

/-- `|x − exact| ≤ 2^-40 · max(|exact|, floor)` -/
def close (x exact floor : Rat) : Bool := absR (x - exact) ≤ eps * maxR (absR exact) floor

def maxAbsV (w : List Sample) : Rat := w.foldl (fun m s => maxR m (absR s.v)) 0

/-- The model's answer for a rate-type query. The model value is computed with correctly rounded
    binary64 operations (`Arith.f64`). Unless the op carries `exact`, an observed value within the
    documented rounding tolerance of the model value is echoed, so that a numerically harmless
    re-association in the implementation is not a disagreement; anything farther away is answered
    with the model's own bits (and the lines differ). -/
def renderTol (q : Query) (unit : Rat) (w : List Sample) (r : Option Rat) (warn : Bool) : String :=
  match r, q.obs with
  | some m, some ob =>
    if q.exact then render r warn else
    match F64.f64ToRat ob with
    | some x => if close x m (maxAbsV w * unit / 16) then renderBits (if ob = 2 ^ 63 then 0 else ob) warn else render r warn
    | none => render r warn
  | _, _ => render r warn

def modelQuery (st : List Raw) (q : Query) : String :=
  let fw := windowOf q st
  match q.fn with
  | "resets" => match resets fw with
    | none => "none w=0"
    | some n => renderBits (F64.roundBits (n : Rat)) false
  | "changes" => match changes fw with
    | none => "none w=0"
    | some n => renderBits (F64.roundBits (n : Rat)) false
  | fn =>
    match fw.mapM toS? with
    | none => "unmodelled"
    | some w =>
      match fn with
      | "rate" => renderTol q (1000 / (q.range : Rat)) w (extrapolatedRate .f64 true true q.rs q.re q.range w) (overlapWarned w)
      | "increase" => renderTol q 1 w (extrapolatedRate .f64 true false q.rs q.re q.range w) (overlapWarned w)
      | "delta" => renderTol q 1 w (extrapolatedRate .f64 false false q.rs q.re q.range w) false
      | "irate" => renderTol q (1000 / (q.range : Rat)) w (instantValue .f64 true w) false
      | "idelta" => renderTol q 1 w (instantValue .f64 false w) false
      | _ => "bad-op"

/-- The head accepts a sample iff it is newer than the series' last one (generated series are
    strictly increasing; equal-timestamp duplicates are not generated). -/
def stepModel (st : List Raw) (line : String) : List Raw × String :=
  let ts := toks line
  match parseSample? ts with
  | some r =>
    (match st.getLast? with
     | some l => if r.t ≤ l.t then (st, "err") else (st ++ [r], "ok")
     | none => (st ++ [r], "ok"))
  | none =>
    match parseQuery? ts with
    | some q => (st, modelQuery st q)
    | none => (st, "bad-op")

def model (ops : List String) : List String :=
  let rec go (st : List Raw) : List String → List String
    | [] => []
    | l :: rest => let (st', o) := stepModel st l; o :: go st' rest
  go [] ops

/-! ### judge -/

inductive Out where
  | none (w : Bool)
  | val (bits : Nat) (w : Bool)
  | other (s : String)

def parseOut (s : String) : Out :=
  match toks s with
  | ["none", w] => .none (w = "w=1")
  | ["v", b, w] => match natOfHex? b with
    | some n => .val n (w = "w=1")
    | none => .other s
  | _ => .other s

/-- Number of adjacent pairs satisfying `p` (prev, cur). -/
def countAdj (p : FSample → FSample → Bool) : List FSample → Nat
  | a :: b :: rest => (if p a b then 1 else 0) + countAdj p (b :: rest)
  | _ => 0

/-- "Any decrease in the value between two consecutive float samples is a counter reset" (+ ST resets). -/
def docResetF (prev cur : FSample) : Bool :=
  FV.lt cur.v prev.v || isStartTimestampReset prev.st prev.t cur.st cur.t

/-- "the number of times its value has changed": equal values and NaN→NaN are not changes. -/
def docChangeF (prev cur : FSample) : Bool :=
  !(FV.eq cur.v prev.v || (cur.v.isNaN && prev.v.isNaN))

def rangeSecExact (q : Query) : Rat := (q.range : Rat) / 1000

/-- The admissible exact results of rate/increase/delta (both sides of a threshold tie). -/
def docCandidates (q : Query) (isCounter isRate : Bool) (w : List Sample) : List (Option Rat) :=
  [(11 : Rat) / 10 * (1 - eps), (11 : Rat) / 10 * (1 + eps)].map fun c =>
    ((Doc.piecesC c isCounter q.rs q.re w).map Doc.Pieces.increase).map fun x =>
      if isRate then x / rangeSecExact q else x

def describe (q : Query) : String :=
  s!"fn={q.fn} range={q.range} off={q.off} ts={q.ts} useST={w01 q.useST}"

/-- Judge one rate/increase/delta query. `x?` = implementation's value (exact), `none` = no sample. -/
def judgeExtrap (q : Query) (isCounter isRate : Bool) (w : List Sample) (x? : Option Rat) (k : Nat) : Option String :=
  let cands := docCandidates q isCounter isRate w
  let unit : Rat := if isRate then 1 / rangeSecExact q else 1
  let floor := maxAbsV w * unit / 16
  match x? with
  | none =>
    if cands.any (·.isNone) then none
    else some s!"violation missing-output op={k} {describe q} n={w.length}"
  | some x =>
    if cands.all (·.isNone) then some s!"violation unexpected-output op={k} {describe q} n={w.length}"
    else if !(cands.any fun c => match c with | some e => close x e floor | none => false) then
      some s!"violation value-differs-from-documented-algorithm op={k} {describe q} n={w.length}"
    else if isCounter && w.all (fun s => s.v ≥ 0) && x < 0 then
      some s!"violation negative-for-nonnegative-counter op={k} {describe q}"
    else
      -- extrapolation bound on the implementation's value
      match Doc.pieces isCounter q.rs q.re w with
      | some p =>
        let n1 : Rat := ((w.length - 1 : Nat) : Rat)
        let bound :=
          if p.sampled ≠ 0 ∧ n1 ≠ 0 then
            let first := w.head!
            let last := w.getLast!
            let avg : Rat := ((last.t - first.t : Int) : Rat) / 1000 / n1
            absR p.raw * (1 + 2 * (11 / 10) * avg / p.sampled)
          else absR p.raw
        if absR x ≤ (bound * unit) * (1 + eps) + eps * floor then none
        else some s!"violation extrapolation-bound op={k} {describe q}"
      | none => none

def judgeInstant (q : Query) (isRate : Bool) (w : List Sample) (x? : Option Rat) (k : Nat) : Option String :=
  let exact := if isRate then Doc.irate w else Doc.idelta w
  match x?, exact with
  | none, none => none
  | none, some _ => some s!"violation missing-output op={k} {describe q} n={w.length}"
  | some _, none => some s!"violation unexpected-output op={k} {describe q} n={w.length}"
  | some x, some e =>
    let dt : Rat := match w.reverse with
      | s1 :: s0 :: _ => ((s1.t - s0.t : Int) : Rat) / 1000
      | _ => 1
    let floor := maxAbsV w * (if isRate then 1 / dt else 1) / 16
    if !close x e floor then some s!"violation value-differs-from-documented-algorithm op={k} {describe q} n={w.length}"
    else if isRate && w.all (fun s => s.v ≥ 0) && x < 0 then
      some s!"violation negative-for-nonnegative-counter op={k} {describe q}"
    else none

def judgeCount (q : Query) (expected : Option Nat) (o : Out) (k : Nat) : Option String :=
  match expected, o with
  | none, .none _ => none
  | none, _ => some s!"violation unexpected-output op={k} {describe q}"
  | some _, .none _ => some s!"violation missing-output op={k} {describe q}"
  | some n, .val bits _ =>
    if F64.f64ToRat bits = some (n : Rat) then none
    else some s!"violation wrong-count op={k} {describe q} expected={n}"
  | some _, .other s => some s!"violation unparsable op={k} out={s}"

def sameWindow (a b : Query) : Bool :=
  a.range = b.range && a.off = b.off && a.ts = b.ts && a.useST = b.useST

/-- `prior` = earlier rate/increase answers of this case: (query, value). -/
def judgeSibling (q : Query) (x : Rat) (prior : List (Query × Rat)) (floorV : Rat) (k : Nat) : Option String :=
  let other := if q.fn = "rate" then "increase" else "rate"
  match prior.find? (fun p => p.1.fn = other && sameWindow p.1 q) with
  | none => none
  | some (_, y) =>
    let (rate, inc) := if q.fn = "rate" then (x, y) else (y, x)
    if close inc (rate * rangeSecExact q) floorV then none
    else some s!"violation increase-ne-rate-times-range op={k} {describe q}"

def judge (ops outs : List String) : String :=
  let rec go (st : List Raw) (prior : List (Query × Rat)) (ops outs : List String) (k : Nat) : String :=
    match ops, outs with
    | op :: ops, out :: outs =>
      let ts := toks op
      match parseSample? ts with
      | some r => go (if out = "ok" then st ++ [r] else st) prior ops outs (k + 1)
      | none =>
        match parseQuery? ts with
        | none => go st prior ops outs (k + 1)
        | some q =>
          let o := parseOut out
          match o with
          | .other s => s!"violation unparsable op={k} {describe q} out={s}"
          | _ =>
          let fw := windowOf q st
          match q.fn with
          | "resets" =>
            (match judgeCount q (if fw.isEmpty then none else some (countAdj docResetF fw)) o k with
             | some v => v
             | none => go st prior ops outs (k + 1))
          | "changes" =>
            (match judgeCount q (if fw.isEmpty then none else some (countAdj docChangeF fw)) o k with
             | some v => v
             | none => go st prior ops outs (k + 1))
          | fn =>
            match fw.mapM toS? with
            | none => go st prior ops outs (k + 1)   -- NaN/Inf samples: outside the rational model
            | some w =>
              let x? : Option (Option Rat) := match o with
                | .none _ => some none
                | .val bits _ => (F64.f64ToRat bits).map some
                | .other _ => none
              match x? with
              | none => s!"violation non-finite-result op={k} {describe q}"
              | some x? =>
                let verdict : Option String :=
                  match fn with
                  | "rate" => judgeExtrap q true true w x? k
                  | "increase" => judgeExtrap q true false w x? k
                  | "delta" => judgeExtrap q false false w x? k
                  | "irate" => judgeInstant q true w x? k
                  | "idelta" => judgeInstant q false w x? k
                  | _ => none
                match verdict with
                | some v => v
                | none =>
                  match x? with
                  | some x =>
                    if fn = "rate" || fn = "increase" then
                      match judgeSibling q x prior (maxAbsV w / 16) k with
                      | some v => v
                      | none => go st ((q, x) :: prior) ops outs (k + 1)
                    else go st prior ops outs (k + 1)
                  | none => go st prior ops outs (k + 1)
    | _, _ => "ok"
  go [] [] ops outs 0

def suite : Suite := { name := "promqlrate", model := model, judge := judge }

end Prom.RateSuite
