import PromModel.Tsdb.HeadChunkFile
/-
  Suite `hcf` (property C25): the real `chunks.ChunkDiskMapper` driven by write / read / cut / truncate /
  worker-step / restart / torn-restart sequences.

  ops  `open <q> <s|g|f>`   new mapper in an empty directory; `s` no queue, `g` queue of size q with the worker
                            parked by the harness (steps `wr`, `fin`), `f` queue of size q, worker running free
                            (every `w` then waits for its callback, so at op boundaries = synchronous)
       `w <sref> <mint> <maxt> <enc> <ooo> <data>`  WriteChunk (+ an immediate Chunk(ref));
                            data = `-` | `x<hex>` | `g<seed>:<len>` (LCG bytes)
       `cut` CutNewFile · `r <seq>:<off>` Chunk(ref) · `wr` worker runs writeChunk for the job in hand ·
       `fin` worker finishes the job (callback, delete from chunkRefMap, pop next) · `drain` ·
       `trunc <n>` · `files` · `st` (internal positions) · `restart` (Close, reopen, load as the head does) ·
       `torn <cut>` (copy of the directory as it is on disk now, newest file truncated at cut, reopen + load) ·
       `crash <seq> <t|x|z> <arg>` (drain, Close, damage file <seq> of the LIVE directory — t: truncate at arg,
                            x: invert the byte at arg, z: zero everything from arg on —, reopen, load as the head does
                            (IterateAllChunks → DeleteCorrupted → IterateAllChunks) and keep working on that mapper) ·
       `pos <seq> <off> <cut> <len>` chunkPos.getNextChunkRef on an explicit position
  out  see `run`.
-/
namespace Prom.Hcf
open Prom.Enc

def crc : Crc := Wal.crc32c
def wbsDefault : Nat := 65536

/-! ### string layer -/

def genData (seed n : Nat) : Bytes :=
  let rec go : Nat → Nat → List UInt8 → List UInt8
    | 0, _, acc => acc.reverse
    | k + 1, x, acc =>
      let x' := (x * 1103515245 + 12345) % 2147483648
      go k x' (UInt8.ofNat (x' / 65536 % 256) :: acc)
  go n (seed % 2147483648) []

def parseData? (s : String) : Option Bytes :=
  if s = "-" then some []
  else if s.startsWith "x" then bytesOfHex? (s.drop 1).copy
  else if s.startsWith "g" then
    match ((s.drop 1).copy).splitOn ":" with
    | [a, b] => do
      let seed ← a.toNat?
      let n ← b.toNat?
      if n > 4194304 then none else some (genData seed n)
    | _ => none
  else none

def parseRef? (s : String) : Option Ref :=
  match s.splitOn ":" with
  | [a, b] => do
    let x ← a.toNat?
    let y ← b.toNat?
    if x < 2147483648 ∧ y < 4294967296 then some (x, y) else none
  | _ => none

def refStr (r : Ref) : String := s!"{r.1}:{r.2}"

def fnvHex (bs : Bytes) : String := hexOfNat (Wal.fnv bs).toNat 16

def chunkStr (enc : Nat) (data : Bytes) : String := s!"{enc}:{data.length}:{fnvHex data}"

inductive Op
  | openM (q : Nat) (mode : String)
  | w (c : Chunk)
  | cut
  | r (ref : Ref)
  | wr | fin | drain
  | trunc (n : Nat)
  | files | st | restart
  | torn (cut : Nat)
  | crash (seq : Nat) (d : Dmg)
  | pos (seq off : Nat) (cut : Bool) (n : Nat)
  | bad
deriving Repr, Inhabited

def bool01? (s : String) : Option Bool := if s = "0" then some false else if s = "1" then some true else none

def parseOp (line : String) : Op :=
  match toks line with
  | ["open", q, m] =>
    match q.toNat? with
    | some q => if (m = "s" ∨ m = "g" ∨ m = "f") ∧ q ≤ 100000 ∧ ((q = 0) = (m = "s")) then .openM q m else .bad
    | none => .bad
  | ["w", sref, mint, maxt, enc, ooo, data] =>
    match sref.toNat?, mint.toInt?, maxt.toInt?, enc.toNat?, bool01? ooo, parseData? data with
    | some sref, some mint, some maxt, some enc, some ooo, some data =>
      if sref < 18446744073709551616 ∧ decide (I64 mint) ∧ decide (I64 maxt) ∧ enc < 256 then .w ⟨sref, mint, maxt, enc, ooo, data⟩
      else .bad
    | _, _, _, _, _, _ => .bad
  | ["cut"] => .cut
  | ["r", ref] => match parseRef? ref with | some r => .r r | none => .bad
  | ["wr"] => .wr
  | ["fin"] => .fin
  | ["drain"] => .drain
  | ["trunc", n] => match n.toNat? with | some n => if n < 4294967296 then .trunc n else .bad | none => .bad
  | ["files"] => .files
  | ["st"] => .st
  | ["restart"] => .restart
  | ["torn", c] => match c.toNat? with | some c => .torn c | none => .bad
  | ["crash", s, kd, a] =>
    match s.toNat?, a.toNat? with
    | some s, some a =>
      if kd = "t" then .crash s (.cut a) else if kd = "x" then .crash s (.flip a) else if kd = "z" then .crash s (.zero a) else .bad
    | _, _ => .bad
  | ["pos", a, b, c, d] =>
    match a.toNat?, b.toNat?, bool01? c, d.toNat? with
    | some a, some b, some c, some d => if a < 2147483648 ∧ b < 1099511627776 ∧ d ≤ 268435456 then .pos a b c d else .bad
    | _, _, _, _ => .bad
  | _ => .bad

/-! ### model -/

structure World where
  st : Option St := none
  dead : Bool := false
  mode : String := ""
  q : Nat := 0
  poisoned : Bool := false
  issued : List Ref := []
deriving Inhabited

def readStr (σ : St) (r : Ref) : String :=
  match σ.chunk crc r with
  | .ok (e, d) => chunkStr e d
  | .error e => "E" ++ e.name

def allFiles (σ : St) : List File := σ.old ++ σ.cur.toList

def seqList (xs : List Nat) : String := if xs.isEmpty then "-" else ",".intercalate (xs.map toString)

def cbStr (ok : Bool) : String := if ok then "ok" else "expect"

def metaStr (m : Meta) (rd : String) : String :=
  s!"{m.seq}:{m.off}:{m.sref}:{m.mint}:{m.maxt}:{m.ns}:{m.enc}:{if m.ooo then 1 else 0}={rd}"

def statusStr : LoadStatus → String
  | .clean => "clean"
  | .repaired k => s!"repaired:{k}"
  | .failed k => s!"failed:{k}"

def loadStr (σ : St) : St × String :=
  let r := σ.loadAll crc
  let ents := r.2.1.map fun m => metaStr m (readStr r.1 (m.seq, m.off))
  (r.1, statusStr r.2.2 ++ " " ++ (if ents.isEmpty then "-" else ",".intercalate ents))

def safeRead (w : World) (σ : St) (r : Ref) : Bool :=
  match (allFiles σ).find? (·.seq = r.1) with
  | none => true
  | some f => !f.live || (!w.poisoned && w.issued.contains r)

def modelQ (w : World) : Nat := if w.mode = "g" then w.q else 0

def stepW (w : World) (op : Op) : World × String :=
  match op with
  | .bad => (w, "bad-op")
  | .pos seq off cut n =>
    let nr := nextRef seq off cut (25 + uvarintSize n + n + 4)
    (w, s!"{nr.1.1}:{nr.1.2} {if nr.2.1 then 1 else 0} {nr.2.2.1}:{nr.2.2.2}:0")
  | .openM q m =>
    if w.st.isSome ∨ w.dead then (w, "bad-op")
    else ({ w with st := some (init (if m = "g" then q else 0) wbsDefault), mode := m, q := q }, "ok")
  | op =>
    if w.dead then (w, "dead") else
    match w.st with
    | none => (w, "bad-op")
    | some σ =>
      match op with
      | .w c =>
        if w.mode = "g" ∧ σ.queue.length ≥ σ.q then (w, "full")
        else
          let r := σ.writeChunk c
          let failed := r.2.2 == some false
          let w1 := { w with st := some r.1, issued := r.2.1 :: w.issued, poisoned := w.poisoned || failed }
          let rd := if w1.poisoned then "unsafe" else readStr r.1 r.2.1
          let cb := match r.2.2 with | none => "-" | some ok => cbStr ok
          (w1, s!"ref {refStr r.2.1} rd={rd} cb={cb}")
      | .cut => ({ w with st := some (step σ .cutNew) }, "ok")
      | .r ref => (w, if safeRead w σ ref then readStr σ ref else "unsafe")
      | .wr =>
        match σ.worker with
        | .before j =>
          let σ1 := σ.workerWrite
          let ok := match σ1.worker with | .after _ ok => ok | _ => false
          ({ w with st := some σ1, poisoned := w.poisoned || !ok }, s!"wrote {refStr j.ref} {cbStr ok}")
        | _ => (w, "noop")
      | .fin =>
        match σ.worker with
        | .after j _ => ({ w with st := some σ.workerFin }, s!"fin {refStr j.ref}")
        | _ => (w, "noop")
      | .drain =>
        let r := σ.drain σ.drainFuel
        let parts := r.2.map fun x => s!"{refStr x.1}={cbStr x.2}"
        ({ w with st := some r.1, poisoned := w.poisoned || r.2.any (fun x => !x.2) },
          "drained " ++ (if parts.isEmpty then "-" else ",".intercalate parts))
      | .trunc n =>
        let σ1 := σ.truncate n
        ({ w with st := some σ1 }, s!"ok {seqList ((allFiles σ).map (·.seq))} {seqList ((allFiles σ1).map (·.seq))}")
      | .files =>
        let parts := (σ.diskFiles crc).map fun f => s!"{f.1}:{f.2.length}:{fnvHex f.2}"
        (w, "files " ++ (if parts.isEmpty then "-" else ",".intercalate parts))
      | .st =>
        (w, s!"cur={σ.curSeq}:{σ.curOff} evtl={σ.eseq}:{σ.eoff}:{if σ.ecut then 1 else 0} q={σ.queue.length} map={σ.refMap.length} buf={σ.chunkBuf.length} wbuf={match σ.cur with | some f => buffered f | none => 0} files={(allFiles σ).length}")
      | .restart =>
        let dr := σ.drain σ.drainFuel
        let σ1 := dr.1
        let parts := dr.2.map fun x => s!"{refStr x.1}={cbStr x.2}"
        let d := if parts.isEmpty then "-" else ",".intercalate parts
        match reopen (modelQ w) wbsDefault (σ1.closedFiles crc) with
        | none => ({ w with st := none, dead := true }, "chunks openerr - " ++ d)
        | some σ2 =>
          let r := loadStr σ2
          ({ w with st := some r.1, poisoned := false, issued := [] }, "chunks " ++ r.2 ++ " " ++ d)
      | .torn cut =>
        match reopen 0 wbsDefault (tearLast (σ.diskFiles crc) cut) with
        | none => (w, "torn openerr -")
        | some σ2 => (w, "torn " ++ (loadStr σ2).2)
      | .crash s dm =>
        let dr := σ.drain σ.drainFuel
        let σ1 := dr.1
        let parts := dr.2.map fun x => s!"{refStr x.1}={cbStr x.2}"
        let d := if parts.isEmpty then "-" else ",".intercalate parts
        let files := σ1.closedFiles crc
        let seqs := seqList (files.map (·.1))
        match reopen (modelQ w) wbsDefault (damageFile files s dm) with
        | none => ({ w with st := none, dead := true }, s!"crash {seqs} openerr - {d}")
        | some σ2 =>
          let r := loadStr σ2
          ({ w with st := some r.1, poisoned := false, issued := [] }, s!"crash {seqs} {r.2} {d}")
      | _ => (w, "bad-op")

def runOps (w : World) : List Op → List String
  | [] => []
  | op :: rest => (stepW w op).2 :: runOps (stepW w op).1 rest

def model (ops : List String) : List String := runOps {} (ops.map parseOp)

/-! ### the property statement as an oracle (independent of the model above)

  The judge only knows what was handed to `WriteChunk` (from the op lines), the references the implementation
  returned, and the requested truncations.
  * every read of a returned reference — the immediate one inside `w` and every later `r`, wherever the queue
    worker stands — yields the encoding and bytes that were written, unless a `trunc n` with `n > seq` was requested
    after the write (then any error is admissible as well — file numbers restart at 1 after a truncation of everything, so an
    old reference may point into a new file; wrong bytes never are);
  * no write callback reports an error;
  * `trunc n` removes only files that existed before and have a number `< n`, and reports no error;
  * `restart` (clean close and reopen) lists, in write order, with reference, series, time range, sample count
    (first two data bytes), encoding and out-of-order flag, and readable with identical bytes: all written chunks
    not covered by a truncation request, possibly some covered ones, nothing else; it reports no corruption;
  * `torn c`: what survives is a subsequence in write order of the written chunks with exact metadata and bytes
    (never an invented chunk) and is prefix-closed: a missing, not truncated chunk implies every later one is
    missing.  A refusal to open is accepted only when the cut falls inside the 8-byte file header.
  Outside the statement (the head never produces them; judging of the case stops there): chunks with
  series ref = mint = maxt = 0 (the on-disk end-of-data marker), encodings other than 1..6, data shorter than 4 bytes
  (a record shorter than `MaxHeadChunkMetaSize`).
-/

structure JWrite where
  ref : Ref
  c : Chunk
  truncated : Bool := false
  /-- some `trunc` was requested after this write was handed to `WriteChunk` (the window of finding C25-F1) -/
  truncSince : Bool := false
deriving Inhabited

def expectStr (c : Chunk) : String := chunkStr c.enc c.data

def inStatement (c : Chunk) : Bool :=
  !(c.sref = 0 ∧ c.mint = 0 ∧ c.maxt = 0) && validEnc c.enc && decide (c.data.length ≥ 4)

def parseSeqs? (s : String) : Option (List Nat) := if s = "-" then some [] else (s.splitOn ",").mapM (·.toNat?)

structure JEntry where
  ref : Ref
  sref : Nat
  mint : Int
  maxt : Int
  ns : Nat
  enc : Nat
  ooo : Bool
  rd : String

def parseEntry? (s : String) : Option JEntry :=
  match s.splitOn "=" with
  | [m, rd] =>
    match m.splitOn ":" with
    | [a, b, c, d, e, f, g, h] => do
      pure ⟨(← a.toNat?, ← b.toNat?), ← c.toNat?, ← d.toInt?, ← e.toInt?, ← f.toNat?, ← g.toNat?, ← bool01? h, rd⟩
    | _ => none
  | _ => none

def parseEntries? (s : String) : Option (List JEntry) := if s = "-" then some [] else (s.splitOn ",").mapM parseEntry?

def entryMatches (e : JEntry) (w : JWrite) : Bool :=
  e.sref == w.c.sref && e.mint == w.c.mint && e.maxt == w.c.maxt && e.enc == w.c.enc && e.ooo == w.c.ooo
    && e.ns == rd16 w.c.data && e.rd == expectStr w.c

/-- Walk the listed entries against the writes (in write order).  `strictAll`: every non-truncated write must be
    listed (restart); otherwise only prefix-closure is required (torn).  Returns a violation detail. -/
def checkListed (tag : String) (strictAll : Bool) : List JEntry → List JWrite → Option String
  | [], ws =>
    if strictAll then
      match ws.find? (fun w => !w.truncated) with
      | some w => some s!"{tag}-missing ref={refStr w.ref}"
      | none => none
    else none
  | e :: _, [] => some s!"{tag}-invented ref={refStr e.ref}"
  | e :: es, w :: ws =>
    if e.ref = w.ref then
      if entryMatches e w then checkListed tag strictAll es ws
      else some s!"{tag}-invented ref={refStr e.ref} metadata-or-bytes-differ"
    else if w.truncated then checkListed tag strictAll (e :: es) ws
    else
      -- a non-truncated write is skipped although a later entry is listed
      (if ws.any (fun w' => w'.ref = e.ref) then some s!"{tag}-not-prefix missing={refStr w.ref} listed={refStr e.ref}"
       else some s!"{tag}-invented ref={refStr e.ref}")

def isErrCb (s : String) : Bool := s ≠ "ok" ∧ s ≠ "-"

/-- A write callback reported an error.  The only admissible (known, C25-F1) mechanism needs a `Truncate` between
    `WriteChunk` and the worker step; an error without one is named apart. -/
def cbViolation (ws : List JWrite) (k : Nat) (r cls : String) : String :=
  let tr : Bool := match parseRef? r with
    | some ref => (match ws.find? (·.ref = ref) with | some w => w.truncSince | none => false)
    | none => false
  s!"violation callback-error op={k} ref={r} class={cls}" ++ (if tr then "" else " no-trunc-since-issue")

/-- `crash`: file `s` of the live directory was damaged.  Listed entries are written chunks in write order with exact
    metadata and bytes (never invented); every not truncated chunk of a file older than `s` is listed; when `s` is the
    newest file (the only file a real crash tears) the survivors are prefix-closed. -/
def checkCrash (s : Nat) (isLast : Bool) : List JEntry → List JWrite → Option String
  | [], ws =>
    match ws.find? (fun w => !w.truncated ∧ w.ref.1 < s) with
    | some w => some s!"crash-lost-older ref={refStr w.ref} damaged={s}"
    | none => none
  | e :: _, [] => some s!"crash-invented ref={refStr e.ref}"
  | e :: es, w :: ws =>
    if e.ref = w.ref then
      if entryMatches e w then checkCrash s isLast es ws
      else some s!"crash-invented ref={refStr e.ref} metadata-or-bytes-differ"
    else if !ws.any (fun w' => w'.ref = e.ref) then some s!"crash-invented ref={refStr e.ref}"
    else if !w.truncated ∧ w.ref.1 < s then some s!"crash-lost-older ref={refStr w.ref} damaged={s}"
    else if !w.truncated ∧ isLast then some s!"crash-not-prefix missing={refStr w.ref} listed={refStr e.ref}"
    else checkCrash s isLast (e :: es) ws

def Dmg.pos : Dmg → Nat
  | .cut n => n | .flip o => o | .zero o => o

def verdict (ws : List JWrite) (k : Nat) : List Op → List String → Option String
  | op :: ops, out :: outs =>
    let t := toks out
    if out.startsWith "panic" then some s!"violation panic op={k} out={(out.replace " " "_").take 60}" else
    if out = "bad-op" ∨ out = "dead" then none else
    match op with
    | .w c =>
      if !inStatement c then none else
      match t with
      | ["full"] => verdict ws (k + 1) ops outs
      | ["ref", r, rd, cb] =>
        match parseRef? r with
        | none => some s!"violation unparsable op={k}"
        | some ref =>
          let rdv := (rd.drop 3).copy
          let cbv := (cb.drop 3).copy
          if isErrCb cbv then some (cbViolation ws k r cbv)
          else if rdv ≠ "unsafe" ∧ (rdv.splitOn "|").any (· ≠ expectStr c) then
            some s!"violation read-your-writes op={k} ref={r} immediate got={rdv} want={expectStr c}"
          else verdict (ws.filter (·.ref ≠ ref) ++ [⟨ref, c, false, false⟩]) (k + 1) ops outs
      | _ => some s!"violation unparsable op={k}"
    | .r ref =>
      match ws.find? (·.ref = ref) with
      | none => verdict ws (k + 1) ops outs
      | some w =>
        if out = "unsafe" ∨ out = expectStr w.c ∨ (w.truncated ∧ out.startsWith "E") then verdict ws (k + 1) ops outs
        else some s!"violation read-your-writes op={k} ref={refStr ref} got={out} want={expectStr w.c}"
    | .wr =>
      match t with
      | ["wrote", r, cls] => if cls = "ok" then verdict ws (k + 1) ops outs else some (cbViolation ws k r cls)
      | _ => verdict ws (k + 1) ops outs
    | .drain =>
      match t with
      | ["drained", l] =>
        match (l.splitOn ",").find? (fun p => p ≠ "-" ∧ !p.endsWith "=ok") with
        | some p => some (cbViolation ws k ((p.splitOn "=").headD "") ((p.splitOn "=").getLastD ""))
        | none => verdict ws (k + 1) ops outs
      | _ => some s!"violation unparsable op={k}"
    | .trunc n =>
      match t with
      | [st, b, a] =>
        match parseSeqs? b, parseSeqs? a with
        | some b, some a =>
          if st ≠ "ok" then some s!"violation trunc-error op={k} n={n}"
          else if a.any (fun x => !b.contains x) then some s!"violation trunc-created op={k} n={n}"
          else
            match (b.filter (fun x => !a.contains x)).find? (fun x => x ≥ n) with
            | some x => some s!"violation trunc-removed-newer op={k} n={n} file={x}"
            | none => verdict (ws.map fun w => if w.ref.1 < n then { w with truncated := true, truncSince := true } else { w with truncSince := true }) (k + 1) ops outs
        | _, _ => some s!"violation unparsable op={k}"
      | _ => some s!"violation unparsable op={k}"
    | .restart =>
      match t with
      | ["chunks", st, l, d] =>
        if let some p := (d.splitOn ",").find? (fun p => p ≠ "-" ∧ !p.endsWith "=ok") then
          some (cbViolation ws k ((p.splitOn "=").headD "") ((p.splitOn "=").getLastD ""))
        else if st ≠ "clean" then some s!"violation restart-{st} op={k}"
        else
          match parseEntries? l with
          | none => some s!"violation unparsable op={k}"
          | some es =>
            match checkListed "iterate" true es ws with
            | some d => some s!"violation {d} op={k}"
            | none => verdict ws (k + 1) ops outs
      | _ => some s!"violation unparsable op={k}"
    | .torn cut =>
      match t with
      | ["torn", st, l] =>
        if st = "openerr" then
          (if 4 ≤ cut ∧ cut < 8 then verdict ws (k + 1) ops outs else some s!"violation torn-openerr op={k} cut={cut}")
        else if st.startsWith "failed" then some s!"violation torn-{st} op={k} cut={cut}"
        else
          match parseEntries? l with
          | none => some s!"violation unparsable op={k}"
          | some es =>
            match checkListed "torn" false es ws with
            | some d => some s!"violation {d} op={k} cut={cut}"
            | none => verdict ws (k + 1) ops outs
      | _ => some s!"violation unparsable op={k}"
    | .crash s dm =>
      match t with
      | ["crash", fl, st, l, d] =>
        if let some p := (d.splitOn ",").find? (fun p => p ≠ "-" ∧ !p.endsWith "=ok") then
          some (cbViolation ws k ((p.splitOn "=").headD "") ((p.splitOn "=").getLastD ""))
        else
        match parseSeqs? fl with
        | none => some s!"violation unparsable op={k}"
        | some seqs =>
          let isLast := seqs.getLast? == some s
          let tornAway := isLast && (match dm with | .cut n => decide (n < 4) | _ => false)
          if !seqs.contains s then
            -- nothing was damaged: a plain restart
            (if st ≠ "clean" then some s!"violation restart-{st} op={k}"
             else match parseEntries? l with
              | none => some s!"violation unparsable op={k}"
              | some es =>
                match checkListed "iterate" true es ws with
                | some d => some s!"violation {d} op={k}"
                | none => verdict ws (k + 1) ops outs)
          else if st = "openerr" then
            -- the mapper refuses to open only when the damage is inside the 8-byte header; the case ends there
            (if dm.pos < 8 ∧ !tornAway then none else some s!"violation crash-openerr op={k} file={s} at={dm.pos}")
          else if st.startsWith "failed" then some s!"violation crash-{st} op={k} file={s} at={dm.pos}"
          else
            match parseEntries? l with
            | none => some s!"violation unparsable op={k}"
            | some es =>
              match checkCrash s isLast es ws with
              | some d => some s!"violation {d} op={k} at={dm.pos}"
              | none => verdict (ws.filter fun w => es.any (·.ref = w.ref)) (k + 1) ops outs
      | _ => some s!"violation unparsable op={k}"
    | .bad => none
    | _ =>
      if out.startsWith "panic" then some s!"violation panic op={k}" else verdict ws (k + 1) ops outs
  | _, _ => none

def judge (ops outs : List String) : String :=
  match verdict [] 0 (ops.map parseOp) outs with
  | none => "ok"
  | some v => v

def suite : Suite := { name := "hcf", model := model, judge := judge }

end Prom.Hcf
