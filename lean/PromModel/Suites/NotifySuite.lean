import PromModel.Notifier.SendLoop
/-
  Suite `notify` (property C46). Op and output formats: see harness/suites/notify/main.go.

  `model` replays the op lines through `Prom.SendLoop.World` — every effect goes through the atomic
  actions of `SendLoop.step`, scheduled the way the harness's gate forces the real goroutines to run.

  `judge` does not use the model: from the ops and the implementation's own outputs it keeps, per URL,
  the alerts handed to the currently running loop (`inn`, computed from the `send` ops, the relabelling
  drop lists and the implementation-reported `ams=` list), the batches seen at the gate and the receipts
  of the fake Alertmanagers, and checks the clauses of C46 (see `judge`).
-/
namespace Prom.NotifySuite
open Prom Prom.SendLoop

def showBatch (b : List Nat) : String := if b.isEmpty then "-" else ".".intercalate (b.map toString)
def showVerdict : Verdict → String | .ok => "ok" | .fail => "fail" | .err => "err"

def insertSorted (x : String × α) : List (String × α) → List (String × α)
  | [] => [x]
  | y :: ys => if y.1 < x.1 then y :: insertSorted x ys else x :: y :: ys

/-- Stable sort by name (elements are inserted from the right, each *before* its equals). -/
def sortByName (xs : List (String × α)) : List (String × α) := xs.foldr insertSorted []

def joinOr (sep : String) (xs : List String) : String := if xs.isEmpty then "-" else sep.intercalate xs

def showOpt : Option Nat → String | some n => toString n | none => "x"

def amNames (w : World) : List String :=
  (sortByName ((w.sets.flatMap fun st => st.ams.map fun e => (nameOf st.tag e, ()))) ).map (·.1)

def dedupStr : List String → List String
  | [] => []
  | x :: xs => x :: (dedupStr xs).filter (· != x)

def renderSnapshot (w : World) (res : String) : String :=
  let ams := joinOr "," (amNames w)
  let hnames := (sortByName ((dedupStr (w.held.map (·.name))).map fun n => (n, ()))).map (·.1)
  let held := joinOr "," (hnames.map fun n =>
    n ++ ":" ++ "+".intercalate ((w.held.filter (·.name == n)).map fun h => showBatch h.batch))
  let rows := (sortByName w.metrics).filter fun p => p.2 != {}
  let m := joinOr "," (rows.map fun (n, r) => s!"{n}:{showOpt r.q}:{showOpt r.s}:{showOpt r.d}:{showOpt r.e}")
  let rx := joinOr "," ((sortByName w.rx).map fun (n, b, st) => s!"{n}:{showBatch b}:{st}")
  let lg := joinOr "," ((sortByName w.log).map fun (n, k, c) => s!"{n}:{k}:{c}")
  let preL : List (String × Unit) :=
    (w.zombies.filter (·.2.pre.isSome)).map (fun z => (z.1, ())) ++
    (w.sets.flatMap fun st => (st.loops.filter (·.pre.isSome)).map fun l => (nameOf st.tag l.e, ()))
  let pre := joinOr "," ((sortByName preL).map (·.1))
  s!"{res} | ams={ams} | held={held} | m={m} | rx={rx} | log={lg} | pre={pre}"

def parseIds (s : String) : Option (List Nat) :=
  if s = "-" then some [] else (s.splitOn ",").mapM String.toNat?

def isTag (s : String) : Bool := !s.isEmpty && s.toList.all fun c => 'a' ≤ c ∧ c ≤ 'z'

def parseSetTok (t : String) : Option (String × List Nat) :=
  match t.splitOn ":" with
  | [tag, d] => if isTag tag then (parseIds d).map fun ds => (tag, ds) else none
  | _ => none

def parseVerdict : String → Option Verdict
  | "ok" => some .ok | "fail" => some .fail | "err" => some .err | _ => none

def parseName (s : String) : Option (String × Nat) :=
  match s.splitOn "." with
  | [tag, e] => e.toNat?.map fun n => (tag, n)
  | _ => none

inductive Op
  | new (cap mb : Nat) (drain : Bool)
  | cfg (g : List Nat) (sets : List (String × List Nat))
  | sync (pos : Nat) (es : List Nat) (pat : String)
  | send (ids : List Nat)
  | rel (name : String) (k : Nat) (v : Verdict)
  | stop (pat : String)
  | park (name : String)
  | unpark (name : String)

def allDistinct : List String → Bool
  | [] => true
  | x :: xs => !xs.contains x && allDistinct xs

def parseOp (line : String) : Option Op :=
  match toks line with
  | ["new", c, m, d] => do
    let c ← c.toNat?; let m ← m.toNat?
    if m ≥ 1 ∧ (d = "0" ∨ d = "1") then pure (.new c m (d = "1")) else none
  | "cfg" :: g :: sets => do
    let g ← parseIds g
    let ss ← sets.mapM parseSetTok
    if allDistinct (ss.map (·.1)) then pure (.cfg g ss) else none
  | ["sync", p, es, pat] => do
    let p ← p.toNat?; let es ← parseIds es
    if es.all (· < 3) then pure (.sync p es pat) else none
  | "send" :: ids => do pure (.send (← ids.mapM String.toNat?))
  | ["rel", n, k, v] => do pure (.rel n (← k.toNat?) (← parseVerdict v))
  | ["stop", pat] => some (.stop pat)
  | ["park", n] => some (.park n)
  | ["unpark", n] => some (.unpark n)
  | _ => none

def defaultCfg : Cfg := ⟨4, 2, false⟩

def patChars (p : String) : List Char := if p = "" ∨ p = "-" then ['o'] else p.toList

def drString (w : World) : String :=
  if w.dr.isEmpty then "ok" else
  "dr:" ++ ";".intercalate ((sortByName w.dr).map fun (n, b, v) => s!"{n}:{showBatch b}:{showVerdict v}")

def clearOut (w : World) : World := { w with rx := [], log := [], dr := [] }

def stepModel (w : World) (op : Option Op) : World × String :=
  let w := clearOut w
  match op with
  | none | some (.new ..) => (w, renderSnapshot w "bad")
  | some (.cfg g sets) =>
    if w.stopped then (w, renderSnapshot w "stopped") else
    let w := w.applyConfig g sets
    (w, renderSnapshot w (drString w))
  | some (.sync pos es pat) =>
    if w.stopped then (w, renderSnapshot w "stopped") else
    let w := w.sync pos es (patChars pat)
    (w, renderSnapshot w (drString w))
  | some (.send ids) =>
    let w := w.send ids
    (w, renderSnapshot w "ok")
  | some (.rel nm k v) =>
    match w.release nm k v with
    | (w, none) => (w, renderSnapshot w "none")
    | (w, some b) => (w, renderSnapshot w s!"rel:{showBatch b}:{showVerdict v}")
  | some (.stop pat) =>
    if w.stopped then (w, renderSnapshot w "stopped") else
    let w := w.stop (patChars pat)
    (w, renderSnapshot w (drString w))
  | some (.park nm) =>
    match w.park nm with
    | (w, true) => (w, renderSnapshot w "ok")
    | (w, false) => (w, renderSnapshot w "none")
  | some (.unpark nm) =>
    match w.unpark nm with
    | (w, none) => (w, renderSnapshot w "none")
    | (w, some b) => (w, renderSnapshot w s!"unpark:{showBatch b}")

def model (ops : List String) : List String :=
  let rec go (w : World) : List String → List String
    | [] => []
    | l :: rest => let (w', o) := stepModel w (parseOp l); o :: go w' rest
  match ops with
  | [] => []
  | l :: rest =>
    match parseOp l with
    | some (.new c m d) => let w : World := { c := ⟨c, m, d⟩ }; renderSnapshot w "ok" :: go w rest
    | _ => go { c := defaultCfg } ops

/-! ## Judge -/

structure Snap where
  res : List String            -- tokens of the result part
  ams : List String
  held : List (String × List (List Nat))
  m : List (String × Row)
  rx : List (String × List Nat × Nat)
  log : List (String × String × Nat)
  pre : List String             -- loops parked between nextBatch() and the encoding of the batch

def parseBatch (s : String) : Option (List Nat) :=
  if s = "-" then some [] else (s.splitOn ".").mapM String.toNat?

def parseOptNat (s : String) : Option (Option Nat) := if s = "x" then some none else s.toNat?.map some

def parseList (s : String) (f : String → Option α) : Option (List α) :=
  if s = "-" then some [] else (s.splitOn ",").mapM f

def stripPrefix? (s p : String) : Option String := if s.startsWith p then some (s.drop p.length).toString else none

def parseSnap (out : String) : Option Snap :=
  match out.splitOn " | " with
  | [res, ams, held, m, rx, lg, pre] => do
    let ams ← (stripPrefix? ams "ams=").bind fun s => parseList s some
    let held ← (stripPrefix? held "held=").bind fun s => parseList s fun t =>
      match t.splitOn ":" with
      | [n, bs] => ((bs.splitOn "+").mapM parseBatch).map fun l => (n, l)
      | _ => none
    let m ← (stripPrefix? m "m=").bind fun s => parseList s fun t =>
      match t.splitOn ":" with
      | [n, q, s, d, e] => do pure (n, { q := ← parseOptNat q, s := ← parseOptNat s, d := ← parseOptNat d, e := ← parseOptNat e })
      | _ => none
    let rx ← (stripPrefix? rx "rx=").bind fun s => parseList s fun t =>
      match t.splitOn ":" with
      | [n, b, st] => do pure (n, ← parseBatch b, ← st.toNat?)
      | _ => none
    let lg ← (stripPrefix? lg "log=").bind fun s => parseList s fun t =>
      match t.splitOn ":" with
      | [n, k, c] => do pure (n, k, ← c.toNat?)
      | _ => none
    let pre ← (stripPrefix? pre "pre=").bind fun s => parseList s some
    pure ⟨toks res, ams, held, m, rx, lg, pre⟩
  | _ => none

/-- What the judge remembers about the loop currently running for one URL. -/
structure JLoop where
  name : String
  inn : List Nat := []            -- alerts handed to this loop (survivors of relabelling), in order
  taken : List Nat := []          -- alerts seen in this loop's batches at the gate, in order
  q : Nat := 0                    -- last reported queue length
  heldLive : List Nat := []       -- this loop's batch parked at the gate
  pre : Option (List Nat) := none -- the loop is parked before encoding: the batch it must have taken (statement: the
                                  -- oldest min(maxBatch, q) queued alerts at that moment), to be compared on arrival
  sentOk : Nat := 0               -- alerts of this loop in batches answered ok
  failed : Nat := 0               -- alerts of this loop in batches answered fail / err
  overflow : Nat := 0             -- drops reported by the queue-full / batch-too-big warnings
deriving Inhabited

abbrev Deliv := String × List Nat × String          -- URL, batch, verdict

structure JSt where
  cap : Nat
  mb : Nat
  drain : Bool
  gdrops : List Nat := []
  sets : List (String × List Nat × List Nat) := []      -- tag, drops, endpoints: the judge's own reading of cfg/sync
  stopped : Bool := false
  loops : List JLoop := []                               -- running loops
  sentIds : List Nat := []                               -- every id passed to Send, in order
  rxMax : List (String × Nat × Nat) := []                -- per delivery: URL, highest send position, op index
  heldAt : List (String × List Nat × Nat) := []          -- every parked batch with the op index of its arrival
  zombie : List (String × List Nat) := []                -- parked batches of loops that no longer run
  zpre : List (String × List Nat) := []                  -- same for loops parked before the encoding (expected batch)
  polluted : List String := []                           -- URLs whose series were touched by a stopped loop's request
  deferred : Option String := none                       -- first finding that does not stop the judging

def lastN (n : Nat) (l : List α) : List α := l.drop (l.length - n)

def posIn (l : List Nat) (x : Nat) : Nat := (l.findIdx? (· == x)).getD l.length

def increasing : List Nat → Bool
  | a :: b :: t => decide (a < b) && increasing (b :: t)
  | _ => true

def strictlyIncreasingIn (order xs : List Nat) : Bool :=
  let ps := xs.map (posIn order)
  increasing ps && ps.all (· < order.length)

def JSt.expectedAms (j : JSt) : List String :=
  (sortByName (j.sets.flatMap fun (st : String × List Nat × List Nat) => st.2.2.map fun e => (nameOf st.1 e, ()))).map (·.1)

def JSt.dropsOf (j : JSt) (nm : String) : List Nat :=
  match parseName nm with
  | some (tag, _) => match j.sets.find? (fun (st : String × List Nat × List Nat) => st.1 == tag) with
    | some st => st.2.1
    | none => []
  | none => []

def rowOf (s : Snap) (nm : String) : Option Row := (s.m.find? (·.1 == nm)).map (·.2)

/-- The untaken alerts of a loop, oldest first. -/
def JLoop.untaken (l : JLoop) : List Nat := l.inn.filter fun a => !l.taken.contains a

/-- The judge's own reading of the configuration ops. -/
def readCfg (j : JSt) : Option Op → JSt
  | some (.cfg g sets) =>
    if j.stopped then j else
    { j with gdrops := g, sets := sets.map fun (p : String × List Nat) =>
        match j.sets.find? (fun (o : String × List Nat × List Nat) => o.1 == p.1 && o.2.1 == p.2) with
        | some o => o
        | none => (p.1, p.2, []) }
  | some (.sync pos es _) =>
    if j.stopped then j else
    match j.sets[pos]? with
    | some st => { j with sets := j.sets.set pos (st.1, st.2.1, dedupNat es) }
    | none => j
  | _ => j

def parseDrs (res : List String) : List Deliv :=
  res.flatMap fun t =>
    match stripPrefix? t "dr:" with
    | some body => (body.splitOn ";").filterMap fun r =>
        match r.splitOn ":" with
        | [n, b, v] => (parseBatch b).map fun b => ((n, b, v) : Deliv)
        | _ => none
    | none => []

/-- Clause `drain` for one loop that stopped running during this op. -/
def drainOk (j : JSt) (s : Snap) (drs : List Deliv) (l : JLoop) : Bool :=
  let mine := drs.filter (·.1 == l.name)
  let attempted := mine.flatMap (·.2.1)
  let nd := (s.log.filter fun (e : String × String × Nat) => e.1 == l.name && e.2.1 == "nodrain").map (·.2.2)
  if j.drain then
    attempted == lastN l.q l.untaken && nd.isEmpty && mine.all fun d => 1 ≤ d.2.1.length && d.2.1.length ≤ j.mb
  else mine.isEmpty && nd == [l.q]

/-- Clause `order` / `reorder-overlap` for one delivery at op `k`; `viaRel`: released from the gate. -/
def orderVerdict (j : JSt) (k : Nat) (op : String) (viaRel : Bool) (d : Deliv) : Option (Bool × String) :=
  let n := d.1; let b := d.2.1
  if !strictlyIncreasingIn j.sentIds b then
    some (false, s!"violation order op={k} {op} loop={n} batch={showBatch b} not-in-send-order")
  else
    let mine := j.rxMax.filter (·.1 == n)
    let prev : Nat × Nat := mine.foldl (fun a x => if x.2.1 ≥ a.1 then (x.2.1, x.2.2) else a) (0, 0)
    if !mine.isEmpty && (b.map (posIn j.sentIds)).any (· ≤ prev.1) then
      let arrivedAt := ((j.heldAt.filter fun h => h.1 == n && h.2.1 == b).map (·.2.2)).foldl min k
      if viaRel && arrivedAt < prev.2 then
        some (true, s!"violation reorder-overlap op={k} {op} loop={n} batch={showBatch b} delivered-after-later-alerts in-flight-since-op={arrivedAt}")
      else some (false, s!"violation order op={k} {op} loop={n} batch={showBatch b} delivered-after-later-alerts")
    else none

/-- A loop that is not parked before the encoding: a new batch of it may have arrived at the request gate. -/
def loopTake (j : JSt) (k : Nat) (op : String) (l : JLoop) (handed : List Nat) (fresh : List (List Nat)) (qNow : Nat) :
    Except String JLoop := do
  let newB := fresh.headD []
  if !fresh.isEmpty && !l.heldLive.isEmpty then
    throw s!"violation batch-content op={k} {op} loop={l.name} second-request-while-parked"
  if !handed.isEmpty && qNow + newB.length ≠ min j.cap (l.q + handed.length) then
    throw s!"violation queue-length op={k} {op} loop={l.name} before={l.q} handed={handed.length} cap={j.cap} after={qNow} taken={newB.length}"
  let qBefore := if handed.isEmpty then l.q else qNow + newB.length
  let l ← if fresh.isEmpty then pure l else do
    if newB.isEmpty || newB.length > j.mb then
      throw s!"violation batch-size op={k} {op} loop={l.name} batch={showBatch newB} max={j.mb}"
    if !(newB.all fun a => l.inn.contains a && !l.taken.contains a) || !strictlyIncreasingIn l.inn newB then
      throw s!"violation not-sent op={k} {op} loop={l.name} batch={showBatch newB}"
    let want := (lastN qBefore l.untaken).take (min j.mb qBefore)
    if newB ≠ want then
      throw s!"violation batch-content op={k} {op} loop={l.name} batch={showBatch newB} want={showBatch want}"
    if qNow + newB.length ≠ qBefore then
      throw s!"violation queue-length op={k} {op} loop={l.name} before={qBefore} after={qNow} taken={newB.length}"
    pure { l with taken := l.taken ++ newB, heldLive := newB }
  if fresh.isEmpty && handed.isEmpty && qNow ≠ l.q then
    throw s!"violation queue-length op={k} {op} loop={l.name} changed-without-cause before={l.q} after={qNow}"
  pure l

/-- Clauses about one running loop after op `k`. Returns the updated loop and an optional deferred finding.
    `unparked`: this op let the loop's goroutine, parked before the encoding, continue. -/
def loopCheck (j : JSt) (s : Snap) (k : Nat) (op out : String) (sendIds : List Nat) (unparked : Option String) (l : JLoop) :
    Except String (JLoop × Option String) := do
  let handed := survivors (survivors sendIds j.gdrops) (j.dropsOf l.name)
  let l := { l with inn := l.inn ++ handed }
  let heldNow : List (List Nat) := ((s.held.find? (·.1 == l.name)).map (·.2)).getD []
  let zs := (j.zombie.filter (·.1 == l.name)).map (·.2)
  let fresh := heldNow.filter fun b => b != l.heldLive && !zs.contains b
  let row := rowOf s l.name
  let qNow := (row.bind (·.q)).getD 0
  let ov := (s.log.filter fun (e : String × String × Nat) => e.1 == l.name && (e.2.1 == "full" || e.2.1 == "big")).foldl (fun a x => a + x.2.2) 0
  let l := { l with overflow := l.overflow + ov }
  if fresh.length > 1 then throw s!"violation batch-content op={k} {op} loop={l.name} two-new-batches out={out}"
  if !l.heldLive.isEmpty && !heldNow.contains l.heldLive then
    throw s!"violation batch-content op={k} {op} loop={l.name} parked-batch-vanished out={out}"
  -- is this loop's goroutine reported parked between nextBatch() and the encoding?
  let listed := s.pre.contains l.name && !(j.zpre.any (·.1 == l.name))
  let qWant := if handed.isEmpty then l.q else min j.cap (l.q + handed.length)
  let l ← match l.pre with
    | some pb =>
      -- the batch left the queue in an earlier op; whatever was added since must not have touched it
      if qNow ≠ qWant then
        throw s!"violation queue-length op={k} {op} loop={l.name} before={l.q} handed={handed.length} cap={j.cap} after={qNow} taken=0 batch-taken-not-yet-encoded"
      if unparked == some l.name then
        if fresh ≠ [pb] then
          throw s!"violation batch-content op={k} {op} loop={l.name} batch={showBatch (fresh.headD [])} want={showBatch pb} request-differs-from-batch-taken"
        pure { l with heldLive := pb, pre := none }
      else
        if !fresh.isEmpty then throw s!"violation batch-content op={k} {op} loop={l.name} second-request-while-parked"
        if !listed then throw s!"violation batch-content op={k} {op} loop={l.name} taken-batch-vanished out={out}"
        pure l
    | none =>
      if listed then
        -- the loop took a batch during this op and is parked before encoding it: only its size is visible (the gauge)
        if !fresh.isEmpty || !l.heldLive.isEmpty then
          throw s!"violation batch-content op={k} {op} loop={l.name} second-request-while-parked"
        let n := qWant - qNow
        if qNow > qWant || n = 0 || n ≠ min j.mb qWant then
          throw s!"violation queue-length op={k} {op} loop={l.name} before={qWant} after={qNow} taken={n} max={j.mb} batch-taken-not-yet-encoded"
        let want := (lastN qWant l.untaken).take n
        if want.length ≠ n then
          throw s!"violation queue-length op={k} {op} loop={l.name} before={qWant} untaken={l.untaken.length}"
        pure { l with taken := l.taken ++ want, pre := some want }
      else loopTake j k op l handed fresh qNow
  let l := { l with q := qNow }
  let inflight := l.heldLive.length + (l.pre.getD []).length
  match row with
  | none => throw s!"violation accounting op={k} {op} loop={l.name} metrics-missing"
  | some r =>
    let sN := r.s.getD 0; let dN := r.d.getD 0; let eN := r.e.getD 0
    let bad1 := l.inn.length ≠ sN + dN + qNow + inflight
    let bad2 := sN ≠ l.sentOk || eN ≠ l.failed || dN ≠ l.overflow + l.failed
    if bad1 || bad2 then
      let msg := s!"op={k} {op} loop={l.name} in={l.inn.length} sent={sN}/{l.sentOk} dropped={dN}/{l.overflow}+{l.failed} errors={eN}/{l.failed} queued={qNow} inflight={inflight}"
      if j.polluted.contains l.name then pure (l, some s!"violation stale-metrics {msg} series-touched-by-stopped-loop")
      else throw s!"violation accounting {msg}"
    else pure (l, none)

def firstSome : List (Option α) → Option α
  | [] => none
  | some x :: _ => some x
  | none :: t => firstSome t

/--
  Statement-as-oracle for C46, evaluated on the implementation's outputs. Clauses (signature → meaning):
  * `liveness`      the notifier did not do what the harness waited for (stuck / uncounted / unexpected request);
  * `ams`           `Alertmanagers()` differs from the endpoints configured by the `cfg`/`sync` ops;
  * `batch-size`    a batch seen at the gate, drained or received is empty or larger than MaxBatchSize;
  * `not-sent`      a batch contains an alert that was not handed to that loop (dropped by relabelling, never
                    sent, sent before the loop existed), or an alert twice, or out of send order;
  * `batch-content` (drop-oldest + order) a batch taken by a running loop is not exactly the oldest
                    `min(maxBatch, q)` alerts among the newest `q` not-yet-taken alerts handed to the loop, `q`
                    being the queue length reported before; for a loop parked between `nextBatch()` and the
                    encoding (`pre=`) that batch is fixed when it is taken (its size is checked against the
                    gauge at once) and the request that later reaches the gate must carry exactly it, whatever
                    was added, dropped on overflow, drained or stopped in between (in-flight batch unaffected);
  * `queue-length`  after a `send`, queue length + newly taken ≠ min(capacity, previous + handed over): an
                    alert was lost although the queue had room, or the queue exceeds its capacity;
  * `accounting`    for a running loop: handed over ≠ sent + dropped + queued + in flight (from the metrics),
                    or `sent` ≠ alerts answered ok, `errors` ≠ alerts in failed batches,
                    `dropped` ≠ warned overflow drops + failed;
  * `stale-metrics` (reported last) the same, for a URL whose series a stopped loop's late request touched;
  * `order`         an Alertmanager received an alert sent earlier than one it had already received, the
                    two requests not having been in flight at the same time;
  * `reorder-overlap`  (reported last) the same, but the late request was already in flight when the other
                    one was delivered: two concurrent requests to one Alertmanager;
  * `drain`         with DrainOnShutdown a stopped loop's queued alerts were not all attempted, in order,
                    before the op returned / without it the `nodrain` warning does not count exactly the
                    queued alerts;
  * `receipt`       the fake Alertmanagers' receipts are not exactly the batches answered ok or fail.
-/
def judgeStep (j : JSt) (k : Nat) (op out : String) : Except String JSt := do
  let some s := parseSnap out | throw s!"violation unparsable op={k}"
  if s.res.any (fun t => t.startsWith "stuck" || t.startsWith "uncounted" || t.startsWith "unexpected" || t == "cfgerr") then
    throw s!"violation liveness op={k} {op} res={" ".intercalate s.res}"
  let pop := parseOp op
  let j := readCfg j pop
  if s.ams ≠ j.expectedAms then throw s!"violation ams op={k} {op} got={s.ams} want={j.expectedAms}"
  let isStop := match pop with | some (.stop _) => !j.stopped | _ => false
  let liveNames := if j.stopped || isStop then [] else s.ams
  let ended := j.loops.filter fun l => !liveNames.contains l.name
  let drs := parseDrs s.res
  if let some l := ended.find? (fun l => !drainOk j s drs l) then
    throw s!"violation drain op={k} {op} loop={l.name} queued={l.q} drain={j.drain} out={out}"
  if drs.any (fun d => !(ended.any (·.name == d.1))) then throw s!"violation drain op={k} {op} unexpected-drain out={out}"
  let j := { j with loops := j.loops.filter (fun l => liveNames.contains l.name),
                    zombie := j.zombie ++ ended.filterMap fun (l : JLoop) => if l.heldLive.isEmpty then none else some (l.name, l.heldLive),
                    zpre := j.zpre ++ ended.filterMap fun (l : JLoop) => l.pre.map fun b => (l.name, b),
                    stopped := j.stopped || isStop }
  let j := { j with loops := j.loops ++ (liveNames.filter fun n => !j.loops.any (·.name == n)).map fun n => ({ name := n } : JLoop) }
  let relInfo : Option Deliv := match pop with
    | some (.rel nm _ _) => s.res.head?.bind fun t =>
        match t.splitOn ":" with
        | ["rel", b, v] => (parseBatch b).map fun b => (nm, b, v)
        | _ => none
    | _ => none
  let delivered : List Deliv := relInfo.toList ++ drs
  let got : List (String × List Nat × Nat) :=
    (sortByName (delivered.filter fun d => d.2.2 != "err")).map fun d => (d.1, d.2.1, if d.2.2 == "ok" then 200 else 500)
  if s.rx ≠ got then throw s!"violation receipt op={k} {op} got={out}"
  if let some d := delivered.find? (fun d => d.2.1.isEmpty || d.2.1.length > j.mb) then
    throw s!"violation batch-size op={k} {op} loop={d.1} batch={showBatch d.2.1} max={j.mb}"
  -- order at each Alertmanager, over everything it receives (drained batches first: they were delivered in this op)
  let reached := delivered.filter fun d => d.2.2 != "err"
  let rec orderAll (j : JSt) : List Deliv → Except String JSt
    | [] => pure j
    | d :: rest =>
      let viaRel := match relInfo with | some r => r.1 == d.1 && r.2.1 == d.2.1 | none => false
      let j' := { j with rxMax := j.rxMax ++ [(d.1, (d.2.1.map (posIn j.sentIds)).foldl max 0, k)] }
      match orderVerdict j k op viaRel d with
      | some (true, msg) => orderAll { j' with deferred := j'.deferred.orElse fun _ => some msg } rest
      | some (false, msg) => throw msg
      | none => orderAll j' rest
  let j ← orderAll j reached
  -- a released batch leaves the gate
  let j := match relInfo with
    | some (n, b, v) =>
      if j.loops.any (fun (l : JLoop) => l.name == n && l.heldLive == b) then
        { j with loops := j.loops.map fun (l : JLoop) =>
            if l.name == n && l.heldLive == b then
              { l with heldLive := [], sentOk := l.sentOk + (if v == "ok" then b.length else 0),
                       failed := l.failed + (if v == "ok" then 0 else b.length) }
            else l }
      else { j with zombie := j.zombie.filter (fun (z : String × List Nat) => !(z.1 == n && z.2 == b)), polluted := n :: j.polluted }
    | none => j
  -- `unpark`: a stopped loop's goroutine (older) goes first; its request must carry the batch it took
  let unparkNm : Option String := match pop with | some (.unpark nm) => some nm | _ => none
  let zhit : Option (String × List Nat) := unparkNm.bind fun nm => j.zpre.find? (·.1 == nm)
  if let some (nm, b) := zhit then
    if !(((s.held.find? (·.1 == nm)).map (·.2)).getD []).contains b then
      throw s!"violation batch-content op={k} {op} loop={nm} want={showBatch b} request-differs-from-batch-taken stopped-loop out={out}"
  let j := match zhit with
    | some (nm, b) => { j with zpre := j.zpre.filter (fun z => !(z.1 == nm && z.2 == b)), zombie := j.zombie ++ [(nm, b)] }
    | none => j
  let unparked : Option String := if zhit.isSome then none else unparkNm
  let sendIds := match pop with | some (.send ids) => if j.stopped then [] else ids | _ => []
  let j := { j with sentIds := j.sentIds ++ (match pop with | some (.send ids) => ids | _ => []) }
  let res : List (JLoop × Option String) ← j.loops.mapM (loopCheck j s k op out sendIds unparked)
  -- a batch is in flight from the op in which it was taken, also while its loop is parked before the encoding
  let newPre : List (String × List Nat × Nat) := res.filterMap fun (r : JLoop × Option String) =>
    r.1.pre.bind fun b => if j.heldAt.any (fun h => h.1 == r.1.name && h.2.1 == b) then none else some (r.1.name, b, k)
  let j := { j with heldAt := j.heldAt ++ newPre }
  let newHeld := s.held.flatMap fun (p : String × List (List Nat)) =>
    (p.2.filter fun b => !(j.heldAt.any fun h => h.1 == p.1 && h.2.1 == b)).map fun b => (p.1, b, k)
  pure { j with loops := res.map (·.1), heldAt := j.heldAt ++ newHeld,
                deferred := j.deferred.orElse fun _ => firstSome (res.map (·.2)) }

def judge (ops outs : List String) : String :=
  let rec go (j : JSt) (ops outs : List String) (k : Nat) : String :=
    match ops, outs with
    | op :: ops, out :: outs =>
      match judgeStep j k op out with
      | .error e => e
      | .ok j' => go j' ops outs (k + 1)
    | _, _ => j.deferred.getD "ok"
  match ops with
  | [] => "ok"
  | l :: _ =>
    match parseOp l with
    | some (.new c m d) => go { cap := c, mb := m, drain := d } (ops.drop 1) (outs.drop 1) 1
    | _ => go { cap := defaultCfg.cap, mb := defaultCfg.maxBatch, drain := defaultCfg.drain } ops outs 0

def suite : Suite := { name := "notify", model := model, judge := judge }

end Prom.NotifySuite
