import PromModel.Prelude.Line
import PromModel.Promql.Selectors
/-
  Suite `promqlsel` (property C28).
  ops:  `lb <lookback_ms>` | `s <t_ms> f|h <bits hex>` |
        `q <kind> <range> <sqstep> <off> <at> <ioff> <start> <end> <step>`   (see harness/suites/promqlsel/main.go)
  out:  `ok` | `err` | `r -` | `r <ts>:<val> …` | `skip`

  model : the engine's strategy transcribed in PromModel/Promql/Selectors.lean — one memoized iterator stepped
          forward over all steps, `matrixIterSlice` window reuse with `ReduceDelta`, `subqueryTimeRange`,
          the querier range of `getTimeRangesForSelector`, `setOffsetForAtModifier`, the step-invariant
          duplication of `@` results, and the `timestamp()` special case that overwrites the selector offset.
  judge : the documented semantics recomputed directly from the samples of the case with filters (no iterator,
          no window reuse, floor division for the subquery grid): lookback window (t'-lookback, t'],
          staleness, range window (t'-r, t'], t' = (@ or step time) - offset, subquery steps = multiples of
          the step inside the window.
-/
namespace Prom.SelSuite
open Prom.Selectors

inductive At
  | none | start | end_ | abs (t : Int)
deriving Repr, DecidableEq

structure Query where
  kind : String
  range : Int
  sqstep : Int
  off : Int
  atm : At
  ioff : Int
  start : Int
  end_ : Int
  step : Int
deriving Repr

def parseAt? (s : String) : Option At :=
  if s = "-" then some .none else if s = "start" then some .start else if s = "end" then some .end_
  else (s.toInt?).map .abs

def isSq (k : String) : Bool := k = "sqts" || k = "sqcnt" || k = "sqmin" || k = "sqmax" || k = "sqlast"
def isRangeKind (k : String) : Bool := k = "cnt" || k = "sum" || k = "last"

def parseQuery? (ts : List String) : Option Query :=
  match ts with
  | ["q", kind, r, ss, o, a, io, st, en, sp] => do
    let r ← r.toInt?
    let ss ← ss.toInt?
    let o ← o.toInt?
    let a ← parseAt? a
    let io ← io.toInt?
    let st ← st.toInt?
    let en ← en.toInt?
    let sp ← sp.toInt?
    let okKind :=
      if kind = "sel" || kind = "ts" then true
      else if isRangeKind kind then decide (r > 0)
      else if kind = "sqts" then decide (r > 0) && decide (ss > 0) && decide (sp = 0)
      else if isSq kind then decide (r > 0) && decide (ss > 0)
      else false
    if !okKind then none
    else if sp < 0 || (decide (sp > 0) && decide (en < st)) then none
    else pure ⟨kind, r, ss, o, a, io, st, if sp = 0 then st else en, sp⟩
  | _ => none

def Query.atTime (q : Query) : Option Int :=
  match q.atm with
  | .none => none
  | .start => some q.start
  | .end_ => some q.end_
  | .abs t => some t

/-- evaluator interval: instant queries run as a one-step range evaluation with interval 1 -/
def Query.interval (q : Query) : Int := if q.step = 0 then 1 else q.step

def Query.steps (q : Query) : List Int := Selectors.steps q.start q.end_ q.interval

/-! ### values -/

/-- binary64 bits of a natural number below 2^53 (exactly representable) -/
def f64OfNat (n : Nat) : Nat :=
  if n = 0 then 0 else
  let e := n.log2
  (1023 + e) * 2 ^ 52 + (n - 2 ^ e) * 2 ^ (52 - e)

/-- the natural number a binary64 bit pattern denotes, if it is a non-negative integer below 2^53 -/
def natOfF64? (b : Nat) : Option Nat :=
  if b = 0 then some 0 else
  let ex := b / 2 ^ 52
  let man := b % 2 ^ 52
  if ex < 1023 || ex > 1075 then none else
  let e := ex - 1023
  if man % 2 ^ (52 - e) ≠ 0 then none else some (2 ^ e + man / 2 ^ (52 - e))

def showSample (s : Sample) : String :=
  (if s.hist then "h" else "f") ++ hexOfNat s.v.toNat 16

def render (pts : List (Int × String)) : String :=
  if pts.isEmpty then "r -" else "r " ++ " ".intercalate (pts.map fun p => s!"{p.1}:{p.2}")

def mergeWin (w : Win) : Series :=
  (w.floats ++ w.hists).mergeSort (fun a b => a.t ≤ b.t)

/-- the value a range function prints for a window; `none` = no output point -/
def fnOver (kind : String) (w : Win) : Option String :=
  let all := mergeWin w
  if all.isEmpty then none else
  if kind = "cnt" || kind = "sqcnt" then some (toString all.length)
  else if kind = "last" then all.getLast?.map showSample
  else if kind = "sqlast" then all.getLast?.map fun s => toString s.v
  else if kind = "sqmin" then some (toString (all.foldl (fun m s => min m s.v) (all.head!).v))
  else if kind = "sqmax" then some (toString (all.foldl (fun m s => max m s.v) (all.head!).v))
  else if kind = "sum" then
    match (all.mapM fun s => natOfF64? s.v.toNat) with
    | some ns => let n := ns.foldl (· + ·) 0; if n < 2 ^ 53 then some (hexOfNat (f64OfNat n) 16) else some "unsupported"
    | none => some "unsupported"
  else some "?"

/-! ### model -/

def zipPresent {α} (ts : List Int) (vs : List (Option α)) : List (Int × α) :=
  (ts.zip vs).filterMap fun p => p.2.map fun v => (p.1, v)

/-- duplicate a step-invariant result over all steps -/
def replicateOver {α} (ts : List Int) (v : Option α) : List (Int × α) :=
  match v with
  | some x => ts.map fun t => (t, x)
  | none => []

def modelQuery (lb : Int) (series : Series) (q : Query) : String :=
  let atT := q.atTime
  let stepsP := q.steps
  if q.kind = "sel" || q.kind = "ts" then
    let vis := visible (selectRange q.start q.end_ lb none atT q.off 0) series
    let isTs := q.kind = "ts"
    -- evalSeries: delta = lookback; timestamp(): delta = lookback - 1
    let delta := if isTs then lb - 1 else lb
    let shw : Sample → String := fun s => if isTs then toString s.t else showSample s
    match atT with
    | none =>
      let rs := evalSteps lb (Memo.init vis delta) (stepsP.map fun ts => ts - q.off)
      render ((zipPresent stepsP rs).map fun p => (p.1, shw p.2))
    | some a =>
      -- step invariant: one evaluation at the start step, duplicated.
      -- `m @ a offset o`: Offset = o + (start - a), so ref = a - o.
      -- `timestamp(m @ a offset o)`: vs.Offset is overwritten with enh.Ts - a, so ref = a (offset dropped,
      -- finding C28-F1) unless /repo has the repair (`tsAtRef`, `repoFixedTsAtOffset`).
      let ref := if isTs then tsAtRef a q.off else a - q.off
      let r := (vsSingle lb (Memo.init vis delta) ref).2
      render (replicateOver stepsP (r.map shw))
  else if isRangeKind q.kind then
    let vis := visible (selectRange q.start q.end_ lb none atT q.off q.range) series
    if q.kind = "sum" && series.any (·.hist) then "skip" else
    match atT with
    | none =>
      let ws := rangeLoop vis q.range q.off q.start q.end_ q.interval
      render (zipPresent stepsP (ws.map (fnOver q.kind)))
    | some a =>
      let off' := atOffset q.start (some a) q.off 0 none
      let w := rangeSel vis q.start q.range off' none
      render (replicateOver stepsP (fnOver q.kind w))
  else if isSq q.kind then
    let vis := visible (selectRange q.start q.end_ lb (some (q.off, q.range, atT)) none q.ioff 0) series
    -- the subquery's offset after setOffsetForAtModifier(start)
    let off' := atOffset q.start atT q.off 0 none
    -- with @ the enclosing call is step invariant: a single evaluation at the start step
    let pEnd := if atT.isSome then q.start else q.end_
    let child := subquerySteps q.start pEnd q.interval off' q.range q.sqstep
    let inner := evalSteps lb (Memo.init vis (lb - 1)) (child.map fun ts => ts - q.ioff)
    let sub : Series := (zipPresent child inner).map fun p => ⟨p.1, false, false, p.2.t⟩
    if q.kind = "sqts" then render (sub.map fun s => (s.t, toString s.v))
    else
    match atT with
    | none =>
      let ws := rangeLoop sub q.range q.off q.start q.end_ q.interval
      render (zipPresent stepsP (ws.map (fnOver q.kind)))
    | some _ =>
      let w := rangeSel sub q.start q.range off' none
      render (replicateOver stepsP (fnOver q.kind w))
  else "bad-op"

structure St where
  lb : Int := 300000
  series : Series := []

def parseSample? (ts : List String) : Option Sample :=
  match ts with
  | ["s", t, k, b] => do
    let t ← t.toInt?
    let b ← natOfHex? b
    if k = "f" then pure ⟨t, false, b = staleBits, b⟩
    else if k = "h" then pure ⟨t, true, b = staleBits, b⟩
    else none
  | _ => none

/-- head append: in-order only; an identical float at the last timestamp is accepted as a no-op -/
def appendSample (series : Series) (s : Sample) : Option Series :=
  match series.getLast? with
  | none => some [s]
  | some l =>
    if s.t > l.t then some (series ++ [s])
    else if s.t = l.t ∧ s = l ∧ s.hist = false then some series
    else none

def stepLine (st : St) (line : String) : St × String :=
  let ts := toks line
  match ts with
  | ["lb", v] =>
    match v.toInt? with
    | some v => if v > 0 then ({ st with lb := v }, "ok") else (st, "bad-op")
    | none => (st, "bad-op")
  | "s" :: _ =>
    match parseSample? ts with
    | some s =>
      match appendSample st.series s with
      | some ser => ({ st with series := ser }, "ok")
      | none => (st, "err")
    | none => (st, "bad-op")
  | "q" :: _ =>
    match parseQuery? ts with
    | some q => (st, modelQuery st.lb st.series q)
    | none => (st, "bad-op")
  | _ => (st, "bad-op")

def runLines (st : St) : List String → List String
  | [] => []
  | l :: rest => (stepLine st l).2 :: runLines (stepLine st l).1 rest

def model (ops : List String) : List String := runLines {} ops

/-! ### judge: the documented semantics, directly from the samples -/

/-- keep the later of two candidates -/
def pickLater (b : Option Sample) (s : Sample) : Option Sample :=
  match b with
  | none => some s
  | some x => if s.t ≥ x.t then some s else some x

/-- latest sample in (r - lb, r]; a staleness marker makes the series absent -/
def jInstant (series : Series) (lb r : Int) : Option Sample :=
  let cands := series.filter fun s => decide (r - lb < s.t) && decide (s.t ≤ r)
  (cands.foldl pickLater none).filter fun s => !s.stale

/-- non-stale samples in (lo, hi] -/
def jRange (series : Series) (lo hi : Int) : Series :=
  series.filter fun s => decide (lo < s.t) && decide (s.t ≤ hi) && !s.stale

/-- multiples of `s > 0` in (lo, hi] (floor division) -/
def jMultiples (lo hi s : Int) : List Int :=
  let first := s * (lo / s + 1)
  if hi < first then [] else (List.range (((hi - first) / s).toNat + 1)).map fun (i : Nat) => first + s * (i : Int)

/-- steps of the query itself -/
def jSteps (q : Query) : List Int :=
  if q.step = 0 then [q.start]
  else (List.range (((q.end_ - q.start) / q.step).toNat + 1)).map fun (i : Nat) => q.start + q.step * (i : Int)

def jWinOf (l : Series) : Win := ⟨l.filter (!·.hist), l.filter (·.hist)⟩

def judgeQuery (lb : Int) (series : Series) (q : Query) : String :=
  let atT := q.atTime
  let tOf (ts : Int) : Int := atT.getD ts - q.off
  if q.kind = "sel" then
    render ((jSteps q).filterMap fun ts => (jInstant series lb (tOf ts)).map fun s => (ts, showSample s))
  else if q.kind = "ts" then
    render ((jSteps q).filterMap fun ts => (jInstant series lb (tOf ts)).map fun s => (ts, toString s.t))
  else if isRangeKind q.kind then
    if q.kind = "sum" && series.any (·.hist) then "skip" else
    render ((jSteps q).filterMap fun ts =>
      (fnOver q.kind (jWinOf (jRange series (tOf ts - q.range) (tOf ts)))).map fun v => (ts, v))
  else if isSq q.kind then
    let innerAt (t : Int) : Option Sample := (jInstant series lb (t - q.ioff)).map fun s => ⟨t, false, false, s.t⟩
    let subWin (ts : Int) : Series := (jMultiples (tOf ts - q.range) (tOf ts) q.sqstep).filterMap innerAt
    if q.kind = "sqts" then render ((subWin q.start).map fun s => (s.t, toString s.v))
    else render ((jSteps q).filterMap fun ts => (fnOver q.kind (jWinOf (subWin ts))).map fun v => (ts, v))
  else "bad-op"

/-- all violations of a case, in op order -/
def judgeLines (st : St) (k : Nat) : List String → List String → List String
  | line :: ops, out :: outs =>
    let ts := toks line
    match ts with
    | "q" :: _ =>
      match parseQuery? ts with
      | some q =>
        if out = "panic" then s!"violation panic op={k} q={line}" :: judgeLines st (k + 1) ops outs
        else if out = "err" || out = "multi" then
          s!"violation query-error op={k} out={out} q={line}" :: judgeLines st (k + 1) ops outs
        else
          let want := judgeQuery st.lb st.series q
          if out = want then judgeLines st (k + 1) ops outs
          else
            let sig :=
              if q.kind = "ts" && q.atTime.isSome && q.off ≠ 0 then "timestamp-at-offset-ignored"
              else if isSq q.kind then "subquery-window"
              else if isRangeKind q.kind then "range-window"
              else "instant-lookback"
            s!"violation {sig} op={k} kind={q.kind} off={q.off} lb={st.lb} q=[{line}] got=[{out}] want=[{want}]"
              :: judgeLines st (k + 1) ops outs
      | none => judgeLines st (k + 1) ops outs
    | _ =>
      -- state follows the model's bookkeeping of accepted samples (an `err` append leaves the series unchanged)
      let st' := if out = "ok" then (stepLine st line).1 else st
      judgeLines st' (k + 1) ops outs
  | _, _ => []

/-- the first violation that is not the listed `timestamp(m @ t offset d)` finding, else the first one -/
def judge (ops outs : List String) : String :=
  let vs := judgeLines {} 0 ops outs
  match vs.find? (fun v => !v.startsWith "violation timestamp-at-offset-ignored") with
  | some v => v
  | none => vs.head?.getD "ok"

def suite : Suite := { name := "promqlsel", model := model, judge := judge }

end Prom.SelSuite
