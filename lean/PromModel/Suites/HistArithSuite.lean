import PromModel.Promql.HistOps
/-
  Suite `histarith` (property C31): native histogram arithmetic of `model/histogram`.
  Every case is one op; histograms travel as one token
      `hint;schema;zt;zeroCount;count;sum;posSpans;posBuckets;negSpans;negBuckets;customValues`
  (spans `off:len,…`, buckets/bounds exact rationals `7`, `-3/4`, `-` = empty, zt = `z` or a position, see
  `PromModel/Promql/HistOps.lean`).
  ops:  `add A B` | `sub A B` | `kadd A B`   A.Add(B) / A.Sub(B) / A.KahanAdd(B, nil)
        `compact m A`                        A.Compact(m)
        `reduce t A` | `copyto t A`          A.ReduceResolution(t) / A.CopyToSchema(t)
        `mul x A` | `div x A`                A.Mul(x) / A.Div(x)  (x ≠ 0 for div)
        `tofloat I`                          I.ToFloat(nil)  (I = integer histogram, delta buckets)
        `reset CUR PREV`                     CUR.DetectReset(PREV)
  out:  `ok <view> [flags]` | `err incompatible|reduce` | `panic` | `true|false src=1`
        <view> = `h= s= zt= zc= c= sum= P=<idx:count,…> N=… cv=… it=1`: header fields and the *sparse* bucket maps
        (non-empty buckets, by index) as the forward iterators enumerate them; `it=1` = the reverse and
        all-bucket iterators agree.  Only `compact` additionally shows the layout (`PS= PB= NS= NB=`).
-/
namespace Prom.HistArith
open Prom.HistOps

/-! ### string layer -/

def ratStr (r : Rat) : String := if r.den = 1 then toString r.num else s!"{r.num}/{r.den}"

def parseRat? (s : String) : Option Rat :=
  match s.splitOn "/" with
  | [a] => do let n ← a.toInt?; pure (n : Rat)
  | [a, b] => do
    let n ← a.toInt?
    let d ← b.toNat?
    if d = 0 then none else pure (mkRat n d)
  | _ => none

def parseList? {α} (f : String → Option α) (s : String) : Option (List α) :=
  if s = "-" then some [] else (s.splitOn ",").mapM f

def parseSpan? (s : String) : Option Span :=
  match s.splitOn ":" with
  | [a, b] => do pure ⟨← a.toInt?, ← b.toNat?⟩
  | _ => none

def parseZT? (s : String) : Option ZT :=
  if s = "z" then some .zero else do pure (.pos (← s.toInt?))

def ztStr : ZT → String
  | .zero => "z"
  | .pos p => toString p

def parseFH? (tok : String) : Option FH :=
  match tok.splitOn ";" with
  | [hint, schema, zt, zc, c, sum, ps, pb, ns, nb, cv] => do
    pure { hint := ← hint.toNat?, schema := ← schema.toInt?, zt := ← parseZT? zt, zc := ← parseRat? zc,
           count := ← parseRat? c, sum := ← parseRat? sum, ps := ← parseList? parseSpan? ps,
           pb := ← parseList? parseRat? pb, ns := ← parseList? parseSpan? ns, nb := ← parseList? parseRat? nb,
           cv := ← parseList? parseRat? cv }
  | _ => none

def parseIH? (tok : String) : Option IH :=
  match tok.splitOn ";" with
  | [hint, schema, zt, zc, c, sum, ps, pb, ns, nb, cv] => do
    pure { hint := ← hint.toNat?, schema := ← schema.toInt?, zt := ← parseZT? zt, zc := ← zc.toNat?,
           count := ← c.toNat?, sum := ← parseRat? sum, ps := ← parseList? parseSpan? ps,
           pb := ← parseList? String.toInt? pb, ns := ← parseList? parseSpan? ns, nb := ← parseList? String.toInt? nb,
           cv := ← parseList? parseRat? cv }
  | _ => none

def listStr {α} (f : α → String) (l : List α) : String :=
  if l.isEmpty then "-" else ",".intercalate (l.map f)

def bucketsStr (l : Buckets) : String := listStr (fun p => s!"{p.1}:{ratStr p.2}") l
def spansStr (l : List Span) : String := listStr (fun s => s!"{s.offset}:{s.length}") l

inductive Op
  | add (kind : String) (a b : FH)     -- kind ∈ add, sub, kadd
  | compact (m : Nat) (a : FH)
  | reduce (t : Int) (a : FH)
  | copyto (t : Int) (a : FH)
  | scale (isDiv : Bool) (x : Rat) (a : FH)
  | tofloat (i : IH)
  | reset (cur prev : FH)
  | bad
deriving Repr

def parseOp (line : String) : Op :=
  match toks line with
  | [k, a, b] =>
    if k = "add" ∨ k = "sub" ∨ k = "kadd" then
      match parseFH? a, parseFH? b with
      | some a, some b => .add k a b
      | _, _ => .bad
    else if k = "reset" then
      match parseFH? a, parseFH? b with
      | some a, some b => .reset a b
      | _, _ => .bad
    else if k = "compact" then
      match a.toNat?, parseFH? b with
      | some m, some h => .compact m h
      | _, _ => .bad
    else if k = "reduce" ∨ k = "copyto" then
      match a.toInt?, parseFH? b with
      | some t, some h => if k = "reduce" then .reduce t h else .copyto t h
      | _, _ => .bad
    else if k = "mul" ∨ k = "div" then
      match parseRat? a, parseFH? b with
      | some x, some h => .scale (k = "div") x h
      | _, _ => .bad
    else .bad
  | ["tofloat", i] => match parseIH? i with | some i => .tofloat i | none => .bad
  | _ => .bad

/-! ### model -/

/-- Sparse map of one side as the iterator shows it (explicit empty buckets dropped). -/
def sparse (spans : List Span) (bs : List Rat) : Buckets := dropZeros (expand spans bs)

def viewStr (h : FH) : String :=
  let neg := if h.isCustom then [] else sparse h.ns h.nb
  s!"h={h.hint} s={h.schema} zt={ztStr h.zt} zc={ratStr h.zc} c={ratStr h.count} sum={ratStr h.sum} " ++
  s!"P={bucketsStr (sparse h.ps h.pb)} N={bucketsStr neg} cv={listStr ratStr h.cv} it=1"

def b01 (b : Bool) : String := if b then "1" else "0"

def runOp : Op → String
  | .add kind a b =>
    match addSub (kind = "sub") a b with
    | .error .incompatible => "err incompatible"
    | .error .panic => "panic"
    | .ok r => s!"ok {viewStr r.h} crc={b01 r.crc} nhcb={b01 r.nhcb} other=1" ++ (if kind = "kadd" then " comp0=1" else "")
  | .compact m a =>
    let r := compact m a
    s!"ok {viewStr r} PS={spansStr r.ps} PB={listStr ratStr r.pb} NS={spansStr r.ns} NB={listStr ratStr r.nb}"
  | .reduce t a => match reduceTo a t with | some r => s!"ok {viewStr r}" | none => "err reduce"
  | .copyto t a => match copyToSchema a t with | some r => s!"ok {viewStr r} src=1" | none => "panic"
  | .scale isDiv x a => s!"ok {viewStr (if isDiv then div x a else mul x a)}"
  | .tofloat i => s!"ok {viewStr (toFloat i)} src=1"
  | .reset cur prev => match detectReset cur prev with | some r => s!"{r} src=1" | none => "panic"
  | .bad => "bad-op"

def model (ops : List String) : List String := ops.map fun l => runOp (parseOp l)

/-! ### the property statement as an oracle (bucket-map semantics recomputed from the inputs) -/

/-- Insert into an index-sorted association list, summing on equal index. -/
def insAdd (i : Int) (v : Rat) : Buckets → Buckets
  | [] => [(i, v)]
  | (j, w) :: r => if i < j then (i, v) :: (j, w) :: r else if i = j then (j, w + v) :: r else (j, w) :: insAdd i v r

/-- Canonical sparse map: sorted by index, duplicates summed, empty buckets dropped. -/
def norm (l : Buckets) : Buckets := (l.foldl (fun acc p => insAdd p.1 p.2 acc) []).filter (fun p => p.2 != 0)

def total (l : Buckets) : Rat := l.foldl (fun acc p => acc + p.2) 0

/-- Bucket `idx` of a schema that is `k` steps finer lies in bucket ⌈idx / 2^k⌉ of the coarser schema. -/
def coarseIdx (idx : Int) (k : Nat) : Int := -((-idx) / (2 : Int) ^ k)

def coarsen (k : Nat) (l : Buckets) : Buckets := norm (l.map fun p => (coarseIdx p.1 k, p.2))

/-- Fold the buckets whose upper boundary is ≤ T into the zero bucket: (folded count, remaining). -/
def foldZero (schema : Int) (t : ZT) (l : Buckets) : Rat × Buckets :=
  (total (l.filter fun p => boundLe schema p.1 t), l.filter fun p => !boundLe schema p.1 t)

/-- No populated bucket overlaps the histogram's own zero bucket (lower boundary ≥ zero threshold). -/
def sane (h : FH) : Bool :=
  h.isCustom || ((sparse h.ps h.pb) ++ (sparse h.ns h.nb)).all fun p => boundGe h.schema (p.1 - 1) h.zt

/-- `t` lies strictly inside a populated bucket of `h`. -/
def cutsPopulated (h : FH) (t : ZT) : Bool :=
  ((sparse h.ps h.pb) ++ (sparse h.ns h.nb)).any fun p => !boundGe h.schema (p.1 - 1) t && boundGt h.schema p.1 t

def ztMax (a b : ZT) : ZT := if a.lt b then b else a

/-- Is the threshold a bucket boundary of `schema` (or zero)? -/
def aligned (schema : Int) : ZT → Bool
  | .zero => true
  | .pos p => p % (2 * (2 : Int) ^ (8 - schema).toNat) == 0

/-- Re-bucket a custom-bucket side onto the bounds `inter` (a subset of its own bounds): a bucket goes to
    the first bucket of `inter` whose upper bound is ≥ its own upper bound, else to the +Inf bucket. -/
def rebucket (bounds inter : List Rat) (l : Buckets) : Buckets :=
  norm (l.map fun p =>
    match getI? bounds p.1 with
    | none => ((inter.length : Int), p.2)
    | some u =>
      match inter.findIdx? (fun v => v ≥ u) with
      | some j => ((j : Int), p.2)
      | none => ((inter.length : Int), p.2))

def common (a b : List Rat) : List Rat := a.filter fun x => b.contains x

structure View where
  hint : Nat
  schema : Int
  zt : ZT
  zc : Rat
  count : Rat
  sum : Rat
  p : Buckets
  n : Buckets
  cv : List Rat
  it : Bool
  kv : List (String × String)
deriving Repr

def parseBucket? (s : String) : Option (Int × Rat) :=
  match s.splitOn ":" with
  | [a, b] => do pure (← a.toInt?, ← parseRat? b)
  | _ => none

def kvOf (ts : List String) : List (String × String) :=
  ts.filterMap fun t => match t.splitOn "=" with | [k, v] => some (k, v) | _ => none

def parseView? (ts : List String) : Option View := do
  let kv := kvOf ts
  let g := fun k => kv.lookup k
  pure { hint := ← (← g "h").toNat?, schema := ← (← g "s").toInt?, zt := ← parseZT? (← g "zt"), zc := ← parseRat? (← g "zc"),
         count := ← parseRat? (← g "c"), sum := ← parseRat? (← g "sum"), p := ← parseList? parseBucket? (← g "P"),
         n := ← parseList? parseBucket? (← g "N"), cv := ← parseList? parseRat? (← g "cv"), it := (← g "it") = "1", kv := kv }

def flag (v : View) (k : String) : Bool := v.kv.lookup k = some "1"

def hdr (h : FH) : String := s!"schema={h.schema} zt={ztStr h.zt}"

/-- Expected result of DetectReset from the documented conditions; `none` = outside the statement. -/
def expectedReset (cur prev : FH) : Option Bool :=
  if cur.hint = 1 then some true
  else if cur.hint = 2 then some false
  else if cur.count < prev.count then some true
  else if cur.isCustom != prev.isCustom then some true
  else if cur.isCustom then
    let inter := common cur.cv prev.cv
    let rc := rebucket cur.cv inter (sparse cur.ps cur.pb)
    let rp := rebucket prev.cv inter (sparse prev.ps prev.pb)
    some (rp.any fun p => ((rc.lookup p.1).getD 0) < p.2)
  else if cur.schema > prev.schema then some true
  else if cur.zt.lt prev.zt then some true
  else if !sane cur || !sane prev then none
  else if cutsPopulated prev cur.zt then some true
  else
    let k := (prev.schema - cur.schema).toNat
    let (zp, pp) := foldZero prev.schema cur.zt (sparse prev.ps prev.pb)
    let (zn, pn) := foldZero prev.schema cur.zt (sparse prev.ns prev.nb)
    let dec := fun (c p : Buckets) => p.any fun x => ((c.lookup x.1).getD 0) < x.2
    some (cur.zc < prev.zc + zp + zn || dec (norm (sparse cur.ps cur.pb)) (coarsen k pp) || dec (norm (sparse cur.ns cur.nb)) (coarsen k pn))

def judgeAdd (kind : String) (a b : FH) (out : List String) : Option String :=
  let neg := kind = "sub"
  let pm := fun (x y : Rat) => if neg then x - y else x + y
  let recvEmpty := b01 ((match a.ps with | s :: _ => s.length == 0 | [] => false) || (match a.ns with | s :: _ => s.length == 0 | [] => false))
  let ctx := s!"recv-first-span-empty={recvEmpty} a:{hdr a} b:{hdr b}"
  if a.isCustom != b.isCustom then
    if out = ["err", "incompatible"] then none else some s!"{kind}-incompatible-not-rejected {ctx}"
  else
  match out with
  | ["panic"] => some s!"{kind}-panic {ctx}"
  | "ok" :: rest =>
    match parseView? rest with
    | none => some s!"{kind}-unparsable {ctx}"
    | some v =>
      let (hint, crc) := adjustCounterReset a.hint b.hint
      if v.count != pm a.count b.count then some s!"{kind}-count {ctx}"
      else if v.sum != pm a.sum b.sum then some s!"{kind}-sum {ctx}"
      else if v.hint != hint || flag v "crc" != crc then some s!"{kind}-hint {ctx}"
      else if !flag v "other" then some s!"{kind}-other-modified {ctx}"
      else if !v.it then some s!"{kind}-iterators-disagree {ctx}"
      else if kind = "kadd" && !flag v "comp0" then some s!"{kind}-compensation-nonzero {ctx}"
      else if a.isCustom then
        let inter := if a.cv = b.cv then a.cv else common a.cv b.cv
        let want := norm (rebucket a.cv inter (sparse a.ps a.pb) ++ (rebucket b.cv inter (sparse b.ps b.pb)).map fun p => (p.1, if neg then -p.2 else p.2))
        if v.schema != customSchema then some s!"{kind}-schema {ctx}"
        else if v.cv != inter then some s!"{kind}-custom-bounds {ctx}"
        else if flag v "nhcb" != (a.cv != b.cv) then some s!"{kind}-nhcb-flag {ctx}"
        else if norm v.p != want then some s!"{kind}-custom-buckets want={bucketsStr want} {ctx}"
        else if v.zc != 0 || v.zt != .zero || !v.n.isEmpty then some s!"{kind}-custom-zero {ctx}"
        else none
      else if !sane a || !sane b then none  -- a populated bucket overlaps its own zero bucket: outside the statement
      else
        let s := if a.schema < b.schema then a.schema else b.schema
        let t := v.zt
        let m := ztMax a.zt b.zt
        let side := fun (h : FH) (sp : List Span) (bs : List Rat) =>
          let (z, rest) := foldZero h.schema t (sparse sp bs)
          (z, coarsen (h.schema - s).toNat rest)
        let (zap, ap) := side a a.ps a.pb
        let (zan, an) := side a a.ns a.nb
        let (zbp, bp) := side b b.ps b.pb
        let (zbn, bn) := side b b.ns b.nb
        let sg := fun (l : Buckets) => l.map fun p => (p.1, if neg then -p.2 else p.2)
        let wantP := norm (ap ++ sg bp)
        let wantN := norm (an ++ sg bn)
        let wantZ := pm (a.zc + zap + zan) (b.zc + zbp + zbn)
        let tot := fun (h : FH) => h.zc + total (sparse h.ps h.pb) + total (sparse h.ns h.nb)
        if v.schema != s then some s!"{kind}-schema {ctx}"
        else if t.lt m then some s!"{kind}-zero-threshold-shrunk {ctx}"
        else if t != m && !cutsPopulated a m && !cutsPopulated b m then some s!"{kind}-zero-threshold-widened {ctx}"
        else if cutsPopulated a t || cutsPopulated b t then some s!"{kind}-zero-threshold-cuts-bucket {ctx}"
        else if v.zc + total v.p + total v.n != pm (tot a) (tot b) then
          some s!"{kind}-total got={ratStr (v.zc + total v.p + total v.n)} want={ratStr (pm (tot a) (tot b))} out-zt={ztStr t} zt-aligned={b01 (aligned s t)} recv-coarser={b01 (decide (a.schema < b.schema))} {ctx}"
        else if v.zc != wantZ then some s!"{kind}-zero-count want={ratStr wantZ} {ctx}"
        else if norm v.p != wantP then some s!"{kind}-buckets side=pos want={bucketsStr wantP} {ctx}"
        else if norm v.n != wantN then some s!"{kind}-buckets side=neg want={bucketsStr wantN} {ctx}"
        else if flag v "nhcb" || !v.cv.isEmpty then some s!"{kind}-nhcb-flag {ctx}"
        else none
  | _ => some s!"{kind}-unexpected-output {ctx}"

/-- Layout contract of `Compact(m)` on one side. -/
def compactLayoutOk (m : Nat) (spans : List Span) (bs : List Rat) : Bool :=
  let l := expand spans bs
  spanTotal spans == bs.length
  && spans.all (fun s => s.length != 0)
  && (spans.drop 1).all (fun s => s.offset > (m : Int))
  -- no empty bucket at the start or end of a span, no run of more than m empty buckets
  && (let rec go (cur : Int) (sp : List Span) (bs : List Rat) : Bool :=
        match sp with
        | [] => true
        | s :: ss =>
          let seg := bs.take s.length
          (seg.head?.getD 1 != 0) && (seg.getLast?.getD 1 != 0)
          && (let rec run (n : Nat) : List Rat → Bool
                | [] => true
                | x :: xs => if x == 0 then (n + 1 ≤ m) && run (n + 1) xs else run 0 xs
              run 0 seg)
          && go (cur + s.offset + s.length) ss (bs.drop s.length)
      go 0 spans bs)
  && l.length == bs.length

def judgeOp : Op → List String → Option String
  | .add kind a b, out => judgeAdd kind a b out
  | .compact m a, out =>
    match out with
    | "ok" :: rest =>
      match parseView? rest with
      | none => some "compact-unparsable"
      | some v =>
        let g := fun k => (v.kv.lookup k).getD "?"
        match parseList? parseSpan? (g "PS"), parseList? parseRat? (g "PB"), parseList? parseSpan? (g "NS"), parseList? parseRat? (g "NB") with
        | some ps, some pb, some ns, some nb =>
          if norm v.p != norm (sparse a.ps a.pb) then some s!"compact-sem side=pos m={m}"
          else if (!a.isCustom) && norm v.n != norm (sparse a.ns a.nb) then some s!"compact-sem side=neg m={m}"
          else if v.zc != (if a.isCustom then 0 else a.zc) || v.count != a.count || v.sum != a.sum || v.schema != a.schema || v.hint != a.hint then some s!"compact-header m={m}"
          else if !v.it then some "compact-iterators-disagree"
          else if norm (sparse ps pb) != norm v.p then some s!"compact-layout-vs-iterator m={m}"
          else if !compactLayoutOk m ps pb then some s!"compact-layout side=pos m={m} spans={spansStr ps}"
          else if !compactLayoutOk m ns nb then some s!"compact-layout side=neg m={m} spans={spansStr ns}"
          else none
        | _, _, _, _ => some "compact-unparsable"
    | _ => some "compact-unexpected-output"
  | .reduce t a, out =>
    if a.isCustom || t == customSchema || t ≥ a.schema then
      if out = ["err", "reduce"] then none else some s!"reduce-not-rejected target={t} schema={a.schema}"
    else
      match out with
      | "ok" :: rest =>
        match parseView? rest with
        | none => some "reduce-unparsable"
        | some v =>
          let k := (a.schema - t).toNat
          if v.schema != t then some s!"reduce-schema target={t}"
          else if norm v.p != coarsen k (sparse a.ps a.pb) then some s!"reduce-buckets side=pos from={a.schema} to={t}"
          else if norm v.n != coarsen k (sparse a.ns a.nb) then some s!"reduce-buckets side=neg from={a.schema} to={t}"
          else if total v.p != total (sparse a.ps a.pb) || total v.n != total (sparse a.ns a.nb) then some s!"reduce-total from={a.schema} to={t}"
          else if v.zc != a.zc || v.zt != a.zt || v.count != a.count || v.sum != a.sum || v.hint != a.hint then some "reduce-header"
          else if !v.it then some "reduce-iterators-disagree"
          else none
      | _ => some s!"reduce-unexpected-output from={a.schema} to={t}"
  | .copyto t a, out =>
    if a.isCustom || t == customSchema || t > a.schema then none -- documented panic; not part of the statement
    else
      match out with
      | "ok" :: rest =>
        match parseView? rest with
        | none => some "copyto-unparsable"
        | some v =>
          let k := (a.schema - t).toNat
          if v.schema != t then some s!"copyto-schema target={t}"
          else if norm v.p != coarsen k (sparse a.ps a.pb) then some s!"copyto-buckets side=pos from={a.schema} to={t}"
          else if norm v.n != coarsen k (sparse a.ns a.nb) then some s!"copyto-buckets side=neg from={a.schema} to={t}"
          else if v.zc != a.zc || v.zt != a.zt || v.count != a.count || v.sum != a.sum then some "copyto-header"
          else if !flag v "src" then some "copyto-source-modified"
          else if !v.it then some "copyto-iterators-disagree"
          else none
      | _ => some s!"copyto-unexpected-output from={a.schema} to={t}"
  | .scale isDiv x a, out =>
    match out with
    | "ok" :: rest =>
      match parseView? rest with
      | none => some "scale-unparsable"
      | some v =>
        let f := fun (c : Rat) => if isDiv then c / x else c * x
        let mp := fun (l : Buckets) => norm (l.map fun p => (p.1, f p.2))
        if norm v.p != mp (sparse a.ps a.pb) || norm v.n != mp (if a.isCustom then [] else sparse a.ns a.nb) then some s!"scale-buckets x={ratStr x}"
        else if v.count != f a.count || v.sum != f a.sum || v.zc != f a.zc then some s!"scale-header x={ratStr x}"
        else if v.hint != (if x < 0 then 3 else a.hint) then some s!"scale-hint x={ratStr x}"
        else none
    | _ => some "scale-unexpected-output"
  | .tofloat i, out =>
    match out with
    | "ok" :: rest =>
      match parseView? rest with
      | none => some "tofloat-unparsable"
      | some v =>
        -- absolute count of every bucket = sum of the deltas up to it
        let absolute := fun (ds : List Int) => (List.range ds.length).map fun j => (((ds.take (j + 1)).foldl (· + ·) 0 : Int) : Rat)
        let wantP := norm (dropZeros ((spanIdx 0 i.ps).zip (absolute i.pb)))
        let wantN := if i.schema == customSchema then [] else norm (dropZeros ((spanIdx 0 i.ns).zip (absolute i.nb)))
        if norm v.p != wantP then some s!"tofloat-counts side=pos want={bucketsStr wantP}"
        else if norm v.n != wantN then some s!"tofloat-counts side=neg want={bucketsStr wantN}"
        else if v.count != (i.count : Rat) || v.sum != i.sum || v.schema != i.schema || v.hint != i.hint then some "tofloat-header"
        else if i.schema != customSchema && (v.zc != (i.zc : Rat) || v.zt != i.zt) then some "tofloat-zero-bucket"
        else if v.cv != i.cv then some "tofloat-custom-values"
        else if !flag v "src" then some "tofloat-source-modified"
        else if !v.it then some "tofloat-iterators-disagree"
        else none
    | _ => some "tofloat-unexpected-output"
  | .reset cur prev, out =>
    match expectedReset cur prev with
    | none => none
    | some want =>
      match out with
      | [r, src] =>
        if src != "src=1" then some "reset-inputs-modified"
        else if r != toString want then some s!"reset-wrong want={want} cur-zt-aligned={b01 (cur.isCustom || aligned cur.schema cur.zt)} prev-finer={b01 (decide (cur.schema < prev.schema))} cur:{hdr cur} hint={cur.hint} prev:{hdr prev}"
        else none
      | _ => some s!"reset-unexpected-output want={want} cur:{hdr cur} prev:{hdr prev}"
  | .bad, _ => none

def judge (ops outs : List String) : String :=
  let rec go (k : Nat) : List String → List String → String
    | op :: ops, out :: outs =>
      match judgeOp (parseOp op) (toks out) with
      | some v => s!"violation {v} op={k}"
      | none => go (k + 1) ops outs
    | _, _ => "ok"
  go 0 ops outs

def suite : Suite := { name := "histarith", model := model, judge := judge }

end Prom.HistArith
