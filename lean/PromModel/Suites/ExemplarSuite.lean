import PromModel.Tsdb.Exemplars
/-
  Suite `exemplar` (property C21).
  ops:  `new <cap> <window>`                                   first op of a case: NewCircularExemplarStorage
        `add <series> <ts> <valbits hex16> <hasTs 0|1> <lbl> <hash hex>`
                                                               ValidateExemplar, then AddExemplar
        `resize <l>`                                           Resize
        `window <d>`                                           SetOutOfOrderTimeWindow
        `select <start> <end> <mask>`                          Select; bit s of mask = series s matches
  out:  `ok` | `v=<cls> a=<cls> stored=<0|1>` | `migrated=<n>` | `ok` |
        `-` or `<s>@<ts>/<val>/<hasTs>/<lbl>;…|<s>@…`
  `<cls>` ∈ ok dup ooo toolong disabled; `stored` is the increment of the
  `prometheus_tsdb_exemplar_exemplars_appended_total` counter caused by the call.
-/
namespace Prom.Exemplars

def Ex.render (e : Ex) : String :=
  s!"{e.ts}/{hexOfNat e.val 16}/{if e.hasTs then 1 else 0}/{e.lbl}"

def renderSel (res : List (Nat × List Ex)) : String :=
  if res.isEmpty then "-" else
  "|".intercalate (res.map fun (s, xs) => s!"{s}@" ++ ";".intercalate (xs.map Ex.render))

def clsStr : Option Err → String
  | none => "ok"
  | some e => e.str

inductive Op
  | new (cap window : Int)
  | add (s : Nat) (e : Ex)
  | resize (l : Int)
  | window (d : Int)
  | select (start stop : Int) (mask : Nat)

def parseOp (line : String) : Option Op :=
  match toks line with
  | ["new", c, w] => do pure (.new (← c.toInt?) (← w.toInt?))
  | ["add", s, ts, v, h, lbl, hash] => do
    pure (.add (← s.toNat?) ⟨← ts.toInt?, ← natOfHex? v, h == "1", lbl, ← natOfHex? hash⟩)
  | ["resize", l] => do pure (.resize (← l.toInt?))
  | ["window", d] => do pure (.window (← d.toInt?))
  | ["select", a, b, m] => do pure (.select (← a.toInt?) (← b.toInt?) (← m.toNat?))
  | _ => none

def stepModel (r : Ring) (line : String) : Ring × String :=
  match parseOp line with
  | none => (r, "bad-op")
  | some (.new c w) => (Ring.new c w, "ok")
  | some (.add s e) =>
    let v := validateOp r s e
    let (r', res) := add r s e
    let a := match res with | .err x => x.str | _ => "ok"
    (r', s!"v={clsStr v} a={a} stored={if res = .stored then 1 else 0}")
  | some (.resize l) => let (r', m) := resize r l; (r', s!"migrated={m}")
  | some (.window d) => ({ r with window := d }, "ok")
  | some (.select a b m) => (r, renderSel (select r a b fun s => m.testBit s))

def model (ops : List String) : List String :=
  let rec go (r : Ring) : List String → List String
    | [] => []
    | l :: rest => let (r', o) := stepModel r l; o :: go r' rest
  go (Ring.new 0 0) ops

/-! ### Judge: the property statement on the implementation's outputs -/

def parseSel (out : String) : Option (List (Nat × List String)) :=
  if out = "-" then some [] else
  (out.splitOn "|").mapM fun p =>
    match p.splitOn "@" with
    | [s, xs] => do pure (← s.toNat?, xs.splitOn ";")
    | _ => none

def tsOfRendered (x : String) : Option Int := (x.splitOn "/").head?.bind String.toInt?

def sortedInts : List Int → Bool
  | a :: b :: t => decide (a ≤ b) && sortedInts (b :: t)
  | _ => true

def strictlyAscending : List Nat → Bool
  | a :: b :: t => decide (a < b) && strictlyAscending (b :: t)
  | _ => true

def sameMultiset (xs ys : List String) : Bool :=
  xs.length == ys.length && xs.all fun x => xs.count x == ys.count x

/-- What `Select(start, stop, sel)` must return (up to the order of equal timestamps) when exactly
    `acc` is retained: per matching series (ascending) its retained exemplars within the range. -/
def expectedSel (acc : List (Nat × Ex)) (start stop : Int) (mask : Nat) : List (Nat × List String) :=
  (List.range maxSeries).filterMap fun s =>
    let xs := (acc.filter fun p => p.1 = s ∧ start ≤ p.2.ts ∧ p.2.ts ≤ stop).map (·.2.render)
    if mask.testBit s = true ∧ ¬ xs.isEmpty then some (s, xs) else none

/--
  Statement-as-oracle for C21.  The judge keeps only the abstract state `Spec` (capacity, window and
  the exemplars *the implementation itself reported as stored*, newest `cap` of them, in acceptance
  order) and checks
  * `validate-rule` / `add-rule` / `stored-rule`: the classes returned by `ValidateExemplar` and
    `AddExemplar` and the stored flag are exactly those of the documented rules (`Spec.classify`,
    `Spec.silentDrop`) applied to the retained exemplars;
  * on every `select`: series ascending (`series-order`), each list time-sorted (`not-sorted`), all
    inside the range and exactly the retained exemplars of the matching series in range
    (`retained-set`) — in particular rejected exemplars never appear and eviction is in acceptance
    order, also across resizes.
-/
def judge (ops outs : List String) : String :=
  let rec go (a : Spec) (ops outs : List String) (k : Nat) : String :=
    match ops, outs with
    | op :: ops, out :: outs =>
      match parseOp op with
      | none => "ok"
      | some (.new c w) => go ⟨c.toNat, if w < 0 then 0 else w, []⟩ ops outs (k + 1)
      | some (.window d) => go { a with window := d } ops outs (k + 1)
      | some (.resize l) =>
        if out = "panic" then s!"violation panic op={k} {op}" else
        go (a.resize l) ops outs (k + 1)
      | some (.add s e) =>
        if out = "panic" then s!"violation panic op={k} {op}" else
        match toks out with
        | [v, ad, st] =>
          let cls := a.classify s e
          let expV := "v=" ++ clsStr cls
          let expA := "a=" ++ (match cls with | some .dup => "ok" | c => clsStr c)
          let expStored := cls.isNone && !a.silentDrop s e
          let expS := "stored=" ++ (if expStored then "1" else "0")
          if v ≠ expV then s!"violation validate-rule op={k} got={v} want={expV} {op}"
          else if ad ≠ expA then s!"violation add-rule op={k} got={ad} want={expA} {op}"
          else if st ≠ expS then s!"violation stored-rule op={k} got={st} want={expS} {op}"
          else
            let a' := if st = "stored=1" then { a with acc := lastN a.cap (a.acc ++ [(s, e)]) } else a
            go a' ops outs (k + 1)
        | _ => s!"violation unparsable op={k}"
      | some (.select start stop mask) =>
        if out = "panic" then s!"violation panic op={k} {op}" else
        match parseSel out with
        | none => s!"violation unparsable op={k}"
        | some got =>
          let want := expectedSel a.acc start stop mask
          if !strictlyAscending (got.map (·.1)) then s!"violation series-order op={k} got={out}"
          else match got.find? (fun p => !sortedInts (p.2.filterMap tsOfRendered)) with
          | some p => s!"violation not-sorted op={k} series={p.1} got={out}"
          | none =>
            if got.map (·.1) ≠ want.map (·.1) then
              s!"violation retained-set op={k} series got={got.map (·.1)} want={want.map (·.1)} out={out}"
            else match (got.zip want).find? (fun (g, w) => !sameMultiset g.2 w.2) with
            | some (g, w) =>
              s!"violation retained-set op={k} series={g.1} got={";".intercalate g.2} want={";".intercalate w.2}"
            | none => go a ops outs (k + 1)
    | _, _ => "ok"
  go ⟨0, 0, []⟩ ops outs 0

def suite : Suite := { name := "exemplar", model := model, judge := judge }

end Prom.Exemplars
