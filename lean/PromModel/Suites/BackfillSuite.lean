import PromModel.Tsdb.Backfill
/-
  Suite `backfill` (property C50).  Ops (see harness/suites/backfill/main.go):

    cfg <maxBlockDurationMs> <maxSamplesInAppender> <eof 0|1>   (last one before `run` wins; default `0 5000 1`)
    s <series> <tsMs|-> <valueBits>                            one sample line of the input, file order
    type                                                        a `# TYPE` line (no series entry)
    run                                                         run promtool, read the blocks back

  Outputs: `-` for every line except the first `run`:
    ok <blocks> | err <nots|parse|ooo|dup|oob|other> <blocks>
    blocks = `-` or `|`-joined `mint:maxt:s<i>=t:vbits,…;s<j>=…` sorted by (mint, maxt)
-/
namespace Prom.Backfill

structure Case where
  maxBD : Int := 0
  n : Nat := 5000
  eof : Bool := true
  input : List Sample := []   -- reversed while parsing
  bad : Bool := false
deriving Repr

def parseSample? (si ts vb : String) : Option Sample := do
  let s ← si.toNat?
  let v ← natOfHex? vb
  if ts = "-" then pure ⟨s, none, v⟩ else
  let t ← ts.toInt?
  pure ⟨s, some t, v⟩

/-- Reads the op lines up to the first `run`; returns the case and whether a `run` was found. -/
def parseCase : List String → Case → Case × Bool
  | [], c => ({ c with input := c.input.reverse }, false)
  | l :: rest, c =>
    match toks l with
    | ["run"] => ({ c with input := c.input.reverse }, true)
    | ["type"] => parseCase rest c
    | ["cfg", d, n, e] =>
      match d.toInt?, n.toNat? with
      | some d, some n => parseCase rest { c with maxBD := d, n := n, eof := e == "1" }
      | _, _ => parseCase rest { c with bad := true }
    | ["s", si, ts, vb] =>
      match parseSample? si ts vb with
      | some x => parseCase rest { c with input := x :: c.input }
      | none => parseCase rest { c with bad := true }
    | _ => parseCase rest { c with bad := true }

/-! ### rendering -/

def insertNat (a : Nat) : List Nat → List Nat
  | [] => [a]
  | b :: rest => if a < b then a :: b :: rest else if a = b then b :: rest else b :: insertNat a rest

def seriesIds (xs : List Smp) : List Nat := xs.foldl (fun acc x => insertNat x.1 acc) []

def showSeries (xs : List Smp) (s : Nat) : String :=
  s!"s{s}=" ++ ",".intercalate ((xs.filter (·.1 = s)).map fun x => s!"{x.2.1}:{hexOfNat x.2.2 16}")

def showBlock (b : Block) : String :=
  s!"{b.mint}:{b.maxt}:" ++ ";".intercalate ((seriesIds b.samples).map (showSeries b.samples))

def showBlocks (bs : List Block) : String :=
  if bs.isEmpty then "-" else "|".intercalate (bs.map showBlock)

instance : ToString Err := ⟨fun
  | .nots => "nots" | .parse => "parse" | .ooo => "ooo" | .dup => "dup" | .oob => "oob" | .panic => "panic"⟩

/-! ### model -/

def runModel (c : Case) : String :=
  if c.bad then "bad-op" else
  if !c.eof then
    -- the parser reports the missing `# EOF` only at the end of the first pass
    match minMaxLoop c.input minI64 maxI64 with
    | .error e => s!"err {e} -"
    | .ok _ => "err parse -"
  else
  match backfill c.maxBD c.n c.input with
  | (none, bs) => s!"ok {showBlocks bs}"
  | (some .panic, bs) => s!"panic {showBlocks bs}"
  | (some e, bs) => s!"err {e} {showBlocks bs}"

def model (ops : List String) : List String :=
  let (c, _) := parseCase ops {}
  let rec go (ran : Bool) : List String → List String
    | [] => []
    | l :: rest =>
      match toks l with
      | ["run"] => (if ran then "-" else runModel c) :: go true rest
      | ["type"] => "-" :: go ran rest
      | ["cfg", _, _, _] => "-" :: go ran rest
      | ["s", _, _, _] => "-" :: go ran rest
      | _ => "bad-op" :: go ran rest
  go false ops

/-! ### judge: the property statement evaluated on the blocks the implementation wrote

  Independent of the transcription above.  With `d` = the largest standard range `2h·3^i` (i < 10) not
  above `max(maxBlockDuration, 2h)`:

  * an input with a sample without timestamp (or without `# EOF`) must be rejected and leave no block;
  * every block `[mint, maxt)` lies inside one aligned window `[k·d, (k+1)·d)` (floor alignment), no two
    blocks share a window, every sample of a block has `mint ≤ t < maxt`, carries the input labels and
    is an input sample (series, timestamp, value bits); no (series, timestamp) occurs twice;
  * every input (series, timestamp) is present in the output (with one of the input values for it) —
    required for every sample that is not *out of order inside its window* (an earlier line of the same
    series in the same window with a larger timestamp: invalid OpenMetrics, outside the statement);
  * an input whose series are non-decreasing inside every window without conflicting duplicates must be
    accepted.
-/

structure OBlock where
  mint : Int
  maxt : Int
  samples : List Smp
  badLabels : Bool
deriving Repr

def parseSmp? (sid : Nat) (p : String) : Option Smp :=
  match p.splitOn ":" with
  | [t, v] => do pure (sid, ← t.toInt?, ← natOfHex? v)
  | _ => none

def parseSeries? (p : String) : Option (List Smp × Bool) :=
  match p.splitOn "=" with
  | [name, smps] =>
    if name.startsWith "s" then do
      let sid ← (name.drop 1).copy.toNat?
      let xs ← (smps.splitOn ",").mapM (parseSmp? sid)
      pure (xs, false)
    else if name.startsWith "?" then some ([], true)
    else none
  | _ => none

def parseBlock? (p : String) : Option OBlock :=
  match p.splitOn ":" with
  | mint :: maxt :: _ => do
    let lo ← mint.toInt?
    let hi ← maxt.toInt?
    let body := (p.drop (mint.length + maxt.length + 2)).copy
    let sers ← (body.splitOn ";").mapM parseSeries?
    pure ⟨lo, hi, sers.flatMap (·.1), sers.any (·.2)⟩
  | _ => none

def parseBlocks? (s : String) : Option (List OBlock) :=
  if s = "-" then some [] else (s.splitOn "|").mapM parseBlock?

/-- Specification of the block duration (independent of `getCompatibleBlockDuration`). -/
def stdRange (maxBD : Int) : Int :=
  (List.range 10).foldl (fun d i => if defaultBlockDuration * 3 ^ i ≤ maxBD then defaultBlockDuration * 3 ^ i else d)
    defaultBlockDuration

/-- Floor division (window index). -/
def win (d t : Int) : Int := t / d

def firstSome {α} (xs : List α) (f : α → Option String) : Option String :=
  xs.foldl (fun acc x => match acc with | some r => some r | none => f x) none

/-- Timed input samples with their file position. -/
def timed (input : List Sample) : List Smp := input.filterMap fun x => x.t.map fun t => (x.s, t, x.v)

/-- Is the `i`-th timed sample out of order inside its window (an earlier same-series sample of the same
    window has a larger timestamp)? -/
def oooInWindow (d : Int) (xs : List Smp) (i : Nat) (x : Smp) : Bool :=
  (xs.take i).any fun y => y.1 = x.1 ∧ win d y.2.1 = win d x.2.1 ∧ y.2.1 > x.2.1

/-- A conflicting duplicate: an earlier same-series sample with the same timestamp and another value. -/
def dupConflict (xs : List Smp) (i : Nat) (x : Smp) : Bool :=
  (xs.take i).any fun y => y.1 = x.1 ∧ y.2.1 = x.2.1 ∧ y.2.2 ≠ x.2.2

def enum {α} (xs : List α) : List (Nat × α) := (List.range xs.length).zip xs

def checkBlocks (d : Int) (xs : List Smp) (bs : List OBlock) : Option String :=
  let perBlock := firstSome bs fun b =>
    if b.badLabels then some s!"violation labels-changed block={b.mint}:{b.maxt}"
    else if b.samples.isEmpty then some s!"violation empty-block block={b.mint}:{b.maxt}"
    else if !(b.mint < b.maxt ∧ win d b.mint = win d (b.maxt - 1)) then
      some s!"violation block-unaligned block={b.mint}:{b.maxt} d={d}"
    else firstSome b.samples fun x =>
      if !(b.mint ≤ x.2.1 ∧ x.2.1 < b.maxt) then some s!"violation sample-outside-block block={b.mint}:{b.maxt} s={x.1} t={x.2.1}"
      else if !xs.contains x then some s!"violation backfill-spurious s={x.1} t={x.2.1} v={hexOfNat x.2.2 16}"
      else none
  match perBlock with
  | some v => some v
  | none =>
    let wins := bs.map fun b => win d b.mint
    match firstSome (enum wins) fun (i, w) => if (wins.take i).contains w then some s!"violation window-split window={w} d={d}" else none with
    | some v => some v
    | none =>
      let all := bs.flatMap (·.samples)
      firstSome (enum all) fun (i, x) =>
        if (all.take i).any (fun y => y.1 = x.1 ∧ y.2.1 = x.2.1) then some s!"violation backfill-dup s={x.1} t={x.2.1}" else none

/-- Classification of a lost sample (only used to name the violation). -/
def lostKind (d : Int) (xs : List Smp) (x : Smp) : String :=
  let mint := xs.foldl (fun m y => if y.2.1 < m then y.2.1 else m) x.2.1
  if mint < 0 ∧ mint % d ≠ 0 ∧ x.2.1 < d * (mint.tdiv d) then "negative-unaligned-mint" else "other"

def checkLost (d : Int) (xs : List Smp) (bs : List OBlock) : Option String :=
  let all := bs.flatMap (·.samples)
  let lost := (enum xs).filter fun (i, x) =>
    !oooInWindow d xs i x ∧ !(all.any fun y => y.1 = x.1 ∧ y.2.1 = x.2.1)
  let describe := fun (x : Smp) =>
    let mint := xs.foldl (fun m y => if y.2.1 < m then y.2.1 else m) x.2.1
    s!"violation backfill-lost kind={lostKind d xs x} s={x.1} t={x.2.1} mint={mint} d={d}"
  match lost.find? (fun (_, x) => lostKind d xs x = "other") with
  | some (_, x) => some (describe x)
  | none => match lost with
    | (_, x) :: _ => some (describe x)
    | [] => none

def judgeRun (c : Case) (out : String) : String :=
  if c.bad then "ok" else
  let d := stdRange c.maxBD
  let xs := timed c.input
  let hasMissing := c.input.any (·.t.isNone)
  match toks out with
  | ["ok", blocks] =>
    match parseBlocks? blocks with
    | none => s!"violation unparsable out={out}"
    | some bs =>
      if hasMissing then "violation missing-timestamp-accepted"
      else if !c.eof then "violation missing-eof-accepted"
      else match checkBlocks d xs bs with
        | some v => v
        | none => (checkLost d xs bs).getD "ok"
  | ["err", cls, blocks] =>
    match parseBlocks? blocks with
    | none => s!"violation unparsable out={out}"
    | some bs =>
      if hasMissing ∨ !c.eof then
        if !bs.isEmpty then s!"violation rejected-input-left-blocks n={bs.length}"
        else if hasMissing ∧ cls ≠ "nots" then s!"violation missing-timestamp-wrong-error cls={cls}"
        else "ok"
      else
        let clean := (enum xs).all fun (i, x) => !oooInWindow d xs i x ∧ !dupConflict xs i x
        if clean then s!"violation spurious-reject cls={cls}"
        else (checkBlocks d xs bs).getD "ok"
  | _ => s!"violation unexpected-output out={out}"

def judge (ops : List String) (outs : List String) : String :=
  let (c, ran) := parseCase ops {}
  if !ran then "ok" else
  match (ops.zip outs).find? (fun p => toks p.1 = ["run"]) with
  | some (_, out) => judgeRun c out
  | none => "ok"

def suite : Suite := { name := "backfill", model := model, judge := judge }

end Prom.Backfill
