import PromModel.Prelude.Line
import PromModel.Config.Normalize
/-
  Suite `config` (property C49): `config.Load → Config.String → config.Load → Config.String`.
  ops:  `load <hex yaml> <tree tokens…>`   (the model reads only the tree, see harness/suites/config/main.go)
        `rt`
  out:  `ok <path>=<value> …` | `err`   for load (dump of the modelled core, sorted by path)
        `ok same|differs <path>=<v1>=<v2> …` | `reload-err` | `skip`   for rt
  The judge is the property statement evaluated on the implementation's `rt` line alone: the text must be a
  fixpoint and no leaf of the full struct dump may differ; it does not use the model.
-/
namespace Prom.ConfigSuite
open Prom.Config

/-! ### escaping (same as `esc` in the harness) -/

def needsEsc (b : UInt8) : Bool :=
  b ≤ 0x20 || b ≥ 0x7f || b == 37 || b == 61 || b == 46 || b == 126 || b == 91 || b == 93 || b == 123 || b == 125 || b == 35

def hexD (n : Nat) : Char := if n < 10 then Char.ofNat (48 + n) else Char.ofNat (55 + n)

def esc (s : String) : String :=
  String.ofList (s.toUTF8.toList.flatMap fun b =>
    if needsEsc b then ['%', hexD (b.toNat / 16), hexD (b.toNat % 16)] else [Char.ofNat b.toNat])

def hexV (c : Char) : Nat :=
  if '0' ≤ c && c ≤ '9' then c.toNat - 48 else if 'A' ≤ c && c ≤ 'F' then c.toNat - 55 else if 'a' ≤ c && c ≤ 'f' then c.toNat - 87 else 0

def unescBytes : List Char → List UInt8
  | '%' :: a :: b :: rest => UInt8.ofNat (hexV a * 16 + hexV b) :: unescBytes rest
  | c :: rest => UInt8.ofNat c.toNat :: unescBytes rest
  | [] => []

def unesc (s : String) : String :=
  match String.fromUTF8? (ByteArray.mk (unescBytes s.toList).toArray) with
  | some r => r
  | none => s

/-! ### token stream → YNode (recursive descent with fuel) -/

def scalarTok (t : String) : Option YNode :=
  if t = "n" then some .null
  else if t.startsWith "s:" then some (.raw "s" (unesc (t.drop 2).toString))
  else if t.startsWith "i:" then some (.raw "i" (t.drop 2).toString)
  else if t.startsWith "b:" then some (.raw "b" (t.drop 2).toString)
  else if t.startsWith "f:" then some (.raw "f" (unesc (t.drop 2).toString))
  else none

/-- mode 0: one node; mode 1: the entries of a map up to `}`; mode 2: the items of a list up to `]` -/
def parseG : Nat → Nat → List String → Option (YNode × List String)
  | 0, _, _ => none
  | _, _, [] => none
  | fuel + 1, 0, t :: rest =>
    if t = "{" then parseG fuel 1 rest
    else if t = "[" then parseG fuel 2 rest
    else (scalarTok t).map fun n => (n, rest)
  | fuel + 1, 1, t :: rest =>
    if t = "}" then some (.map [], rest)
    else if t.startsWith "k:" then
      match parseG fuel 0 rest with
      | some (v, r) =>
        match parseG fuel 1 r with
        | some (.map kvs, r') => some (.map ((unesc (t.drop 2).toString, v) :: kvs), r')
        | _ => none
      | none => none
    else none
  | fuel + 1, _, t :: rest =>
    if t = "]" then some (.list [], rest)
    else
      match parseG fuel 0 (t :: rest) with
      | some (v, r) =>
        match parseG fuel 2 r with
        | some (.list xs, r') => some (.list (v :: xs), r')
        | _ => none
      | none => none

def parseTree (toks : List String) : Option YNode :=
  match parseG (2 * toks.length + 2) 0 toks with
  | some (n, []) => some n
  | _ => none

/-! ### dump of the modelled core (paths and value rendering of the harness' reflect walk) -/

abbrev KV := List (String × String)

def bStr (b : Bool) : String := if b then "true" else "false"
def obStr : Option Bool → String
  | none => "nil"
  | some b => bStr b

def valStr : Val → String
  | .b x => bStr x
  | .i x => toString x
  | .s x => esc x

def strsKV (p : String) (l : List String) : KV :=
  (p ++ "#", toString l.length) :: (l.zipIdx.map fun (x, i) => (s!"{p}[{i}]", esc x))

def recKV (p : String) (r : Rec) : KV := r.map fun (k, v) => (p ++ k, valStr v)

def relabelKV (p : String) (l : List Relabel) : KV :=
  (p ++ "#", toString l.length) :: (l.zipIdx.flatMap fun (c, i) =>
    let q := s!"{p}[{i}]."
    strsKV (q ++ "SourceLabels") c.sourceLabels ++
    [(q ++ "Separator", esc c.separator), (q ++ "Regex", "re:" ++ esc c.regex), (q ++ "Modulus", toString c.modulus),
     (q ++ "TargetLabel", esc c.targetLabel), (q ++ "Replacement", esc c.replacement), (q ++ "Action", esc c.action),
     (q ++ "NameValidationScheme", toString c.nvs)])

def globalKV (g : Global) : KV :=
  recKV "GlobalConfig." g.toRec ++
  [("GlobalConfig.MetricNameValidationScheme", toString g.validation),
   ("GlobalConfig.ScrapeNativeHistograms", obStr g.nativeHist),
   ("GlobalConfig.ExtraScrapeMetrics", obStr g.extraMetrics)]
  ++ strsKV "GlobalConfig.ScrapeProtocols" g.protocols
  ++ [("GlobalConfig.ExternalLabels#", toString g.externalLabels.length)]
  ++ g.externalLabels.map fun (k, v) => ("GlobalConfig.ExternalLabels{" ++ esc k ++ "}", esc v)

def scrapeKV (p : String) (c : Scrape) : KV :=
  recKV p c.toRec ++
  [(p ++ "MetricNameValidationScheme", toString c.validation), (p ++ "ScrapeNativeHistograms", obStr c.nativeHist),
   (p ++ "AlwaysScrapeClassicHistograms", obStr c.alwaysClassic),
   (p ++ "ConvertClassicHistogramsToNHCB", obStr c.convertClassic), (p ++ "ExtraScrapeMetrics", obStr c.extraMetrics)]
  ++ strsKV (p ++ "ScrapeProtocols") c.protocols
  ++ relabelKV (p ++ "RelabelConfigs") c.relabel ++ relabelKV (p ++ "MetricRelabelConfigs") c.metricRelabel

def configKV (c : Config) : KV :=
  globalKV c.global ++ [("Runtime.GoGC", toString c.gogc)]
  ++ strsKV "RuleFiles" c.ruleFiles ++ strsKV "ScrapeConfigFiles" c.scrapeConfigFiles
  ++ [("ScrapeConfigs#", toString c.scrapes.length)]
  ++ (c.scrapes.zipIdx.flatMap fun (s, i) => scrapeKV s!"ScrapeConfigs[{i}]." s)
  ++ relabelKV "AlertingConfig.AlertRelabelConfigs" c.alertRelabel
  ++ [("AlertingConfig.AlertmanagerConfigs#", toString c.alertmanagers.length)]
  ++ (c.alertmanagers.zipIdx.flatMap fun (a, i) =>
        let p := s!"AlertingConfig.AlertmanagerConfigs[{i}]."
        recKV p a.r ++ relabelKV (p ++ "RelabelConfigs") a.relabel ++ relabelKV (p ++ "AlertRelabelConfigs") a.alertRelabel)
  ++ [("RemoteWriteConfigs#", toString c.remoteWrite.length)]
  ++ (c.remoteWrite.zipIdx.flatMap fun (w, i) =>
        let p := s!"RemoteWriteConfigs[{i}]."
        [(p ++ "URL", esc w.url)] ++ recKV p w.r ++ recKV (p ++ "QueueConfig.") w.queue ++ recKV (p ++ "MetadataConfig.") w.mdata
        ++ relabelKV (p ++ "WriteRelabelConfigs") w.relabel)
  ++ [("RemoteReadConfigs#", toString c.remoteRead.length)]
  ++ (c.remoteRead.zipIdx.flatMap fun (w, i) =>
        let p := s!"RemoteReadConfigs[{i}]."
        [(p ++ "URL", esc w.url)] ++ recKV p w.r)
  ++ recKV "OTLPConfig." c.otlp.r ++ strsKV "OTLPConfig.PromoteResourceAttributes" c.otlp.promote
  ++ strsKV "OTLPConfig.IgnoreResourceAttributes" c.otlp.ignore
  ++ [("StorageConfig.TSDBConfig.OutOfOrderTimeWindow", toString (c.storage.oooFlag / 1000000)),
      ("StorageConfig.TSDBConfig.OutOfOrderTimeWindowFlag", toString c.storage.oooFlag),
      ("StorageConfig.TSDBConfig.ChunkEncoding.Floats", esc c.storage.floats),
      ("StorageConfig.TSDBConfig.Retention.Time", toString c.storage.retTime),
      ("StorageConfig.TSDBConfig.Retention.Size", toString c.storage.retSize)]
  ++ (match c.storage.exemplars with
      | none => [("StorageConfig.ExemplarsConfig", "nil")]
      | some x => [("StorageConfig.ExemplarsConfig.MaxExemplars", toString x)])

def sortKV (l : KV) : KV := l.mergeSort fun a b => decide (a.1 ≤ b.1)

def renderKV (l : KV) : String := " ".intercalate (l.map fun (k, v) => k ++ "=" ++ v)

/-- entries that differ between two sorted dumps (`~` = absent) -/
def diffKV : Nat → KV → KV → List String
  | 0, _, _ => []
  | _, [], [] => []
  | fuel + 1, (k, v) :: r1, [] => s!"{k}={v}=~" :: diffKV fuel r1 []
  | fuel + 1, [], (k, v) :: r2 => s!"{k}=~={v}" :: diffKV fuel [] r2
  | fuel + 1, (k1, v1) :: r1, (k2, v2) :: r2 =>
    if k1 = k2 then (if v1 = v2 then [] else [s!"{k1}={v1}={v2}"]) ++ diffKV fuel r1 r2
    else if k1 < k2 then s!"{k1}={v1}=~" :: diffKV fuel r1 ((k2, v2) :: r2)
    else s!"{k2}=~={v2}" :: diffKV fuel ((k1, v1) :: r1) r2

/-! ### model -/

def modelLoad (toks : List String) : Option Config × String :=
  match parseTree toks with
  | none => (none, "bad-op")
  | some doc =>
    match load doc with
    | .error _ => (none, "err")
    | .ok c => (some c, "ok " ++ renderKV (sortKV (configKV c)))

def modelRT : Option Config → String
  | none => "skip"
  | some c1 =>
    let t1 := print c1
    match load t1 with
    | .error _ => "reload-err"
    | .ok c2 =>
      let t2 := print c2
      let d1 := sortKV (configKV c1)
      let d2 := sortKV (configKV c2)
      let diffs := diffKV (d1.length + d2.length + 1) d1 d2
      "ok " ++ (if t1 == t2 then "same" else "differs") ++ (if diffs.isEmpty then "" else " " ++ " ".intercalate diffs)

def runOps : Option Config → List String → List String
  | _, [] => []
  | st, l :: rest =>
    match toks l with
    | "load" :: _ :: tree =>
      let (c, out) := modelLoad tree
      out :: runOps c rest
    | ["rt"] => modelRT st :: runOps st rest
    | _ => "bad-op" :: runOps st rest

def model (ops : List String) : List String := runOps none ops

/-! ### judge: the property statement on the implementation's outputs -/

def normIdx : Nat → List Char → List Char
  | 0, cs => cs
  | _, [] => []
  | f + 1, '[' :: rest => '[' :: ']' :: normIdx f ((rest.dropWhile (· != ']')).drop 1)
  | f + 1, '{' :: rest => '{' :: '}' :: normIdx f ((rest.dropWhile (· != '}')).drop 1)
  | f + 1, c :: rest => c :: normIdx f rest

/-- `<path>=<v1>=<v2>` ↦ normalised path plus a qualifier: `@zero` when the first load held the kind's zero
    value, `$` when it contained a dollar sign -/
def fieldTag (tok : String) : String :=
  match tok.splitOn "=" with
  | [p, v1, _] =>
    let np := String.ofList (normIdx p.length p.toList)
    if v1 = "" || v1 = "0" || v1 = "false" then np ++ "@zero"
    else if v1.contains '$' then np ++ "$"
    else np
  | _ => "unparsable:" ++ tok

def zeroKeys : Nat → YNode → List String
  | 0, _ => []
  | fuel + 1, .map kvs => kvs.flatMap fun (k, v) =>
      match v with
      | .raw _ t => if t = "0" || t = "0s" || t = "" || t = "false" then [k] else []
      | other => zeroKeys fuel other
  | fuel + 1, .list xs => xs.flatMap (zeroKeys fuel)
  | _, _ => []

def judgeCase (zeros : String) : List String → List String → String
  | op :: ops, out :: outs =>
    match toks op, toks out with
    | "load" :: _ :: tree, o :: _ =>
      if o = "panic" then "violation load-panic"
      else
        let z := match parseTree tree with
          | some doc => ",".intercalate (zeroKeys 64 doc).eraseDups
          | none => "?"
        judgeCase z ops outs
    | ["rt"], ["skip"] => judgeCase zeros ops outs
    | ["rt"], ["ok", "same"] => judgeCase zeros ops outs
    | ["rt"], "reload-err" :: _ => s!"violation reload-error zero-fields={zeros}"
    | ["rt"], "panic" :: _ => "violation print-panic"
    | ["rt"], "ok" :: text :: diffs =>
      let fields := ",".intercalate (diffs.map fieldTag).eraseDups
      s!"violation roundtrip text={text} fields={fields} detail={diffs.headD "-"}"
    | ["rt"], _ => "violation unparsable"
    | _, _ => judgeCase zeros ops outs
  | _, _ => "ok"

def judge (ops outs : List String) : String := judgeCase "-" ops outs

def suite : Suite := { name := "config", model := model, judge := judge }

end Prom.ConfigSuite
