import PromModel.Tsdb.Snapshot
import PromModel.Suites.RoSuite
/-
  Suites `snap` and `osnap` (C23): histories on a real `tsdb.DB` opened with
  `EnableMemorySnapshotOnShutdown`; at `snapq` / `fork` the directory is copied twice, copy A is opened
  with its chunk snapshot, copy B after `chunk_snapshot.*` was removed (harness/suites/snap/main.go).

  ops:  the ops of suite `db` (`reopen` = clean shutdown writing a snapshot + open loading it), plus
        ex <s> <t> <v> <id>                      -> -            (| res=…)
        snapq <clean|flip|trunc|crash|walbehind1|walbehind2> <mint> <maxt> <pos>
           -> a=<rows> b=<rows> awin=<min>,<max>,<amv|uninit> bwin=<…>
           | use=<loaded|fallback|none> dmg=… pre=<rows> preex=<exemplars> aex=<…> bex=<…>
        fork <mode> <pos>                         -> the same over the full range; afterwards every op
                                                     runs on both copies: `<out A> || <out B>`
  Everything after " | " in an op line is data observed by the harness: ignored by the model, read by
  the judge.

  `snap` (in-order histories): model = `SState.step codeMm0` (Snapshot.lean). `osnap` (out-of-order
  ingestion, CompactOOOHead, CleanTombstones, long histories with WAL checkpoints, truncated snapshot
  files, WAL segments removed): no model — every output is "-" and the observations travel in the
  data part (`out=…`); judged only.

  Judge (C23's statement on the implementation's observations, nothing of the model):
    * rows of A = rows of B at every comparison (`a-ne-b`), equal head windows (`win-differs`; not
      in `osnap`: an out-of-order sample in the WAL lowers Head.MinTime() of a WAL replay, and not
      after a failed load, where `resetInMemoryState` resets the window);
    * after `fork` every op prints the same on both copies (`cont-differs`; `osnap`: every query);
    * over the full range the restarted copies return exactly what the live database returned just
      before the shutdown / copy (`restart-changes-data`; with WAL segments removed: B ⊆ A ⊆ before);
    * exemplars of A (the snapshot start) are among the exemplars stored before (`exemplar-invented`);
    * (`snap` only) C01's reference store (`Prom.Db.judge`, i.e. `holdsFrom` with its classification
      of C01's own findings F28/F30, which are not C23's) on the stream with A's rows as query answers.
-/
namespace Prom.Db.Snap
open Prom.Intervals Prom.Db Prom.Db.Ro

def winStr : Int × Int × Option Int → String
  | (a, b, some c) => s!"{a},{b},{c}"
  | (a, b, none) => s!"{a},{b},uninit"

def renderS : SOut → String
  | .one o => renderOut o
  | .two oa ob => s!"{renderOut oa} || {renderOut ob}"
  | .cmp c => s!"a={renderQuery c.a} b={renderQuery c.b} awin={winStr c.awin} bwin={winStr c.bwin}"

/-- mode ↦ (damage, clean shutdown?) for the modes the model covers. -/
def parseMode? (m : String) : Option (Dmg × Bool) :=
  if m = "clean" then some (.none, true)
  else if m = "flip" ∨ m = "trunc" then some (.unreadable, true)
  else if m = "crash" then some (.none, false)
  else none

def parseS? (line : String) : Option SOp :=
  match toks (opPart line) with
  | "snapq" :: m :: a :: b :: _ => do
    let (dmg, cl) ← parseMode? m
    pure (.snapq dmg cl (← a.toInt?) (← b.toInt?))
  | "fork" :: m :: _ => do
    let (dmg, cl) ← parseMode? m
    pure (.fork dmg cl)
  | _ => (parseOp? (opPart line)).map .base

/-- The cut oracle of the executable model: the newest two samples of every series are in its head
    chunk (any other choice prints the same: `C23.cut_irrelevant`). -/
def defaultCut : Nat → Nat := fun _ => 2

def model (lines : List String) : List String :=
  let rec go (s : SState) : List String → List String
    | [] => []
    | l :: rest =>
      match parseCfg? (opPart l) with
      | some c => "ok" :: go (.one { db := { cfg := c } }) rest
      | none =>
        if (toks (opPart l)).head? = some "ex" then "-" :: go s rest else
        match parseS? l with
        | some op => let (s', o) := s.step codeMm0 defaultCut op; renderS o :: go s' rest
        | none => "bad-op" :: go s rest
  go (.one { db := { cfg := ⟨1, 0⟩ } }) lines

def modelConst (lines : List String) : List String := lines.map fun _ => "-"

/-! ### Judge -/

def flat (r : Rows) : List (Nat × Smp) := r.flatMap fun p => p.2.map fun x => (p.1, x)

def subRows (a b : Rows) : Bool := (flat a).all fun x => (flat b).contains x

def minus (a b : Rows) : List (Nat × Smp) := (flat a).filter fun x => !(flat b).contains x

def exSub (a b : String) : Bool :=
  a = "-" || (let bs := b.splitOn ","; (a.splitOn ",").all fun x => bs.contains x)

/-- Deletions (series selector, range) seen so far and whether CleanTombstones ran. -/
structure Hist where
  dels : List (Option Nat × Int × Int) := []
  cleaned : Bool := false
  seen : List Nat := []        -- series appended to so far
  shrunk : Bool := false       -- a deletion or head compaction happened (a series may have left the head)
  armed : Bool := false        -- … and a restart happened afterwards (`lastSeriesID` restored from a snapshot)
  lateBorn : List Nat := []    -- series first appended to while `armed`
  forked : Bool := false
  reopenAfterFork : Bool := false  -- copy B: started by WAL replay, then shut down and started from its snapshot

def Hist.covers (h : Hist) (x : Nat × Smp) : Bool :=
  h.dels.any fun d => (match d.1 with | none => true | some j => j == x.1) && decide (d.2.1 ≤ x.2.t ∧ x.2.t ≤ d.2.2)

/-- Why do A's rows differ from B's?
    `tail-nonpositive-ts` (finding F31): crash restart with a loaded snapshot, A ⊆ B and every sample
       missing from A has a timestamp ≤ 0 (`memSeries.mmMaxTime` = 0 for snapshot series).
    `wal-replays-deleted` (consequence of C01's F30): A ⊆ B, CleanTombstones ran, and every sample
       that only the WAL replay returns lies inside an earlier deletion.
    `truncated-snapshot-accepted` (finding F34): the snapshot file was cut short, `loadChunkSnapshot`
       reported no error, and A lacks the series behind the cut.
    `series-ref-reuse` (finding F32): after a snapshot load `lastSeriesID` is the largest ref IN THE
       SNAPSHOT; the ref of a series that left the head but is still in the WAL is issued again, and
       a full WAL replay then confuses the two series. -/
def neKind (h : Hist) (mode use : String) (a b : Rows) : String :=
  let extra := minus b a
  let onlyA := minus a b
  let cnt := fun (r : Rows) (i : Nat) => (r.filter (·.1 == i)).length
  -- `series-ref-reuse` (finding F32): the difference is at the level of whole series — a series of A
  -- is absent from B, or B lists a label set twice, or the samples sit under another series
  let mixA := onlyA.all fun x => cnt b x.1 == 0 || cnt b x.1 > 1 || (flat b).any fun y => y.1 != x.1 && y.2 == x.2
  let mixB := extra.all fun y => cnt b y.1 > 1 || (flat a).any fun x => x.1 != y.1 && x.2 == y.2
  let differing := (onlyA ++ extra).map (·.1)
  -- precondition of the finding: some differing series was created after a restart that followed a
  -- deletion / head compaction
  let pre := h.armed && differing.any fun i => h.lateBorn.contains i
  let moved := !onlyA.isEmpty ∧ !extra.isEmpty ∧
    (onlyA.all fun x => (flat b).any fun y => y.1 != x.1 && y.2 == x.2) ∧
    (extra.all fun y => (flat a).any fun x => x.1 != y.1 && x.2 == y.2)
  -- a sample of A sits under ANOTHER series in B (and is missing under its own): refs were confused
  let movedAny := onlyA.any fun x => (extra.any fun y => y.1 != x.1 && y.2 == x.2)
  if mode = "trunc" ∧ use = "loaded" ∧ subRows a b ∧ !extra.isEmpty then "truncated-snapshot-accepted"
  else if h.armed ∧ (moved ∨ movedAny) then "series-ref-reuse"
  else if pre ∧ !onlyA.isEmpty ∧ mixA ∧ mixB then "series-ref-reuse"
  else if pre ∧ (b.any fun p => cnt b p.1 > 1) ∧ mixA ∧ mixB then "series-ref-reuse"
  else if subRows a b ∧ !extra.isEmpty then
    if mode = "crash" ∧ use = "loaded" ∧ extra.all (fun x => decide (x.2.t ≤ 0)) then "tail-nonpositive-ts"
    else if h.cleaned ∧ extra.all h.covers then "wal-replays-deleted"
    else "other"
  else "other"

/-- Head windows of the two starts: `Head.MaxTime()` and the appendable minimum (they decide which
    appends are admitted) must agree; `Head.MinTime()` of the snapshot start may be later, never
    earlier, than that of the WAL replay (the replay also counts samples that are in the WAL but not
    in the head any more: rejected at commit, or truncated by a compaction that wrote no block). -/
def winOk (a b : String) : Bool :=
  match a.splitOn ",", b.splitOn "," with
  | [a1, a2, a3], [b1, b2, b3] =>
    a2 == b2 && a3 == b3 && (match a1.toInt?, b1.toInt? with | some x, some y => decide (y ≤ x) | _, _ => false)
  | _, _ => false

def isFull (f : List String) : Bool :=
  match f with
  | "fork" :: _ => true
  | "snapq" :: _ :: a :: b :: _ => a.toInt? = some MinI64 ∧ b.toInt? = some MaxI64
  | _ => false

/-- Checks of one comparison (`snapq` / `fork`) that need only the observation (and `Hist` for the
    classification of a difference). -/
def judgeCmp (ooo : Bool) (h : Hist) (k : Nat) (op out : String) : Option String :=
  let m := kvs op out
  let f := toks (opPart op)
  let mode := f.getD 1 "?"
  let ctx := s!"step={k} op=`{opPart op}` use={kv m "use"} dmg={kv m "dmg"}"
  match parseRows? (kv m "a"), parseRows? (kv m "b"), parseRows? (kv m "pre") with
  | some a, some b, some pre =>
    let damaged := mode = "flip" ∨ mode = "trunc"
    if mode = "walbehind1" then
      -- the last WAL segment is gone: the snapshot may hold more (or, for deletions, less) than the
      -- shortened WAL; nothing is demanded beyond both copies opening
      none
    else if a ≠ b then
      some s!"violation a-ne-b kind={neKind h mode (kv m "use") a b} onlyA={(minus a b).map fun x => s!"s{x.1}@{x.2.t}"} onlyB={(minus b a).map fun x => s!"s{x.1}@{x.2.t}"} {ctx} a={kv m "a"} b={kv m "b"}"
    else if !ooo ∧ !damaged ∧ !winOk (kv m "awin") (kv m "bwin") then
      -- (after a failed load `resetInMemoryState` also resets Head.MinTime/MaxTime: not compared)
      some s!"violation win-differs awin={kv m "awin"} bwin={kv m "bwin"} {ctx}"
    else if !ooo ∧ isFull f ∧ mode ≠ "walbehind2" ∧ a ≠ pre then
      some s!"violation restart-changes-data kind={if subRows a pre then "lost" else "invented"} lost={(minus pre a).map fun x => s!"s{x.1}@{x.2.t}"} new={(minus a pre).map fun x => s!"s{x.1}@{x.2.t}"} {ctx} a={kv m "a"} pre={kv m "pre"}"
    else if !exSub (kv m "aex") (kv m "preex") then
      some s!"violation exemplar-invented side=a {ctx} aex={kv m "aex"} preex={kv m "preex"}"
    else none
  | _, _, _ => some s!"violation bad-observation {ctx} out={out}"

/-- The printed output of an op: the output line, or (`osnap`) the `out=` token of the data part. -/
def shown (op out : String) : String :=
  if out = "-" then
    match (kvs op "").find? (·.1 = "out") with
    | some p => p.2.replace "_||_" " || "
    | none => out
  else out

def bothSides (s : String) : Option (String × String) :=
  match s.splitOn " || " with
  | [x, y] => some (x, y)
  | _ => none

def judgeLines (ooo : Bool) (pairs : List (String × String)) : Option String :=
  let rec go (h : Hist) (k : Nat) : List (String × String) → Option String
    | [] => none
    | (op, out) :: rest =>
      let f := toks (opPart op)
      let res : Option String :=
        match f.head? with
        | some "snapq" => judgeCmp ooo h k op out
        | some "fork" => judgeCmp ooo h k op out
        | _ =>
          match bothSides (shown op out) with
          | some (x, y) =>
            if x = y ∨ (ooo ∧ f.head? ≠ some "q") ∨ (f.head? = some "win" ∧ winOk (x.replace " " ",") (y.replace " " ",")) then none else
            let kind := match parseRows? x, parseRows? y with
              | some ra, some rb =>
                -- `b-lost-older-samples` (finding F33): the copy that was opened by WAL replay, shut
                -- down cleanly (snapshot) and opened from that snapshot lacks samples that are not
                -- the newest of their series (the ones held in m-mapped chunks); nothing else differs
                let newest : Nat → Option Smp := fun i => (ra.find? (fun (p : Nat × List Smp) => p.1 == i)).bind fun p => p.2.getLast?
                let fullQ := match f with
                  | ["q", qa, qb] => qa.toInt? == some MinI64 && qb.toInt? == some MaxI64
                  | _ => false
                if h.reopenAfterFork ∧ subRows rb ra ∧ !(minus ra rb).isEmpty ∧
                    (!fullQ ∨ (minus ra rb).all (fun (x : Nat × Smp) => newest x.1 != some x.2))
                then "b-lost-older-samples" else neKind h "cont" "-" ra rb
              | _, _ => "other"
            some s!"violation cont-differs kind={kind} step={k} op=`{opPart op}` a={x} b={y}"
          | none => none
      match res with
      | some v => some v
      | none =>
        let restart := f.head? = some "reopen" ∨ f.head? = some "fork" ∨ (f.head? = some "snapq" ∧ f.getD 1 "" ≠ "crash")
        let h' : Hist := match parseOp? (opPart op) with
          | some (.del a b sel) => { h with dels := (sel, a, b) :: h.dels, shrunk := true }
          | some .cleantomb => { h with cleaned := true }
          | some .compact => { h with shrunk := true }
          | some (.app i _ _) =>
            if h.seen.contains i then h
            else { h with seen := i :: h.seen, lateBorn := if h.armed then i :: h.lateBorn else h.lateBorn }
          | _ =>
            let h := if f.head? = some "fork" then { h with forked := true }
                     else if f.head? = some "reopen" ∧ h.forked then { h with reopenAfterFork := true } else h
            if restart ∧ h.shrunk then { h with armed := true }
                 else if f.head? = some "cooo" then { h with shrunk := true } else h
        go h' (k + 1) rest
  go {} 0 pairs

def internalErr (pairs : List (String × String)) : Option String :=
  firstSome (fun k (p : String × String) =>
    let bad := fun (t : String) => t.startsWith "panic" ∨ t.startsWith "err:"
    if (toks p.2).any bad ∨ (kvs p.1 p.2).any (fun q => bad q.2 ∨ (q.2.splitOn "_||_").any bad)
    then some s!"violation internal-error op={k} `{opPart p.1}` {p.2} {dataPart p.1}" else none) 0 pairs

/-- The stream handed to C01's reference judge: A's side of every observation. -/
def refStream (pairs : List (String × String)) : List (String × String) :=
  pairs.flatMap fun p =>
    let f := toks (opPart p.1)
    let m := kvs p.1 p.2
    match f with
    | "ex" :: _ => []
    | "cfg" :: _ => []
    | "snapq" :: mode :: a :: b :: _ =>
      (if mode = "crash" then [] else [("reopen", "ok")]) ++ [(s!"q {a} {b}", kv m "a")]
    | "fork" :: _ => [("reopen", "ok"), (s!"q {MinI64} {MaxI64}", kv m "a")]
    | _ =>
      match bothSides p.2 with
      | some (x, _) => [(opPart p.1, x)]
      | none => [(opPart p.1, p.2)]

def judgeWith (refCheck : Bool) (ops outs : List String) : String :=
  let pairs := ops.zip outs
  match internalErr pairs with
  | some v => v
  | none =>
    match judgeLines (!refCheck) pairs with
    | some v => v
    | none =>
      if !refCheck then "ok" else
      let r := refStream pairs
      let v := Prom.Db.judge (r.map (·.1)) (r.map (·.2))
      -- C01's own findings (F28, F30) are not C23's: both copies agree on them
      if v = "ok" ∨ (v.splitOn "kind=identical-reappend-after-delete").length > 1
          ∨ (v.splitOn "kind=deleted-back-after-cleantomb-restart").length > 1 then "ok"
      else "violation ref-mismatch " ++ (v.drop 10).toString

/- The `snap` and `osnap` suites are registered in MsnapSuite.lean: their judge is `judgeWith` followed by
   the re-classification of F32's sample-less route (`Msnap.reclass`), which needs the ghost state defined there. -/

end Prom.Db.Snap
