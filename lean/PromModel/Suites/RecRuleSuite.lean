import PromModel.Rules.Recording
/-
  Suite `recrule` (property C45). See harness/suites/recrule/main.go for the op/output grammar.

  model : `Prom.Recording` (transcription of rules/recording.go, Group.Eval/CopyState/cleanupStaleSeries,
          buildDependencyMap/SplitGroupIntoBatches, a tsdb head acceptance rule as storage).
  judge : the property statement evaluated on the implementation's outputs: what was appended is the
          scripted query result under the recorded name/labels at the evaluation time; staleness markers
          exactly for the series of the last successful evaluation that are missing now; nothing for failed
          evaluations; series of removed rules/groups marked stale exactly once; batches never run a
          rule before/with a rule it depends on; an engine rule that selects an earlier rule's name sees that
          rule's samples of the same evaluation. The judge keeps its own bookkeeping (written with
          filter/append/sort over strings, not with the model's functions) and never looks at the model.
-/
namespace Prom.Recording.Suite
open Prom Prom.Recording
open Prom.Alerting (Labels lset lsetAll norm lget)

/-! ### codec -/

def parseLabels (s : String) : Labels :=
  if s = "-" then [] else
  (s.splitOn ",").map fun p =>
    match p.splitOn "=" with
    | [k, v] => (k, v)
    | k :: rest => (k, "=".intercalate rest)
    | [] => ("", "")

def showLabels (ls : Labels) : String :=
  if ls.isEmpty then "-" else ",".intercalate (ls.map fun (k, v) => k ++ "=" ++ v)

def insertSorted (x : String) : List String → List String
  | [] => [x]
  | y :: ys => if x < y || x == y then x :: y :: ys else y :: insertSorted x ys

def sortStrings (xs : List String) : List String := xs.foldr insertSorted []

def joinSorted (xs : List String) : String :=
  if xs.isEmpty then "-" else ";".intercalate (sortStrings xs)

def parseVec (s : String) : Option (List Sample) :=
  if s = "-" then some [] else
  (s.splitOn ";").mapM fun e =>
    match e.splitOn "@" with
    | [l, b] => do pure (parseLabels l, ← natOfHex? b)
    | _ => none

def parseSel (s : String) : Option Sel :=
  let (body, extra) := match s.splitOn "&" with
    | [b, kv] => (b, match kv.splitOn "=" with | [k, v] => some (k, v) | _ => none)
    | _ => (s, none)
  match body.toList with
  | '=' :: n => some { name := .eq (String.ofList n), extra := extra }
  | '!' :: n => some { name := .neq (String.ofList n), extra := extra }
  | '~' :: n => some { name := .alt ((String.ofList n).splitOn ":"), extra := extra }
  | '*' :: _ => some { name := .wild, extra := extra }
  | _ => none

def parseRule (s : String) : Option Rule :=
  match s.splitOn "/" with
  | [n, rl, sels] => do
    let ss ← (sels.splitOn "+").mapM parseSel
    pure { name := n, rlabels := parseLabels rl, sels := ss }
  | _ => none

def parseRules (s : String) : Option (List Rule) :=
  if s = "-" then some [] else (s.splitOn "|").mapM parseRule

def parseScripts (s : String) : Option (List Query) :=
  if s = "-" then some [] else
  (s.splitOn "|").mapM fun x =>
    if x = "E" then some .engine
    else if x = "X" then some .err
    else if x.startsWith "V:" then (parseVec (x.drop 2).toString).map .vec
    else none

def showT (t : Int) : String := if t > 4000000000000 then "now" else toString t

def showResult (t : Int) (x : Sample × AppErr) : String :=
  s!"{showLabels x.1.1}@{t}@{hexOfNat x.1.2 16}@{x.2.str}"

def showMarker (t : Int) (x : Labels × AppErr) : String :=
  s!"{showLabels x.1}@{showT t}@{x.2.str}"

def showBatches (bs : List (List Nat)) : String :=
  "batches " ++ "/".intercalate (bs.map fun b => ",".intercalate (b.map toString))

/-! ### model -/

structure World where
  store : Store := {}
  groups : List (String × GroupSt) := []

def World.get (w : World) (gid : String) : Option GroupSt := w.groups.lookup gid
def World.set (w : World) (gid : String) (g : GroupSt) : World :=
  { w with groups := (gid, g) :: w.groups.filter (·.1 ≠ gid) }
def World.del (w : World) (gid : String) : World :=
  { w with groups := w.groups.filter (·.1 ≠ gid) }

def showDump (s : Store) : String :=
  let lines := (seriesOf s.log).map fun l =>
    let es := (s.log.filter (·.l = l)).reverse
    -- consecutive 'now' samples are collapsed (the implementation's wall clock moves on)
    let pts := es.foldl (fun (acc : List String × Bool) e =>
      let isNow := showT e.t = "now"
      if isNow && acc.2 then acc else (acc.1 ++ [s!"{showT e.t}@{hexOfNat e.v 16}"], isNow)) ([], false)
    showLabels l ++ ":" ++ ",".intercalate pts.1
  if lines.isEmpty then "-" else "|".intercalate (sortStrings lines)

def stepModel (w : World) (line : String) : World × String :=
  match line.splitOn " " with
  | ["load", gid, qoff, limit, conc, fast, rules] =>
    match qoff.toInt?, limit.toInt?, parseRules rules with
    | some qoff, some limit, some rules =>
      let g := reload (w.get gid) rules qoff limit (conc = "1") (fast = "1")
      (w.set gid g, if g.conc && !(batches g.rules).isEmpty then showBatches (batches g.rules) else "seq")
    | _, _, _ => (w, "bad-op")
  | ["eval", gid, ts, scripts] =>
    match w.get gid, ts.toInt?, parseScripts scripts with
    | some g, some ts, some scripts =>
      let t := msOfNs (ts - g.qoff)
      let (s', g', outs, cl) := evalGroup w.store g ts (fun i => scripts.getD i .err)
      let toks := (List.range g.rules.length).map fun i =>
        match outs.lookup i with
        | none => s!"r{i}=noquery:-:-"
        | some o => s!"r{i}={o.status.str}:{joinSorted (o.results.map (showResult t))}:{joinSorted (o.markers.map (showMarker t))}"
      let c := if g.stale.isEmpty then "-" else joinSorted (cl.map (showMarker t))
      (({ w with store := s' }).set gid g', " ".intercalate (["ord=ok"] ++ toks ++ [s!"c={c}"]))
    | none, _, _ => (w, "nogroup")
    | _, _, _ => (w, "bad-op")
  | ["remove", gid] =>
    match w.get gid with
    | none => (w, "nogroup")
    | some g =>
      let (s', cl) := removeGroup w.store g
      (({ w with store := s' }).del gid, s!"c={joinSorted (cl.map (showMarker nowMs))}")
  | ["put", t, vec] =>
    match t.toInt?, parseVec vec with
    | some t, some vec =>
      let vec := vec.map fun (l, v) => (norm l, v)
      let errs := batchErrs w.store t vec
      ({ w with store := appendBatch w.store t vec },
        if errs.isEmpty then "-" else ",".intercalate (errs.map (·.str)))
    | _, _ => (w, "bad-op")
  | ["dump"] => (w, showDump w.store)
  | _ => (w, "bad-op")

def model (ops : List String) : List String :=
  let rec go (w : World) : List String → List String
    | [] => []
    | l :: rest => let (w', o) := stepModel w l; o :: go w' rest
  go {} ops

/-! ### judge (statement-as-oracle; independent of `Prom.Recording`) -/

def insertPair (x : String × String) : Labels → Labels
  | [] => [x]
  | y :: ys => if x.1 < y.1 || x.1 == y.1 then x :: y :: ys else y :: insertPair x ys

def sortPairs (xs : Labels) : Labels := xs.foldr insertPair []

/-- Documented label set of a recorded series: the result's labels with the metric name replaced by the
    rule name and overridden by the rule's labels (an empty value removes the label). -/
def docLabels (name : String) (ruleLabels metric : Labels) : String :=
  let ruleNames := ruleLabels.map (·.1)
  let kept := metric.filter fun (k, v) => k ≠ "__name__" ∧ v ≠ "" ∧ !ruleNames.contains k
  let nm := if ruleNames.contains "__name__" then [] else [("__name__", name)]
  let extra := ruleLabels.filter fun (_, v) => v ≠ ""
  showLabels (sortPairs (kept ++ nm ++ extra))

def hasDupS : List String → Bool
  | [] => false
  | x :: xs => xs.contains x || hasDupS xs

/-- Remove one occurrence. -/
def removeOne (x : String) : List String → List String
  | [] => []
  | y :: ys => if x = y then ys else y :: removeOne x ys

/-- Multiset difference `xs − ys`. -/
def msub (xs ys : List String) : List String := ys.foldl (fun acc y => removeOne y acc) xs

structure JRule where
  name : String
  rlabels : Labels
  sels : List String
  prev : List String := []        -- series produced by the last successful evaluation
deriving Inhabited

def JRule.key (r : JRule) : String := r.name ++ "/" ++ showLabels r.rlabels

/-- The judge's own reading of a selector: does it select the metric name? -/
def selRefs (sel name : String) : Bool :=
  let body := (sel.splitOn "&").headD ""
  match body.toList with
  | '=' :: n => String.ofList n = name
  | '!' :: n => String.ofList n ≠ name
  | '~' :: n => ((String.ofList n).splitOn ":").contains name
  | '*' :: _ => true
  | _ => false

def JRule.refs (r : JRule) (name : String) : Bool := r.sels.any (selRefs · name)

structure JGroup where
  rules : List JRule
  pending : List String := []      -- series of removed rules, to be marked stale at the next evaluation
  tolerated : List String := []    -- series of kept rules that share name+labels with a removed rule
  qoff : Int
  limit : Int
  conc : Bool
  fast : Bool

structure JSt where
  groups : List (String × JGroup) := []
  written : List String := []      -- every sample the storage accepted: "lbls t bits"

def parseJRule (s : String) : Option JRule :=
  match s.splitOn "/" with
  | [n, rl, sels] => some { name := n, rlabels := parseLabels rl, sels := sels.splitOn "+" }
  | _ => none

/-- First unused old index with the same name and labels. -/
def jTake (key : String) : List (Nat × JRule) → Option (Nat × JRule) × List (Nat × JRule)
  | [] => (none, [])
  | x :: rest => if x.2.key = key then (some x, rest) else
      let (m, r) := jTake key rest; (m, x :: r)

def jReload (old : JGroup) (rules : List JRule) : List JRule × List String × List String :=
  let olds := (List.range old.rules.length).zip old.rules
  let (rules', left, used) := rules.foldl (fun (acc : List JRule × List (Nat × JRule) × List JRule) r =>
      match jTake r.key acc.2.1 with
      | (some (_, o), rest) => (acc.1 ++ [{ r with prev := o.prev }], rest, acc.2.2 ++ [o])
      | (none, rest) => (acc.1 ++ [r], rest, acc.2.2)) ([], olds, [])
  let pending := old.pending ++ left.flatMap (·.2.prev)
  let leftKeys := left.map (·.2.key)
  let tolerated := old.tolerated ++ (used.filter fun o => leftKeys.contains o.key).flatMap (·.prev)
  (rules', pending, tolerated)

def parseBatches (s : String) : Option (List (List Nat)) :=
  (s.splitOn "/").mapM fun b => (b.splitOn ",").mapM (·.toNat?)

def batchIndex (bs : List (List Nat)) (i : Nat) : Option Nat :=
  (List.range bs.length).find? fun k => (bs.getD k []).contains i

/-- `dependency_sound` evaluated on reported batches. -/
def judgeBatches (rules : List JRule) (bs : List (List Nat)) : Option String :=
  let n := rules.length
  let flat := bs.flatten
  if (List.range n).any (fun i => flat.count i ≠ 1) || flat.length ≠ n then some "violation batches-not-a-partition" else
  let bad := (List.range n).flatMap fun j => (List.range j).filterMap fun i =>
    match rules[i]?, rules[j]? with
    | some ri, some rj =>
      if rj.refs ri.name then
        match batchIndex bs i, batchIndex bs j with
        | some bi, some bj => if bi < bj then none else some s!"{j}-not-after-{i}"
        | _, _ => some s!"{j}-{i}-missing"
      else none
    | _, _ => none
  match bad with
  | [] => none
  | b :: _ => some s!"violation dependency-batch {b}"

/-- One `r<i>=status:results:markers` token. -/
structure ROut where
  status : String
  results : List (String × String × String × String)   -- lbls, t, bits, err
  markers : List (String × String × String)            -- lbls, t, err

def parseItems (s : String) : List (List String) :=
  if s = "-" then [] else (s.splitOn ";").map (·.splitOn "@")

def parseROut (tok : String) : Option ROut :=
  match (tok.splitOn "=").drop 1 with
  | [] => none
  | rest =>
    match ("=".intercalate rest).splitOn ":" with
    | [st, res, mk] => do
      let rs ← (parseItems res).mapM fun | [l, t, b, e] => some (l, t, b, e) | _ => none
      let ms ← (parseItems mk).mapM fun | [l, t, e] => some (l, t, e) | _ => none
      pure { status := st, results := rs, markers := ms }
    | _ => none

def nameOf (lbls : String) : String := lget "__name__" (parseLabels lbls)

/-- Judge one rule of one evaluation. Returns the rule with its new `prev`, the accepted writes, or a violation. -/
def judgeRule (k i : Nat) (g : JGroup) (r : JRule) (t : Int) (script : Query) (o : ROut)
    (earlier : List (Nat × JRule × ROut)) : Except String (JRule × List String) :=
  let tS := toString t
  let fail := fun (sig det : String) => Except.error s!"violation {sig} op={k} rule={i} {det}"
  let failedOk := fun (want : String) =>
    if o.status ≠ want then fail "error-class" s!"expected={want} got={o.status}"
    else if !o.results.isEmpty || !o.markers.isEmpty then fail "failed-eval-wrote" s!"status={o.status}"
    else Except.ok (r, [])
  let okCase := fun (_ : Unit) =>
    -- staleness markers: exactly the series of the last successful evaluation that were not written now
    let cur := (o.results.filter (·.2.2.2 = "ok")).map (·.1)
    let wantM := sortStrings ((r.prev.filter fun l => !cur.contains l).map fun l => s!"{l}@{tS}")
    let gotM := sortStrings (o.markers.map fun (l, t, _) => s!"{l}@{t}")
    if wantM ≠ gotM then
      fail "stale-markers" s!"expected={";".intercalate wantM} got={";".intercalate gotM}"
    else
      let w := (o.results.filter (·.2.2.2 = "ok")).map (fun (l, t, b, _) => s!"{l} {t} {b}") ++
        (o.markers.filter (·.2.2 = "ok")).map (fun (l, t, _) => s!"{l} {t} 7ff0000000000002")
      Except.ok ({ r with prev := cur }, w)
  match script with
  | .err => failedOk "qerr"
  | .vec v =>
    let want := v.map fun (m, b) => (docLabels r.name r.rlabels m, hexOfNat b 16)
    if hasDupS (want.map (·.1)) then failedOk "dup"
    else if g.limit > 0 ∧ (want.length : Int) > g.limit then failedOk "limit"
    else if o.status ≠ "ok" then fail "error-class" s!"expected=ok got={o.status}"
    else
      let wantS := sortStrings (want.map fun (l, b) => s!"{l}@{tS}@{b}")
      let gotS := sortStrings (o.results.map fun (l, t, b, _) => s!"{l}@{t}@{b}")
      if wantS ≠ gotS then fail "stored-result" s!"expected={";".intercalate wantS} got={";".intercalate gotS}"
      else okCase ()
  | .engine =>
    if o.status ≠ "ok" then
      if o.status = "dup" ∨ o.status = "limit" then failedOk o.status else fail "error-class" s!"expected=ok got={o.status}"
    else if o.results.any (fun (_, t, _, _) => t ≠ tS) then fail "stored-result" "wrong-time"
    else
      -- a rule selecting exactly an earlier rule's metric name sees that rule's samples of this evaluation
      let missing := match r.sels with
        | [sel] =>
          if sel.startsWith "=" ∧ !(sel.contains '&') then
            let n := (sel.drop 1).toString
            earlier.flatMap fun (x : Nat × JRule × ROut) =>
              (x.2.2.results.filter fun (y : String × String × String × String) => y.2.2.2 = "ok" ∧ nameOf y.1 = n).filterMap
                fun (y : String × String × String × String) =>
                  let want := docLabels r.name r.rlabels (parseLabels y.1)
                  if o.results.any (fun z => z.1 = want ∧ z.2.2.1 = y.2.2.1) then none else some s!"{y.1}->{want}"
          else []
        | _ => []
      match missing with
      | m :: _ => fail "in-order-visibility" s!"missing={m}"
      | [] => okCase ()

/-- Compare the markers written for removed rules/groups with the expected multiset. -/
def judgeCleanup (k : Nat) (what : String) (expected tolerated : List String) (got : List (String × String × String))
    (tS : String) (live : List String) : Except String (List String) :=
  match got.find? (fun (_, t, _) => t ≠ tS) with
  | some (l, t, _) => .error s!"violation cleanup-time op={k} series={l} t={t}"
  | none =>
    let gotL := got.map (·.1)
    let missing := msub expected gotL
    let extra := msub gotL expected
    match missing, extra.find? (fun l => !tolerated.contains l) with
    | m :: _, _ => .error s!"violation {what}-not-marked op={k} series={m}"
    | [], some l => .error s!"violation cleanup-extra op={k} series={l}"
    | [], none =>
      match got.find? (fun (l, _, e) => e = "ok" ∧ extra.contains l ∧ live.contains l) with
      | some (l, _, _) => .error s!"violation stale-kept-duplicate op={k} series={l}"
      | none => .ok ((got.filter (·.2.2 = "ok")).map fun (l, t, _) => s!"{l} {t} 7ff0000000000002")

def parseMarkers (tok : String) : Option (List (String × String × String)) :=
  (parseItems (tok.drop 2).toString).mapM fun | [l, t, e] => some (l, t, e) | _ => none

def JSt.set (j : JSt) (gid : String) (g : JGroup) : JSt :=
  { j with groups := (gid, g) :: j.groups.filter (·.1 ≠ gid) }

def judgeEval (k : Nat) (j : JSt) (gid : String) (g : JGroup) (ts : Int) (scripts : List Query) (out : String) :
    Except String JSt := do
  let toks := out.splitOn " "
  let ord := toks.headD ""
  if ord ≠ "ord=ok" then
    throw (if (ord.splitOn "-before-").length > 1 then s!"violation eval-order op={k} {ord}" else s!"violation anomaly op={k} {ord}")
  let n := g.rules.length
  if toks.length ≠ n + 2 then throw s!"violation unparsable op={k}"
  let t := (ts - g.qoff) / 1000000
  let mut rules : List JRule := []
  let mut earlier : List (Nat × JRule × ROut) := []
  let mut written := j.written
  for i in List.range n do
    match g.rules[i]?, parseROut (toks.getD (i + 1) "") with
    | some r, some o =>
      let vis := if g.conc then earlier.filter (fun (_, er, _) => r.refs er.name) else earlier
      let (r', w) ← judgeRule k i g r t (scripts.getD i .err) o vis
      rules := rules ++ [r']
      written := written ++ w
      earlier := earlier ++ [(i, r, o)]
    | _, _ => throw s!"violation unparsable op={k} rule={i}"
  let cl ← match parseMarkers (toks.getD (n + 1) "") with
    | some c => pure c
    | none => throw s!"violation unparsable op={k} cleanup"
  let live := rules.flatMap (·.prev)
  let w ← judgeCleanup k "removed-rule" g.pending g.tolerated cl (toString t) live
  pure ({ j with written := written ++ w }.set gid { g with rules := rules, pending := [], tolerated := [] })

def dedup (xs : List String) : List String :=
  xs.foldl (fun acc x => if acc.contains x then acc else acc ++ [x]) []

def judgeDump (k : Nat) (written : List String) (out : String) : Option String :=
  let stored := if out = "-" then [] else
    (out.splitOn "|").flatMap fun line =>
      match line.splitOn ":" with
      | [l, pts] => (pts.splitOn ",").map fun p => match p.splitOn "@" with | [t, b] => s!"{l} {t} {b}" | _ => "?"
      | _ => ["?"]
  let want := sortStrings (dedup written)
  let got := sortStrings stored
  if want = got then none else
    match want.find? (fun x => !got.contains x), got.find? (fun x => !want.contains x) with
    | some x, _ => some s!"violation storage-mismatch op={k} missing={x}"
    | none, some x => some s!"violation storage-mismatch op={k} unexpected={x}"
    | none, none => some s!"violation storage-mismatch op={k} multiplicity"

def judge (ops outs : List String) : String :=
  let rec go (j : JSt) (ops outs : List String) (k : Nat) : String :=
    match ops, outs with
    | op :: ops, out :: outs =>
      if out.startsWith "panic" then s!"violation panic op={k}" else
      match op.splitOn " " with
      | ["load", gid, qoff, limit, conc, fast, rules] =>
        match qoff.toInt?, limit.toInt?, (if rules = "-" then some [] else (rules.splitOn "|").mapM parseJRule) with
        | some qoff, some limit, some rs =>
          let (rs', pending, tolerated) := match j.groups.lookup gid with
            | some old => jReload old rs
            | none => (rs, [], [])
          let g : JGroup := { rules := rs', pending := pending, tolerated := tolerated, qoff := qoff, limit := limit,
                              conc := conc = "1", fast := fast = "1" }
          let v := if out = "seq" then none else
            match parseBatches (out.drop 8).toString with
            | some bs => if !g.conc then some s!"violation batches-in-sequential-mode op={k}" else judgeBatches rs' bs
            | none => some s!"violation unparsable op={k}"
          match v with
          | some v => v
          | none => go (j.set gid g) ops outs (k + 1)
        | _, _, _ => "ok"
      | ["eval", gid, ts, scripts] =>
        match j.groups.lookup gid, ts.toInt?, parseScripts scripts with
        | some g, some ts, some scripts =>
          match judgeEval k j gid g ts scripts out with
          | .error v => v
          | .ok j' => go j' ops outs (k + 1)
        | _, _, _ => go j ops outs (k + 1)
      | ["remove", gid] =>
        match j.groups.lookup gid with
        | none => go j ops outs (k + 1)
        | some g =>
          match parseMarkers out with
          | none => s!"violation unparsable op={k}"
          | some cl =>
            let expected := g.pending ++ g.rules.flatMap (·.prev)
            if !g.fast ∧ !expected.isEmpty ∧ cl.isEmpty then
              s!"violation removed-group-not-marked op={k} before-first-tick series={expected.headD ""}"
            else
              match judgeCleanup k "removed-group" expected g.tolerated cl "now" [] with
              | .error v => v
              | .ok w => go { j with groups := j.groups.filter (·.1 ≠ gid), written := j.written ++ w } ops outs (k + 1)
      | ["put", t, vec] =>
        match parseVec vec with
        | some v =>
          let errs := if out = "-" then [] else out.splitOn ","
          let w := (v.zip errs).filterMap fun ((l, b), e) =>
            if e = "ok" then some s!"{showLabels (sortPairs (l.filter (·.2 ≠ "")))} {t} {hexOfNat b 16}" else none
          go { j with written := j.written ++ w } ops outs (k + 1)
        | none => "ok"
      | ["dump"] =>
        match judgeDump k j.written out with
        | some v => v
        | none => go j ops outs (k + 1)
      | _ => "ok"
    | _, _ => "ok"
  go {} ops outs 0

def suite : Suite := { name := "recrule", model := model, judge := judge }

end Prom.Recording.Suite
