import PromModel.Prelude.Line
import PromModel.Tsdb.ChunkXor2
/-
  Suite `chunk2` (property C10): XOR2 float chunks (`tsdb/chunkenc/xor2.go`), with and without start
  timestamps, return exactly what was appended.

  ops:  `new xor2`              fresh `NewEmptyChunk(EncXOR2)` + `Appender()`                → `ok`
        `app <st> <t> <v16hex>` `app.Append(st, t, float64frombits(v))`                      → `ok` | `panic`
        `bytes`                 `chunk.Bytes()`                                              → hex
        `n`                     `chunk.NumSamples()`                                         → decimal
        `iter`                  fresh iterator, `Next` until `ValNone`                       → `ok|err n=<k> t:v:st,…`
        `reopen`                `FromData(EncXOR2, copy(Bytes()))` + `Appender()`            → `ok` | `err`
        `reopenpool`            `pool.Put(chunk); pool.Get(EncXOR2, copy(Bytes()))` + `Appender()` → `ok` | `err`
        `it`                    new iterator on the current bytes                            → `ok`
        `itreuse`               `chunk.Iterator(oldIterator)` (object reuse through `Reset`) → `ok`
        `next` / `seek <t>`     on that iterator                                             → `<t>:<v16hex>:<st>` | `none` | `err`

  `model` runs the transcription `PromModel/Tsdb/ChunkXor2.lean` (byte-exact tie: `bytes`, and every iterator
  observation).  The judge below is the property statement evaluated on the implementation's observations
  only: it knows nothing about the encoding.
-/
namespace Prom.Chunk2Suite
open Prom.Bits

/-! ### Model side -/

structure S where
  chunk : ChunkXor2.Chunk := ChunkXor2.Chunk.empty
  it : Option ChunkXor2.Iter := none

def showDec (d : ChunkXor2.Dec) : String := s!"{d.t}:{hexOfNat d.val 16}:{d.st}"

def showIterRes (r : ChunkXor2.Iter × Bool) : String :=
  if r.2 then showDec r.1.st else if r.1.err then "err" else "none"

def stepModel (s : S) (line : String) : S × String :=
  match toks line with
  | ["new", "xor2"] => ({}, "ok")
  | ["app", st, t, v] =>
    match st.toInt?, t.toInt?, natOfHex? v with
    | some st, some t, some v =>
      match s.chunk.append st t v with
      | .ok c => ({ s with chunk := c }, "ok")
      | .error _ => (s, "panic")
    | _, _, _ => (s, "bad-op")
  | ["bytes"] => (s, hexOfByteList s.chunk.bytes)
  | ["n"] => (s, toString s.chunk.num)
  | ["iter"] =>
    let r := ChunkXor2.decodeChunk s.chunk.bytes
    let l := if r.1.isEmpty then "-" else ",".intercalate (r.1.map fun x => s!"{x.2.1}:{hexOfNat x.2.2 16}:{x.1}")
    (s, s!"{if r.2 then "ok" else "err"} n={r.1.length} {l}")
  | ["reopen"] | ["reopenpool"] =>
    match ChunkXor2.reopen s.chunk.bytes with
    | some c => ({ s with chunk := c }, "ok")
    | none => (s, "err")
  | ["it"] | ["itreuse"] => ({ s with it := some (ChunkXor2.iterNew s.chunk.bytes) }, "ok")
  | ["next"] =>
    match s.it with
    | none => (s, "bad-op")
    | some it => let r := ChunkXor2.iterNext it; ({ s with it := some r.1 }, showIterRes r)
  | ["seek", t] =>
    match s.it, t.toInt? with
    | some it, some t => let r := ChunkXor2.iterSeek it t; ({ s with it := some r.1 }, showIterRes r)
    | _, _ => (s, "bad-op")
  | _ => (s, "bad-op")

def model (ops : List String) : List String :=
  let rec go (st : S) : List String → List String
    | [] => []
    | l :: rest => let (st', o) := stepModel st l; o :: go st' rest
  go {} ops

/-! ### Judge side -/

/-- (timestamp, value bits, start timestamp) -/
abbrev Sample3 := Int × Nat × Int

def showSample (s : Sample3) : String := s!"{s.1}:{hexOfNat s.2.1 16}:{s.2.2}"

def showSamples (xs : List Sample3) : String :=
  if xs.isEmpty then "-" else ",".intercalate (xs.map showSample)

def twoPow62 : Int := 4611686018427387904

/-- The hypotheses of the statement: strictly increasing timestamps within ±2^62 (start timestamps: any). -/
def inStatement : List Sample3 → Bool
  | [] => true
  | [(t, _)] => decide (-twoPow62 ≤ t ∧ t ≤ twoPow62)
  | (t, _) :: (t', v') :: rest => decide (-twoPow62 ≤ t ∧ t < t') && inStatement ((t', v') :: rest)

/-- Reference cursor over the appended list: `k` samples consumed, `cur` = last returned sample. -/
structure Cursor where
  ys : List Sample3
  k : Nat
  cur : Option Sample3

def Cursor.next (c : Cursor) : Cursor × Option Sample3 :=
  match c.ys[c.k]? with
  | some s => ({ c with k := c.k + 1, cur := some s }, some s)
  | none => (c, none)

def Cursor.scan (c : Cursor) (t : Int) : Cursor × Option Sample3 :=
  match (c.ys.drop c.k).findIdx? (fun y => decide (y.1 ≥ t)) with
  | some j => ({ c with k := c.k + j + 1, cur := c.ys[c.k + j]? }, c.ys[c.k + j]?)
  | none => ({ c with k := c.ys.length, cur := if c.ys.isEmpty then c.cur else c.ys.getLast? }, none)

/-- First sample at or after the cursor with timestamp ≥ t (the current sample counts if it qualifies). -/
def Cursor.seek (c : Cursor) (t : Int) : Cursor × Option Sample3 :=
  match c.cur with
  | some s => if c.k ≠ 0 ∧ t ≤ s.1 then (c, some s) else c.scan t
  | none => c.scan t

structure J where
  xs : List Sample3 := []         -- appended so far (reversed)
  reopenAt : Option Nat := none   -- number of samples at the first reopen that was followed by an append
  pendingReopen : Option Nat := none
  cur : Option Cursor := none

def firstDiff (a b : List String) : Nat :=
  let rec go (a b : List String) (i : Nat) : Nat :=
    match a, b with
    | x :: a, y :: b => if x = y then go a b (i + 1) else i
    | _, _ => i
  go a b 0

def showOpt (o : Option Sample3) : String := match o with | some s => showSample s | none => "none"

def staleNaN : Nat := 0x7ff0000000000002

/-- What differs between the wanted and the returned sample text `t:v:st`. -/
def fieldDiff (want : Option Sample3) (got : String) : String :=
  match want with
  | none => "extra"
  | some w =>
    match got.splitOn ":" with
    | [t, v, st] =>
      let a := if t = toString w.1 then "" else "t"
      let b := if v = hexOfNat w.2.1 16 then "" else "v"
      let c := if st = toString w.2.2 then "" else "st"
      let s := a ++ b ++ c
      if s = "" then "none" else s
    | _ => "missing"

/-- Signature of a mismatch whose first wrong sample has index `bad`: `resume` when that sample was written
    (or would be read) after an `Appender()` resumed on reloaded bytes, otherwise `other`. -/
def sigPos (j : J) (bad : Nat) (other : String) : String :=
  match j.reopenAt with
  | some p =>
    if bad ≥ p then
      let lastStale : Bool := match j.xs.reverse[p - 1]? with | some s => decide (s.2.1 = staleNaN) | none => false
      s!"resume enc=xor2 reopen-at={p} last-before-reopen-stale={lastStale}"
    else s!"{other} enc=xor2"
  | none => s!"{other} enc=xor2"

/-- The statement as an oracle over (op, observed output) pairs. -/
def judgePairs (ps : List (String × String)) : String :=
  let rec go (j : J) (ps : List (String × String)) (k : Nat) : String :=
    match ps with
    | [] => "ok"
    | (op, out) :: ps =>
      match toks op with
      | ["new", _] => if out = "ok" then go {} ps (k + 1) else s!"violation new-failed enc=xor2 op={k} out={out}"
      | ["app", st, t, v] =>
        match st.toInt?, t.toInt?, natOfHex? v with
        | some st, some t, some v =>
          if out = "ok" then
            let j := { j with xs := (t, v, st) :: j.xs }
            let j := match j.pendingReopen, j.reopenAt with
              | some p, none => { j with reopenAt := some p, pendingReopen := none }
              | _, _ => j
            go j ps (k + 1)
          else if j.xs.length < 65535 then s!"violation append-failed enc=xor2 op={k} out={out}"
          else go j ps (k + 1)
        | _, _, _ => "ok"
      | ["bytes"] => if out = "panic" then s!"violation bytes-panic enc=xor2 op={k}" else go j ps (k + 1)
      | ["n"] =>
        if out = toString j.xs.length then go j ps (k + 1)
        else s!"violation num-samples enc=xor2 op={k} want={j.xs.length} got={out}"
      | [r] =>
        if r = "reopen" ∨ r = "reopenpool" then
          if out = "ok" then go { j with pendingReopen := some j.xs.length } ps (k + 1)
          else if inStatement j.xs.reverse then s!"violation reopen-failed enc=xor2 op={k} how={r} n={j.xs.length} out={out}"
          else "ok"
        else if r = "iter" then
          let want := j.xs.reverse
          if !inStatement want then "ok" -- outside the statement's hypotheses: not judged
          else
            let wantS := s!"ok n={want.length} {showSamples want}"
            if out = wantS then go j ps (k + 1)
            else
              let got := match toks out with | [_, _, l] => if l = "-" then [] else l.splitOn "," | _ => []
              let bad := firstDiff (want.map showSample) got
              let g := got[bad]?.getD "none"
              s!"violation {sigPos j bad "iter-mismatch"} op={k} n={want.length} first-bad={bad} field={fieldDiff want[bad]? g} want={showOpt want[bad]?} got={g} status={(toks out).headD "?"}"
        else if r = "it" ∨ r = "itreuse" then
          if out = "ok" then go { j with cur := some ⟨j.xs.reverse, 0, none⟩ } ps (k + 1)
          else s!"violation iterator-failed enc=xor2 op={k} how={r} out={out}"
        else if r = "next" then
          match j.cur with
          | none => "ok"
          | some c =>
            if !inStatement c.ys then "ok" else
            let (c', w) := c.next
            if out = showOpt w then go { j with cur := some c' } ps (k + 1)
            else s!"violation {sigPos j c.k "next-mismatch"} op={k} pos={c.k} field={fieldDiff w out} want={showOpt w} got={out}"
        else "ok"
      | ["seek", t] =>
        match j.cur, t.toInt? with
        | some c, some t =>
          if !inStatement c.ys then "ok" else
          let (c', w) := c.seek t
          if out = showOpt w then go { j with cur := some c' } ps (k + 1)
          else s!"violation {sigPos j (if w.isNone then c.ys.length else c'.k - 1) "seek-not-first-geq"} op={k} pos={c.k} t={t} field={fieldDiff w out} want={showOpt w} got={out}"
        | _, _ => "ok"
      | _ => "ok"
  go {} ps 0

def splitObs (l : String) : String × String :=
  match l.splitOn " | " with
  | [a, b] => (a, b)
  | a :: rest => (a, " | ".intercalate rest)
  | [] => ("", "")

/-- Judge-only form: the observations travel in the op lines (`op | out`), the output columns are `-`. -/
def judgeObs (ops _outs : List String) : String := judgePairs (ops.map splitObs)

/-- Differential form: op lines and the implementation's output lines. -/
def judge (ops outs : List String) : String := judgePairs (ops.zip outs)

def suite : Suite := { name := "chunk2", model := model, judge := judge }

end Prom.Chunk2Suite
