import PromModel.Promql.LimitRatio
/-
  Suite `limitratio` (property C34).
  ops:  `pair <r16> <o16>`                      → `<rc16|nan> <a> <b>`   rc = r ⊖ 1, a = sel(r,o), b = sel(rc,o)
        `vec <r16> <lbls>:<hash16>:<val16> …`   → `off=<o16,…> A=<idx,…|-> B=<idx,…|->`
           A / B: sorted indexes of the input series selected by `limit_ratio(r, v)` / `limit_ratio(r - 1, v)`.
  Floats travel as 16-hex-digit IEEE bit patterns and are decoded to exact rationals.
-/
namespace Prom.LimitRatio

def hex16 (n : Nat) : String := hexOfNat n 16

def parseF? (s : String) : Option F64 :=
  if s.length = 16 then (natOfHex? s).map decode else none

def showF (x : F64) : String :=
  match encode x with
  | some n => hex16 n
  | none => "nan"

def b01 (b : Bool) : String := if b then "1" else "0"

def showIdx (xs : List Nat) : String :=
  if xs.isEmpty then "-" else ",".intercalate (xs.map toString)

/-- One input series of a `vec` op: opaque label token, label hash. -/
structure Ser where
  lbls : String
  hash : Nat

def parseSer? (t : String) : Option Ser :=
  match t.splitOn ":" with
  | [l, h, _v] => (natOfHex? h).map fun h => ⟨l, h⟩
  | _ => none

def idxWhere (p : Ser → Bool) (ss : List Ser) : List Nat :=
  (ss.zipIdx.filter fun (s, _) => p s).map (·.2)

/-- `limit_ratio(f, v)` on the series list, for an arbitrary binary64 parameter (`none` = query error). -/
def engineSelectsX (f : F64) (hash : Nat) : Option Bool :=
  match f with
  | .nan => none
  | .inf neg => some (selF (if neg then -1 else 1) (offsetF hash))
  | .fin v => some (engineSelects v hash)

def modelVec (r : F64) (ss : List Ser) : String :=
  match r with
  | .nan => "err exec"
  | _ =>
    let rc := F64.sub1 r
    let offs := ss.map fun s => hex16 (encodeFin (offsetF s.hash))
    let a := idxWhere (fun s => (engineSelectsX r s.hash).getD false) ss
    let b := idxWhere (fun s => (engineSelectsX rc s.hash).getD false) ss
    s!"off={",".intercalate offs} A={showIdx a} B={showIdx b}"

def modelLine (line : String) : String :=
  match toks line with
  | ["pair", rs, os] =>
    match parseF? rs, parseF? os with
    | some r, some o =>
      let rc := F64.sub1 r
      s!"{showF rc} {b01 (selX r o)} {b01 (selX rc o)}"
    | _, _ => "err bad-op"
  | "vec" :: rs :: sers =>
    match parseF? rs, sers.mapM parseSer? with
    | some r, some ss => if ss.isEmpty then "err bad-op" else modelVec r ss
    | _, _ => "err bad-op"
  | _ => "err bad-op"

def model (ops : List String) : List String := ops.map modelLine

/-! ## Judge: the statement of C34 evaluated on the implementation's outputs -/

/-- Is `(r, o)` inside the statement's domain: a ratio in [0,1] and an offset in [0,1]? -/
def inDomain (r o : Rat) : Bool := decide (0 ≤ r) && decide (r ≤ 1) && decide (0 ≤ o) && decide (o ≤ 1)

/-- The partition clause for one (ratio, offset): selected by exactly one of `r`, `r - 1`. -/
def partitionOk (a b : Bool) : Bool := a != b

/-- Classify a failed partition clause. The two listed kinds are exactly the places where the
    *specified* formula, evaluated in binary64, cannot be a partition (finding F3):
    `rounding-gap`: `o` lies between `r` and `1 ⊕ (r ⊖ 1)`; `offset-one`: `r = 1`, `o = 1.0`. -/
def classify (r o : Rat) (a b : Bool) : String :=
  let t := boundaryF r
  if a && b && decide (t ≤ o) && decide (o < r) then "kind=rounding-gap sel=both"
  else if !a && !b && decide (r ≤ o) && decide (o < t) then "kind=rounding-gap sel=neither"
  else if !a && !b && decide (r = 1) && decide (o = 1) then "kind=offset-one sel=neither"
  else s!"kind=other sel={if a && b then "both" else if !a && !b then "neither" else "one"}"

def ulpDist (r o : Rat) : Nat :=
  let x := encodeFin r; let y := encodeFin o
  if x ≤ y then y - x else x - y

def notPartition (r o : Rat) (a b : Bool) (k : Nat) (extra : String) : String :=
  s!"violation not-partition {classify r o a b} r={hex16 (encodeFin r)} o={hex16 (encodeFin o)} ulps={ulpDist r o} op={k}{extra}"

def isKnownKind (v : String) : Bool :=
  v.startsWith "violation not-partition kind=rounding-gap" || v.startsWith "violation not-partition kind=offset-one"

def parseIdx? (s : String) : Option (List String) :=
  if s = "-" then some [] else some (s.splitOn ",")

/-- An observation `(key, r, a)`: "under ratio `r ≥ 0` the sample identified by `key` was selected: `a`". -/
abbrev Obs := String × Rat × Bool

/-- Monotone / depends-only-on-labels clause over all observations of a case:
    same key, `r₁ ≤ r₂`, selected under `r₁` ⇒ selected under `r₂`. -/
def monotoneViolation (obs : List Obs) : Option String :=
  obs.findSome? fun (k1, r1, a1) =>
    obs.findSome? fun (k2, r2, a2) =>
      if k1 = k2 && decide (r1 ≤ r2) && a1 && !a2 then
        some s!"violation monotone key={k1} r1={hex16 (encodeFin r1)} r2={hex16 (encodeFin r2)}"
      else none

/-- Judge one op; returns violations found and observations for the cross-op clauses. -/
def judgeOp (k : Nat) (op out : String) : List String × List Obs :=
  match toks op with
  | ["pair", rs, os] =>
    match parseF? rs, parseF? os with
    | some (.fin r), some (.fin o) =>
      if !inDomain r o then ([], []) else
      match toks out with
      | [_rc, sa, sb] =>
        if (sa = "0" || sa = "1") && (sb = "0" || sb = "1") then
          let a := sa = "1"; let b := sb = "1"
          ((if partitionOk a b then [] else [notPartition r o a b k ""]), [("o=" ++ os, r, a)])
        else ([s!"violation unparsable op={k}"], [])
      | _ => ([s!"violation unparsable op={k} out={out}"], [])
    | _, _ => ([], [])
  | "vec" :: rs :: sers =>
    match parseF? rs, sers.mapM parseSer? with
    | some (.fin r), some ss =>
      if !(decide (0 ≤ r) && decide (r ≤ 1)) then ([], []) else
      match toks out with
      | [offS, aS, bS] =>
        if !(offS.startsWith "off=" && aS.startsWith "A=" && bS.startsWith "B=") then ([s!"violation unparsable op={k}"], []) else
        let offs := ((offS.drop 4).toString.splitOn ",").map parseF?
        match parseIdx? (aS.drop 2).toString, parseIdx? (bS.drop 2).toString with
        | some as, some bs =>
          if as.contains "x" || bs.contains "x" then ([s!"violation foreign-series op={k}"], []) else
          let per := ss.zipIdx.map fun (s, i) =>
            let a := as.contains (toString i); let b := bs.contains (toString i)
            let v :=
              if partitionOk a b then [] else
              match offs[i]? with
              | some (some (.fin o)) => [notPartition r o a b k s!" series={s.lbls} via=query"]
              | _ => [s!"violation not-partition kind=other op={k} series={s.lbls} via=query"]
            (v, (("l=" ++ s.lbls, r, a) : Obs))
          let extra := (as ++ bs).filter fun t => match t.toNat? with
            | some i => decide (ss.length ≤ i)
            | none => true
          ((per.flatMap (·.1)) ++ (if extra.isEmpty then [] else [s!"violation foreign-series op={k} idx={extra}"]), per.map (·.2))
        | _, _ => ([s!"violation unparsable op={k}"], [])
      | _ => ([s!"violation unparsable op={k} out={out}"], [])
    | _, _ => ([], [])
  | _ => ([], [])

/--
  Statement-as-oracle for C34. For every ratio `r ∈ [0,1]` and every sample (offset in [0,1]):
  the sample is selected by exactly one of `limit_ratio(r)` and `limit_ratio(r - 1)` (partition);
  raising `r` never deselects a sample and the decision depends on the sample's labels/offset only
  (monotone over all observations of the case). A violation that is not one of the two listed
  binary64 kinds is reported first.
-/
def judge (ops outs : List String) : String :=
  let rs := (ops.zip outs).zipIdx.map fun ((op, out), k) => judgeOp k op out
  let viols := rs.flatMap (·.1)
  let obs := rs.flatMap (·.2)
  let viols := viols ++ (monotoneViolation obs).toList
  match viols.find? (fun v => !isKnownKind v) with
  | some v => v
  | none => viols.headD "ok"

def suite : Suite := { name := "limitratio", model := model, judge := judge }

end Prom.LimitRatio
