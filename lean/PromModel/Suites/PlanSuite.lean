import PromModel.Tsdb.CompactPlan
/-
  Suite `plan` (property C08).
  ops:  cfg <overlapping 0|1> <ranges csv>
        blk <mint> <maxt> <level> <failed> <deletable> <numSeries> <numTombstones> <hints> <sources csv|->
        plan | plandir | merge <idx csv|-> | converge
  out:  see harness/suites/plan/main.go
-/
namespace Prom.CompactPlan

structure St where
  cfg : Option Cfg := none
  metas : List Meta := []

def b01 (b : Bool) : String := if b then "1" else "0"

def parseBool? (s : String) : Option Bool := if s = "1" then some true else if s = "0" then some false else none

def parseNatList? (s : String) : Option (List Nat) :=
  if s = "-" then some [] else (s.splitOn ",").mapM parseNat?

def showNatList (xs : List Nat) : String := if xs.isEmpty then "-" else ",".intercalate (xs.map toString)

def hintStr (m : Meta) : String :=
  let s := (if m.ooo then "o" else "") ++ (if m.selected then "e" else "") ++ (if m.stale then "s" else "")
  if s.isEmpty then "-" else s

def parseBlk? (id : Nat) : List String → Option Meta
  | [mint, maxt, level, failed, del, ns, nt, hints, srcs] => do
    let mint ← mint.toInt?
    let maxt ← maxt.toInt?
    let level ← level.toInt?
    let ns ← ns.toNat?
    let nt ← nt.toNat?
    let srcs ← parseNatList? srcs
    let hs := if hints = "-" then [] else hints.toList
    pure { id := id, mint := mint, maxt := maxt, level := level, failed := failed = "1", deletable := del = "1",
           numSeries := ns, numTombstones := nt, ooo := hs.contains 'o', stale := hs.contains 's',
           selected := hs.contains 'e', sources := srcs }
  | _ => none

def planOut (cfg : Cfg) (metas : List Meta) : String :=
  if cfg.ranges.isEmpty then "err" else
  match planMetas cfg metas with
  | .ok p => "ok " ++ showNatList (p.map (·.dir))
  | .error _ => "panic"

def mergeOut (st : St) (idx : List Nat) : String :=
  match compactBlockMetas st.metas.length (idx.map fun i => st.metas[i]?.getD default) with
  | .error _ => "panic"
  | .ok m =>
    let ps := m.parents.map fun (i, a, b) => s!"{i}:{a}:{b}"
    s!"ok {m.mint} {m.maxt} {m.level} {hintStr m} f={b01 m.failed} d={b01 m.deletable} ns={m.numSeries} nt={m.numTombstones} p={if ps.isEmpty then "-" else ",".intercalate ps} s={showNatList m.sources}"

def layoutStr (metas : List Meta) : String :=
  if metas.isEmpty then "-" else
  ";".intercalate (metas.map fun m => s!"{m.mint}:{m.maxt}:{m.level}:{m.numSeries}:{m.numTombstones}:{hintStr m}")

def convergeOut (cfg : Cfg) (metas : List Meta) : String :=
  if cfg.ranges.isEmpty then "panic" else
  match converge cfg (measure metas + 2) 0 metas with
  | .error _ => "panic"
  | .ok (steps, fin, done) => s!"ok steps={steps} done={b01 done} layout={layoutStr fin}"

def stepModel (st : St) (line : String) : St × String :=
  match toks line with
  | ["cfg", o, rs] =>
    match parseBool? o, parseIntList? rs with
    | some o, some rs => ({ st with cfg := some ⟨rs, o⟩ }, "ok")
    | _, _ => (st, "bad-op")
  | "blk" :: rest =>
    match parseBlk? st.metas.length rest with
    | some m => ({ st with metas := st.metas ++ [m] }, "ok")
    | none => (st, "bad-op")
  | ["plan"] => match st.cfg with | some cfg => (st, planOut cfg st.metas) | none => (st, "bad-op")
  | ["plandir"] => match st.cfg with | some cfg => (st, planOut cfg st.metas) | none => (st, "bad-op")
  | ["merge", is] =>
    match parseNatList? is with
    | some idx => if idx.all (· < st.metas.length) then (st, mergeOut st idx) else (st, "bad-op")
    | none => (st, "bad-op")
  | ["converge"] => match st.cfg with | some cfg => (st, convergeOut cfg st.metas) | none => (st, "bad-op")
  | _ => (st, "bad-op")

def model (ops : List String) : List String :=
  let rec go (st : St) : List String → List String
    | [] => []
    | l :: rest => let (st', o) := stepModel st l; o :: go st' rest
  go {} ops

/-! ### judge: the statement of C08 evaluated on the implementation's outputs -/

/-- the planned blocks as (dir, meta) pairs; `none` if an index is out of range -/
def dirsOf (metas : List Meta) (idx : List Nat) : Option (List DirMeta) :=
  idx.mapM fun i => (metas[i]?).map fun m => (⟨i, m⟩ : DirMeta)

/-- which clause of `PlanAllowed` fails (for the verdict signature) -/
def planVerdict (cfg : Cfg) (metas : List Meta) (idx : List Nat) : Option String :=
  match dirsOf metas idx with
  | none => some "plan-bad-index"
  | some p =>
    let dms := enum metas
    if decide (PlanAllowed cfg dms p) then none
    else if !decide ((p.map (·.dir)).Nodup) then some "plan-duplicate-block"
    else if !decide (OneClass p) then some "plan-mixes-classes"
    else if p.length = 1 then some "plan-single-block-without-tombstone-reason"
    else if p.any (fun d => d.bm.failed) ∧ ¬ ShapeOverlap cfg p then some "plan-includes-failed-block"
    else if ¬ cfg.overlapping ∧ ¬ (∃ iv ∈ cfg.ranges.tail, InRange iv p) then some "plan-not-within-one-range"
    else if ¬ ExcludesNewest dms p ∧ ¬ ShapeOverlap cfg p then some "plan-includes-newest-block"
    else some "plan-shape"

def parseMergeOut? (out : String) : Option Meta :=
  match toks out with
  | ["ok", mint, maxt, level, hints, _, _, _, _, _, _] => do
    let mint ← mint.toInt?
    let maxt ← maxt.toInt?
    let level ← level.toInt?
    let hs := hints.toList
    pure { id := 0, mint := mint, maxt := maxt, level := level, ooo := hs.contains 'o', stale := hs.contains 's',
           selected := hs.contains 'e' }
  | _ => none

def kv? (key : String) (ts : List String) : Option String :=
  (ts.find? (·.startsWith (key ++ "="))).map fun t => (t.drop (key.length + 1)).toString

def judgeOp (st : St) (k : Nat) (op out : String) : Option String :=
  match toks op, st.cfg with
  | ["plan"], some cfg | ["plandir"], some cfg =>
    -- outside the statement: configurations the planner divides by ≤ 0, malformed blocks
    if ¬ cfg.Ok ∨ ¬ (∀ m ∈ st.metas, m.WF) then none else
    match toks out with
    | ["ok", is] =>
      match parseNatList? is with
      | some idx => (planVerdict cfg st.metas idx).map fun sig =>
          s!"{sig} op={k} overlapping={b01 cfg.overlapping} ranges={showIntList cfg.ranges} blocks={layoutStr st.metas} plan={is}"
      | none => some s!"unparsable op={k}"
    | ["panic"] => some s!"plan-panic op={k} ranges={showIntList cfg.ranges} blocks={layoutStr st.metas}"
    | _ => some s!"plan-error op={k} out={out}"
  | ["merge", is], _ =>
    match parseNatList? is with
    | some idx =>
      if idx.isEmpty ∨ !idx.all (· < st.metas.length) then none else
      let inputs := idx.map fun i => st.metas[i]?.getD default
      match parseMergeOut? out with
      | none => some s!"merge-panic op={k} inputs={is} out={out}"
      | some m =>
        if ¬ MergeHintsOk inputs m then some s!"merge-hints op={k} inputs={layoutStr inputs} out={hintStr m}"
        else if ¬ MergeTimesOk inputs m then some s!"merge-times op={k} inputs={layoutStr inputs} out={m.mint}:{m.maxt}"
        else none
    | none => none
  | ["converge"], some cfg =>
    if ¬ cfg.Ok then none else
    let ts := toks out
    match ts.head?, (kv? "steps" ts).bind String.toNat?, kv? "done" ts with
    | some "ok", some n, some d =>
      if d ≠ "1" then some s!"no-convergence op={k} steps={n} bound={measure st.metas} blocks={layoutStr st.metas}"
      else if n > measure st.metas then some s!"convergence-bound op={k} steps={n} bound={measure st.metas} blocks={layoutStr st.metas}"
      else none
    | _, _, _ => some s!"converge-panic op={k} out={out}"
  | _, _ => none

def judge (ops outs : List String) : String :=
  let rec go (st : St) (ops outs : List String) (k : Nat) : String :=
    match ops, outs with
    | op :: ops, out :: outs =>
      match judgeOp st k op out with
      | some v => "violation " ++ v
      | none => go (stepModel st op).1 ops outs (k + 1)
    | _, _ => "ok"
  go {} ops outs 0

def suite : Suite := { name := "plan", model := model, judge := judge }

end Prom.CompactPlan
