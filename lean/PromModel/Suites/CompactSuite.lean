import PromModel.Prelude.Line
import PromModel.Tsdb.BlockPopulate
import PromModel.Suites.MergeSuite
import PromModel.Suites.IntervalsSuite
/-
  Suite `compact` (property C07).

  ops (one case = declarations, then exactly one `compact` or `write`):
    blk <mint> <maxt>                     a source block (index = order of declaration)                  → ok
    ser <blk> <labels> <chunks> <tombs>   a series of block <blk>, in postings (= label) order; chunks
                                          `mint/maxt/t:k:p,…|…` (meta range + samples), tombs `a:b,…`
                                          as `tombstones.Get` returns them                               → ok
    hs <labels> <samples>                 (head cases) the samples the harness appended to the head      → ok
    hd <labels> <mint> <maxt>             (head cases) a `Head.Delete` request on that series            → ok
    hopt <chunkRange> <0|1>               (head cases) head chunk range; m-map closed chunks before writing → ok
    compact <compact|concat>              `LeveledCompactor.Compact(dest, dirs, nil)` over all blocks    → result
    write <mint> <maxt>                   `LeveledCompactor.Write(dest, RangeHead, mint, maxt, nil)`;
                                          block 0 is then the head range as its index/chunk/tombstone
                                          readers show it (printed by the harness)                       → result
  result:
    block <series>/<chunks>/<samples>/<floats>/<hists> {<labels> <samples> <m/M/n/f/l,…>}*   meta.Stats, then
          per series (block querier order) the samples of `NewBlockQuerier` and, per chunk of
          `NewBlockChunkQuerier`, the meta range, `NumSamples()` and the first/last timestamp decoded from
          the chunk itself (`-` if it decodes to nothing)
    empty | err | panic

  The model reads `blk`/`ser` and the final op. The judge reads the ground truth: `blk`/`ser` for block
  cases, `hs`/`hd` for head cases (there the `ser` lines are an observation of the head, not the truth).
-/
namespace Prom.BlockPopulate
open Prom.Merge
open Prom.Intervals (Interval Intervals)

inductive Op
  | blk (mint maxt : Int)
  | ser (b : Nat) (s : Series)
  | hs (l : Labels) (xs : List Sample)
  | hd (l : Labels) (a b : Int)
  | compact (m : Merger)
  | write (mint maxt : Int)
  | nop
  | bad
deriving Repr, Inhabited

def parseOp (line : String) : Op :=
  match toks line with
  | ["blk", a, b] =>
    match a.toInt?, b.toInt? with
    | some a, some b => .blk a b
    | _, _ => .bad
  | ["ser", b, l, cs, ts] =>
    match b.toNat?, parseLabels? l, parseChunks? cs, Intervals.parseSet? ts with
    | some b, some l, some cs, some ts => .ser b ⟨l, cs.map Chunk.decode, ts⟩
    | _, _, _, _ => .bad
  | ["hs", l, xs] =>
    match parseLabels? l, parseSamples? xs with
    | some l, some xs => .hs l xs
    | _, _ => .bad
  | ["hd", l, a, b] =>
    match parseLabels? l, a.toInt?, b.toInt? with
    | some l, some a, some b => .hd l a b
    | _, _, _ => .bad
  | ["hopt", _, _] => .nop
  | ["compact", "compact"] => .compact .compact
  | ["compact", "concat"] => .compact .concat
  | ["write", a, b] =>
    match a.toInt?, b.toInt? with
    | some a, some b => .write a b
    | _, _ => .bad
  | _ => .bad

/-! ### model -/

def addSeries (blocks : List Block) (i : Nat) (s : Series) : List Block :=
  blocks.zipIdx.map fun (b, j) => if j = i then { b with series := b.series ++ [s] } else b

def showMeta (c : Chunk) : String :=
  s!"{c.mint}/{c.maxt}/{c.samples.length}/{showOptT c.samples.head?}/{showOptT c.samples.getLast?}"

/-- the samples a querier over the written series decodes (hints as the chunk iterators hand them out) -/
def csDecoded (s : CS) : List Sample := s.2.flatMap fun c => decodeView c.samples

def showMetas (cs : List Chunk) : String :=
  if cs.isEmpty then "-" else ",".intercalate (cs.map showMeta)

def renderResult : Result → String
  | .empty => "empty"
  | .err => "err"
  | .panic => "panic"
  | .block o =>
    let st := o.stats
    s!"block {st.numSeries}/{st.numChunks}/{st.numSamples}/{st.numFloat}/{st.numHist}" ++
      String.join (o.series.map fun s => s!" {showLabels s.1} {showSamples (csDecoded s)} {showMetas s.2}")

def runOps : List Block → List Op → List String
  | _, [] => []
  | bs, op :: rest =>
    match op with
    | .blk a b => "ok" :: runOps (bs ++ [⟨a, b, []⟩]) rest
    | .ser i s => "ok" :: runOps (addSeries bs i s) rest
    | .hs _ _ => "ok" :: runOps bs rest
    | .hd _ _ _ => "ok" :: runOps bs rest
    | .nop => "ok" :: runOps bs rest
    | .compact m => renderResult (compact m bs) :: runOps bs rest
    | .write a b =>
      (match bs with
       | [hb] => renderResult (write hb a b)
       | _ => "bad-op") :: runOps bs rest
    | .bad => "bad-op" :: runOps bs rest

def model (ops : List String) : List String := runOps [] (ops.map parseOp)

/-! ### the property statement as an oracle -/

structure OMeta where
  mint : Int
  maxt : Int
  n : Nat
  first : Option Int
  last : Option Int
deriving Repr, Inhabited

structure OSeries where
  labels : Labels
  samples : List Sample
  metas : List OMeta
deriving Repr, Inhabited

inductive Out
  | block (st : Stats) (ss : List OSeries)
  | empty
  | err
  | panic
  | bad
deriving Repr, Inhabited

def parseMeta? (s : String) : Option OMeta :=
  match s.splitOn "/" with
  | [a, b, c, f, l] => do pure ⟨← a.toInt?, ← b.toInt?, ← c.toNat?, ← parseOptT? f, ← parseOptT? l⟩
  | _ => none

def parseMetas? (s : String) : Option (List OMeta) :=
  if s = "-" then some [] else (s.splitOn ",").mapM parseMeta?

def parseOSeries : List String → Option (List OSeries)
  | [] => some []
  | l :: xs :: ms :: rest => do
    let l ← parseLabels? l
    let xs ← parseSamples? xs
    let ms ← parseMetas? ms
    let r ← parseOSeries rest
    pure (⟨l, xs, ms⟩ :: r)
  | _ => none

def parseOut (s : String) : Out :=
  match toks s with
  | ["empty"] => .empty
  | ["err"] => .err
  | ["panic"] => .panic
  | "block" :: st :: rest =>
    match (st.splitOn "/").mapM String.toNat?, parseOSeries rest with
    | some [a, b, c, d, e], some ss => .block ⟨a, b, c, d, e⟩ ss
    | _, _ => .bad
  | _ => .bad

/-- one input of the union: a label set with its undeleted in-range samples -/
abbrev Truth := List (Labels × List Sample)

def blockTruth (mint maxt : Int) (bs : List Block) : Truth :=
  bs.flatMap fun b => b.series.map fun s =>
    (s.labels, (s.chunks.flatMap (·.samples)).filter fun x =>
      decide (mint ≤ x.t) && decide (x.t ≤ maxt) && !Intervals.coversB s.tombs x.t)

def headTruth (mint maxt : Int) (ops : List Op) : Truth :=
  ops.filterMap fun
    | .hs l xs => some (l, xs.filter fun x =>
        decide (mint ≤ x.t) && decide (x.t ≤ maxt) &&
        !(ops.any fun | .hd l' a b => l' == l && decide (a ≤ x.t) && decide (x.t ≤ b) | _ => false))
    | _ => none

def sortDedupInts (xs : List Int) : List Int := (xs.mergeSort (· ≤ ·)).eraseDups

def leLabels (a b : Labels) : Bool := Labels.compare a b != .gt

/-- the label sets that have at least one sample, sorted, without repetition -/
def truthLabels (tr : Truth) : List Labels :=
  (((tr.filter fun p => !p.2.isEmpty).map (·.1)).mergeSort leLabels).eraseDups

def truthSamples (tr : Truth) (l : Labels) : List Sample :=
  (tr.filter fun p => p.1 == l).flatMap (·.2)

/-- split the sample list along the chunk sample counts and check each chunk's meta against its content -/
def checkChunks : List OMeta → List Sample → Option Int → Option String
  | [], [], _ => none
  | [], _ :: _, _ => some "chunk-counts-short"
  | ⟨a, b, n, f, l⟩ :: ms, xs, prevMax =>
    let mine := xs.take n
    if n = 0 ∨ mine.length ≠ n then some s!"chunk-count mint={a} maxt={b} n={n}"
    else if (match prevMax with | some p => decide (a ≤ p) | none => false) then some s!"chunk-overlap mint={a} maxt={b}"
    else if a > b then some s!"chunk-range mint={a} maxt={b}"
    else if (mine.head?.map (·.t)) ≠ some a ∨ (mine.getLast?.map (·.t)) ≠ some b then some s!"chunk-meta mint={a} maxt={b} n={n}"
    -- the chunk decoded on its own: its first/last timestamps are its meta range
    else if f ≠ some a ∨ l ≠ some b then
      some s!"chunk-meta-vs-decoded mint={a} maxt={b} first={(f.map toString).getD "-"} last={(l.map toString).getD "-"}"
    else checkChunks ms (xs.drop n) (some b)

def checkSeries (tr : Truth) (o : OSeries) : Option String :=
  let cand := truthSamples tr o.labels
  let want := sortDedupInts (cand.map (·.t))
  let got := o.samples.map (·.t)
  if got ≠ want then
    match want.find? (fun t => !got.contains t), got.find? (fun t => !want.contains t) with
    | some t, _ => some s!"samples-lost series={showLabels o.labels} t={t}"
    | none, some t => some s!"samples-invented series={showLabels o.labels} t={t}"
    | none, none => some s!"samples-order series={showLabels o.labels}"
  else
    match o.samples.find? (fun x => !admissibleDecoded cand x) with
    | some x => some s!"value series={showLabels o.labels} sample={showSample x}"
    | none =>
      match checkChunks o.metas o.samples none with
      | some e => some s!"chunks series={showLabels o.labels} {e}"
      | none => none

def recount (ss : List OSeries) : Stats :=
  let all := ss.flatMap (·.samples)
  ⟨ss.length, (ss.map (·.metas.length)).sum, all.length,
    (all.filter fun x => x.kind == .float).length, (all.filter fun x => x.kind != .float).length⟩

def judgeOut (tr : Truth) (out : Out) : String :=
  match out with
  | .bad => "violation unparsable"
  | .err => "violation error class=err"
  | .panic => "violation error class=panic"
  | .empty =>
    match truthLabels tr with
    | [] => "ok"
    | l :: _ => s!"violation samples-lost series={showLabels l} all (no block written)"
  | .block st ss =>
    let want := truthLabels tr
    let got := ss.map (·.labels)
    if got ≠ want then
      match want.find? (fun l => !got.contains l), got.find? (fun l => !want.contains l) with
      | some l, _ => s!"violation labels missing={showLabels l}"
      | none, some l => s!"violation labels extra={showLabels l}"
      | none, none => "violation labels order"
    else
      match ss.findSome? (checkSeries tr) with
      | some e => "violation " ++ e
      | none =>
        let rc := recount ss
        if st ≠ rc then
          s!"violation stats meta={st.numSeries}/{st.numChunks}/{st.numSamples}/{st.numFloat}/{st.numHist} recount={rc.numSeries}/{rc.numChunks}/{rc.numSamples}/{rc.numFloat}/{rc.numHist}"
        else if ss.isEmpty then "violation empty-block"
        else "ok"

def blocksOf : List Block → List Op → List Block
  | bs, [] => bs
  | bs, .blk a b :: r => blocksOf (bs ++ [⟨a, b, []⟩]) r
  | bs, .ser i s :: r => blocksOf (addSeries bs i s) r
  | bs, _ :: r => blocksOf bs r

def isHeadCase (ops : List Op) : Bool := ops.any fun | .hs _ _ => true | .hd _ _ _ => true | .write _ _ => true | _ => false

def judgeCase (ops : List Op) (outs : List Out) : String :=
  match (ops.zip outs).find? (fun p => match p.1 with | .compact _ => true | .write _ _ => true | _ => false) with
  | none => "ok"
  | some (.compact m, out) =>
    if isHeadCase ops then "ok" else
    -- the concatenating merger does not promise sorted chunks ("might be overlapping and unsorted"):
    -- a refused write (no block, sources untouched) is admissible there
    if m == .concat && (match out with | .err => true | _ => false) then "ok" else
    let bs := blocksOf [] ops
    let mint := (bs.map (·.mint)).foldl min ((bs.head?.map (·.mint)).getD 0)
    let maxt := (bs.map (·.maxt)).foldl max ((bs.head?.map (·.maxt)).getD 0)
    judgeOut (blockTruth mint (maxt - 1) bs) out
  | some (.write a b, out) => judgeOut (headTruth a (b - 1) ops) out
  | some _ => "ok"

def judge (ops outs : List String) : String := judgeCase (ops.map parseOp) (outs.map parseOut)

def suite : Suite := { name := "compact", model := model, judge := judge }

end Prom.BlockPopulate
