import PromModel.Labels.LabelSet
/-
  Suite `labels` (property C39).  One case = one op sequence run against ONE build of
  `model/labels` (first op: `impl string|slice|dedupe`).  Strings travel hex-encoded.

  ops (→ output):
    impl <flavour>                         → ok
    prefill n                              → ok            (dedupelabels: n dummy symbols first)
    new n v …  | fm n v … | empty          → DESC          (labels.New / FromMap / EmptyLabels)
    fs s …                                 → DESC | panic  (labels.FromStrings)
    b.reset i | b.set n v | b.del n… | b.keep n…   → ok    (Builder)
    b.get n                                → v <hex> | panic
    b.range                                → r <items>
    b.labels                               → DESC
    s.reset | s.add n v | s.sort | s.assign i      → ok    (ScratchBuilder)
    s.labels | s.over i                    → DESC
    get i n → v <hex> | panic      has i n → true|false|panic
    cmp i j                                → <sign> <equal>
    bwl i n… | bwol i n…                   → b <hex>       (BytesWithLabels / BytesWithoutLabels)
    we i | copy i | rebuild i | ml i on|off n…     → DESC  (WithoutEmpty, Copy, symbol-table rebuild, MatchLabels)
    dmn i | dr i n…                        → DESC | panic  (DropMetricName, DropReserved(name ∈ n…))
  DESC = `set <idx> len=<n> dup=<hex|!> h=<j> v=<legacy><utf8> b=<hex Bytes> s=<hex String()> ls=<items>`
         the produced set becomes set number <idx>; `h` = first set of the case with the same Hash().
  items = `<hexname>:<hexvalue>,…` or `.`
-/
namespace Prom.LabelsSuite
open Prom.Labels

structure St where
  fl : Flavor := .string
  sets : Array LabelSet := #[]
  b : Builder := {}
  sb : Scratch := {}

def items (ls : LabelSet) : String :=
  if ls.isEmpty then "." else ",".intercalate (ls.map fun (n, v) => hexEnc n ++ ":" ++ hexEnc v)

def parseItems? (s : String) : Option LabelSet :=
  if s = "." then some [] else
  (s.splitOn ",").mapM fun p =>
    match p.splitOn ":" with
    | [a, b] => do pure (← hexDec? a, ← hexDec? b)
    | _ => none

def bstr (b : Bool) : String := if b then "t" else "f"

def firstEq (sets : Array LabelSet) (ls : LabelSet) : Nat :=
  match sets.toList.findIdx? (· == ls) with
  | some i => i
  | none => sets.size

def desc (st : St) (ls : LabelSet) : St × String :=
  let idx := st.sets.size
  let dup := match hasDupF st.fl ls with | some n => hexEnc n | none => "!"
  let out := s!"set {idx} len={len ls} dup={dup} h={firstEq st.sets ls} v={bstr (isValid .legacy ls)}{bstr (isValid .utf8 ls)} b={hexEncBytes (bytes st.fl ls)} s={hexEnc (toStr ls)} ls={items ls}"
  ({ st with sets := st.sets.push ls }, out)

def descE (st : St) (r : Except Err LabelSet) : St × String :=
  match r with
  | .ok ls => desc st ls
  | .error _ => (st, "panic")

def decAll (ts : List String) : Option (List String) := ts.mapM hexDec?

def pairs? : List String → Option LabelSet
  | [] => some []
  | [_] => none
  | a :: b :: rest => do let r ← pairs? rest; pure ((a, b) :: r)

def flavorOf? : String → Option Flavor
  | "string" => some .string | "slice" => some .slice | "dedupe" => some .dedupe | _ => none

def withSet (st : St) (i : String) (k : LabelSet → St × String) : St × String :=
  match i.toNat? with
  | some i => match st.sets[i]? with
    | some ls => k ls
    | none => (st, "bad-index")
  | none => (st, "bad-op")

def withNames (st : St) (ts : List String) (k : List String → St × String) : St × String :=
  match decAll ts with
  | some ns => k ns
  | none => (st, "bad-op")

def step (st : St) (line : String) : St × String :=
  match toks line with
  | ["impl", f] => match flavorOf? f with
    | some fl => ({ st with fl := fl }, "ok")
    | none => (st, "bad-op")
  | ["prefill", _] => (st, "ok")  -- dedupelabels symbol-table padding: not observable
  | "new" :: ts => withNames st ts fun ss => match pairs? ss with
    | some ls => desc st (new ls)
    | none => (st, "bad-op")
  | "fm" :: ts => withNames st ts fun ss => match pairs? ss with
    | some ls => desc st (fromMap ls)
    | none => (st, "bad-op")
  | "fs" :: ts => withNames st ts fun ss => descE st (fromStrings ss)
  | ["empty"] => desc st []
  | ["b.reset", i] => withSet st i fun ls => ({ st with b := Builder.reset ls }, "ok")
  | ["b.set", n, v] => withNames st [n, v] fun
    | [n, v] => ({ st with b := st.b.set n v }, "ok")
    | _ => (st, "bad-op")
  | "b.del" :: ts => withNames st ts fun ns => ({ st with b := st.b.delAll ns }, "ok")
  | "b.keep" :: ts => withNames st ts fun ns => ({ st with b := st.b.keep ns }, "ok")
  | ["b.get", n] => withNames st [n] fun
    | [n] => match st.b.getF st.fl n with
      | .ok v => (st, "v " ++ hexEnc v)
      | .error _ => (st, "panic")
    | _ => (st, "bad-op")
  | ["b.range"] => (st, "r " ++ items st.b.range)
  | ["b.labels"] =>
    let (ls, b') := st.b.labelsF st.fl
    desc { st with b := b' } ls
  | ["s.reset"] => ({ st with sb := st.sb.reset }, "ok")
  | ["s.add", n, v] => withNames st [n, v] fun
    | [n, v] => ({ st with sb := st.sb.addL n v }, "ok")
    | _ => (st, "bad-op")
  | ["s.sort"] => ({ st with sb := st.sb.sort }, "ok")
  | ["s.assign", i] => withSet st i fun ls => ({ st with sb := st.sb.assign st.fl ls }, "ok")
  | ["s.labels"] =>
    let (ls, sb') := st.sb.labelsF st.fl
    desc { st with sb := sb' } ls
  | ["s.over", i] => withSet st i fun _ => desc st st.sb.overwrite
  | ["get", i, n] => withSet st i fun ls => withNames st [n] fun
    | [n] => match getF st.fl ls n with
      | .ok v => (st, "v " ++ hexEnc v)
      | .error _ => (st, "panic")
    | _ => (st, "bad-op")
  | ["has", i, n] => withSet st i fun ls => withNames st [n] fun
    | [n] => match hasF st.fl ls n with
      | .ok v => (st, toString v)
      | .error _ => (st, "panic")
    | _ => (st, "bad-op")
  | ["cmp", i, j] => withSet st i fun a => withSet st j fun b =>
    (st, s!"{compare a b} {equal a b}")
  | "bwl" :: i :: ts => withSet st i fun ls => withNames st ts fun ns =>
    (st, "b " ++ hexEncBytes (bytesWith st.fl ls ns))
  | "bwol" :: i :: ts => withSet st i fun ls => withNames st ts fun ns =>
    (st, "b " ++ hexEncBytes (bytesWithout st.fl ls ns))
  | ["we", i] => withSet st i fun ls => desc st (withoutEmpty ls)
  | ["copy", i] => withSet st i fun ls => desc st ls
  | ["rebuild", i] => withSet st i fun ls => desc st ls
  | "ml" :: i :: onoff :: ts => withSet st i fun ls => withNames st ts fun ns =>
    if onoff = "on" then desc st (matchLabels st.fl ls true ns)
    else if onoff = "off" then desc st (matchLabels st.fl ls false ns)
    else (st, "bad-op")
  | ["dmn", i] => withSet st i fun ls => descE st (dropMetricName ls)
  | "dr" :: i :: ts => withSet st i fun ls => withNames st ts fun ns =>
    descE st (dropReserved (fun n => ns.contains n) ls)
  | _ => (st, "bad-op")

def runFrom (st : St) : List String → List String
  | [] => []
  | l :: rest => let (st', o) := step st l; o :: runFrom st' rest

def model (ops : List String) : List String := runFrom {} ops

/-! ## Judge: the property statement evaluated on the implementation's own outputs.

  It never calls the model's `Builder`/`getF`/`bytes`…; it only uses the byte order `slt`, list
  equality and its own abstract map (an association list with a provenance flag).

  Clauses (signature after `violation`):
   * `builder-not-canonical`  result of `b.labels` over a well-formed base not strictly sorted / has empty value
   * `builder-not-map`        result of `b.labels` ≠ the abstract map's entries in name order
   * `builder-get`            `b.get n` ≠ abstract map lookup
   * `builder-range`          `b.range` is not a permutation-free listing of the abstract map
   * `get` / `has` / `len`    lookups inconsistent with the set's own iteration (well-formed sets)
   * `compare-*`              reflexivity, antisymmetry, transitivity, agreement with Equal and with
                              the lexicographic order of the iterated pairs
   * `hash` / `bytes-*`       equal sets ⇒ equal hash class and equal Bytes; different sets ⇒ different Bytes
   * `scratch-sort`           `s.sort; s.labels` over distinct names is not the sorted listing
-/

structure Desc where
  idx : Nat
  len : Nat
  dup : String
  h : Nat
  bytes : String
  str : String
  ls : LabelSet

def field? (pre : String) (t : String) : Option String :=
  if t.startsWith pre then some (t.drop pre.length).toString else none

def parseDesc? (out : String) : Option Desc :=
  match toks out with
  | ["set", idx, l, d, h, _v, b, s, ls] => do
    let l ← field? "len=" l; let d ← field? "dup=" d; let h ← field? "h=" h
    let b ← field? "b=" b; let s ← field? "s=" s; let ls ← field? "ls=" ls
    pure { idx := ← idx.toNat?, len := ← l.toNat?, dup := d, h := ← h.toNat?, bytes := b, str := s,
           ls := ← parseItems? ls }
  | _ => none

/-- well-formed set: strictly sorted names, no empty name -/
def wfSet (ls : LabelSet) : Bool := sortedB ls && noEmptyNamesB ls

/-- abstract map entry: name, value, set-by-the-builder? -/
abbrev AEnt := String × String × Bool

def aSet (m : List AEnt) (n v : String) : List AEnt := m.filter (·.1 ≠ n) ++ [(n, v, true)]
def aDel (m : List AEnt) (n : String) : List AEnt := m.filter (·.1 ≠ n)
def aKeep (m : List AEnt) (ns : List String) : List AEnt := m.filter fun e => e.2.2 || ns.contains e.1
def aOfSet (ls : LabelSet) : List AEnt := (ls.filter (·.2 ≠ "")).map fun (n, v) => (n, v, false)
def aGet (m : List AEnt) (n : String) : String :=
  match m.find? (·.1 = n) with | some e => e.2.1 | none => ""
/-- entries in name order (selection sort by repeated minimum; names in the map are distinct) -/
def aSorted (m : List AEnt) : LabelSet :=
  let ins (x : Label) : LabelSet → LabelSet := fun ys =>
    (ys.takeWhile fun y => slt y.1 x.1) ++ x :: (ys.dropWhile fun y => slt y.1 x.1)
  m.foldr (fun e acc => ins (e.1, e.2.1) acc) []

def lexCmp : List String → List String → Int
  | [], [] => 0
  | [], _ :: _ => -1
  | _ :: _, [] => 1
  | a :: as, b :: bs => if a = b then lexCmp as bs else if slt a b then -1 else 1

def flat (ls : LabelSet) : List String := ls.flatMap fun (n, v) => [n, v]

structure JSt where
  sets : Array LabelSet := #[]          -- as printed by the implementation
  descs : Array Desc := #[]
  amap : Option (List AEnt) := none     -- abstract builder state; `none` = base not well-formed / unknown
  sadd : Option LabelSet := some []     -- scratch builder content when it is plainly tracked
  ssorted : Bool := false
  cmps : List (Nat × Nat × Int) := []

def checkDesc (js : JSt) (k : Nat) (d : Desc) : Option String :=
  if d.idx ≠ js.sets.size then some s!"violation desc-index op={k}"
  else if d.len ≠ d.ls.length then some s!"violation len op={k} len={d.len} range={d.ls.length}"
  else
    -- equal sets ⇒ equal hash class, equal bytes, equal String(); different sets ⇒ different bytes
    let bad := js.descs.toList.find? fun e =>
      if e.ls == d.ls then (e.h ≠ d.h || e.bytes ≠ d.bytes || e.str ≠ d.str) else e.bytes = d.bytes
    match bad with
    | some e =>
      if e.ls == d.ls then
        (if e.h ≠ d.h then some s!"violation hash op={k} set={d.idx} equal-to={e.idx}"
         else some s!"violation bytes-equal op={k} set={d.idx} equal-to={e.idx}")
      else some s!"violation bytes-injective op={k} set={d.idx} same-bytes-as={e.idx}"
    | none =>
      if wfSet d.ls && d.dup ≠ "!" then some s!"violation dup op={k} set={d.idx}" else none

def push (js : JSt) (d : Desc) : JSt := { js with sets := js.sets.push d.ls, descs := js.descs.push d }

def idx? (js : JSt) (i : String) : Option LabelSet := do js.sets[← i.toNat?]?

def checkCmps (cmps : List (Nat × Nat × Int)) : Option String :=
  let look (i j : Nat) : Option Int := (cmps.find? fun c => c.1 = i && c.2.1 = j).map (·.2.2)
  let anti := cmps.find? fun (i, j, s) => match look j i with | some t => t ≠ -s | none => false
  match anti with
  | some (i, j, _) => some s!"violation compare-antisymmetry sets={i},{j}"
  | none =>
    let tr := cmps.find? fun (i, j, s) =>
      s ≤ 0 && cmps.any fun (j', l, t) => j' = j && t ≤ 0 &&
        (match look i l with | some u => u > 0 || ((s < 0 || t < 0) && u ≥ 0) | none => false)
    match tr with
    | some (i, j, _) => some s!"violation compare-transitivity sets={i},{j}"
    | none => none

def judgeGo (js : JSt) (ops outs : List String) (k : Nat) : String :=
  match ops, outs with
  | op :: ops, out :: outs =>
    let next (js : JSt) := judgeGo js ops outs (k + 1)
    -- every DESC output is checked and recorded first
    let dsc := parseDesc? out
    match dsc.bind (checkDesc js k) with
    | some v => v
    | none =>
    let js1 := match dsc with | some d => push js d | none => js
    match toks op with
    | ["b.reset", i] =>
      next { js with amap := match idx? js i with
                              | some ls => if wfSet ls then some (aOfSet ls) else none
                              | none => none }
    | ["b.set", n, v] =>
      match hexDec? n, hexDec? v with
      | some n, some v =>
        next { js with amap := js.amap.map fun m => if v = "" then aDel m n else aSet m n v }
      | _, _ => "ok"
    | "b.del" :: ts =>
      match decAll ts with
      | some ns => next { js with amap := js.amap.map fun m => ns.foldl aDel m }
      | none => "ok"
    | "b.keep" :: ts =>
      match decAll ts with
      | some ns => next { js with amap := js.amap.map fun m => aKeep m ns }
      | none => "ok"
    | ["b.get", n] =>
      match js.amap, hexDec? n, toks out with
      | some m, some n, ["v", v] =>
        if hexDec? v = some (aGet m n) then next js
        else s!"violation builder-get op={k} name={hexEnc n} got={v} want={hexEnc (aGet m n)}"
      | some _, some n, _ => s!"violation builder-get op={k} name={hexEnc n} got={out}"
      | _, _, _ => next js
    | ["b.range"] =>
      match js.amap, toks out with
      | some m, ["r", r] =>
        match parseItems? r with
        | some ls =>
          if aSorted (ls.map fun (n, v) => (n, v, false)) == aSorted m && ls.length = m.length then next js
          else s!"violation builder-range op={k} got={r} want={items (aSorted m)}"
        | none => s!"violation unparsable op={k}"
      | _, _ => next js
    | ["b.labels"] =>
      match js.amap, dsc with
      | some m, some d =>
        if !canonicalB d.ls then s!"violation builder-not-canonical op={k} got={items d.ls}"
        else if d.ls != aSorted m then s!"violation builder-not-map op={k} got={items d.ls} want={items (aSorted m)}"
        else next js1
      | some _, none => s!"violation builder-labels-failed op={k} got={out}"
      | none, _ => next js1
    | ["s.reset"] => next { js with sadd := some [], ssorted := false }
    | ["s.add", n, v] =>
      match hexDec? n, hexDec? v with
      | some n, some v => next { js with sadd := js.sadd.map (· ++ [(n, v)]), ssorted := false }
      | _, _ => "ok"
    | ["s.sort"] =>
      -- tracked only while the names are distinct (then "sorted" is unambiguous)
      let srtOf (a : LabelSet) : Option LabelSet :=
        let srt := aSorted (a.map fun (n, v) => (n, v, false))
        if sortedB srt then some srt else none
      next { js with ssorted := true, sadd := js.sadd.bind srtOf }
    | ["s.assign", _] => next { js with sadd := none }
    | ["s.labels"] =>
      -- after s.labels the stringlabels/dedupelabels builders cache: stop tracking until s.reset
      match js.sadd, dsc with
      | some a, some d =>
        if d.ls != a then
          let sig := if js.ssorted then "scratch-sort" else "scratch-labels"
          s!"violation {sig} op={k} got={items d.ls} want={items a}"
        else next { js1 with sadd := none }
      | _, _ => next { js1 with sadd := none }
    | ["get", i, n] =>
      match idx? js i, hexDec? n with
      | some ls, some n =>
        if wfSet ls then
          if out = "v " ++ hexEnc (match ls.find? (·.1 = n) with | some l => l.2 | none => "") then next js
          else s!"violation get op={k} set={i} name={hexEnc n} got={out}"
        else next js
      | _, _ => next js
    | ["has", i, n] =>
      match idx? js i, hexDec? n with
      | some ls, some n =>
        if wfSet ls then
          if out = toString (ls.any (·.1 = n)) then next js
          else s!"violation has op={k} set={i} name={hexEnc n} got={out}"
        else next js
      | _, _ => next js
    | ["cmp", i, j] =>
      match idx? js i, idx? js j, i.toNat?, j.toNat?, toks out with
      | some a, some b, some i, some j, [s, e] =>
        match s.toInt? with
        | some s =>
          if (e = "true") != (a == b) then s!"violation compare-equal op={k} sets={i},{j} equal={e}"
          else if (s = 0) != (a == b) then s!"violation compare-zero op={k} sets={i},{j} sign={s}"
          else if s ≠ lexCmp (flat a) (flat b) then s!"violation compare-lexicographic op={k} sets={i},{j} sign={s}"
          else
            let js := { js with cmps := (i, j, s) :: js.cmps }
            match checkCmps js.cmps with
            | some v => v
            | none => next js
        | none => s!"violation unparsable op={k}"
      | _, _, _, _, _ => next js
    | _ => next js1
  | _, _ => "ok"

def judge (ops outs : List String) : String := judgeGo {} ops outs 0

def suite : Suite := { name := "labels", model := model, judge := judge }

end Prom.LabelsSuite
