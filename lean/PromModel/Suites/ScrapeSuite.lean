import PromModel.Prelude.Line
import PromModel.Ingest.ScrapeCache
import PromModel.Suites.RelabelSuite
/-
  Suite `scrape` (property C37). Op/output grammar: harness/suites/scrape/main.go.

  model : `Prom.Scrape.cycle` / `endOfRun` (transcription of the scrape loop over the cache model)
          instantiated with `mutateSampleLabels` (built from the C38 relabel model), the validity /
          label-limit checks and the recording storage double of the harness.
  judge : a reference fold over the generated item lists that knows nothing about the cache or about
          series refs: per cycle the storage must have received exactly the exposed samples after
          relabeling (body order, scrape time or explicit timestamp, minus dropped / duplicate / beyond
          the limits), a staleness marker for exactly the tracked series that vanished, nothing but
          markers and reports after a rollback, the five report samples with the right `up`,
          `scrape_samples_scraped` and `scrape_samples_post_metric_relabeling`.
-/
namespace Prom.Scrape.Suite
open Prom Prom.Relabel Prom.Scrape

/-! ### instantiation of the loop parameters -/

def isReserved (n : String) : Bool := n.startsWith "__"

/-- the `for { newName = "exported_" + newName … }` loop of `resolveConflictingExposedLabels` -/
def exportedLoop (b : Builder) (name value : String) : Nat → Builder
  | 0 => b
  | fuel + 1 =>
    let n := "exported_" ++ name
    if b.get n == "" then b.set n value else exportedLoop b n value fuel

def insertByLen (l : Label) : List Label → List Label
  | [] => [l]
  | x :: xs => if l.name.utf8ByteSize < x.name.utf8ByteSize then l :: x :: xs else x :: insertByLen l xs

/-- `slices.SortStableFunc` by name length -/
def sortByLen (ls : List Label) : List Label := ls.foldr insertByLen []

/-- `mutateSampleLabels` (`[]` = dropped). -/
def mutateSample (target : Labels) (honor : Bool) (rules : List Config) (lset : Labels) : Labels :=
  let tl := target.filter fun l => !isReserved l.name
  let lb := Builder.new lset
  let lb :=
    if honor then tl.foldl (fun lb l => if hasName lset l.name then lb else lb.set l.name l.value) lb
    else
      let conf := tl.filterMap fun l =>
        let ev := baseGet lset l.name
        if ev != "" then some (⟨l.name, ev⟩ : Label) else none
      let lb := tl.foldl (fun lb l => lb.set l.name l.value) lb
      (sortByLen conf).foldl (fun lb l => exportedLoop lb l.name l.value (lset.length + tl.length + 2)) lb
  let r := process rules lb
  if r.1 then r.2.labels else []

/-- `mutateReportSampleLabels({__name__=name})`. -/
def reportLabelsOf (target : Labels) (name : String) : Labels :=
  let lset : Labels := [⟨"__name__", name⟩]
  let tl := target.filter fun l => !isReserved l.name
  (tl.foldl (fun lb l => (lb.set ("exported_" ++ l.name) (baseGet lset l.name)).set l.name l.value)
    (Builder.new lset)).labels

def legacyMetricName (s : String) : Bool :=
  match s.toList with
  | [] => false
  | c :: cs => (isLegacyFirst c || c == ':') && cs.all (fun c => isLegacyRest c || c == ':')

structure Cfg where
  v2 : Bool
  honorLabels : Bool
  honorTs : Bool
  trackTs : Bool
  sampleLimit : Nat
  labelLimit : Nat
  nameLenLimit : Nat
  valueLenLimit : Nat
  legacy : Bool
  target : Labels

/-- `Has(__name__)`, `IsValid(scheme)`, `verifyLabelLimits`. -/
def checkLset (c : Cfg) (lset : Labels) : Bool :=
  hasName lset "__name__"
  && lset.all (fun l =>
      (if l.name == "__name__" then (if c.legacy then legacyMetricName l.value else !l.value.isEmpty) else true)
      && validName (!c.legacy) l.name)
  && !(c.labelLimit > 0 && lset.length > c.labelLimit)
  && lset.all (fun l =>
      !(c.nameLenLimit > 0 && l.name.utf8ByteSize > c.nameLenLimit)
      && !(c.valueLenLimit > 0 && l.value.utf8ByteSize > c.valueLenLimit))

def showLabels (ls : Labels) : String :=
  if ls.isEmpty then "-" else ",".intercalate (ls.map fun l => l.name ++ "=" ++ l.value)

def parseLabels? (s : String) : Option Labels :=
  if s = "-" then some [] else
  (s.splitOn ",").mapM fun p =>
    match p.splitOn "=" with
    | [k, v] => some ⟨k, v⟩
    | _ => none

/-- explicit timestamps are either scripted-small or far beyond now + 10 min -/
def maxTimeModel : Int := 4000000000000

def mkParams (c : Cfg) (rules : List Config) : Params :=
  { v2 := c.v2, mutate := mutateSample c.target c.honorLabels rules, check := checkLset c,
    honorTs := c.honorTs, trackTs := c.trackTs, sampleLimit := c.sampleLimit, maxTime := maxTimeModel,
    reportLabels := reportLabelsOf c.target,
    lsetLt := fun a b => showLabels a < showLabels b }

/-! ### codec -/

def parseBool? (s : String) : Option Bool := if s = "1" then some true else if s = "0" then some false else none

def parseCfg? (ts : List String) : Option Cfg :=
  match ts with
  | [ver, hl, ht, tt, sl, ll, lnl, lvl, legacy, tl] => do
    let v2 ← (if ver = "v2" then some true else if ver = "v1" then some false else none)
    pure { v2, honorLabels := ← parseBool? hl, honorTs := ← parseBool? ht, trackTs := ← parseBool? tt,
           sampleLimit := ← sl.toNat?, labelLimit := ← ll.toNat?, nameLenLimit := ← lnl.toNat?,
           valueLenLimit := ← lvl.toNat?, legacy := ← parseBool? legacy, target := ← parseLabels? tl }
  | _ => none

def parseItem? (s : String) : Option Item :=
  if s = "x" then some .bad else if s = "c" then some .comment else
  match s.splitOn "/" with
  | ["s", variant, ls, bits, ts] => do
    let labels ← parseLabels? ls
    let bits ← natOfHex? bits
    let ts ← (if ts = "-" then some none else ts.toInt?.map some)
    if variant = "0" ∨ variant = "1" then
      pure (.sample { key := variant ++ "/" ++ ls, labels, bits, ts })
    else none
  | _ => none

inductive Op where
  | cfg (c : Cfg)
  | rule (r : Option Config)       -- none = unsupported
  | gc
  | scrape (t : Int) (sc : Scrape)
  | endRun
  | bad

def parseOp (line : String) : Op :=
  match toks line with
  | "cfg" :: rest => match parseCfg? rest with | some c => .cfg c | none => .bad
  | "rule" :: rest => .rule ((parseRule? rest).map (·.cfg))
  | ["gc"] => .gc
  | ["end"] => .endRun
  | ["scrape", t, "err"] => match t.toInt? with | some t => .scrape t .err | none => .bad
  | "scrape" :: t :: "body" :: items =>
    match t.toInt?, items.mapM parseItem? with
    | some t, some items => .scrape t (.body items)
    | _, _ => .bad
  | "scrape" :: t :: "read" :: how :: pos :: items =>
    -- the body goes through the production readResponse: `cut` (connection fails after `pos` bytes) and
    -- `limit` (body_size_limit = min(pos, len) ≥ 1) are read failures, `under` is an ordinary body
    match t.toInt?, pos.toNat?, items.mapM parseItem? with
    | some t, some pos, some items =>
      if how = "cut" then .scrape t (.readFail items)
      else if how = "limit" then (if pos ≥ 1 ∧ !items.isEmpty then .scrape t (.readFail items) else .bad)
      else if how = "under" then .scrape t (.body items)
      else .bad
    | _, _, _ => .bad
  | _ => .bad

def showRes : Res → String
  | .ok => "ok" | .ooo => "ooo" | .dup => "dup"

def showTime (t : Int) : String := if t == nowT then "now" else toString t

def showEv : Ev → String
  | .commit => "commit"
  | .rollback => "rollback"
  | .call _ series t val res =>
    showLabels series ++ "@" ++ showTime t ++ "=" ++
      (match val with | some b => hexOfNat b 16 | none => "dur") ++ ":" ++ showRes res

def showEvs (evs : List Ev) : String :=
  if evs.isEmpty then "none" else " ".intercalate (evs.map showEv)

/-! ### model -/

structure St where
  cfg : Option Cfg := none
  rules : List Config := []     -- reversed
  started : Bool := false
  loop : Loop Dbl := { st := {} }

def St.params? (st : St) : Option Params := st.cfg.map fun c => mkParams c st.rules.reverse

def stepModel (st : St) (line : String) : St × String :=
  match parseOp line with
  | .cfg c => if st.started then (st, "bad-op") else ({ st with cfg := some c }, "ok")
  | .rule r =>
    if st.started then (st, "bad-op") else
    match r with
    | none => (st, "unsupported")
    | some r => if r.validate then ({ st with rules := r :: st.rules }, "ok") else (st, "invalid")
  | .gc =>
    match st.params? with
    | none => (st, "bad-op")
    | some _ => ({ st with started := true, loop := { st.loop with st := st.loop.st.gc } }, "ok")
  | .scrape t sc =>
    match st.params? with
    | none => (st, "bad-op")
    | some P =>
      let (l, evs) := cycle dblStore P st.loop t sc
      ({ st with started := true, loop := l }, showEvs evs)
  | .endRun =>
    match st.params? with
    | none => (st, "bad-op")
    | some P =>
      let (l, evs) := endOfRun dblStore P st.loop
      ({ st with started := true, loop := l }, showEvs evs)
  | .bad => (st, "bad-op")

/-- the configuration part of `stepModel` (what the judge reads) -/
def stepCfg (st : St) (line : String) : St :=
  match parseOp line with
  | .cfg c => if st.started then st else { st with cfg := some c }
  | .rule r =>
    if st.started then st else
    match r with
    | some r => if r.validate then { st with rules := r :: st.rules } else st
    | none => st
  | .bad => st
  | _ => if st.cfg.isSome then { st with started := true } else st

def runModel : St → List String → List String
  | _, [] => []
  | st, l :: rest => (stepModel st l).2 :: runModel (stepModel st l).1 rest

def model (ops : List String) : List String := runModel {} ops

/-! ### judge: reference fold by label sets -/

structure JEv where
  series : String
  t : String
  val : String
  res : String
  deriving Repr

inductive JTok where
  | call (e : JEv)
  | commit
  | rollback
  | junk

def parseTok (s : String) : JTok :=
  if s = "commit" then .commit else if s = "rollback" then .rollback else
  match s.splitOn "@" with
  | [series, rest] =>
    match rest.splitOn "=" with
    | [t, vr] =>
      match vr.splitOn ":" with
      | [v, r] => .call ⟨series, t, v, r⟩
      | _ => .junk
    | _ => .junk
  | _ => .junk

def staleHex : String := hexOfNat staleBits 16

def insertStr (x : String) : List String → List String
  | [] => [x]
  | y :: ys => if y < x then y :: insertStr x ys else x :: y :: ys

def sortStrs (xs : List String) : List String := xs.foldr insertStr []

def dedupStrs (xs : List String) : List String :=
  xs.foldl (fun acc x => if acc.contains x then acc else acc ++ [x]) []

structure JSt where
  tracked : List String := []     -- series (listings) whose disappearance must be marked
  /-- series the implementation may still track after a failed append (known deviation) -/
  ghost : List String := []
  scraped : Bool := false
  finding : Option String := none

/-- Walk the items of a body against the implementation's sample events.
    Returns (remaining events, tracked-in-this-body, total, post, limitHit, fatal, error?). -/
structure Walk where
  evs : List JTok
  tracked : List String := []
  seenKeys : List String := []      -- keys that occurred
  okKeys : List String := []        -- keys with a stored occurrence
  total : Nat := 0
  post : Nat := 0
  counted : Nat := 0
  limitHit : Bool := false
  fatal : Bool := false
  err : Option String := none

def walkItem (P : Params) (defT : Int) (w : Walk) (it : Item) : Walk :=
  if w.fatal || w.err.isSome then w else
  match it with
  | .comment => w
  | .bad => { w with fatal := true }
  | .sample x =>
    let w := { w with total := w.total + 1 }
    let L := P.mutate x.labels
    if L.isEmpty then w else
    if !P.check L then { w with fatal := true } else
    let w := { w with post := w.post + 1 }
    let parsedTs : Option Int := if P.honorTs then x.ts else none
    let t := parsedTs.getD defT
    let track := parsedTs.isNone || P.trackTs
    let seen := w.seenKeys.contains x.key
    let w := { w with seenKeys := x.key :: w.seenKeys }
    let want : JEv := ⟨showLabels L, toString t, hexOfNat x.bits 16, ""⟩
    let consume (w : Walk) (e : JEv) (rest : List JTok) : Walk :=
      let w := { w with evs := rest }
      if e.res == "ok" then
        { w with okKeys := x.key :: w.okKeys,
                 tracked := if track then showLabels L :: w.tracked else w.tracked }
      else w
    let isWant (e : JEv) : Bool := e.series == want.series && e.t == want.t && e.val == want.val
    if parsedTs.isNone && seen && w.okKeys.contains x.key then w   -- duplicate: must not reach the storage
    else if parsedTs.isNone && seen then
      -- earlier occurrences were all rejected: either behaviour is admissible
      match w.evs with
      -- (never eat into the five report samples + commit that end every cycle: an exposed `up` with
      -- honor_labels can look exactly like the report sample)
      | .call e :: rest =>
        if isWant e && rest.length ≥ 6 then consume { w with counted := w.counted + 1 } e rest else w
      | _ => w
    else
      let w := if P.sampleLimit > 0 then { w with counted := w.counted + 1 } else w
      if P.sampleLimit > 0 && w.counted > P.sampleLimit then { w with limitHit := true }
      else if t > P.maxTime then w
      else
        match w.evs with
        | .call e :: rest =>
          if isWant e then consume w e rest
          else { w with err := some s!"violation sample-mismatch want={want.series}@{want.t}={want.val} got={e.series}@{e.t}={e.val}" }
        | _ => { w with err := some s!"violation sample-missing want={want.series}@{want.t}={want.val}" }

/-- take the staleness markers (sorted runs) from the front of the events -/
def takeMarkers : List JTok → List JEv × List JTok
  | .call e :: rest =>
    if e.val == staleHex then
      let (ms, r) := takeMarkers rest
      (e :: ms, r)
    else ([], .call e :: rest)
  | l => ([], l)

def natBitsHex (n : Nat) : String := hexOfNat (natToF64Bits n) 16

/-- the five report samples followed by `commit` and nothing else -/
def checkReports (P : Params) (evs : List JTok) (t : String) (vals : List (Option String)) : Option String :=
  match evs with
  | [.call a, .call b, .call c, .call d, .call e, .commit] =>
    let es := [a, b, c, d, e]
    let bad := (es.zip (reportNames.zip vals)).find? fun (ev, (n, v)) =>
      ev.series != showLabels (P.reportLabels n) || ev.t != t ||
      (match v with | some v => ev.val != v | none => false)
    match bad with
    | some (ev, (n, _)) => some s!"violation report name={n} got={ev.series}@{ev.t}={ev.val}"
    | none => none
  | _ => some "violation report-shape"

def markersOk (ms : List JEv) (want : List String) (t : String) : Bool :=
  ms.map (·.series) == sortStrs (dedupStrs want) && ms.all (fun m => m.t == t)

def findingOf (js : JSt) (ts : String) (got want : List String) : Option String :=
  js.finding.or (some s!"violation partial-failure-staleness scrape={ts} ideal={sortStrs (dedupStrs want)} got={got}")

def judgeScrape (P : Params) (js : JSt) (t : Int) (sc : Scrape) (evs : List JTok) : JSt × Option String :=
  let ts := toString t
  -- what must be stored: the exposed body — NOTHING when the scrape or the read of its body failed,
  -- whatever part of the body had been read
  let items := match sc with | .err => [] | .body items => items | .readFail _ => []
  let isReadFail := match sc with | .readFail _ => true | _ => false
  let w := items.foldl (walkItem P t) { evs := evs }
  match w.err with
  | some e => (js, some e)
  | none =>
  let now := dedupStrs w.tracked
  let failed := w.fatal || w.limitHit
  let isErr := match sc with | .err => true | .body _ => false | .readFail _ => true
  -- the statement: markers for every tracked series that is not exposed now; ALL of them on failure
  let ideal := if failed then js.tracked else js.tracked.filter fun s => !now.contains s
  -- the known deviation (finding): a failed append leaves the series it had parsed tracked
  let alt := (js.tracked ++ js.ghost).filter fun s => !now.contains s
  let next : JSt := if failed then { js with scraped := true, tracked := [], ghost := now }
                    else { js with scraped := true, tracked := now, ghost := [] }
  let afterBody : Option (List JTok) :=
    if failed then (match w.evs with | .rollback :: rest => some rest | _ => none) else some w.evs
  match afterBody with
  | none => (next, some s!"violation failed-scrape-not-rolled-back scrape={ts}")
  | some rest =>
    let (ms, rest) := takeMarkers rest
    let up := if isErr || failed then natBitsHex 0 else natBitsHex 1
    let vals := if failed then [some up, none, none, none, none]
                else if isErr then [some up, none, some (natBitsHex 0), some (natBitsHex 0), some (natBitsHex 0)]
                else [some up, none, some (natBitsHex w.total), some (natBitsHex w.post), none]
    -- a failed read: after the markers only the five reports and the commit — any other event is a
    -- sample of the partially read body (or the rollback of its failed append)
    let extra : Option String :=
      if isReadFail && rest.length != 6 then
        some (match rest with
          | .call e :: _ => s!"{e.series}@{e.t}={e.val}"
          | .rollback :: _ => "rollback"
          | .commit :: _ => "commit"
          | _ => "junk")
      else none
    match extra with
    | some x => (next, some s!"violation read-failure-stored-body scrape={ts} unexpected={x} events={evs.length}")
    | none =>
    match checkReports P rest ts vals with
    | some e => (next, some (e ++ s!" scrape={ts}"))
    | none =>
      if markersOk ms ideal ts then (next, none)
      else if markersOk ms alt ts then ({ next with finding := findingOf js ts (ms.map (·.series)) ideal }, none)
      else (next, some s!"violation stale-markers scrape={ts} failed={failed} want={sortStrs (dedupStrs ideal)} got={ms.map (·.series)}")

def judgeEnd (P : Params) (js : JSt) (evs : List JTok) : JSt × Option String :=
  if !js.scraped then
    (js, if evs.isEmpty then none else some "violation end-without-scrape")
  else
    let (all, rest) := takeMarkers evs
    -- the report markers are stale too: the last five belong to the report
    let nRep := reportNames.length
    if all.length < nRep then (js, some "violation end-shape") else
    let sm := all.take (all.length - nRep)
    let rep := all.drop (all.length - nRep)
    let next := { js with tracked := [], ghost := [] }
    if rest.length != 1 then (js, some "violation end-shape")
    else if (rep.zip reportNames).any (fun (e, n) => e.series != showLabels (P.reportLabels n) || e.t != "now") then
      (js, some "violation end-report")
    else if markersOk sm js.tracked "now" then (next, none)
    else if markersOk sm (js.tracked ++ js.ghost) "now" then
      ({ next with finding := findingOf js "end" (sm.map (·.series)) js.tracked }, none)
    else (js, some s!"violation end-stale-markers want={sortStrs (dedupStrs js.tracked)} got={sm.map (·.series)}")

def parseEvs (out : String) : List JTok :=
  if out = "none" then [] else (toks out).map parseTok

def judgeGo (st : St) (js : JSt) : List String → List String → Option String
  | op :: ops, out :: outs =>
    let st' := stepCfg st op
    match parseOp op with
    | .scrape t sc =>
      match st.params? with
      | none => judgeGo st' js ops outs
      | some P =>
        if (toks out).head? == some "panic" then some s!"violation panic {out}" else
        match judgeScrape P js t sc (parseEvs out) with
        | (_, some e) => some e
        | (js', none) => judgeGo st' js' ops outs
    | .endRun =>
      match st.params? with
      | none => judgeGo st' js ops outs
      | some P =>
        if (toks out).head? == some "panic" then some s!"violation panic {out}" else
        match judgeEnd P js (parseEvs out) with
        | (_, some e) => some e
        | (js', none) => judgeGo st' js' ops outs
    | _ => judgeGo st' js ops outs
  | _, _ => js.finding

def judge (ops outs : List String) : String :=
  match judgeGo {} {} ops outs with
  | none => "ok"
  | some v => v

def suite : Suite := { name := "scrape", model := model, judge := judge }

end Prom.Scrape.Suite
