import PromModel.Tsdb.HeadCounters
import PromModel.Suites.DbSuite
/-
  Suite `counters` (C52): the ops of suite `db` plus
        stat -> g=<series>,<stale>,<chunks>,<appenders> api=<NumSeries>,<NumStaleSeries> cmr=<created-removed> r=<series>,<stale>,<chunks>
  Model = `CDb.step` (gauges from the hand-maintained counters, `r` from the model's recount).
  Judge (independent of the model): on every `stat` line the implementation printed, gauges = API values =
  created−removed = the harness's recount over the real head, and the active-appender gauge equals the
  number of appenders the op stream has open.
-/
namespace Prom.Counters
open Prom.Db Prom.Intervals

def parseCOp? (line : String) : Option COp :=
  if toks line = ["stat"] then some .stat else (parseOp? line).map .base

def commaInts (xs : List Int) : String := ",".intercalate (xs.map toString)

def renderCOut : COut → String
  | .base o => renderOut o
  | .stat g r => s!"g={commaInts g} api={commaInts (g.take 2)} cmr={commaInts (g.take 1)} r={commaInts r}"

def parseSpc (line : String) : Nat :=
  match toks line with
  | ["cfg", _, _, spc] => spc.toNat?.getD 120
  | _ => 120

def model (lines : List String) : List String :=
  let rec go (d : CDb) : List String → List String
    | [] => []
    | l :: rest =>
      match parseCfg? l with
      | some c => "ok" :: go (CDb.init c (parseSpc l)) rest
      | none =>
        match parseCOp? l with
        | some op => let (d', o) := d.step op; renderCOut o :: go d' rest
        | none => "bad-op" :: go d rest
  go (CDb.init ⟨1, 0⟩ 120) lines

def parseInts? (s : String) : Option (List Int) := (s.splitOn ",").mapM (·.toInt?)

/-- `g=… api=… cmr=… r=…` → the four lists. -/
def parseStat? (s : String) : Option (List Int × List Int × List Int × List Int) :=
  match toks s with
  | [g, a, c, r] => do
    if !(g.startsWith "g=" && a.startsWith "api=" && c.startsWith "cmr=" && r.startsWith "r=") then none
    pure (← parseInts? (g.drop 2).toString, ← parseInts? (a.drop 4).toString, ← parseInts? (c.drop 4).toString, ← parseInts? (r.drop 2).toString)
  | _ => none

def judge (ops outs : List String) : String :=
  let pairs := ops.zip outs
  match pairs.findIdx? (fun p => p.2.startsWith "panic" || p.2.startsWith "err:") with
  | some k => s!"violation internal-error op={k} `{(pairs[k]?.getD ("", "")).1}` {(pairs[k]?.getD ("", "")).2}"
  | none =>
    -- `excess` = chunks gauge − recounted chunks at the previous `stat` of this process lifetime;
    -- `committed` = a Commit happened since. The only discrepancy classified as the known finding is a
    -- chunks gauge ABOVE the recount whose excess grew across a Commit (or stayed); everything else,
    -- including an excess that appears or changes without a Commit, is `kind=other`.
    -- A second classified discrepancy (finding C52-F7, in-order variant): the first `stat` after a
    -- restart shows the chunks gauge ABOVE the recount although no Commit happened in between, in a
    -- history that compacted the head before (a series left the head, was created again, and the WAL
    -- replay's `resetSeriesWithMMappedChunks` for the second series record dropped an already replayed
    -- head chunk without subtracting it). `fresh` = no `stat` yet since the last restart; `compacted` =
    -- a `compact` op occurred earlier in the case.
    let rec go (openApps : Int) (excess : Int) (committed : Bool) (fresh : Bool) (compacted : Bool)
        (known : Option String) (k : Nat) : List (String × String) → String
      | [] => known.getD "ok"
      | (op, o) :: rest =>
        let t := toks op
        let openApps' : Int :=
          if t = ["begin"] then 1
          else if (t = ["commit"] ∨ t = ["rollback"]) ∧ o ≠ "noapp" then 0
          else if t = ["reopen"] ∨ t.head? = some "cfg" then 0
          else openApps
        if t = ["stat"] then
          match parseStat? o with
          | some (g, a, c, r) =>
            if g.take 2 ≠ r.take 2 then s!"violation gauges-differ-from-recount kind=other step={k} {o}"
            else if g.take 2 ≠ a ∨ g.take 1 ≠ c then s!"violation gauges-differ-from-api step={k} {o}"
            else if g.drop 3 ≠ [openApps] then s!"violation active-appenders step={k} expected={openApps} {o}"
            else
              let e : Int := (g.getD 2 0) - (r.getD 2 0)
              if e = excess then go openApps' excess false false compacted known (k + 1) rest
              else if e > excess ∧ committed then
                go openApps' e false false compacted (some (known.getD s!"violation gauges-differ-from-recount kind=chunks-gauge-high-after-commit step={k} {o}")) (k + 1) rest
              else if e > excess ∧ fresh ∧ compacted then
                go openApps' e false false compacted (some (known.getD s!"violation gauges-differ-from-recount kind=chunks-gauge-high-after-replay-of-recreated-series step={k} {o}")) (k + 1) rest
              else s!"violation gauges-differ-from-recount kind=other step={k} excess-before={excess} {o}"
          | none => s!"violation unreadable-stat step={k} {o}"
        else
          let restart := t = ["reopen"] ∨ t.head? = some "cfg"
          let excess' := if restart then 0 else excess
          let committed' := if restart then false else (committed || (t = ["commit"] && o == "ok"))
          go openApps' excess' committed' (fresh || (t = ["reopen"] && o == "ok")) (compacted || t = ["compact"]) known (k + 1) rest
    go 0 0 false false false none 0 pairs

def suite : Suite := { name := "counters", model := model, judge := judge }

end Prom.Counters
