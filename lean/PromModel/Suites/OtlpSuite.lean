import PromModel.Remote.Otlp
/-
  Suite `otlp` (property C43).  Ops (see harness/suites/otlp/main.go):

    layout <offset> <scaleDown> <adjust 0|1> <counts>
    time <ns>
    exp <allowDelta> <temp> <scale> <flags> <hasSum> <sumBits> <count> <zeroCount> <ts> <st> <pOff> <pCounts> <nOff> <nCounts>
    nhcb <allowDelta> <temp> <flags> <hasSum> <sumBits> <count> <ts> <st> <boundsBits> <counts>
    num <gauge|sum> <allowDelta> <temp> <int|double|empty> <value> <flags> <ts> <st>

  Outputs:  `ok <spans> <deltas>` | `ok <ms>` | `none err=<0|1>` |
            `hist err= warn= hint= schema= zt= zc= count= sum= t= st= ps= pd= ns= nd= cv=` |
            `float err= warn= v= t= st=`
-/
namespace Prom.Otlp

/-! ### parsing / rendering -/

def parseNatList? (s : String) : Option (List Nat) :=
  if s = "-" then some [] else (s.splitOn ",").mapM String.toNat?

def parseHexList? (s : String) : Option (List Nat) :=
  if s = "-" then some [] else (s.splitOn ",").mapM natOfHex?

def parseTemp? : String → Option Temp
  | "cum" => some .cum
  | "delta" => some .delta
  | "unspec" => some .unspec
  | _ => none

instance : ToString Temp := ⟨fun | .cum => "cum" | .delta => "delta" | .unspec => "unspec"⟩

def parseBool? : String → Option Bool
  | "1" => some true
  | "0" => some false
  | _ => none

def parseSpans? (s : String) : Option (List Span) :=
  if s = "-" then some [] else
  (s.splitOn ",").mapM fun p =>
    match p.splitOn ":" with
    | [a, b] => do pure ⟨← a.toInt?, ← b.toNat?⟩
    | _ => none

def showSpans (xs : List Span) : String :=
  if xs.isEmpty then "-" else ",".intercalate (xs.map fun s => s!"{s.offset}:{s.length}")

def showBitsList (xs : List Nat) : String :=
  if xs.isEmpty then "-" else ",".intercalate (xs.map fun b => hexOfNat b 16)

def showHist (h : Hist) (warn : Nat) (t st : Int) : String :=
  s!"hist err=0 warn={warn} hint={h.hint} schema={h.schema} zt={hexOfNat h.ztBits 16} zc={h.zeroCount} count={h.count} sum={hexOfNat h.sumBits 16} t={t} st={st} ps={showSpans h.pos.1} pd={showIntList h.pos.2} ns={showSpans h.neg.1} nd={showIntList h.neg.2} cv={showBitsList h.custom}"

def countsOf (xs : List Nat) : List Int := xs.map toI64

/-! ### model -/

def modelOp (line : String) : String :=
  (match toks line with
  | ["layout", off, k, adj, counts] => do
    let off ← off.toInt?; let k ← k.toNat?; let adj ← parseBool? adj; let cs ← parseNatList? counts
    let r := convert (countsOf cs) off k adj
    pure s!"ok {showSpans r.1} {showIntList r.2}"
  | ["time", ns] => do
    let ns ← ns.toNat?
    pure s!"ok {convTime ns}"
  | ["exp", allow, temp, scale, flags, hasSum, sumBits, count, zc, ts, st, pOff, pCounts, nOff, nCounts] => do
    let allow ← parseBool? allow; let temp ← parseTemp? temp; let scale ← scale.toInt?
    let flags ← parseBool? flags; let hasSum ← parseBool? hasSum; let sumBits ← natOfHex? sumBits
    let count ← count.toNat?; let zc ← zc.toNat?; let ts ← ts.toNat?; let st ← st.toNat?
    let pOff ← pOff.toInt?; let pc ← parseNatList? pCounts; let nOff ← nOff.toInt?; let nc ← parseNatList? nCounts
    if !temporalityOk allow temp then pure "none err=1" else
    match expToNative ⟨scale, flags, hasSum, sumBits, count, zc, pOff, countsOf pc, nOff, countsOf nc⟩ temp with
    | none => pure "none err=1"
    | some (h, warn) => pure (showHist h warn (convTime ts) (convTime st))
  | ["nhcb", allow, temp, flags, hasSum, sumBits, count, ts, st, bounds, counts] => do
    let allow ← parseBool? allow; let temp ← parseTemp? temp
    let flags ← parseBool? flags; let hasSum ← parseBool? hasSum; let sumBits ← natOfHex? sumBits
    let count ← count.toNat?; let ts ← ts.toNat?; let st ← st.toNat?
    let bounds ← parseHexList? bounds; let cs ← parseNatList? counts
    if !temporalityOk allow temp then pure "none err=1" else
    let (h, warn) := explicitToCustom ⟨flags, hasSum, sumBits, count, bounds, countsOf cs⟩ temp
    pure (showHist h warn (convTime ts) (convTime st))
  | ["num", kind, allow, temp, vt, val, flags, ts, st] => do
    let allow ← parseBool? allow; let temp ← parseTemp? temp; let flags ← parseBool? flags
    let ts ← ts.toNat?; let st ← st.toNat?
    let v ← (match vt with
      | "int" => do pure (NumVal.int (← val.toInt?))
      | "double" => do pure (NumVal.double (← natOfHex? val))
      | "empty" => some NumVal.empty
      | _ => none)
    if kind = "sum" ∧ !temporalityOk allow temp then pure "none err=1" else
    pure s!"float err=0 warn=0 v={hexOfNat (numberValue v flags) 16} t={convTime ts} st={convTime st}"
  | _ => none).getD "bad-op"

def model (ops : List String) : List String := ops.map modelOp

/-! ### judge: the property statement evaluated on the implementation's outputs

  Independent of the transcription above: the layout is decoded into a sparse map
  (index ↦ absolute count) and compared with a direct re-bucketing of the source array in which
  source bucket `i` lands in `(offset + i) >> k + 1` (computed with `Int.shiftRight`), or in
  `offset + i` for custom buckets.  -/

/-- Insert-with-add into a sorted association list. -/
def mapAdd (j : Int) (c : Int) : List (Int × Int) → List (Int × Int)
  | [] => [(j, c)]
  | (a, x) :: rest =>
    if j < a then (j, c) :: (a, x) :: rest
    else if j = a then (a, x + c) :: rest
    else (a, x) :: mapAdd j c rest

def sparse (es : List (Int × Int)) : List (Int × Int) :=
  (es.foldl (fun m e => mapAdd e.1 e.2 m) []).filter (·.2 ≠ 0)

def showMap (m : List (Int × Int)) : String :=
  if m.isEmpty then "{}" else "{" ++ ",".intercalate (m.map fun e => s!"{e.1}:{e.2}") ++ "}"

/-- Reference re-bucketing of a dense source array (independent of `convertG`). -/
def refMap (counts : List Int) (offset : Int) (k : Nat) (adj : Bool) : List (Int × Int) :=
  sparse (counts.zipIdx.map fun (c, i) =>
    (if adj then (((i : Int) + offset) >>> k) + 1 else (i : Int) + offset, c))

/-- The trigger of finding F24 on the code as found, stated on the input alone: with `k > 0`, some
    target bucket whose predecessor group (inside the source range) is empty has its first
    non-zero source bucket followed by another source bucket of the same target bucket. -/
def f24Trigger (counts : List Int) (offset : Int) (k : Nat) : Bool :=
  if k = 0 then false else
  let n := counts.length
  let T (i : Nat) : Int := (((i : Int) + offset) >>> k) + 1
  let c (i : Nat) : Int := counts.getD i 0
  (List.range n).any fun i =>
    decide (i ≥ 1 ∧ T i ≠ T (i - 1)) &&
    ((List.range i).all fun i' => decide (T i' ≠ T i - 1 ∨ c i' = 0)) &&
    (match (List.range n).find? (fun i' => decide (i' ≥ i ∧ T i' = T i ∧ c i' ≠ 0)) with
     | some s => decide (s + 1 < n ∧ T (s + 1) = T i)
     | none => false)

/-- Well-formedness of a layout and its semantics against the reference. -/
def judgeLayout (side : String) (counts : List Int) (offset : Int) (k : Nat) (adj : Bool)
    (spans : List Span) (deltas : List Int) : Option String :=
  let ctx := s!"side={side} k={k} offset={offset} adj={adj} counts={showIntList counts}"
  let total := (spans.map (·.length)).foldl (· + ·) 0
  if total ≠ deltas.length then some s!"violation spans-malformed kind=delta-count {ctx} spans={showSpans spans} deltas={deltas.length}"
  else if (spans.drop 1).any (fun s => s.offset < 0) then some s!"violation spans-malformed kind=negative-offset {ctx} spans={showSpans spans}"
  else if counts.isEmpty ∧ (!spans.isEmpty ∨ !deltas.isEmpty) then some s!"violation layout-sem kind=empty-input {ctx}"
  else
    let es := entries (spans, deltas)
    if es.any (fun e => e.2 < 0) then some s!"violation spans-malformed kind=negative-count {ctx} spans={showSpans spans} deltas={showIntList deltas}"
    else
      let got := sparse es
      let want := refMap counts offset k adj
      if got = want then none
      else
        let kind := if adj ∧ f24Trigger counts offset k then "scaledown-empty-merged-bucket" else "other"
        some s!"violation layout-sem kind={kind} {ctx} got={showMap got} want={showMap want}"

/-- key=value lookup in an output line. -/
def field? (ts : List String) (key : String) : Option String :=
  ts.findSome? fun t => if t.startsWith (key ++ "=") then some ((t.drop (key.length + 1)).toString) else none

/-- `ns → ms`: for timestamps in the int64 range (all real OTLP timestamps) `ms·10^6 ≤ ns < (ms+1)·10^6`. -/
def timeOk (ns : Nat) (ms : Int) : Bool :=
  if ns < two63 then decide (ms * 1000000 ≤ ns ∧ (ns : Int) < (ms + 1) * 1000000) else true

def judgeTimes (out : List String) (ts st : Nat) : Option String := do
  match (field? out "t").bind String.toInt?, (field? out "st").bind String.toInt? with
  | some t, some s =>
    if !timeOk ts t then some s!"violation time-conversion field=t ns={ts} ms={t}"
    else if !timeOk st s then some s!"violation time-conversion field=st ns={st} ms={s}"
    else none
  | _, _ => some "violation unparsable field=t/st"

def expectField (out : List String) (key want : String) : Option String :=
  match field? out key with
  | some v => if v = want then none else some s!"violation field-{key} got={v} want={want}"
  | none => some s!"violation unparsable field={key}"

def firstSome (xs : List (Option String)) : Option String := xs.findSome? id

def judgeSide (out : List String) (side sk dk : String) (counts : List Int) (offset : Int) (k : Nat) (adj : Bool) : Option String :=
  match (field? out sk).bind parseSpans?, (field? out dk).bind parseIntList? with
  | some sp, some ds => judgeLayout side counts offset k adj sp ds
  | _, _ => some s!"violation unparsable field={sk}/{dk}"

def judgeCountSum (out : List String) (noRec hasSum : Bool) (sumBits count : Nat) : Option String :=
  if noRec then firstSome [expectField out "count" (toString staleNaN), expectField out "sum" (hexOfNat staleNaN 16)]
  else firstSome [expectField out "count" (toString count), expectField out "sum" (hexOfNat (if hasSum then sumBits else 0) 16)]

def judgeOp (op out : String) : Option String :=
  let o := toks out
  if o.head? = some "panic" then some s!"violation panic op={(toks op).headD ""}" else
  match toks op with
  | ["layout", off, k, adj, counts] =>
    match off.toInt?, k.toNat?, parseBool? adj, parseNatList? counts with
    | some off, some k, some adj, some cs =>
      if !adj ∧ k ≠ 0 then none else
      match o with
      | ["ok", sp, ds] =>
        match parseSpans? sp, parseIntList? ds with
        | some sp, some ds => judgeLayout "-" (countsOf cs) off k adj sp ds
        | _, _ => some "violation unparsable op=layout"
      | _ => some "violation unparsable op=layout"
    | _, _, _, _ => none
  | ["time", ns] =>
    match ns.toNat?, o with
    | some ns, ["ok", ms] =>
      match ms.toInt? with
      | some ms => if timeOk ns ms then none else some s!"violation time-conversion field=t ns={ns} ms={ms}"
      | none => some "violation unparsable op=time"
    | _, _ => some "violation unparsable op=time"
  | ["exp", allow, temp, scale, flags, hasSum, sumBits, count, zc, ts, st, pOff, pCounts, nOff, nCounts] =>
    match parseBool? allow, parseTemp? temp, scale.toInt?, parseBool? flags, parseBool? hasSum, natOfHex? sumBits,
          count.toNat?, zc.toNat?, ts.toNat?, st.toNat?, pOff.toInt?, parseNatList? pCounts, nOff.toInt?, parseNatList? nCounts with
    | some allow, some temp, some scale, some flags, some hasSum, some sumBits, some count, some zc, some ts, some st,
      some pOff, some pc, some nOff, some nc =>
      let admitted := temporalityOk allow temp ∧ scale ≥ -4
      if o.head? = some "none" then
        if admitted then some s!"violation dropped kind=exp scale={scale} temp={temp}" else none
      else if o.head? ≠ some "hist" then some s!"violation wrong-sample-type kind=exp out={o.headD ""}"
      else if !admitted then some s!"violation not-rejected kind=exp scale={scale} temp={temp}"
      else
        let k : Nat := (scale - 8).toNat
        firstSome [
          expectField o "schema" (toString (min scale 8)),
          expectField o "zc" (toString zc),
          expectField o "hint" (if temp = .delta then "3" else "0"),
          judgeCountSum o flags hasSum sumBits count,
          judgeTimes o ts st,
          judgeSide o "pos" "ps" "pd" (countsOf pc) pOff k true,
          judgeSide o "neg" "ns" "nd" (countsOf nc) nOff k true ]
    | _, _, _, _, _, _, _, _, _, _, _, _, _, _ => none
  | ["nhcb", allow, temp, flags, hasSum, sumBits, count, ts, st, bounds, counts] =>
    match parseBool? allow, parseTemp? temp, parseBool? flags, parseBool? hasSum, natOfHex? sumBits,
          count.toNat?, ts.toNat?, st.toNat?, parseHexList? bounds, parseNatList? counts with
    | some allow, some temp, some flags, some hasSum, some sumBits, some count, some ts, some st, some bounds, some cs =>
      let admitted := temporalityOk allow temp
      if o.head? = some "none" then
        if admitted then some s!"violation dropped kind=nhcb temp={temp}" else none
      else if o.head? ≠ some "hist" then some s!"violation wrong-sample-type kind=nhcb out={o.headD ""}"
      else if !admitted then some s!"violation not-rejected kind=nhcb temp={temp}"
      else
        firstSome [
          expectField o "schema" "-53",
          expectField o "cv" (showBitsList bounds),
          expectField o "hint" (if temp = .delta then "3" else "0"),
          expectField o "ns" "-", expectField o "nd" "-",
          judgeCountSum o flags hasSum sumBits count,
          judgeTimes o ts st,
          -- bucket j of the custom-bucket histogram = counts[j]
          judgeSide o "pos" "ps" "pd" (countsOf cs) 0 0 false ]
    | _, _, _, _, _, _, _, _, _, _ => none
  | ["num", kind, allow, temp, vt, val, flags, ts, st] =>
    match parseBool? allow, parseTemp? temp, parseBool? flags, ts.toNat?, st.toNat? with
    | some allow, some temp, some flags, some ts, some st =>
      let admitted := kind = "gauge" ∨ temporalityOk allow temp
      if o.head? = some "none" then
        if admitted then some s!"violation dropped kind=num-{kind} temp={temp}" else none
      else if o.head? ≠ some "float" then some s!"violation wrong-sample-type kind=num out={o.headD ""}"
      else if !admitted then some s!"violation not-rejected kind=num-{kind} temp={temp}"
      else
        let want : Option Nat :=
          if flags then some staleNaN else
          match vt with
          | "int" => val.toInt?.map i64ToF64Bits
          | "double" => natOfHex? val
          | "empty" => some 0
          | _ => none
        match want with
        | none => none
        | some w => firstSome [expectField o "v" (hexOfNat w 16), judgeTimes o ts st]
    | _, _, _, _, _ => none
  | _ => none

def judge (ops outs : List String) : String :=
  match firstSome ((ops.zip outs).map fun (op, out) => judgeOp op out) with
  | some v => v
  | none => "ok"

def suite : Suite := { name := "otlp", model := model, judge := judge }

end Prom.Otlp
