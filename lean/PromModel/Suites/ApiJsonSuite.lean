import PromModel.Api.Json
/-
  Suite `apijson` (property C51).  Op syntax: see harness/suites/apijson/main.go.
  out: `<hex of the bytes written> <recovered values>`.
  model  = Lean encoder, then the Lean decoder applied to the model's own bytes;
  judge  = the values recovered from the IMPLEMENTATION's bytes — (a) by Go's encoding/json +
           strconv + big.Rat (second part of the output line), (b) by the Lean decoder — must equal
           the original values of the op: timestamps exactly, floats bit-exactly (any NaN ↦ NaN),
           histograms with count, sum and the non-empty buckets incl. inclusiveness, label sets.
  Ops containing the timestamp MinInt64 are outside the statement (the API's time range excludes
  it) and are not judged; model and implementation bytes are still compared there.
-/
namespace Prom.Api.Json

/-! ### op tokens -/

def parseFTok (s : String) : Option FTok :=
  match s.splitOn ":" with
  | [b, d, e] => do
    let bits ← natOfHex? b
    let ds ← if d = "-" then some [] else d.toList.mapM fun c => if c.isDigit then some (c.toNat - 48) else none
    let ex ← e.toInt?
    pure ⟨bits, ds, ex⟩
  | _ => none

def parseBool (s : String) : Option Bool := if s = "1" then some true else if s = "0" then some false else none

def parseBucketTok (s : String) : Option Bucket :=
  match s.splitOn "," with
  | [lo, up, li, ui, c] => do pure ⟨← parseFTok lo, ← parseFTok up, ← parseBool li, ← parseBool ui, ← parseFTok c⟩
  | _ => none

def parseHTok (s : String) : Option Hist :=
  match s.splitOn "|" with
  | [_, c, sm, bs] => do
    let bl ← if bs = "-" then some [] else (bs.splitOn ";").mapM parseBucketTok
    pure ⟨← parseFTok c, ← parseFTok sm, bl⟩
  | _ => none

def parseLTok (s : String) : Option Labels :=
  if s = "-" then some [] else
  (s.splitOn ",").mapM fun p =>
    match p.splitOn ":" with
    | [n, v] => do pure (← bytesOfHex? n, ← bytesOfHex? v)
    | _ => none

def parseValTok (s : String) : Option Val :=
  match s.toList with
  | 'f' :: r => (parseFTok (String.ofList r)).map .f
  | 'h' :: r => (parseHTok (String.ofList r)).map .h
  | _ => none

def parseSampleTok (s : String) : Option Sample :=
  match s.splitOn "@" with
  | [l, t, v] => do pure ⟨← parseLTok l, ← t.toInt?, ← parseValTok v⟩
  | _ => none

def parseSeriesTok (s : String) : Option Series :=
  match s.splitOn "@" with
  | l :: pts => do
    let ls ← parseLTok l
    let ps ← pts.mapM fun p =>
      match p.splitOn "#" with
      | [t, v] => do pure ((← t.toInt?), (← parseValTok v))
      | _ => none
    let fs := ps.filterMap fun (t, v) => match v with | .f x => some (t, x) | _ => none
    let hs := ps.filterMap fun (t, v) => match v with | .h x => some (t, x) | _ => none
    pure ⟨ls, fs, hs⟩
  | _ => none

inductive Op
  | ts (t : Int)
  | fl (x : FTok)
  | hist (h : Hist)
  | vector (v : List Sample)
  | matrix (m : List Series)
  | scalar (t : Int) (tsF : FTok) (v : FTok)
  | string (t : Int) (tsF : FTok) (s : Bytes)
deriving Inhabited

def parseOp (line : String) : Option Op :=
  match toks line with
  | ["ts", t] => t.toInt?.map .ts
  | ["fl", x] => (parseFTok x).map .fl
  | ["hist", h] => (parseHTok h).map .hist
  | "vector" :: ss => (ss.mapM parseSampleTok).map .vector
  | "matrix" :: ss => (ss.mapM parseSeriesTok).map .matrix
  | ["scalar", t, tf, v] => do pure (.scalar (← t.toInt?) (← parseFTok tf) (← parseFTok v))
  | ["string", t, tf, s] => do pure (.string (← t.toInt?) (← parseFTok tf) (← bytesOfHex? s))
  | _ => none

/-! ### canonical rendering of recovered values (same syntax as the Go harness prints) -/

def showFVal : FVal → String
  | .nan => "nan"
  | .bits b => hexOfNat b 16

def showTs : TsVal → String
  | .exact t => toString t
  | .inexact => "inexact"

def showB (b : Bool) : String := if b then "1" else "0"

def showDHist (h : DHist) : String :=
  showFVal h.count ++ "|" ++ showFVal h.sum ++ "|" ++
    (if h.buckets.isEmpty then "-" else
      ";".intercalate (h.buckets.map fun b =>
        ",".intercalate [showFVal b.lower, showFVal b.upper, showB b.li, showB b.ui, showFVal b.count]))

def showDVal : DVal → String
  | .f x => "f" ++ showFVal x
  | .h x => "h" ++ showDHist x

def showLabels (ls : Labels) : String :=
  if ls.isEmpty then "-" else ",".intercalate (ls.map fun l => hexEncBytes l.1 ++ ":" ++ hexEncBytes l.2)

def showDSample (s : DSample) : String := showLabels s.metric ++ "@" ++ showTs s.t ++ "@" ++ showDVal s.v

def showDSeries (s : DSeries) : String :=
  showLabels s.metric ++ String.join ((s.floats ++ s.hists).map fun (t, v) => "@" ++ showTs t ++ "#" ++ showDVal v)

def joinRec (rt : String) (parts : List String) : String :=
  if parts.isEmpty then "rt=" ++ rt else "rt=" ++ rt ++ " " ++ " ".intercalate parts

/-- what the original values look like when recovered without loss -/
def origF (x : FTok) : FVal := if isNaNBits x.bits then .nan else .bits x.bits

def origHist (h : Hist) : DHist :=
  ⟨origF h.count, origF h.sum, (nonEmpty h.buckets).map fun b => ⟨origF b.lower, origF b.upper, b.li, b.ui, origF b.count⟩⟩

def origVal : Val → DVal
  | .f x => .f (origF x)
  | .h x => .h (origHist x)

def labelsSorted (ls : Labels) : Labels := ls   -- ops carry labels in `Range` order = sorted by name

def expected : Op → String
  | .ts t => toString t
  | .fl x => showFVal (origF x)
  | .hist h => showDHist (origHist h)
  | .vector v => joinRec "vector" (v.map fun s => showDSample ⟨s.metric, .exact s.t, origVal s.v⟩)
  | .matrix m => joinRec "matrix" (m.map fun s =>
      showDSeries ⟨s.metric, s.floats.map (fun p => (.exact p.1, .f (origF p.2))), s.hists.map (fun p => (.exact p.1, .h (origHist p.2)))⟩)
  | .scalar t _ v => joinRec "scalar" [toString t, showFVal (origF v)]
  | .string t _ s => joinRec "string" [toString t, hexEncBytes s]

/-- the bytes the model writes -/
def encodeOp : Op → Bytes
  | .ts t => marshalTimestamp t
  | .fl x => marshalFloat x
  | .hist h => marshalHistogram h
  | .vector v => envelope "vector" (marshalVector v)
  | .matrix m => envelope "matrix" (marshalMatrix m)
  | .scalar _ tf v => envelope "scalar" (marshalScalar tf v)
  | .string _ tf s => envelope "string" (marshalString tf s)

/-- values recovered from bytes by the Lean decoder, rendered canonically -/
def recover (op : Op) (bs : Bytes) : String :=
  match op with
  | .ts _ => match pTs bs with | some (v, []) => showTs v | _ => "undecodable"
  | .fl _ => match pFloat parseF bs with | some (v, []) => showFVal v | _ => "undecodable"
  | .hist _ => match pHist parseF bs with | some (v, []) => showDHist v | _ => "undecodable"
  | .vector _ => match pEnvelope "vector" (pVector parseF) bs with
    | some v => joinRec "vector" (v.map showDSample) | none => "undecodable"
  | .matrix _ => match pEnvelope "matrix" (pMatrix parseF) bs with
    | some v => joinRec "matrix" (v.map showDSeries) | none => "undecodable"
  | .scalar .. => match pEnvelope "scalar" (pScalar parseF) bs with
    | some (t, x) => joinRec "scalar" [showTs t, showFVal x] | none => "undecodable"
  | .string .. => match pEnvelope "string" pStringVal bs with
    | some (t, s) => joinRec "string" [showTs t, hexEncBytes s] | none => "undecodable"

/-- the op is well-formed: the float accompanying a scalar/string timestamp is `float64(t)/1000` -/
def opOk : Op → Bool
  | .scalar t tf _ => tf.bits == tsFloatBits t
  | .string t tf _ => tf.bits == tsFloatBits t
  | _ => true

def modelLine (line : String) : String :=
  match parseOp line with
  | none => "bad-op"
  | some op =>
    if !opOk op then "bad-op tsbits" else
    let bs := encodeOp op
    hexEncBytes bs ++ " " ++ recover op bs

def model (ops : List String) : List String := ops.map modelLine

/-! ### judge -/

def opKind : Op → String
  | .ts _ => "ts" | .fl _ => "fl" | .hist _ => "hist" | .vector _ => "vector" | .matrix _ => "matrix"
  | .scalar .. => "scalar" | .string .. => "string"

def opTimestamps : Op → List Int
  | .ts t => [t]
  | .vector v => v.map (·.t)
  | .matrix m => m.flatMap fun s => s.floats.map (·.1) ++ s.hists.map (·.1)
  | .scalar t .. => [t]
  | .string t .. => [t]
  | _ => []

def short (s : String) : String := if s.length > 160 then (s.take 160).toString ++ "…" else s

/-- verdict for one op: `none` = holds -/
def judgeOp (k : Nat) (line out : String) : Option String :=
  match parseOp line with
  | none => none
  | some op =>
    if (opTimestamps op).contains MinI64 then none else
    let kind := opKind op
    if out = "panic" then some s!"violation panic op={k} kind={kind}" else
    let (hexTok, goRec) := match out.splitOn " " with
      | h :: rest => (h, " ".intercalate rest)
      | [] => ("", "")
    let want := expected op
    let tsPrecision (got : String) : Option String :=
      -- scalar/string results: same result type and value, only the timestamp differs
      match op, toks want, toks got with
      | .scalar t .., [r, _, v], [r', t', v'] =>
        if r = r' ∧ v = v' then some s!"violation scalar-ts-precision kind=scalar t={t} recovered={t'} op={k}" else none
      | .string t .., [r, _, v], [r', t', v'] =>
        if r = r' ∧ v = v' then some s!"violation scalar-ts-precision kind=string t={t} recovered={t'} op={k}" else none
      | _, _, _ => none
    if goRec ≠ want then
      match tsPrecision goRec with
      | some v => some v
      | none => some s!"violation recovered-differs op={k} kind={kind} by=go want={short want} got={short goRec}"
    else
      match bytesOfHex? hexTok with
      | none => some s!"violation unparsable-output op={k} kind={kind}"
      | some bs =>
        let got := recover op bs
        if got ≠ want then
          match tsPrecision got with
          | some v => some v
          | none => some s!"violation recovered-differs op={k} kind={kind} by=lean want={short want} got={short got}"
        else none

def isPrecisionVerdict (v : String) : Bool := (toks v).getD 1 "" == "scalar-ts-precision"

def judge (ops outs : List String) : String :=
  let rec go (k : Nat) (ops outs : List String) (acc : List String) : List String :=
    match ops, outs with
    | op :: ops, out :: outs =>
      match judgeOp k op out with
      | some v => go (k + 1) ops outs (v :: acc)
      | none => go (k + 1) ops outs acc
    | _, _ => acc.reverse
  let vs := go 0 ops outs []
  -- report an unlisted kind of violation in preference to the (known) scalar timestamp precision loss
  match vs.find? (fun v => !isPrecisionVerdict v) with
  | some v => v
  | none => vs.headD "ok"

def suite : Suite := { name := "apijson", model := model, judge := judge }

end Prom.Api.Json
