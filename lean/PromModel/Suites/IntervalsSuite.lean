import PromModel.Tsdb.Intervals
/-
  Suite `intervals` (property C20, mechanism level): `tombstones.Intervals.Add`, `Interval.InBounds`,
  `Interval.IsSubrange` and `tsdb.DeletedIterator` driven on a running interval set.
  ops:   `add <mint> <maxt>`          add an interval to the running set
         `reset`                      empty the set
         `inb <mint> <maxt> <t>`      Interval{mint,maxt}.InBounds(t)
         `sub <mint> <maxt>`          Interval{mint,maxt}.IsSubrange(running set)
         `iter <seek|-> <t1,t2,…|->`  DeletedIterator over a chunk with samples at t1<t2<…, Intervals =
                                      running set; optional Seek(seek) first, then Next() until ValNone
  out:   `ok <m1>:<M1>,<m2>:<M2>,…` (or `ok -`) | `panic` | `true` | `false` | `ts <t…|->`
  After a panic the set is left unchanged (the harness does the same with a copy).
  The string layer (parse/render) is thin; model and judge are defined on the structured `Op`/`Out`.
-/
namespace Prom.Intervals

inductive Op
  | add (a b : Int)
  | reset
  | inb (a b t : Int)
  | sub (a b : Int)
  | iter (seek : Option Int) (ts : List Int)
  | bad
deriving Repr, DecidableEq

inductive Out
  | set (ys : Intervals)
  | panic
  | bool (b : Bool)
  | ts (l : List Int)
  | bad
deriving Repr, DecidableEq

/-! ### model -/

def stepOp (st : Intervals) : Op → Intervals × Out
  | .add a b =>
    match add st ⟨a, b⟩ with
    | .ok ys => (ys, .set ys)
    | .error _ => (st, .panic)
  | .reset => ([], .set [])
  | .inb a b t => (st, .bool ((⟨a, b⟩ : Interval).inBounds t))
  | .sub a b => (st, .bool ((⟨a, b⟩ : Interval).isSubrange st))
  | .iter none ts => (st, .ts (drain ts st))
  | .iter (some s) ts => (st, .ts (seekDrain s ts st))
  | .bad => (st, .bad)

def runOps (st : Intervals) : List Op → List Out
  | [] => []
  | op :: rest => (stepOp st op).2 :: runOps (stepOp st op).1 rest

/-! ### the property statement as an oracle
  Starting from the empty set, after every `add` of a valid interval the implementation's set must be
  canonical and cover exactly the union of everything requested so far (checked on all interval
  endpoints ±1), and must never panic; `IsSubrange` of a valid range must say whether the whole range
  was requested for deletion; the iterator must return exactly the samples outside every requested
  range (and at or after the seek position). `none` = no violation. -/

def setStr (xs : Intervals) : String :=
  if xs.isEmpty then "-" else ",".intercalate (xs.map fun x => s!"{x.mint}:{x.maxt}")

def verdict (added : Intervals) (k : Nat) : List Op → List Out → Option String
  | op :: ops, out :: outs =>
    match op with
    | .reset => verdict [] (k + 1) ops outs
    | .add a b =>
      if a > b then none -- invalid request: outside the statement, stop judging this case
      else
      match out with
      | .panic => some (s!"violation add-panic op={k} mint={a} maxt={b}" ++ (if b = MaxI64 then " maxt=MaxInt64" else ""))
      | .set ys =>
        if !canonB ys then some s!"violation not-canonical op={k} set={setStr ys}"
        else
          match ((⟨a, b⟩ :: added) ++ ys).flatMap (fun x => [x.mint - 1, x.mint, x.maxt, x.maxt + 1]) |>.find?
              (fun t => coversB ys t != coversB (⟨a, b⟩ :: added) t) with
          | some t => some s!"violation coverage op={k} t={t} set={setStr ys}"
          | none => verdict (⟨a, b⟩ :: added) (k + 1) ops outs
      | _ => some s!"violation unparsable op={k}"
    | .inb a b t =>
      if out = .bool (decide (a ≤ t ∧ t ≤ b)) then verdict added (k + 1) ops outs
      else some s!"violation inbounds op={k} mint={a} maxt={b} t={t}"
    | .sub a b =>
      if a > b then verdict added (k + 1) ops outs
      else if out = .bool (rangeCoveredB added a b) then verdict added (k + 1) ops outs
      else some s!"violation subrange op={k} mint={a} maxt={b} want={rangeCoveredB added a b}"
    | .iter seek ts =>
      if !decide (ts.Pairwise (· < ·)) then verdict added (k + 1) ops outs
      else
        let want := ts.filter fun t => (match seek with | some s => decide (s ≤ t) | none => true) && !coversB added t
        if out = .ts want then verdict added (k + 1) ops outs
        else some s!"violation iter op={k} want={showIntList want}"
    | .bad => none
  | _, _ => none

/-! ### string layer -/

def render (xs : Intervals) : String := "ok " ++ setStr xs

def parseSet? (s : String) : Option Intervals :=
  if s = "-" then some [] else
  (s.splitOn ",").mapM fun p =>
    match p.splitOn ":" with
    | [a, b] => do pure ⟨← a.toInt?, ← b.toInt?⟩
    | _ => none

def parseOp (line : String) : Op :=
  match toks line with
  | ["add", a, b] =>
    match a.toInt?, b.toInt? with
    | some a, some b => .add a b
    | _, _ => .bad
  | ["reset"] => .reset
  | ["inb", a, b, t] =>
    match a.toInt?, b.toInt?, t.toInt? with
    | some a, some b, some t => .inb a b t
    | _, _, _ => .bad
  | ["sub", a, b] =>
    match a.toInt?, b.toInt? with
    | some a, some b => .sub a b
    | _, _ => .bad
  | ["iter", s, ts] =>
    match parseIntList? ts with
    | none => .bad
    | some ts =>
      if s = "-" then .iter none ts else
      match s.toInt? with
      | some s => .iter (some s) ts
      | none => .bad
  | _ => .bad

def renderOut : Out → String
  | .set ys => render ys
  | .panic => "panic"
  | .bool b => if b then "true" else "false"
  | .ts l => "ts " ++ showIntList l
  | .bad => "bad-op"

def parseOut (s : String) : Out :=
  match toks s with
  | ["panic"] => .panic
  | ["true"] => .bool true
  | ["false"] => .bool false
  | ["ok", s] => match parseSet? s with | some ys => .set ys | none => .bad
  | ["ts", s] => match parseIntList? s with | some l => .ts l | none => .bad
  | _ => .bad

def model (ops : List String) : List String := (runOps [] (ops.map parseOp)).map renderOut

def judge (ops outs : List String) : String :=
  match verdict [] 0 (ops.map parseOp) (outs.map parseOut) with
  | none => "ok"
  | some v => v

def suite : Suite := { name := "intervals", model := model, judge := judge }

end Prom.Intervals
