import PromModel.Tsdb.Intervals
/-
  Suite `intervals` (property C20, mechanism level).
  ops:   `add <mint> <maxt>`    add an interval to the running set
         `reset`                empty the set
  out:   `ok <m1>:<M1>,<m2>:<M2>,…` (or `ok -`) | `panic`
  After a panic the set is left unchanged (the harness does the same with a copy).
-/
namespace Prom.Intervals

def render (xs : Intervals) : String :=
  if xs.isEmpty then "ok -" else "ok " ++ ",".intercalate (xs.map fun x => s!"{x.mint}:{x.maxt}")

def parseSet? (s : String) : Option Intervals :=
  if s = "-" then some [] else
  (s.splitOn ",").mapM fun p =>
    match p.splitOn ":" with
    | [a, b] => do pure ⟨← a.toInt?, ← b.toInt?⟩
    | _ => none

def stepModel (st : Intervals) (line : String) : Intervals × String :=
  match toks line with
  | ["add", a, b] =>
    match a.toInt?, b.toInt? with
    | some a, some b =>
      match add st ⟨a, b⟩ with
      | .ok ys => (ys, render ys)
      | .error _ => (st, "panic")
    | _, _ => (st, "bad-op")
  | ["reset"] => ([], "ok -")
  | _ => (st, "bad-op")

def model (ops : List String) : List String :=
  let rec go (st : Intervals) : List String → List String
    | [] => []
    | l :: rest => let (st', o) := stepModel st l; o :: go st' rest
  go [] ops

/--
  Statement-as-oracle for the mechanism part of C20: starting from the empty set, after every
  `add` of a valid interval the implementation's set must be canonical and cover exactly the
  union of everything added so far (checked on all interval endpoints ±1), and must never panic.
-/
def judge (ops outs : List String) : String :=
  let rec go (added : Intervals) (ops outs : List String) (k : Nat) : String :=
    match ops, outs with
    | op :: ops, out :: outs =>
      match toks op with
      | ["reset"] => go [] ops outs (k + 1)
      | ["add", a, b] =>
        match a.toInt?, b.toInt? with
        | some a, some b =>
          if a > b then "ok" -- invalid request: outside the statement, stop judging this case
          else
          let added := ⟨a, b⟩ :: added
          if out = "panic" then
            s!"violation add-panic op={k} mint={a} maxt={b}" ++ (if b = MaxI64 then " maxt=MaxInt64" else "")
          else match (toks out) with
          | ["ok", s] =>
            match parseSet? s with
            | none => s!"violation unparsable op={k}"
            | some ys =>
              if !canonB ys then s!"violation not-canonical op={k} set={s}"
              else
                let pts := (added ++ ys).flatMap fun x => [x.mint - 1, x.mint, x.maxt, x.maxt + 1]
                match pts.find? (fun t => coversB ys t != coversB added t) with
                | some t => s!"violation coverage op={k} t={t} set={s}"
                | none => go added ops outs (k + 1)
          | _ => s!"violation unparsable op={k}"
        | _, _ => "ok"
      | _ => "ok"
    | _, _ => "ok"
  go [] ops outs 0

def suite : Suite := { name := "intervals", model := model, judge := judge }

end Prom.Intervals
