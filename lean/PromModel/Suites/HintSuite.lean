import PromModel.Tsdb.HistLayout
import PromModel.Tsdb.Merge
import PromModel.Suites.HistSuite
/-
  Suite `hint` (property C12): counter-reset hints as queries return them.
  See harness/suites/hint/main.go for the op grammar.

  model:  merge cases — every source is a list of model chunks (`Prom.Hist.appendHist`), read with
          `Chunk.read` (hint = `counterResetHint(header, position)`), merged by C19's transcription of
          `chainSampleIterator` (`Prom.Merge.Chain`, incl. the `consecutive` flag): hints are predicted
          exactly.  DB cases — the values are predicted (accepted samples in time order, semantic form);
          the hints are an oracle input that must be *admissible* for the model: gauge iff appended as
          gauge, never CounterReset, NotCounterReset only where the model's own values show no reset
          from the preceding returned sample (or, for a query that starts after the series does, at
          the first returned sample — finding C12-F1).
  judge:  `hint_sound_query`'s predicate (`Prom.Hist.unsoundAt`) on what the real code returned —
          independent of the model — plus: the query returns exactly the accepted samples.
          A persist op (dflush/dooo/dcompact) that failed re-encoding a chunk (`<op> reencode-failed`)
          is an observation on the input shape of finding C11-F1 (`gaugeStaleShape`), `op-failed` otherwise.
-/
namespace Prom.HintSuite
open Prom.Hist Prom.HistSuite

/-! ### merging model chunks with C19's chain iterator -/

def sourceRead (chunks : List Chunk) : List (Int × Hist) := chunks.reverse.flatMap Chunk.read

/-- samples of all sources as `Merge.Sample`s: payload = 4·(index into the table) + hint -/
def toMergeInputs : Nat → List (List (Int × Hist)) → List (List Merge.Sample) × List Hist
  | _, [] => ([], [])
  | base, src :: rest =>
    let here := src.zipIdx.map fun (p, i) =>
      ({ t := p.1, kind := if p.2.float then .fhist else .hist, payload := 4 * (base + i) + hintNum p.2.hint } : Merge.Sample)
    let r := toMergeInputs (base + src.length) rest
    (here :: r.1, src.map (·.2) ++ r.2)

def mergeRead (srcs : List (List (Int × Hist))) : Option (List (Int × Hist)) :=
  let (ins, table) := toMergeInputs 0 srcs
  match (Merge.Chain.ofLists (ins.map fun l => (l, false))).drain with
  | none => none
  | some (_, out) =>
    out.mapM fun s => do
      let h ← table[s.payload / 4]?
      let hint ← hintOfNum? (s.payload % 4)
      pure (s.t, { h with hint })

/-! ### semantic text form -/

def mapStr (float : Bool) (m : List (Int × Int)) : String :=
  if m.isEmpty then "-" else
  ",".intercalate (m.map fun p => s!"{p.1}:{if float then hex16 p.2.toNat else toString p.2}")

def semStr (hint : Hint) (s : Sem) : String :=
  "/".intercalate [if s.float then "f" else "i", toString (hintNum hint), toString s.schema, hex16 s.zt,
    if s.float then hex16 s.count else toString s.count, if s.float then hex16 s.zcount else toString s.zcount,
    hex16 s.sum, mapStr s.float s.pos, mapStr s.float s.neg, hexListStr s.custom]

def parseMap? (float : Bool) (s : String) : Option (List (Int × Int)) :=
  if s = "-" then some [] else
  (s.splitOn ",").mapM fun p =>
    match p.splitOn ":" with
    | [i, v] => do pure (← i.toInt?, ← (if float then (natOfHex? v).map Int.ofNat else v.toInt?))
    | _ => none

def parseSem? (tok : String) : Option (Hint × Sem) :=
  match tok.splitOn "/" with
  | [fl, hint, schema, zt, cnt, zc, sum, pm, nm, cv] => do
    let float ← (if fl = "f" then some true else if fl = "i" then some false else none)
    let hint ← hintOfNum? (← hint.toNat?)
    let count ← (if float then natOfHex? cnt else cnt.toNat?)
    let zcount ← (if float then natOfHex? zc else zc.toNat?)
    pure (hint, { float, schema := ← schema.toInt?, zt := ← natOfHex? zt, count, zcount, sum := ← natOfHex? sum,
                  pos := ← parseMap? float pm, neg := ← parseMap? float nm, custom := ← hexList? cv })
  | _ => none

/-- deltas of absolute values -/
def deltasFrom (last : Int) : List Int → List Int
  | [] => []
  | v :: r => (v - last) :: deltasFrom v r

/-- a histogram with that meaning (one canonical layout) -/
def histOfSem (hint : Hint) (s : Sem) : Hist :=
  let side (m : List (Int × Int)) : List Span × List Int :=
    (spansOf (m.map (·.1)), if s.float then m.map (·.2) else deltasFrom 0 (m.map (·.2)))
  { float := s.float, hint, schema := s.schema, zt := s.zt, count := s.count, zcount := s.zcount, sum := s.sum,
    pSpans := (side s.pos).1, nSpans := (side s.neg).1, pB := (side s.pos).2, nB := (side s.neg).2, custom := s.custom }

def parseSemSamples? (s : String) : Option (List (Int × Hist)) :=
  if s = "-" then some [] else
  (s.splitOn ";").mapM fun p =>
    match p.splitOn "=" with
    | [t, h] => do let (hint, sem) ← parseSem? h; pure (← t.toInt?, histOfSem hint sem)
    | _ => none

/-! ### persist ops whose chunk re-encoding failed (observation, finding C11-F1) -/

/-- The input shape of finding C11-F1: a gauge staleness marker was accepted after an earlier non-stale
    gauge histogram of the same flavour.  The marker lands inside the gauge chunk (head chunk, or the chunk
    `ToEncodedChunks` builds for the OOO head), is read back as `{Sum: StaleNaN}` with hint Unknown, and
    the append-only re-encoding of that chunk (`populateCurrForSingleChunk`: open head chunk, or any chunk
    cut by a block boundary / tombstone) is refused by the gauge chunk's appender. -/
def gaugeStaleShape (acc : List (Int × Hist)) : Bool :=
  acc.any fun p => p.2.stale && p.2.hint == .gauge &&
    acc.any fun q => decide (q.1 < p.1) && !q.2.stale && q.2.hint == .gauge && q.2.float == p.2.float

def persistOp (op : String) : Bool := op = "dflush" || op = "dooo" || op = "dcompact"

/-! ### model -/

structure St where
  srcs : List (List Chunk) := []
  /-- accepted samples, sorted by time -/
  accepted : List (Int × Hist) := []
  /-- a `dcfg` line was seen (the harness answers `no-db` to DB ops of an op list without one) -/
  db : Bool := false
deriving Inhabited

def insertSorted (x : Int × Hist) : List (Int × Hist) → List (Int × Hist)
  | [] => [x]
  | y :: r => if x.1 < y.1 then x :: y :: r else y :: insertSorted x r

def setNth {α} (l : List α) (n : Nat) (d : α) (x : α) : List α :=
  (l ++ List.replicate (n + 1 - l.length) d).set n x

/-- is hint `hn` (as returned) possible for sample `h` given the previously returned sample? -/
def admissible (trimmed : Bool) (prev : Option Hist) (h : Hist) (hn : Hint) : Bool :=
  if h.stale then hn == .unknown
  else if h.hint == .gauge then hn == .gauge
  else match hn with
    | .unknown => true
    | .notReset => (match prev with | some p => noReset p h | none => trimmed)
    | _ => false

def applyHints (trimmed : Bool) : Option Hist → List (Int × Hist) → List Hint → Nat → Except String (List (Int × Hist))
  | _, [], [], _ => .ok []
  | prev, (t, h) :: rest, hn :: hs, k =>
    if !admissible trimmed prev h hn then .error s!"inadmissible-hint sample={k}"
    else
      let h' := if h.stale then Hist.blank h.float h.sum else { h with hint := hn }
      match applyHints trimmed (some h') rest hs (k + 1) with
      | .ok l => .ok ((t, h') :: l)
      | .error e => .error e
  | _, _, _, _ => .error "length-mismatch"

def semSamplesStr (l : List (Int × Hist)) : String :=
  if l.isEmpty then "-" else ";".intercalate (l.map fun p => s!"{p.1}={semStr p.2.hint p.2.sem}")

def step (st : St) (line : String) : St × String :=
  if (match toks line with | op :: _ => op.startsWith "d" && op != "dcfg" | [] => false) && !st.db then (st, "no-db") else
  match toks line with
  | ["sapp", si, cut, t, h] =>
    match si.toNat?, t.toInt?, parseHist? h with
    | some si, some t, some h =>
      let chunks := st.srcs.getD si []
      let fresh : Bool := match chunks with
        | [] => true
        | c :: _ => cut = "1" || c.float != h.float
      let res : Except Err (List Chunk × AppRes) :=
        if fresh then (appendHist chunks.head? (Chunk.empty h.float) t h).map fun r => (r.chunk :: chunks, r)
        else match chunks with
          | [] => .error .panic
          | c :: older => (appendHist none c t h).map fun r =>
              (if r.out = .newChunk then r.chunk :: c :: older else r.chunk :: older, r)
      match res with
      | .error _ => (st, "panic")
      | .ok (cs, r) => ({ st with srcs := setNth st.srcs si [] cs },
          s!"{outcomeStr r.out} hdr={hdrNum r.chunk.hdr} n={r.chunk.num}")
    | _, _, _ => (st, "bad-op")
  | ["merge", k] =>
    match k.toNat? with
    | some k =>
      let srcs := (st.srcs.take k).map sourceRead
      if srcs.isEmpty then (st, "-") else
      match mergeRead srcs with
      | some l => (st, samplesStr l)
      | none => (st, "merge-failed")
    | none => (st, "bad-op")
  | ["dcfg", _, _] => ({ st with db := true }, "ok")
  | ["dapp", t, h, adm] =>
    match t.toInt?, parseHist? h with
    | some t, some h => (if adm = "ok" then { st with accepted := insertSorted (t, h) st.accepted } else st, adm)
    | _, _ => (st, "bad-op")
  | ["dflush"] => (st, "ok")
  | ["dooo"] => (st, "ok")
  | ["dcompact"] => (st, "ok")
  | ["dreopen"] => (st, "ok")
  | [op, "reencode-failed"] =>
    -- observed outcome (oracle): possible for the model only on the input shape of finding C11-F1; nothing
    -- was persisted, the accepted samples stay where they were
    (st, if persistOp op && gaugeStaleShape st.accepted then "err-reencode" else "ok")
  | ["dq", mint, maxt, hints] =>
    match mint.toInt?, maxt.toInt? with
    | some mint, some maxt =>
      let sel := st.accepted.filter fun p => decide (mint ≤ p.1 ∧ p.1 ≤ maxt)
      let trimmed := st.accepted.any fun p => decide (p.1 < mint)
      let hs : Option (List Hint) := if hints = "-" then some [] else
        hints.toList.mapM fun c => hintOfNum? (c.toNat - 48)
      match hs with
      | none => (st, "bad-op")
      | some hs =>
        match applyHints trimmed none sel hs 0 with
        | .ok l => (st, semSamplesStr l)
        | .error e => (st, e)
    | _, _ => (st, "bad-op")
  | _ => (st, "bad-op")

def runLines : St → List String → List String
  | _, [] => []
  | st, l :: rest => let r := step st l; r.2 :: runLines r.1 rest

def model (ops : List String) : List String := runLines {} ops

/-! ### judge -/

def verdict (acc : List (Int × Hist)) : Nat → List String → List String → Option String
  | _, [], _ => none
  | _, _, [] => none
  | k, op :: ops, out :: outs =>
    match toks op with
    | ["merge", n] =>
      match parseSamples? out with
      | none => some s!"violation unparsable op={k}"
      | some l =>
        match unsoundAt none 0 l with
        | some i => some s!"violation hint-unsound-merge op={k} sources={n} sample={i}"
        | none => verdict acc (k + 1) ops outs
    | ["dapp", t, h, _] =>
      match t.toInt?, parseHist? h with
      | some t, some h => verdict (if out = "ok" then insertSorted (t, h) acc else acc) (k + 1) ops outs
      | _, _ => none
    | ["dq", mint, maxt, _] =>
      match mint.toInt?, maxt.toInt?, parseSemSamples? out with
      | some mint, some maxt, some l =>
        let sel := acc.filter fun p => decide (mint ≤ p.1 ∧ p.1 ≤ maxt)
        let same := sel.length == l.length && (sel.zip l).all fun (a, r) =>
          a.1 == r.1 && (if a.2.stale then r.2.stale else !r.2.stale && a.2.sem == r.2.sem)
        if !same then some s!"violation readback-query op={k}"
        else
          match unsoundAt none 0 l with
          | some 0 =>
            if acc.any fun p => decide (p.1 < mint) then
              -- finding C12-F1; keep looking so that it cannot mask a different violation
              match l with
              | (_, h0) :: rest =>
                match unsoundAt (some h0) 1 rest with
                | some i => some s!"violation hint-unsound-query op={k} sample={i}"
                | none =>
                  match verdict acc (k + 1) ops outs with
                  | some v => some v
                  | none => some s!"violation hint-first-sample-of-trimmed-query op={k}"
              | [] => none
            else some s!"violation hint-unsound-query op={k} sample=0"
          | some i => some s!"violation hint-unsound-query op={k} sample={i}"
          | none => verdict acc (k + 1) ops outs
      | _, _, _ => some s!"violation unparsable op={k} {(out.take 60).toString}"
    | [pop, "reencode-failed"] =>
      -- a failed persist op is outside the statement (hints of returned samples); it is an observation
      -- exactly on the input shape of finding C11-F1, anything else is a failed op
      if persistOp pop && out = "err-reencode" && gaugeStaleShape acc then verdict acc (k + 1) ops outs
      else some s!"violation op-failed op={k} {pop} {out}"
    | _ =>
      if out.startsWith "err" ∨ out.startsWith "panic" then some s!"violation op-failed op={k} {out}"
      else verdict acc (k + 1) ops outs

def judge (ops outs : List String) : String :=
  match verdict [] 0 ops outs with
  | none => "ok"
  | some v => v

def suite : Suite := { name := "hint", model := model, judge := judge }

end Prom.HintSuite
