import PromModel.Tsdb.WalFrame
/-
  Suite `wal` (property C13).  One case = one write-ahead log with the real 32 KiB page.

  ops (state = the log of this case):
    open <pps> <none|snappy|zstd>      segment size = pps·32768
    log <len:seed,len:seed,…|->        one `WL.Log(batch…)`; record bytes = genRec len seed
    liveread                           tail the segment files with a LiveReader (persistent in the case)
    close                              `WL.Close`
    dump <seg> <off> <len>             hex window of a segment file                        (none only)
    read                               `NewReader(NewSegmentsReader(dir))` to the end
    readtrunc <seg> <len>              same over segments 0..seg with seg cut to len bytes (none only)
    readmut <seg> <off> <mask>         same with one byte XOR-ed with mask                    (none only)
    rawtrunc <len>                     `NewReader(bytes.NewReader(concat(segments)[:len]))`   (none only)
    liveall <permille,…>               every segment through a fresh LiveReader that sees the file grow
                                       to size·p/1000 for each p, then to its full size
    livecuts <seg> <c1,c2,…>           one segment, absolute prefix lengths; output per observation
    livemut <seg> <off> <mask>         LiveReader over a whole segment with one byte XOR-ed with mask
  huge records (judge only: the op line is `<op> | <observation>`, implementation and model column `-`):
    bigopen <pps> <mode> | ok          as `open`
    biglog <spec,…|-> | ok             as `log`; spec = `len:seed` or the run `r<n>x<b>` = n copies of byte b
                                       (never materialised on the Lean side; the harness writes the real record)
    bigliveread | <recs> <status>      as `liveread`
    bigclose | ok
    bigread | <recs> <status>          as `read`
    bigliveall <permille,…> | <recs> <status>
    records are printed as `recFp`: `len:fnv1a64` below 2^19 bytes, else `len:s<byte sum>:<min byte>:<max byte>`
  outputs:
    records are printed as `len:fnv1a64` joined by `,` (`-` = none); reader status `eof` |
    `err:<class>` (Reader over segments: `err:<class>@<segment>:<offset>`).
    log (none): `ok segs=<n> cur=<len>:<fnv>`; close (none): `ok <len:fnv per segment>`;
    with compression the byte level is not modelled and both print `ok`.
-/
namespace Prom.Wal.Suite
open Prom Prom.Wal

def pageSize : Nat := 32768

/-- Deterministic record content, the same formula as the Go harness: `byte(seed + 31·j + j/251)`. -/
def genRec (len seed : Nat) : Bytes :=
  (List.range len).map fun j => UInt8.ofNat (seed + 31 * j + j / 251)

def fnvBA (b : ByteArray) : UInt64 := b.foldl fnvStep fnvInit

def hex64 (h : UInt64) : String := hexOfNat h.toNat 16

def recId (r : Bytes) : String := s!"{r.length}:{hex64 (fnv r)}"

def showRecs (rs : List String) : String := if rs.isEmpty then "-" else ",".intercalate rs

structure St where
  opened : Bool := false
  pps : Nat := 2
  compressed : Bool := false
  done : Array ByteArray := #[]
  cur : ByteArray := ByteArray.empty
  written : Array String := #[]
  -- liveread
  liveSeg : Nat := 0
  liveSt : LState := LState.init
  livePos : Nat := 0
  liveSeen : Nat := 0

def St.segs (st : St) : List ByteArray := (st.done.push st.cur).toList

def parsePairs? (s : String) : Option (List (Nat × Nat)) :=
  if s = "-" then some [] else
  (s.splitOn ",").mapM fun p =>
    match p.splitOn ":" with
    | [a, b] => do pure (← a.toNat?, ← b.toNat?)
    | _ => none

def parseNats? (s : String) : Option (List Nat) :=
  if s = "-" then some [] else (s.splitOn ",").mapM (·.toNat?)

def logOne (st : St) (rec : Bytes) : St :=
  let s := logStep pageSize st.pps crc32c st.cur.size rec
  -- `applyStep` on byte arrays
  let st := if s.cut then
      { st with done := st.done.push (st.cur ++ (zeros s.pad).toByteArray), cur := s.bytes.toByteArray }
    else { st with cur := st.cur ++ s.bytes.toByteArray }
  { st with written := st.written.push (recId rec) }

def showRStatusLoc (segs : List Bytes) : Status → String
  | .eof _ => "eof"
  | .err e a => let (k, off) := locate pageSize segs a; s!"err:{e.name}@{k}:{off}"

def showRStatus : Status → String
  | .eof _ => "eof"
  | .err e _ => s!"err:{e.name}"

def showLStatus : LStatus → String
  | .eof => "eof"
  | .err e => s!"err:{e.name}"

def readSegs (segs : List Bytes) : String :=
  let (rs, s) := readAll pageSize crc32c segs
  s!"{showRecs (rs.map recId)} {showRStatusLoc segs s}"

def setByte (bs : Bytes) (off : Nat) (m : UInt8) : Bytes :=
  match bs[off]? with
  | some b => bs.set off (b ^^^ m)
  | none => bs

/-- `chunks` for a list of nondecreasing absolute prefix lengths. -/
def chunksOf (seg : Bytes) (cuts : List Nat) : List Bytes :=
  let rec go (prev : Nat) : List Nat → List Bytes
    | [] => []
    | c :: cs => let c := min (max c prev) seg.length; (seg.drop prev).take (c - prev) :: go c cs
  go 0 cuts

/-- liveread: drain the current segment; on EOF move on while a newer segment exists. -/
def liveStep (st : St) : Nat → St → List String → List String × LStatus × St
  | 0, s, acc => (acc, .err .stuck, s)
  | fuel + 1, s, acc =>
    match st.segs[s.liveSeg]? with
    | none => (acc, .eof, s)
    | some seg =>
      let avail := (seg.extract s.livePos seg.size).toList
      let (rs, status, lst, avail') := lrDrain pageSize crc32c (drainFuel s.liveSt avail) s.liveSt avail
      let s := { s with liveSt := lst, livePos := seg.size - avail'.length }
      let acc := acc ++ rs.map recId
      match status with
      | .err _ => (acc, status, s)
      | .eof =>
        if s.liveSeg + 1 < st.segs.length then
          liveStep st fuel { s with liveSeg := s.liveSeg + 1, liveSt := LState.init, livePos := 0 } acc
        else (acc, status, s)

def liveAll (segs : List Bytes) (perm : List Nat) : String :=
  let rec go : List Bytes → List String → String
    | [], acc => s!"{showRecs acc} eof"
    | seg :: rest, acc =>
      let cuts := perm.map (fun p => seg.length * p / 1000) ++ [seg.length]
      let obs := liveRun pageSize crc32c LState.init [] (chunksOf seg cuts)
      let acc := acc ++ (obs.flatMap (·.1)).map recId
      match obs.find? (fun o => o.2 ≠ .eof) with
      | some o => s!"{showRecs acc} {showLStatus o.2}"
      | none => go rest acc
  go segs []

/-! ### Huge records: fingerprints (`recFp`) with a closed form for runs of one byte -/

def bigThreshold : Nat := 524288

def byteSum (r : Bytes) : Nat := r.foldl (fun a x => a + x.toNat) 0
def byteMin (r : Bytes) : Nat := r.foldl (fun a x => min a x.toNat) 255
def byteMax (r : Bytes) : Nat := r.foldl (fun a x => max a x.toNat) 0

/-- How the harness prints a record in the `big*` ops (Go: `fp`).  For a record of `bigThreshold` bytes or
    more: length, byte sum, smallest and largest byte — `min = max = b` says every byte is `b`, so together
    with the length this identifies a run exactly (`Prom.C13.huge_fp_identifies_run`). -/
def recFp (r : Bytes) : String :=
  if r.length < bigThreshold then recId r
  else s!"{r.length}:s{byteSum r}:{byteMin r}:{byteMax r}"

/-- One record of a `biglog` op. -/
inductive Spec where
  | gen (len seed : Nat)
  | run (n : Nat) (b : UInt8)

/-- The bytes the harness logs for a spec (used in theorems only; the judge never evaluates it on a run). -/
def Spec.bytes : Spec → Bytes
  | .gen l s => genRec l s
  | .run n b => List.replicate n b

/-- `recFp` of the spec's bytes, in closed form for runs (`Prom.C13.huge_fp_closed_form`). -/
def Spec.fp : Spec → String
  | .gen l s => recFp (genRec l s)
  | .run n b =>
    if n < bigThreshold then recId (List.replicate n b)
    else s!"{n}:s{n * b.toNat}:{b.toNat}:{b.toNat}"

def parseSpecs? (s : String) : Option (List Spec) :=
  if s = "-" then some [] else
  (s.splitOn ",").mapM fun p =>
    if p.startsWith "r" then
      match p.splitOn "x" with
      | [a, b] => do
        let n ← (String.ofList (a.toList.drop 1)).toNat?
        let b ← b.toNat?
        if b < 256 then pure (Spec.run n (UInt8.ofNat b)) else none
      | _ => none
    else
      match p.splitOn ":" with
      | [a, b] => do pure (Spec.gen (← a.toNat?) (← b.toNat?))
      | _ => none

def stepModel (st : St) (line : String) : St × String :=
  match toks line with
  | ["open", pps, mode] =>
    match pps.toNat? with
    | some pps => ({ opened := true, pps := pps, compressed := mode ≠ "none" }, "ok")
    | none => (st, "bad-op")
  | ["log", recs] =>
    match parsePairs? recs with
    | none => (st, "bad-op")
    | some ps =>
      if st.compressed then
        ({ st with written := ps.foldl (fun w (l, s) => w.push (recId (genRec l s))) st.written }, "ok")
      else
        let st := ps.foldl (fun st (l, s) => logOne st (genRec l s)) st
        (st, s!"ok segs={st.done.size + 1} cur={st.cur.size}:{hex64 (fnvBA st.cur)}")
  | ["close"] =>
    if st.compressed then (st, "ok") else
    let st := { st with cur := (closePad pageSize st.cur.toList).toByteArray }
    (st, "ok " ++ ",".intercalate (st.segs.map fun s => s!"{s.size}:{hex64 (fnvBA s)}"))
  | ["dump", seg, off, len] =>
    match seg.toNat?, off.toNat?, len.toNat? with
    | some k, some off, some len =>
      match st.segs[k]? with
      | some s => (st, hexEncBytes (s.extract off (off + len)).toList)
      | none => (st, "no-segment")
    | _, _, _ => (st, "bad-op")
  | ["read"] =>
    if st.compressed then (st, s!"{showRecs st.written.toList} eof")
    else (st, readSegs (st.segs.map (·.toList)))
  | ["readtrunc", seg, len] =>
    match seg.toNat?, len.toNat? with
    | some k, some len =>
      let segs := (st.segs.take (k + 1)).map (·.toList)
      (st, readSegs (segs.take k ++ (segs.drop k).map (·.take len)))
    | _, _ => (st, "bad-op")
  | ["readmut", seg, off, val] =>
    match seg.toNat?, off.toNat?, val.toNat? with
    | some k, some off, some v =>
      let segs := st.segs.map (·.toList)
      (st, readSegs (segs.take k ++ (match segs.drop k with | [] => [] | s :: r => setByte s off (UInt8.ofNat v) :: r)))
    | _, _, _ => (st, "bad-op")
  | ["rawtrunc", len] =>
    match len.toNat? with
    | some len =>
      let s := ((st.segs.map (·.toList)).flatten).take len
      let (rs, status) := rloop pageSize crc32c RState.init s
      (st, s!"{showRecs (rs.map recId)} {showRStatus status}")
    | none => (st, "bad-op")
  | ["liveread"] =>
    if st.compressed then
      ({ st with liveSeen := st.written.size },
       s!"{showRecs (st.written.toList.drop st.liveSeen)} eof")
    else
      let (rs, status, st') := liveStep st (st.segs.length + 2) st []
      (st', s!"{showRecs rs} {showLStatus status}")
  | ["liveall", perm] =>
    match parseNats? perm with
    | some perm =>
      if st.compressed then (st, s!"{showRecs st.written.toList} eof")
      else (st, liveAll (st.segs.map (·.toList)) perm)
    | none => (st, "bad-op")
  | ["livecuts", seg, cuts] =>
    match seg.toNat?, parseNats? cuts with
    | some k, some cuts =>
      match st.segs[k]? with
      | some s =>
        let obs := liveRun pageSize crc32c LState.init [] (chunksOf s.toList cuts)
        (st, ";".intercalate (obs.map fun o => s!"{showRecs (o.1.map recId)}/{showLStatus o.2}"))
      | none => (st, "no-segment")
    | _, _ => (st, "bad-op")
  | ["livemut", seg, off, val] =>
    match seg.toNat?, off.toNat?, val.toNat? with
    | some k, some off, some v =>
      match st.segs[k]? with
      | some s =>
        let obs := liveRun pageSize crc32c LState.init [] [setByte s.toList off (UInt8.ofNat v)]
        (st, ";".intercalate (obs.map fun o => s!"{showRecs (o.1.map recId)}/{showLStatus o.2}"))
      | none => (st, "no-segment")
    | _, _, _ => (st, "bad-op")
  | t :: _ => if t.startsWith "big" then (st, "-") else (st, "bad-op")
  | _ => (st, "bad-op")

def model (ops : List String) : List String :=
  let rec go (st : St) : List String → List String
    | [] => []
    | l :: rest => let (st', o) := stepModel st l; o :: go st' rest
  go {} ops

/-! ### Judge: the statement of C13 evaluated on the implementation's outputs, without the framing model.
    It only regenerates the written records from the `log` ops and fingerprints them.
    Truncated / mutated logs are outside the statement (they are compared model-vs-implementation only).
    NB the real Reader does *not* return a prefix of the written records on every truncated log: a file
    cut one or two bytes into a fragment header is zero-padded by `segmentBufReader`, and
    `<type> 00 00 | 00 00 00 00` is a valid zero-length fragment (crc32c("") = 0), so a phantom empty record
    or a record missing its last fragment is returned without an error. -/


def isInfix (a b : List String) : Bool :=
  a.isEmpty || (List.range (b.length + 1 - a.length)).any fun k => (b.drop k).take a.length = a

/-- `recs status` → (records, status). -/
def splitOut (out : String) : Option (List String × String) :=
  match toks out with
  | [r, s] => some (if r = "-" then [] else r.splitOn ",", s)
  | _ => none

structure JSt where
  written : List String := []
  live : List String := []

/-- The huge-record ops: the observation is in the op line (tokens after `|`).  Same clauses as for the
    ordinary ops — every record written comes back, in order, unchanged (length and content fingerprint),
    `eof` and no error from the Reader; the tailing LiveReader has returned exactly the records written so
    far after every `biglog`; a fresh LiveReader over the growing files returns them all — with the expected
    fingerprints computed by `Spec.fp` (closed form, nothing of the size of the record is built). -/
def bigStep (js : JSt) (k : Nat) (ts : List String) : Except String JSt :=
  let cmd := ts.takeWhile (· ≠ "|")
  let obs := (ts.dropWhile (· ≠ "|")).drop 1
  let opS := " ".intercalate cmd
  if obs.any (·.startsWith "panic") then .error s!"violation big-panic op={k} `{opS}` {" ".intercalate obs}" else
  if obs = ["hang"] || obs = ["abandoned"] then .error s!"violation big-hang op={k} `{opS}`" else
  let recsOf := fun (r : String) => if r = "-" then [] else r.splitOn ","
  let firstDiff := fun (rs : List String) =>
    (List.range (max rs.length js.written.length)).find? fun i => rs[i]? ≠ js.written[i]?
  match cmd, obs with
  | ["bigopen", _, _], o => if o = ["ok"] then .ok js else .error s!"violation big-open-error op={k} `{opS}`"
  | ["bigclose"], o =>
    if o = ["ok"] then .ok js else .error s!"violation big-close-error op={k} out={" ".intercalate o}"
  | ["biglog", recs], o =>
    if o ≠ ["ok"] then .error s!"violation big-log-error op={k} `{opS}` out={" ".intercalate o}" else
    match parseSpecs? recs with
    | some ps => .ok { js with written := js.written ++ ps.map Spec.fp }
    | none => .error s!"violation unparsable op={k} `{opS}`"
  | ["bigread"], [r, s] =>
    let rs := recsOf r
    if s ≠ "eof" then
      .error s!"violation big-read-error op={k} status={s} got={rs.length} want={js.written.length}"
    else if rs ≠ js.written then
      .error s!"violation big-read-mismatch op={k} got={rs.length} want={js.written.length} firstdiff={firstDiff rs} gotfp={(firstDiff rs).bind (rs[·]?)} wantfp={(firstDiff rs).bind (js.written[·]?)}"
    else .ok js
  | ["bigliveread"], [r, s] =>
    let live := js.live ++ recsOf r
    if s ≠ "eof" then .error s!"violation big-live-corruption op={k} status={s} seen={live.length} written={js.written.length}"
    else if live ≠ js.written then
      .error s!"violation big-live-skip-or-dup op={k} seen={live.length} written={js.written.length}"
    else .ok { js with live := live }
  | ["bigliveall", _], [r, s] =>
    let rs := recsOf r
    if s ≠ "eof" then .error s!"violation big-liveall-corruption op={k} `{opS}` status={s} seen={rs.length} written={js.written.length}"
    else if rs ≠ js.written then
      .error s!"violation big-liveall-skip-or-dup op={k} `{opS}` seen={rs.length} written={js.written.length} firstdiff={firstDiff rs}"
    else .ok js
  | _, _ => .error s!"violation unparsable op={k} `{opS}`"

def judge (ops outs : List String) : String :=
  let rec go (js : JSt) (ops outs : List String) (k : Nat) : String :=
    match ops, outs with
    | op :: ops, out :: outs =>
      if out.startsWith "panic" then s!"violation panic op={k} `{op}`" else
      if out = "hang" then s!"violation hang op={k} `{op}`" else
      match toks op with
      | ["log", recs] =>
        if !out.startsWith "ok" then s!"violation log-error op={k} out={out}" else
        match parsePairs? recs with
        | some ps => go { js with written := js.written ++ ps.map fun (l, s) => recId (genRec l s) } ops outs (k + 1)
        | none => "ok"
      | ["read"] =>
        match splitOut out with
        | some (rs, s) =>
          if s ≠ "eof" then s!"violation read-error op={k} status={s} got={rs.length} want={js.written.length}"
          else if rs ≠ js.written then
            s!"violation read-mismatch op={k} got={rs.length} want={js.written.length} firstdiff={(List.range rs.length).find? (fun i => rs[i]? ≠ js.written[i]?)}"
          else go js ops outs (k + 1)
        | none => s!"violation unparsable op={k}"
      | ["liveread"] =>
        match splitOut out with
        | some (rs, s) =>
          let live := js.live ++ rs
          if s ≠ "eof" then s!"violation live-corruption op={k} status={s}"
          else if live ≠ js.written then
            s!"violation live-skip-or-dup op={k} seen={live.length} written={js.written.length}"
          else go { js with live := live } ops outs (k + 1)
        | none => s!"violation unparsable op={k}"
      | ["liveall", _] =>
        match splitOut out with
        | some (rs, s) =>
          if s ≠ "eof" then s!"violation liveall-corruption op={k} `{op}` status={s}"
          else if rs ≠ js.written then s!"violation liveall-skip-or-dup op={k} `{op}` seen={rs.length} written={js.written.length}"
          else go js ops outs (k + 1)
        | none => s!"violation unparsable op={k}"
      | ["livecuts", _, _] =>
        if out = "no-segment" then go js ops outs (k + 1) else
        let obs := (out.splitOn ";").map fun o => o.splitOn "/"
        if obs.any (fun o => o.getLast? ≠ some "eof") then s!"violation livecuts-corruption op={k} `{op}`"
        else
          let rs := obs.flatMap fun o => match o with | r :: _ => (if r = "-" then [] else r.splitOn ",") | [] => []
          if !isInfix rs js.written then s!"violation livecuts-skip-or-dup op={k} `{op}`"
          else go js ops outs (k + 1)
      | t :: ts =>
        if t.startsWith "big" then
          match bigStep js k (t :: ts) with
          | .ok js' => go js' ops outs (k + 1)
          | .error v => v
        else go js ops outs (k + 1)
      | _ => go js ops outs (k + 1)
    | _, _ => "ok"
  go {} ops outs 0

def suite : Suite := { name := "wal", model := model, judge := judge }

end Prom.Wal.Suite
