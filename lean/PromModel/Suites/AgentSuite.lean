import PromModel.Tsdb.Agent
/-
  Suite `agent` (C48; agent half of C15): histories on a real `agent.DB`.
  ops (see harness/suites/agent/main.go):
    cfg <oooWindow> <inmem> <ver> | app <sid> <t> <v> <f|h|hc|g|gc> <useref> <-|et:ev:el> | bad <…>
    commit | rollback | cut | trunc <mint> | restart | dump | query
  The model side renders `Agent.Db`; the judge re-derives everything it checks from the op lines and
  the implementation's answers only (it never runs `Agent.Db`).
-/
namespace Prom.AgentSuite
open Prom.Ckpt Prom.Agent

/-! ### model -/

structure MState where
  db : Option Db := none
  cfg : Cfg := {}
  lastRef : List (Nat × Nat) := []

def MState.get (m : MState) : Db := m.db.getD (Db.init m.cfg)

def renderState (d : Db) : String :=
  let j := fun (xs : List String) => if xs.isEmpty then "-" else ",".intercalate xs
  let mem := (d.series.map fun s => (s.ref, s.lid, s.lastTs)).foldr insSorted []
  let del := (d.deleted.map fun x => (x.ref, x.seg, (x.lid : Int))).foldr insSorted []
  s!"{d.wal.render} # mem={j (mem.map fun a => s!"{a.1}:{a.2.1}:{a.2.2}")} del={j (del.map fun a => s!"{a.1}:{a.2.1}:{a.2.2}")} next={d.nextRef}"

def parseKind? : String → Option AKind
  | "f" => some .float | "h" => some (.hist false) | "hc" => some (.hist true)
  | "g" => some (.fhist false) | "gc" => some (.fhist true) | _ => none

def parseEx? (s : String) : Option (Option Ex) :=
  if s = "-" then some none else
  match s.splitOn ":" with
  | [a, b, c] => do pure (some ⟨← a.toInt?, ← b.toNat?, ← c.toNat?⟩)
  | _ => none

def lookup (m : List (Nat × Nat)) (k : Nat) : Nat := ((m.find? (·.1 = k)).map (·.2)).getD 0

def stepLine (m : MState) (line : String) : MState × String :=
  match toks line with
  | ["cfg", w, i, v] =>
    match w.toInt?, v.toNat? with
    | some w, some v =>
      if m.db.isSome then (m, "err:already-open") else
      let c : Cfg := ⟨w, i = "1", v⟩
      ({ m with cfg := c, db := some (Db.init c) }, "ok")
    | _, _ => (m, "bad-op")
  | ["app", sid, t, v, k, ur, ex] =>
    match sid.toNat?, t.toInt?, v.toNat?, parseKind? k, parseEx? ex with
    | some sid, some t, some v, some k, some ex =>
      let d := m.get
      let ref := if ur = "1" then lookup m.lastRef sid else 0
      match d.append ref sid t v k with
      | (d, .error .ooo) => ({ m with db := some d }, "ooo")
      | (d, .error _) => ({ m with db := some d }, "err")
      | (d, .ok r) =>
        let m := { m with lastRef := setAssoc m.lastRef sid r }
        match ex with
        | none => ({ m with db := some d }, s!"ok {r}")
        | some e =>
          let (d, res) := d.appendEx r e
          let tag := match res with
            | .ok _ => "exok"
            | .error .exDup => if d.cfg.ver = 2 then "exok" else "exdup"
            | .error _ => "exerr"
          ({ m with db := some d }, s!"ok {r} {tag}")
    | _, _, _, _, _ => (m, "bad-op")
  | ["bad", _] => ({ m with db := some m.get }, "invalid")
  | ["commit"] => let d := m.get.commit; ({ m with db := some d }, s!"ok {d.wal.lastIdx}")
  | ["rollback"] => let d := m.get.rollback; ({ m with db := some d }, s!"ok {d.wal.lastIdx}")
  | ["cut"] => let d := m.get; ({ m with db := some { d with wal := d.wal.nextSegment } }, "ok")
  | ["trunc", mint] =>
    match mint.toInt? with
    | some mint => let d := m.get.truncate mint; ({ m with db := some d }, renderState d)
    | none => (m, "bad-op")
  | ["restart"] => let d := m.get.rollback.restart; ({ m with db := some d, lastRef := [] }, renderState d)
  | ["dump"] => let d := m.get; ({ m with db := some d }, renderState d)
  | ["query"] => ({ m with db := some m.get }, "unsupported unsupported unsupported")
  | _ => (m, "bad-op")

def model (lines : List String) : List String :=
  let rec go (m : MState) : List String → List String
    | [] => []
    | l :: ls => let (m, o) := stepLine m l; o :: go m ls
  go {} lines

/-! ### judge: C48's statement (and C15's second sentence for the agent) on the observed behaviour -/

structure Acc where
  kind : SKind
  sid : Nat
  ref : Nat
  t : Int
  v : Nat
  seg : Int := -1       -- segment it was logged to (known at commit)
deriving Repr, Inhabited

structure J where
  win : Int := 0
  inmem : Bool := false
  ver : Nat := 1
  pending : List Acc := []
  committed : List Acc := []
  dead : List (Nat × String) := []          -- payload ids that must never be logged, and why
  lastW : List (Nat × Int) := []            -- ref ↦ newest committed sample time
  sidW : List (Nat × Int) := []             -- sid ↦ newest committed sample time (any ref)
  maxMint : Option Int := none
  restarted : Bool := false
  dupRefs : List Nat := []                  -- refs that some restart found behind an earlier ref of the same labels
  latestEx : List (Nat × Ex) := []          -- v2 only: what the judge must assume was deduplicated
  lastRef : List (Nat × Nat) := []

def kindOf : String → SKind
  | "h" => .hist | "hc" => .chist | "g" => .fhist | "gc" => .cfhist | _ => .float

def getI (m : List (Nat × Int)) (k : Nat) : Option Int := (m.find? (·.1 = k)).map (·.2)

def setMax (m : List (Nat × Int)) (k : Nat) (t : Int) : List (Nat × Int) :=
  match getI m k with
  | some old => if t > old then m.map fun p => if p.1 = k then (k, t) else p else m
  | none => m ++ [(k, t)]

def needed (j : J) (t : Int) : Bool := match j.maxMint with | none => true | some m => decide (t ≥ m)

/-- position-aware search: is `(kind, ref, t, v)` logged after a series record `(ref, sid)`? -/
inductive Found | absent | orphan | wrongSeries | ok
deriving DecidableEq

def findAcc (a : Acc) : List (Nat × Nat) → List Rec → Found
  | _, [] => .absent
  | known, .series xs :: rest => findAcc a (known ++ xs) rest
  | known, .smp k xs :: rest =>
    if k = a.kind ∧ xs.any (fun x => x.ref = a.ref ∧ x.t = a.t ∧ x.v = a.v) then
      match known.filter (·.1 = a.ref) with
      | [] => .orphan
      | ps => if ps.any (·.2 = a.sid) then .ok else .wrongSeries
    else findAcc a known rest
  | known, _ :: rest => findAcc a known rest

def loggedIds (recs : List Rec) : List Nat :=
  recs.flatMap fun r => match r with
    | .smp .ex _ => []
    | .smp _ xs => xs.map (·.v)
    | _ => []

/-- refs whose series record is preceded by a series record of the same labels under another ref -/
def dupRefsOf (recs : List Rec) : List Nat :=
  let ss := recs.flatMap fun r => match r with | .series xs => xs | _ => []
  let rec go (seen : List (Nat × Nat)) : List (Nat × Nat) → List Nat
    | [] => []
    | p :: ps =>
      (if seen.any (fun q => q.2 = p.2 ∧ q.1 ≠ p.1) then [p.1] else []) ++ go (seen ++ [p]) ps
  go [] ss

def checkState (j : J) (out : String) (isRestart : Bool) : Except String J :=
  match out.splitOn " # " with
  | [dump, _mem] =>
    match parseDump? dump with
    | none => .error s!"unparsable-output {out.take 80}"
    | some w =>
      let recs := w.recs
      let j := if isRestart then { j with dupRefs := j.dupRefs ++ dupRefsOf recs } else j
      -- (a) every non-series record is preceded by its series record
      match orphans [] recs with
      | (tag, ref, t) :: _ =>
        let kind := if j.dupRefs.contains ref then "duplicate-ref-orphan" else "plain"
        .error s!"orphan-record kind={kind} rec={tag} ref={ref} t={t} inmem={j.inmem}"
      | [] =>
        -- (b) every acknowledged entry at or after the truncation time is there, after its series record
        let bad := j.committed.findSome? fun a =>
          if !needed j a.t then none else
          match findAcc a [] recs with
          | .ok => none
          | .absent =>
            let cpIdx : Int := match w.cp with | some (i, _) => i | none => -1
            let kind := if j.inmem ∧ a.seg ≥ 0 ∧ a.seg ≤ cpIdx then "inmemory-checkpoint-drops-samples" else "plain"
            some s!"accepted-entry-missing kind={kind} sid={a.sid} ref={a.ref} t={a.t} v={a.v} mint={j.maxMint}"
          | .orphan => some s!"orphan-record kind=plain-late-series ref={a.ref} t={a.t}"
          | .wrongSeries => some s!"accepted-entry-misattributed sid={a.sid} ref={a.ref} t={a.t} v={a.v}"
        match bad with
        | some b => .error b
        | none =>
          -- (c) rejected and rolled-back samples are nowhere
          let ids := loggedIds recs
          match j.dead.find? fun p => ids.contains p.1 with
          | some (v, why) => .error s!"{why}-sample-logged v={v}"
          | none => .ok j
  | _ => .error s!"unparsable-output {out.take 80}"

def minValid (win lastTs : Int) : Int := if lastTs < MinI64 + win then MinI64 else lastTs - win

def judgeStep (j : J) (op out : String) : Except String J :=
  match toks op with
  | ["cfg", w, i, v] =>
    if out = "ok" then .ok { j with win := w.toInt?.getD 0, inmem := i = "1", ver := v.toNat?.getD 1 } else .ok j
  | ["app", sid, t, v, k, _, ex] =>
    match sid.toNat?, t.toInt?, v.toNat?, parseEx? ex with
    | some sid, some t, some v, some ex =>
      match toks out with
      | "ok" :: r :: rest =>
        match r.toNat? with
        | none => .error s!"unparsable-output {out.take 80}"
        | some r =>
          -- accepted ⇒ newer than the last written sample of this series minus the window
          let tooOld : Option Int := match getI j.lastW r with
            | some l => if needed j l ∧ t ≤ minValid j.win l then some l else none
            | none => none
          match tooOld with
          | some l => .error s!"reject-rule kind=accepted-too-old sid={sid} ref={r} t={t} last={l} window={j.win}"
          | none =>
          let j := { j with pending := j.pending ++ [⟨kindOf k, sid, r, t, v, -1⟩] }
          match ex, rest with
          | some e, ["exok"] =>
            if j.ver = 2 ∧ (j.latestEx.find? (·.1 = r)).map (·.2) = some e then .ok j
            else .ok { j with pending := j.pending ++ [⟨.ex, sid, r, e.t, e.v, -1⟩],
                              latestEx := setAssoc j.latestEx r e }
          | _, _ => .ok j
      | ["ooo"] =>
        -- rejected ⇒ not newer than some written sample of the series minus the window
        let j := { j with dead := j.dead ++ [(v, "rejected")] }
        match getI j.sidW sid with
        | some l => if t ≤ minValid j.win l then .ok j else
          let kind := if j.restarted ∧ t ≤ minValid j.win 0 then "replayed-lastts-zero" else "plain"
          .error s!"reject-rule kind={kind} sid={sid} t={t} last={l} window={j.win}"
        | none =>
          let kind := if j.restarted ∧ t ≤ minValid j.win 0 then "replayed-lastts-zero" else "plain"
          .error s!"reject-rule kind={kind} sid={sid} t={t} last=none window={j.win}"
      | _ => .ok { j with dead := j.dead ++ [(v, "errored")] }
    | _, _, _, _ => .ok j
  | ["commit"] =>
    match toks out with
    | ["ok", seg] =>
      let seg := seg.toInt?.getD (-1)
      let samples := j.pending.filter (·.kind ≠ .ex)
      .ok { j with committed := j.committed ++ j.pending.map (fun a => { a with seg := seg }), pending := [],
                   lastW := samples.foldl (fun m a => setMax m a.ref a.t) j.lastW,
                   sidW := samples.foldl (fun m a => setMax m a.sid a.t) j.sidW }
    | _ => .error s!"commit-failed {out.take 80}"
  | ["rollback"] =>
    .ok { j with dead := j.dead ++ (j.pending.filter (·.kind ≠ .ex)).map (fun a => (a.v, "rolledback")), pending := [] }
  | ["trunc", m] =>
    match m.toInt? with
    | some m =>
      let j := { j with maxMint := some (match j.maxMint with | some o => max o m | none => m) }
      checkState j out false
    | none => .ok j
  | ["restart"] =>
    let j := { j with dead := j.dead ++ (j.pending.filter (·.kind ≠ .ex)).map (fun a => (a.v, "rolledback")),
                      pending := [], restarted := true, latestEx := [] }
    checkState j out true
  | ["dump"] => checkState j out false
  | ["query"] =>
    if out = "unsupported unsupported unsupported" then .ok j else .error s!"query-served {out.take 60}"
  | _ => .ok j

def judge (ops outs : List String) : String :=
  let rec go (j : J) (k : Nat) : List (String × String) → String
    | [] => "ok"
    | (op, out) :: rest =>
      if out.startsWith "panic:" then s!"violation panic step={k} {out.take 80}" else
      match judgeStep j op out with
      | .error e => s!"violation {e} step={k}"
      | .ok j => go j (k + 1) rest
  go {} 0 (ops.zip outs)

def suite : Suite := { name := "agent", model := model, judge := judge }

end Prom.AgentSuite
