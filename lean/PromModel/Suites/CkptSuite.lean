import PromModel.Tsdb.CheckpointHead
/-
  Suite `ckpt` (C15): histories on a real `tsdb.Head` with a WAL and a retained copy of every segment.
  ops (see harness/suites/ckpt/main.go):
    hcfg <conc> | tx <c|r> <item>… | del <lid> <mint> <maxt> | cut | trunc <mint> | walt <mint>
    evict <sel|stale> <maxt> <lids> | restart <minValidTime> | dump
  The judge evaluates C15's statement on the implementation's answers only.
-/
namespace Prom.CkptSuite
open Prom.Ckpt Prom.CkptHead

/-! ### model -/

def jn (xs : List String) : String := if xs.isEmpty then "-" else ",".intercalate xs

def insBy {α : Type} (key : α → Nat) (x : α) : List α → List α
  | [] => [x]
  | y :: ys => if key x ≤ key y then x :: y :: ys else y :: insBy key x ys

def sortBy {α : Type} (key : α → Nat) (xs : List α) : List α := xs.foldr (insBy key) []

def renderMem (m : Mem) (tainted : List Nat := []) (ambig : List Nat := []) : String :=
  let ser := (sortBy (·.ref) (m.series.filter fun s => !s.hidden)).map fun s =>
    let vis := s.smps.filter fun x => !Prom.Intervals.coversB s.tombs x.1
    let sm := if vis.isEmpty then "-" else ".".intercalate (vis.map fun x => s!"{x.1}={x.2}")
    let tb := if s.tombs.isEmpty then "-" else "+".intercalate (s.tombs.map fun iv => s!"{iv.mint}~{iv.maxt}")
    let mid := if ambig.contains s.lid then "?" else match s.mid with | some i => toString i | none => "-"
    s!"{s.ref}:{s.lid}:{mid}:{sm}:{tb}"
  let exp := (sortBy (·.1) m.walExp).map fun p => s!"{p.1}:{p.2}"
  let exs := (sortBy (·.1) (m.exs.filter fun p => !tainted.contains p.1)).map fun p => s!"{p.1}@{p.2.1}={p.2.2}"
  s!"ser={jn ser} exp={jn exp} ex={jn exs} win={m.minT}:{m.maxT}:{m.minValid} last={m.lastID}"

def renderState (h : Head) (tainted ambig : List Nat) : String := s!"{h.wal.render} # {renderMem h.mem tainted ambig}"

def parseItem? (s : String) : Option Item :=
  if s.startsWith "s" then
    match (s.drop 1).toString.splitOn "@" with
    | [lid, rest] =>
      let ex := rest.endsWith "x"
      let rest := if ex then (rest.dropEnd 1).toString else rest
      match rest.splitOn "=" with
      | [t, v] => do pure (.smp (← lid.toNat?) (← t.toInt?) (← v.toNat?) ex)
      | _ => none
    | _ => none
  else if s.startsWith "m" then
    match (s.drop 1).toString.splitOn "=" with
    | [lid, mid] => do pure (.mdata (← lid.toNat?) (← mid.toNat?))
    | _ => none
  else none

def parseNats? (s : String) : Option (List Nat) := (s.splitOn ",").mapM (·.toNat?)

def mergeSkips : List Bool → List String → List String
  | [], _ => []
  | true :: bs, rs => "skip" :: mergeSkips bs rs
  | false :: bs, r :: rs => r :: mergeSkips bs rs
  | false :: _, [] => []

/-- label sets whose replayed metadata depends on Go map order: two refs of the checkpoint with the same
    label set and different entries in its final metadata record (see the harness). -/
def ambiguousMeta (w : Wal) : List Nat :=
  let recs := w.cpRecs
  let refLid : List (Nat × Nat) := recs.flatMap fun r => match r with | .series xs => xs | _ => []
  match recs.getLast? with
  | some (.mdata xs) =>
    let withLid := xs.filterMap fun p => (refLid.find? (·.1 = p.1)).map fun q => (q.2, p.2)
    (withLid.filter fun a => withLid.any fun b => b.1 = a.1 ∧ b.2 ≠ a.2).map (·.1)
  | _ => []

def initHead : Head := { mem := replay MinI64 [], wal := ({} : Wal).open_ }

def stepLine' (tainted ambig : List Nat) (h : Head) (line : String) : Head × String :=
  match toks line with
  | ["hcfg", _] => (h, "ok")
  | "tx" :: cr :: items =>
    match items.mapM parseItem? with
    | some its =>
      let skip := fun (it : Item) => match it with | .mdata lid _ => ambig.contains lid | _ => false
      let (h, res) := h.tx (cr = "c") (its.filter fun it => !skip it)
      let res := mergeSkips (its.map skip) res
      -- the exemplar storage of a label set named in an evict op is not a function of the history (see the
      -- harness): the outcome of validating a new exemplar against it is not printed
      let res := (its.zip res).map fun (it, r) => match it with
        | .smp lid _ _ _ => if tainted.contains lid then ((r.splitOn "!").headD r) else r
        | _ => r
      (h, if res.isEmpty then "-" else ",".intercalate res)
    | none => (h, "bad-op")
  | ["del", lid, a, b] =>
    match lid.toNat?, a.toInt?, b.toInt? with
    | some lid, some a, some b => (h.delete lid a b, "ok")
    | _, _, _ => (h, "bad-op")
  | ["cut"] => ({ h with wal := h.wal.nextSegment }, "ok")
  | ["trunc", m] =>
    match m.toInt? with
    | some m => let h := h.truncate m; (h, renderState h tainted ambig)
    | none => (h, "bad-op")
  | ["walt", m] =>
    match m.toInt? with
    | some m => let h := h.truncateWAL m; (h, renderState h tainted ambig)
    | none => (h, "bad-op")
  | ["evict", k, maxt, lids] =>
    match maxt.toInt?, parseNats? lids with
    | some maxt, some lids => let h := h.evict (k = "stale") maxt lids; (h, renderState h tainted ambig)
    | _, _ => (h, "bad-op")
  | ["restart", mv] =>
    match mv.toInt? with
    | some mv =>
      let h := h.restart mv
      (h, s!"{renderState h tainted ambig} ## {renderMem (replay mv h.retained) tainted ambig}")
    | none => (h, "bad-op")
  | ["dump"] => (h, renderState h tainted ambig)
  | _ => (h, "bad-op")

/-- label sets named in an evict op so far (their exemplars are not printed, see the harness) -/
def taintOf (tainted : List Nat) (line : String) : List Nat :=
  match toks line with
  | ["evict", _, _, lids] => tainted ++ (parseNats? lids).getD []
  | _ => tainted

def model (lines : List String) : List String :=
  let rec go (h : Head) (tainted ambig : List Nat) : List String → List String
    | [] => []
    | l :: ls =>
      let tainted := taintOf tainted l
      let ambig := match toks l with
        | ["restart", mv] => if mv.toInt?.isSome then ambig ++ ambiguousMeta h.wal.open_ else ambig
        | _ => ambig
      let (h, o) := stepLine' tainted ambig h l
      o :: go h tainted ambig ls
  go initHead [] [] lines

/-! ### judge -/

/-- one series of a printed head state -/
structure PSeries where
  ref : Nat
  lid : Nat
  mid : Option Nat
  smps : List (Int × Nat)
  tombs : List (Int × Int)
deriving Repr, Inhabited, DecidableEq

structure PState where
  series : List PSeries
  exs : List (Nat × Int × Nat)
  /-- the replayed head's min time (`win=<minT>:…`) -/
  minT : Int := MinI64
deriving Repr, Inhabited

def parseTV? (p : String) : Option (Int × Nat) :=
  match p.splitOn "=" with
  | [t, v] => do pure ((← t.toInt?), (← v.toNat?))
  | _ => none

def parseIv? (p : String) : Option (Int × Int) :=
  match p.splitOn "~" with
  | [a, b] => do pure ((← a.toInt?), (← b.toInt?))
  | _ => none

def parseSeries? (s : String) : Option PSeries :=
  match s.splitOn ":" with
  | [ref, lid, mid, sm, tb] => do
    let smps ← if sm = "-" then some [] else (sm.splitOn ".").mapM parseTV?
    let tombs ← if tb = "-" then some [] else (tb.splitOn "+").mapM parseIv?
    pure ⟨← ref.toNat?, ← lid.toNat?, if mid = "-" then none else if mid = "?" then some 999999 else mid.toNat?, smps, tombs⟩
  | _ => none

def parseEx? (p : String) : Option (Nat × Int × Nat) :=
  match p.splitOn "@" with
  | [lid, tv] => do
    let (t, v) ← parseTV? tv
    pure ((← lid.toNat?), t, v)
  | _ => none

/-- `last=<lastSeriesID>` of one replay's state line. -/
def lastOf? (s : String) : Option Nat :=
  ((toks s).find? (·.startsWith "last=")).bind fun t => (t.drop 5).toString.toNat?

/-- `win=<minT>:<maxT>:<minValidTime>` → `minT`. -/
def winMin? (w : String) : Option Int :=
  if !w.startsWith "win=" then none else
  match (w.drop 4).toString.splitOn ":" with
  | [a, _, _] => a.toInt?
  | _ => none

def parseMem? (s : String) : Option PState :=
  match toks s with
  | [ser, _exp, ex, win, _last] =>
    if !ser.startsWith "ser=" ∨ !ex.startsWith "ex=" then none else do
    let minT ← winMin? win
    let ser := (ser.drop 4).toString
    let ex := (ex.drop 3).toString
    let series ← if ser = "-" then some [] else (ser.splitOn ",").mapM parseSeries?
    let exs ← if ex = "-" then some [] else (ex.splitOn ",").mapM parseEx?
    pure ⟨series, exs, minT⟩
  | _ => none

structure Ack where
  kind : SKind
  lid : Nat
  ref : Nat
  t : Int
  v : Nat
deriving Repr, Inhabited

structure J where
  committed : List Ack := []
  maxMint : Option Int := none
  /-- some earlier restart replayed the truncated log to a LOWER lastSeriesID than the retained full log
      (the checkpoint dropped the series record of the highest ref, finding C22-F2): refs can since have
      been issued twice, and the full log is then no valid reference for the truncated one. -/
  refLow : Bool := false

def needed (j : J) (t : Int) : Bool := match j.maxMint with | none => true | some m => decide (t ≥ m)

inductive Found | absent | orphan | wrongSeries | ok
deriving DecidableEq

def findAck (a : Ack) : List (Nat × Nat) → List Rec → Found
  | _, [] => .absent
  | known, .series xs :: rest => findAck a (known ++ xs) rest
  | known, .smp k xs :: rest =>
    if k = a.kind ∧ xs.any (fun x => x.ref = a.ref ∧ x.t = a.t ∧ x.v = a.v) then
      match known.filter (·.1 = a.ref) with
      | [] => .orphan
      | ps => if ps.any (·.2 = a.lid) then .ok else .wrongSeries
    else findAck a known rest
  | known, _ :: rest => findAck a known rest

/-- refs that still have a sample or exemplar entry at or after `m` somewhere in the log -/
def liveRefs (m : Int) (recs : List Rec) : List Nat :=
  recs.flatMap fun r => match r with
    | .smp _ xs => (xs.filter fun x => decide (x.t ≥ m)).map (·.ref)
    | _ => []

/-- C15, second sentence, in the head's time-based reading: every sample/exemplar entry at or after the
    truncation time, and every metadata or interval-tombstone entry of a series that still has such an
    entry, is preceded by the series record of its ref. (Full-range tombstones of evicted series are
    documented to outlive their series record.) -/
def precViolation (j : J) (recs : List Rec) : Option String :=
  let m := j.maxMint.getD MinI64
  let live := liveRefs m recs
  let rec go (known : List Nat) : List Rec → Option String
    | [] => none
    | .series xs :: rest => go (known ++ xs.map (·.1)) rest
    | .smp k xs :: rest =>
      match xs.find? fun x => decide (x.t ≥ m) && !known.contains x.ref with
      | some x => some s!"orphan-record rec={kindTag k} ref={x.ref} t={x.t} mint={m}"
      | none => go known rest
    | .tomb xs :: rest =>
      match xs.find? fun s => !isFull s && live.contains s.ref && !known.contains s.ref with
      | some s => some s!"orphan-record rec=T ref={s.ref} mint={m}"
      | none => go known rest
    | .mdata xs :: rest =>
      match xs.find? fun p => live.contains p.1 && !known.contains p.1 with
      | some p => some s!"orphan-record rec=M ref={p.1} mint={m}"
      | none => go known rest
  go [] recs

def clipIvs (m : Int) (ivs : List (Int × Int)) : List (Int × Int) :=
  (ivs.filter fun iv => decide (iv.2 ≥ m)).map fun iv => (max iv.1 m, iv.2)

/-- what replay must agree on for one label set, restricted to `t ≥ m`; tombstones to `t ≥ mt` -/
def restrictSeries (m mt : Int) (s : PSeries) : List (Int × Nat) × List (Int × Int) :=
  (s.smps.filter fun x => decide (x.1 ≥ m), clipIvs mt s.tombs)

def hasRecent (m : Int) (s : PSeries) : Bool := s.smps.any fun x => decide (x.1 ≥ m)

/-- C15, first sentence: the head rebuilt from checkpoint + segments equals the head rebuilt from the
    retained full log, on everything at or after the truncation time: per label set that still has a
    sample there, the samples (deletions applied) and tombstones clipped to `[mint, ∞)` and to the
    replayed heads' own time range (a head holds nothing below its min time: `Head.gc`, which ends every
    replay, drops the tombstones lying wholly below it — `TruncateBefore(h.MinTime())` — and the min time
    of a replayed head is its oldest replayed sample, so the head rebuilt from the truncated log, whose
    samples below `mint` are gone, starts later than the one rebuilt from the full log; tombstones are
    therefore compared from the later of the two min times on — no sample of either head, and no sample
    an in-order series can still get, lies below it); the exemplars
    at or after `mint`; and the latest metadata — compared whenever both replays resolve the label set
    to the SAME series ref (when the old incarnation of a series was garbage-collected and its records
    legitimately dropped, the full log still resurrects its metadata; the live head had forgotten it too). -/
def replayViolation (j : J) (got full : PState) : Option String :=
  let m := j.maxMint.getD MinI64
  match got.series.find? fun s => s.mid = some 999999 with
  | some s => some s!"replay-differs what=metadata kind=duplicate-ref-map-order lid={s.lid} ref={s.ref}"
  | none =>
  let mt := max m (max got.minT full.minT)
  let lids := ((got.series ++ full.series).filter (hasRecent m)).map (·.lid)
  let bad := lids.findSome? fun l =>
    let ga := got.series.filter (·.lid = l)
    let fa := full.series.filter (·.lid = l)
    let a := ga.map (restrictSeries m mt)
    let b := fa.map (restrictSeries m mt)
    if a.map (·.1) ≠ b.map (·.1) then some s!"replay-differs what=samples lid={l} mint={m}"
    else if a.map (·.2) ≠ b.map (·.2) then some s!"replay-differs what=tombstones lid={l} mint={m}"
    else if ga.map (·.ref) = fa.map (·.ref) ∧ ga.map (·.mid) ≠ fa.map (·.mid) then
      some s!"replay-differs what=metadata kind=same-series-latest-lost lid={l} ref={ga.map (·.ref)} got={ga.map (·.mid)} full={fa.map (·.mid)} mint={m}"
    else none
  match bad with
  | some e => some e
  | none =>
    let ea := got.exs.filter fun e => decide (e.2.1 ≥ m)
    let eb := full.exs.filter fun e => decide (e.2.1 ≥ m)
    if ea ≠ eb then some s!"replay-differs what=exemplars mint={m}" else none

def checkDump (j : J) (dump : String) : Except String Unit :=
  match parseDump? dump with
  | none => .error s!"unparsable-output {dump.take 80}"
  | some w =>
    let recs := w.recs
    match precViolation j recs with
    | some e => .error e
    | none =>
      -- records with t ≥ mint all survive, behind their series record
      let bad := j.committed.findSome? fun a =>
        if !needed j a.t then none else
        match findAck a [] recs with
        | .ok => none
        | .absent => some s!"accepted-entry-missing rec={kindTag a.kind} lid={a.lid} ref={a.ref} t={a.t} v={a.v}"
        | .orphan => some s!"orphan-record rec={kindTag a.kind} ref={a.ref} t={a.t} late-series"
        | .wrongSeries => some s!"accepted-entry-misattributed lid={a.lid} ref={a.ref} t={a.t} v={a.v}"
      match bad with
      | some b => .error b
      | none => .ok ()

def judgeStep (j : J) (op out : String) : Except String J :=
  match toks op with
  | "tx" :: cr :: items =>
    if cr ≠ "c" ∨ out.startsWith "err" then .ok j else
    let res := out.splitOn ","
    let acks := (items.zip res).flatMap fun (it, r) =>
      match parseItem? it, r.splitOn ":" with
      | some (.smp lid t v ex), ["ok", ref] =>
        match ref.toNat? with
        | some ref => [⟨SKind.float, lid, ref, t, v⟩] ++ (if ex then [⟨SKind.ex, lid, ref, t, v⟩] else [])
        | none => []
      | _, _ => []
    .ok { j with committed := j.committed ++ acks }
  | [k, m] =>
    if k = "trunc" ∨ k = "walt" then
      match m.toInt? with
      | some m =>
        -- the truncation time only counts once the implementation really truncated memory/WAL up to it;
        -- `trunc` on an initialised head always does, `walt` only above the last WAL truncation time:
        -- in both cases records below the requested time may be gone afterwards.
        let j := { j with maxMint := some (match j.maxMint with | some o => max o m | none => m) }
        match out.splitOn " # " with
        | [dump, _] => (checkDump j dump).map fun _ => j
        | _ => .error s!"unparsable-output {out.take 80}"
      | none => .ok j
    else if k = "restart" then
      match out.splitOn " ## " with
      | [st, full] =>
        match st.splitOn " # " with
        | [dump, mem] =>
          match checkDump j dump with
          | .error e => .error e
          | .ok _ =>
            match parseMem? mem, parseMem? full with
            | some a, some b =>
              let low : Bool := match lastOf? mem, lastOf? full with
                | some x, some y => decide (x < y)
                | _, _ => false
              match replayViolation j a b with
              | some e =>
                if (j.refLow || low) && decide ((e.splitOn "kind=").length < 2)
                then .error ((e.replace "replay-differs what=" "replay-differs kind=ref-reissued-after-checkpoint what="))
                else .error e
              | none => .ok { j with refLow := j.refLow || low }
            | _, _ => .error s!"unparsable-output {mem.take 80}"
        | _ => .error s!"unparsable-output {out.take 80}"
      | _ => .error s!"unparsable-output {out.take 80}"
    else .ok j
  | "evict" :: _ =>
    match out.splitOn " # " with
    | [dump, _] => (checkDump j dump).map fun _ => j
    | _ => .error s!"unparsable-output {out.take 80}"
  | ["dump"] =>
    match out.splitOn " # " with
    | [dump, _] => (checkDump j dump).map fun _ => j
    | _ => .error s!"unparsable-output {out.take 80}"
  | _ => .ok j

def judge (ops outs : List String) : String :=
  let rec go (j : J) (k : Nat) : List (String × String) → String
    | [] => "ok"
    | (op, out) :: rest =>
      if out.startsWith "panic:" then s!"violation panic step={k} {out.take 80}" else
      match judgeStep j op out with
      | .error e => s!"violation {e} step={k}"
      | .ok j => go j (k + 1) rest
  go {} 0 (ops.zip outs)

def suite : Suite := { name := "ckpt", model := model, judge := judge }

end Prom.CkptSuite
