import PromModel.Prelude.Line
import PromModel.Num.F64
import PromModel.Promql.RangeEval
import PromModel.Promql.AggK
/-
  Suite `promqlrange` (property C27).
  ops:  `cfg <lookback_ms>` | `ser <name> <labels|-> <t:bits,…|->` | `hser <name> <labels|-> <t:i,…|->`
        `rq <start> <end> <step> <expr tokens…> [obs=<out>]`   range query (expr in prefix form, see `parseQ`)
        `iq <i> [obs=<out>]`      instant query of the latest rq's expr (`@ start()/end()` replaced by the literal
                                  start/end of the range query) at `start + i·step`
        `oq <i> <d> [obs=<out>]`  instant query at `start + i·step + d` of that expr with every selector/subquery
                                  offset outside subqueries increased by `d`
  out:  `ok`/`err` for data lines; for queries the canonical result (also recorded as `obs=`):
        variants joined by `~`; variant = `E:<class>` | steps joined by `|`; step = `-` | elements joined by `;`;
        element = `<l:v,l:v…>=<16 hex value bits | H<hash>>`.

  judge : THE PROPERTY ITSELF on the implementation's outputs, no model involved: every variant of the range
          result at step i equals every variant of the instant result at `start + i·step` — same label sets, same
          value bits (NaN-aware: any two NaN bit patterns are equal; the staleness marker must never appear in a
          result), same error/no-error — and (offset clause) `oq i d` equals `iq i` when the expression has no `@`
          and no function of the evaluation time. A mismatch is classified `kind=order-sensitive-aggregation`
          (finding F12) ONLY when (a) the expression contains topk/bottomk/limitk over a non-selector operand and
          the two step results have the same number of elements and (except limitk) the same multiset of values,
          or (b) it contains sum/avg/stddev/stdvar/quantile over a non-selector operand, the label sets agree and
          every value pair is within 4 ulp (2^13 ulp when the aggregation is stddev/stdvar, whose final subtraction
          amplifies the accumulation-order difference). A range-vs-instant mismatch of an expression in which
          `PreprocessExpr` skips an aggregation PARAMETER in a way that matters (`Q.paramSkipped`: the operand is
          step invariant but the parameter is not, or the parameter contains an `@` modifier that is left
          unresolved / unwrapped) is `kind=agg-param-not-preprocessed` (finding C27-F2); a range query that fails
          although every instant query succeeds, over topk/bottomk/limitk with a non-literal parameter while the
          case contains a value <= -2^63, is `kind=k-underflow-range-only` (finding C27-F3); such a range-only
          failure of an expression with a subquery whose range is shorter than the step of its reader
          (`Q.sparseSubq`: child steps outside every parent window are evaluated in range mode only) is
          `kind=subquery-unneeded-step-error` (finding C27-F4). Everything else is
          `kind=other`. A `kind=other` violation anywhere in the case takes precedence over the known kinds.
  model : for expressions of the core language (PromModel/Promql/RangeEval.lean) over finite float data:
          `rangeQuery` (the engine's strategy) for `rq`, `instantQuery` for `iq`/`oq`, over exact rationals; an
          observed result with the same label sets whose values are within 2^-40 relative of the model's is
          echoed (binary64 rounding of non-dyadic intermediate values such as `time()`), otherwise the model's
          own rendering is printed. `topk/bottomk/limitk(<param>, <selector>)` with a per-step parameter
          (number literals, `time()`, `scalar(<selector | count/sum/min/max of a selector>)`, + - * / % and
          comparisons with `bool`, every intermediate value exactly representable) runs through the cursor
          model of `rangeEvalAgg`/`aggregationK` (PromModel/Promql/AggK.lean: `rangeEvalAggK` for `rq`,
          `instantK` for `iq`); an observed step is echoed when it is an admissible selection (same groups'
          value multisets; for limitk the same series). Everything else is echoed (judge only).
-/
namespace Prom.RangeSuite
open Prom.RangeEval

/-! ### expression trees (all node kinds the generator emits) -/

inductive Q where
  | sel (name ms : String) (off : Int) (at_ : String)
  | msel (name ms : String) (off : Int) (at_ : String) (range : Int)
  | subq (range step off : Int) (at_ : String) (e : Q)
  | num (bits : Nat)
  | str (s : String)
  | call0 (fn : String)
  | call1 (fn strs : String) (a : Q)
  | call2 (fn strs : String) (a b : Q)
  | call3 (fn strs : String) (a b c : Q)
  | bin (op : String) (bool : Bool) (mk ml card incl : String) (l r : Q)
  | agg (op grp gl : String) (e : Q)
  | aggP (op grp gl : String) (p e : Q)
  | neg (e : Q)
  deriving Repr, BEq, Inhabited

def parseQ : Nat → List String → Option (Q × List String)
  | 0, _ => none
  | fuel + 1, toks =>
    match toks with
    | "sel" :: n :: ms :: off :: at_ :: rest => do
      pure (.sel n ms (← off.toInt?) at_, rest)
    | "msel" :: n :: ms :: off :: at_ :: r :: rest => do
      pure (.msel n ms (← off.toInt?) at_ (← r.toInt?), rest)
    | "subq" :: r :: st :: off :: at_ :: rest => do
      let (e, rest) ← parseQ fuel rest
      pure (.subq (← r.toInt?) (← st.toInt?) (← off.toInt?) at_ e, rest)
    | "num" :: b :: rest => do pure (.num (← natOfHex? b), rest)
    | "str" :: s :: rest => do pure (.str (← hexDec? s), rest)
    | "call" :: fn :: _ :: "0" :: rest => some (.call0 fn, rest)
    | "call" :: fn :: strs :: "1" :: rest => do
      let (a, rest) ← parseQ fuel rest
      pure (.call1 fn strs a, rest)
    | "call" :: fn :: strs :: "2" :: rest => do
      let (a, rest) ← parseQ fuel rest
      let (b, rest) ← parseQ fuel rest
      pure (.call2 fn strs a b, rest)
    | "call" :: fn :: strs :: "3" :: rest => do
      let (a, rest) ← parseQ fuel rest
      let (b, rest) ← parseQ fuel rest
      let (c, rest) ← parseQ fuel rest
      pure (.call3 fn strs a b c, rest)
    | "bin" :: op :: b :: mk :: ml :: card :: incl :: rest => do
      let (l, rest) ← parseQ fuel rest
      let (r, rest) ← parseQ fuel rest
      pure (.bin op (b = "1") mk ml card incl l r, rest)
    | "agg" :: op :: grp :: gl :: "-" :: rest => do
      let (e, rest) ← parseQ fuel rest
      pure (.agg op grp gl e, rest)
    | "agg" :: op :: grp :: gl :: "p" :: rest => do
      let (p, rest) ← parseQ fuel rest
      let (e, rest) ← parseQ fuel rest
      pure (.aggP op grp gl p e, rest)
    | "neg" :: rest => do
      let (e, rest) ← parseQ fuel rest
      pure (.neg e, rest)
    | _ => none

def parseExpr? (toks : List String) : Option Q :=
  match parseQ (toks.length + 1) toks with
  | some (q, []) => some q
  | _ => none

def Q.isSel : Q → Bool
  | .sel .. => true
  | _ => false

def kSelOps : List String := ["topk", "bottomk", "limitk"]
def accumOps : List String := ["sum", "avg", "stddev", "stdvar", "quantile"]

/-- Does the tree contain an aggregation with an operator from `ops` over a non-selector operand? -/
def Q.hasAggOverNonSel (ops : List String) : Q → Bool
  | .subq _ _ _ _ e => e.hasAggOverNonSel ops
  | .call1 _ _ a => a.hasAggOverNonSel ops
  | .call2 _ _ a b => a.hasAggOverNonSel ops || b.hasAggOverNonSel ops
  | .call3 _ _ a b c => a.hasAggOverNonSel ops || b.hasAggOverNonSel ops || c.hasAggOverNonSel ops
  | .bin _ _ _ _ _ _ l r => l.hasAggOverNonSel ops || r.hasAggOverNonSel ops
  | .agg op _ _ e => (ops.contains op && !e.isSel) || e.hasAggOverNonSel ops
  | .aggP op _ _ p e => (ops.contains op && !e.isSel) || p.hasAggOverNonSel ops || e.hasAggOverNonSel ops
  | .neg e => e.hasAggOverNonSel ops
  | _ => false

/-- No `@` modifier and no function of the evaluation time (the offset clause's side condition). -/
def Q.shiftEligible : Q → Bool
  | .sel _ _ _ a => a = "-"
  | .msel _ _ _ a _ => a = "-"
  | .subq _ _ _ a e => a = "-" && e.shiftEligible
  | .call0 _ => false
  | .call1 fn _ a => (if fn = "timestamp" then a.isSel else true) && a.shiftEligible
  | .call2 fn _ a b => fn != "predict_linear" && a.shiftEligible && b.shiftEligible
  | .call3 _ _ a b c => a.shiftEligible && b.shiftEligible && c.shiftEligible
  | .bin _ _ _ _ _ _ l r => l.shiftEligible && r.shiftEligible
  | .agg _ _ _ e => e.shiftEligible
  | .aggP _ _ _ p e => p.shiftEligible && e.shiftEligible
  | .neg e => e.shiftEligible
  | _ => true

/-! ### what `PreprocessExpr` does not look at: aggregation parameters (finding C27-F2) -/

def atUnsafeFns : List String :=
  ["days_in_month", "day_of_month", "day_of_week", "day_of_year", "end", "hour", "minute", "month", "year",
   "predict_linear", "range", "start", "step", "time", "timestamp"]

/-- `preprocessExprHelper`'s `isStepInvariant` (an aggregation is judged by its operand alone). -/
def Q.stepInv : Q → Bool
  | .sel _ _ _ a => a != "-"
  | .msel _ _ _ a _ => a != "-"
  | .subq _ _ _ a _ => a != "-"
  | .num _ | .str _ => true
  | .call0 fn => !atUnsafeFns.contains fn
  | .call1 fn _ a => (!atUnsafeFns.contains fn || (fn == "timestamp" && a.isSel)) && a.stepInv
  | .call2 fn _ a b => !atUnsafeFns.contains fn && a.stepInv && b.stepInv
  | .call3 fn _ a b c => !atUnsafeFns.contains fn && a.stepInv && b.stepInv && c.stepInv
  | .bin _ _ _ _ _ _ l r => l.stepInv && r.stepInv
  | .agg _ _ _ e => e.stepInv
  | .aggP _ _ _ _ e => e.stepInv
  | .neg e => e.stepInv

/-- Does the tree contain a selector / subquery with an `@` modifier satisfying `f`? -/
def Q.anyAt (f : String → Bool) : Q → Bool
  | .sel _ _ _ a => a != "-" && f a
  | .msel _ _ _ a _ => a != "-" && f a
  | .subq _ _ _ a e => (a != "-" && f a) || e.anyAt f
  | .call1 _ _ a => a.anyAt f
  | .call2 _ _ a b => a.anyAt f || b.anyAt f
  | .call3 _ _ a b c => a.anyAt f || b.anyAt f || c.anyAt f
  | .bin _ _ _ _ _ _ l r => l.anyAt f || r.anyAt f
  | .agg _ _ _ e => e.anyAt f
  | .aggP _ _ _ p e => p.anyAt f || e.anyAt f
  | .neg e => e.anyAt f
  | _ => false

/-- The parameter `p` of an aggregation over `e` is mistreated by `PreprocessExpr`: with a step-invariant operand
    the whole aggregation is evaluated once at the first step (wrong unless the parameter is invariant too and
    does not say `@ end()`, which stays unresolved); otherwise the parameter is evaluated at every step without
    ever having been preprocessed (`@ start()/end()` unresolved, `@ <t>` not wrapped: its offset is only right
    at the first step). -/
def paramMistreated (p e : Q) : Bool :=
  if e.stepInv then !p.stepInv || p.anyAt (· == "end") else p.anyAt (fun _ => true)

def Q.paramSkipped : Q → Bool
  | .subq _ _ _ _ e => e.paramSkipped
  | .call1 _ _ a => a.paramSkipped
  | .call2 _ _ a b => a.paramSkipped || b.paramSkipped
  | .call3 _ _ a b c => a.paramSkipped || b.paramSkipped || c.paramSkipped
  | .bin _ _ _ _ _ _ l r => l.paramSkipped || r.paramSkipped
  | .agg _ _ _ e => e.paramSkipped
  | .aggP _ _ _ p e => paramMistreated p e || p.paramSkipped || e.paramSkipped
  | .neg e => e.paramSkipped
  | _ => false

/-- Every aggregation parameter is a number / string literal (what the suite generated before parameters
    were varied): such an expression is never attributed to C27-F2 (`PromProps.C27.paramSkipped_of_literal`). -/
def Q.paramsLiteral : Q → Bool
  | .subq _ _ _ _ e => e.paramsLiteral
  | .call1 _ _ a => a.paramsLiteral
  | .call2 _ _ a b => a.paramsLiteral && b.paramsLiteral
  | .call3 _ _ a b c => a.paramsLiteral && b.paramsLiteral && c.paramsLiteral
  | .bin _ _ _ _ _ _ l r => l.paramsLiteral && r.paramsLiteral
  | .agg _ _ _ e => e.paramsLiteral
  | .aggP _ _ _ (.num _) e => e.paramsLiteral
  | .aggP _ _ _ (.str _) e => e.paramsLiteral
  | .aggP .. => false
  | .neg e => e.paramsLiteral
  | _ => true

/-- topk / bottomk / limitk with a parameter that is not a literal. -/
def Q.hasVaryingK : Q → Bool
  | .subq _ _ _ _ e => e.hasVaryingK
  | .call1 _ _ a => a.hasVaryingK
  | .call2 _ _ a b => a.hasVaryingK || b.hasVaryingK
  | .call3 _ _ a b c => a.hasVaryingK || b.hasVaryingK || c.hasVaryingK
  | .bin _ _ _ _ _ _ l r => l.hasVaryingK || r.hasVaryingK
  | .agg _ _ _ e => e.hasVaryingK
  | .aggP op _ _ p e =>
    (kSelOps.contains op && (match p with | .num _ => false | _ => true)) || p.hasVaryingK || e.hasVaryingK
  | .neg e => e.hasVaryingK
  | _ => false

/-- A binary64 value `<= -2^63` (`-Inf` included): `rangeEvalAgg`'s "underflows int64". -/
def hugeNegBits (b : Nat) : Bool := 0xC3E0000000000000 ≤ b && b ≤ 0xFFF0000000000000

def Q.hasHugeNeg : Q → Bool
  | .num b => hugeNegBits b
  | .subq _ _ _ _ e => e.hasHugeNeg
  | .call1 _ _ a => a.hasHugeNeg
  | .call2 _ _ a b => a.hasHugeNeg || b.hasHugeNeg
  | .call3 _ _ a b c => a.hasHugeNeg || b.hasHugeNeg || c.hasHugeNeg
  | .bin _ _ _ _ _ _ l r => l.hasHugeNeg || r.hasHugeNeg
  | .agg _ _ _ e => e.hasHugeNeg
  | .aggP _ _ _ p e => p.hasHugeNeg || e.hasHugeNeg
  | .neg e => e.hasHugeNeg
  | _ => false

/-- A subquery whose range is shorter than the step of the evaluation that reads it (`outer`: the query's step, or
    the enclosing subquery's): in range mode the child runs over the whole aligned grid, including child steps
    that lie in no parent window and that no instant query ever evaluates (finding C27-F4). -/
def Q.sparseSubq (outer : Int) : Q → Bool
  | .subq range step _ _ e => range < outer || e.sparseSubq (if step = 0 then 15000 else step)
  | .call1 _ _ a => a.sparseSubq outer
  | .call2 _ _ a b => a.sparseSubq outer || b.sparseSubq outer
  | .call3 _ _ a b c => a.sparseSubq outer || b.sparseSubq outer || c.sparseSubq outer
  | .bin _ _ _ _ _ _ l r => l.sparseSubq outer || r.sparseSubq outer
  | .agg _ _ _ e => e.sparseSubq outer
  | .aggP _ _ _ p e => p.sparseSubq outer || e.sparseSubq outer
  | .neg e => e.sparseSubq outer
  | _ => false

/-! ### core-language conversion -/

def parseAt? (s : String) : Option AtMod :=
  if s = "-" then some .none
  else if s = "start" then some .start
  else if s = "end" then some .end_
  else s.toInt?.map .fixed

def parseMatcher? (s : String) : Option Matcher :=
  match s.splitOn "=" with
  | [l, v] => some ⟨l, false, v⟩
  | _ =>
    match s.splitOn "!" with
    | [l, v] => some ⟨l, true, v⟩
    | _ => none

def parseMatchers? (s : String) : Option (List Matcher) :=
  if s = "-" then some [] else (s.splitOn ",").mapM parseMatcher?

def overFn? : String → Option OverFn
  | "count_over_time" => some .count
  | "sum_over_time" => some .sum
  | "min_over_time" => some .min
  | "max_over_time" => some .max
  | "last_over_time" => some .last
  | _ => none

def binOp? : String → Option BinOp
  | "+" => some .add | "-" => some .sub | "*" => some .mul
  | "==" => some .eq | "!=" => some .ne | ">" => some .gt | "<" => some .lt | ">=" => some .ge | "<=" => some .le
  | _ => none

def aggOp? : String → Option AggOp
  | "sum" => some .sum | "min" => some .min | "max" => some .max | "count" => some .count
  | _ => none

def labelList (s : String) : List String := if s = "-" then [] else s.splitOn ","

def toCore : Q → Option Expr
  | .num b => (F64.f64ToRat b).map .num
  | .call0 "time" => some .time
  | .sel n ms off a => do pure (.sel ⟨n, ← parseMatchers? ms, off, ← parseAt? a⟩)
  | .call1 fn "-" (.msel n ms off a r) => do
    pure (.overSel (← overFn? fn) ⟨n, ← parseMatchers? ms, off, ← parseAt? a⟩ r)
  | .call1 fn "-" (.subq r st off a e) => do
    pure (.overSub (← overFn? fn) (← toCore e) r st off (← parseAt? a))
  | .bin op b "-" _ "11" _ l r => do pure (.bin (← binOp? op) b (← toCore l) (← toCore r))
  | .agg op grp gl e => do
    let o ← aggOp? op
    let e ← toCore e
    if grp = "wo" then pure (.agg o true (labelList gl) e)
    else if grp = "by" then pure (.agg o false (labelList gl) e)
    else pure (.agg o false [] e)
  | .aggP "topk" grp gl (.num 0x3ff0000000000000) (.sel n ms off a) => do
    let e : Expr := .sel ⟨n, ← parseMatchers? ms, off, ← parseAt? a⟩
    if grp = "wo" then pure (.agg .topk1 true (labelList gl) e)
    else if grp = "by" then pure (.agg .topk1 false (labelList gl) e)
    else pure (.agg .topk1 false [] e)
  | _ => none

def substAtMod (qs qe : Int) : AtMod → AtMod
  | .start => .fixed qs
  | .end_ => .fixed qe
  | a => a

/-- What the harness does for the instant queries: `@ start()` / `@ end()` become the literal times. -/
def substAt (qs qe : Int) : Expr → Expr
  | .sel s => .sel { s with atm := substAtMod qs qe s.atm }
  | .overSel f s r => .overSel f { s with atm := substAtMod qs qe s.atm } r
  | .overSub f e r st off a => .overSub f (substAt qs qe e) r st off (substAtMod qs qe a)
  | .bin op b l r => .bin op b (substAt qs qe l) (substAt qs qe r)
  | .agg op wo ls e => .agg op wo ls (substAt qs qe e)
  | .stepInv e => .stepInv (substAt qs qe e)
  | e => e

/-- `offset d` added to every selector / subquery that is not nested inside a subquery. -/
def shiftOff (d : Int) : Expr → Expr
  | .sel s => .sel { s with off := s.off + d }
  | .overSel f s r => .overSel f { s with off := s.off + d } r
  | .overSub f e r st off a => .overSub f e r st (off + d) a
  | .bin op b l r => .bin op b (shiftOff d l) (shiftOff d r)
  | .agg op wo ls e => .agg op wo ls (shiftOff d e)
  | .stepInv e => .stepInv (shiftOff d e)
  | e => e

/-! ### results -/

abbrev Step := List (String × String)

inductive Res where
  | err (cls : String)
  | steps (s : List Step)
  | bad
  deriving Repr, BEq, Inhabited

def parseElem? (s : String) : Option (String × String) :=
  match s.splitOn "=" with
  | [l, v] => some (l, v)
  | _ => none

def parseStep? (s : String) : Option Step :=
  if s = "-" then some [] else (s.splitOn ";").mapM parseElem?

def parseRes (s : String) : Res :=
  if s.startsWith "E:" then .err s
  else match (s.splitOn "|").mapM parseStep? with
    | some st => .steps st
    | none => .bad

def parseVariants (s : String) : List Res := (s.splitOn "~").map parseRes

def obsOf (toks : List String) : Option String :=
  toks.findSome? fun t => if t.startsWith "obs=" then some (t.drop 4).toString else none

def stripObs (toks : List String) : List String := toks.filter fun t => !t.startsWith "obs="

def isNaNBits (n : Nat) : Bool := n / 2 ^ 52 % 2048 = 2047 && n % 2 ^ 52 != 0

def staleHex : String := "7ff0000000000002"

def valIsNaN (v : String) : Bool :=
  match natOfHex? v with
  | some n => v.length = 16 && isNaNBits n
  | none => false

/-- NaN-aware bitwise equality of two rendered values. -/
def valEq (a b : String) : Bool := a = b || (valIsNaN a && valIsNaN b)

def stepEq (x y : Step) : Bool :=
  x.length = y.length && (x.zip y).all fun p => p.1.1 = p.2.1 && valEq p.1.2 p.2.2

def ordBits (n : Nat) : Int := if n ≥ 2 ^ 63 then -((n - 2 ^ 63 : Nat) : Int) else (n : Int)

def withinUlp (n : Nat) (a b : String) : Bool :=
  valEq a b ||
  match natOfHex? a, natOfHex? b with
  | some x, some y =>
    a.length = 16 && b.length = 16 && !isNaNBits x && !isNaNBits y && (ordBits x - ordBits y).natAbs ≤ n
  | _, _ => false

/-- Values as the k-selection compares them: all NaNs alike, and `-0 = +0` (a tie between the two is a tie). -/
def normVal (v : String) : String :=
  if valIsNaN v then "nan" else if v = "8000000000000000" then "0000000000000000" else v

def sortedVals (x : Step) : List String := (x.map fun e => normVal e.2).mergeSort (fun a b => a ≤ b)

/-- Classification of a per-step mismatch (finding F12 or not). -/
def classify (q : Q) (x y : Step) : String :=
  let tie := q.hasAggOverNonSel kSelOps && x.length = y.length &&
    (q.hasAggOverNonSel ["limitk"] || sortedVals x = sortedVals y)
  -- stddev/stdvar subtract nearly equal accumulated quantities: the accumulation-order difference is amplified
  -- by the cancellation (observed: 270 ulp for stddev over timestamps), hence 2^13 ulp (= 2^-40 relative) there
  let tol : Nat := if q.hasAggOverNonSel ["stddev", "stdvar"] then 8192 else 4
  let ulp := q.hasAggOverNonSel accumOps && x.length = y.length &&
    (x.zip y).all fun p => p.1.1 = p.2.1 && withinUlp tol p.1.2 p.2.2
  if tie || ulp then "order-sensitive-aggregation" else "other"

def Step.hasStale (x : Step) : Bool := x.any fun e => e.2 = staleHex

/-! ### judge -/

structure RQ where
  q : Q
  toks : List String
  start : Int
  end_ : Int
  step : Int
  /-- a sample value `<= -2^63` has been stored in this case (finding C27-F3) -/
  hugeNeg : Bool := false
  res : List Res
  /-- instant results seen so far: (i, variants) -/
  iqs : List (Nat × List Res) := []

def RQ.nSteps (r : RQ) : Nat := ((r.end_ - r.start) / r.step + 1).toNat

def RQ.describe (r : RQ) : String := " ".intercalate r.toks

def Res.stepAt? : Res → Nat → Option Step
  | .steps s, i => s[i]?
  | _, _ => none

def Res.isErr : Res → Bool
  | .err _ => true
  | _ => false

/-- `ri`: a range-vs-instant comparison (the only one finding C27-F2 can explain). -/
def otherKind (q : Q) (ri : Bool) : String := if ri && q.paramSkipped then "agg-param-not-preprocessed" else "other"

/-- Compare two results at one step; `none` = equal. -/
def diffAt (q : Q) (a b : Res) (ia ib : Nat) (ri : Bool := false) : Option String :=
  match a, b with
  | .bad, _ | _, .bad => some "kind=other detail=unparsable"
  | .err _, .err _ => none
  | .err c, _ => some s!"kind={otherKind q ri} detail=error-vs-value err={c}"
  | _, .err c => some s!"kind={otherKind q ri} detail=value-vs-error err={c}"
  | .steps sa, .steps sb =>
    match sa[ia]?, sb[ib]? with
    | some x, some y =>
      if x.hasStale || y.hasStale then some "kind=other detail=stale-marker-in-output"
      else if stepEq x y then none
      else if ri && q.paramSkipped then some "kind=agg-param-not-preprocessed detail=step-differs"
      else some s!"kind={classify q x y} detail=step-differs"
    | _, _ => some "kind=other detail=missing-step"

def firstSome {α β} (l : List α) (f : α → Option β) : Option β := l.findSome? f

/-- All violations of one finished range query (run-to-run variation, range-error-only). -/
def rqSelfCheck (r : RQ) : List String :=
  let n := r.nSteps
  let varia : List String :=
    match r.res with
    | a :: rest =>
      (List.range n).filterMap fun i =>
        (firstSome rest fun b => diffAt r.q a b i i).map fun d =>
          s!"violation range-ne-instant {d} cmp=run-to-run step={i} expr: {r.describe}"
    | [] => []
  let shape : List String :=
    r.res.filterMap fun a =>
      match a with
      | .steps s => if s.length = n then none else some s!"violation range-ne-instant kind=other detail=step-count got={s.length} want={n} expr: {r.describe}"
      | .bad => some s!"violation range-ne-instant kind=other detail=unparsable expr: {r.describe}"
      | _ => none
  let errOnly : List String :=
    if r.res.all (·.isErr) && !r.res.isEmpty && (List.range n).all (fun i => r.iqs.any fun p => p.1 = i)
        && r.iqs.all (fun p => p.2.all fun x => !x.isErr) then
      let kind :=
        if r.q.paramSkipped then "agg-param-not-preprocessed"
        else if r.q.hasVaryingK && (r.hugeNeg || r.q.hasHugeNeg) then "k-underflow-range-only"
        else if r.q.sparseSubq r.step then "subquery-unneeded-step-error"
        else "other"
      [s!"violation range-ne-instant kind={kind} detail=range-error-only expr: {r.describe}"]
    else []
  shape ++ varia ++ errOnly

def judgeIq (r : RQ) (i : Nat) (iv : List Res) : List String :=
  let t := r.start + (i : Int) * r.step
  -- a range query fails as a whole when any step fails: range-error vs instant-value is judged by `rqSelfCheck`
  (r.res.flatMap fun a => iv.filterMap fun b =>
      if a.isErr && !b.isErr then none else diffAt r.q a b i 0 true).head?.toList.map fun d =>
    s!"violation range-ne-instant {d} cmp=range-vs-instant step={i} t={t} expr: {r.describe}"

def judgeOq (r : RQ) (i : Nat) (d : Int) (ov : List Res) : List String :=
  if !r.q.shiftEligible then [] else
  match r.iqs.find? (fun p => p.1 = i) with
  | none => []
  | some (_, iv) =>
    (iv.flatMap fun a => ov.filterMap fun b => diffAt r.q a b 0 0).head?.toList.map fun x =>
      s!"violation offset-shift {x} step={i} d={d} expr: {r.describe}"

def samplesHugeNeg (s : String) : Bool :=
  s != "-" && (s.splitOn ",").any fun p =>
    match p.splitOn ":" with
    | [_, b] => (natOfHex? b).any hugeNegBits
    | _ => false

def judgeGo (huge : Bool) : Option RQ → List String → List String → List String → List String
  | cur, op :: ops, out :: outs, acc =>
    let toks := stripObs (toks op)
    match toks with
    | ["ser", _, _, smp] =>
      if samplesHugeNeg smp then judgeGo true (cur.map fun r => { r with hugeNeg := true }) ops outs acc
      else judgeGo huge cur ops outs acc
    | "rq" :: s :: e :: st :: rest =>
      let fin := match cur with | some r => rqSelfCheck r | none => []
      match s.toInt?, e.toInt?, st.toInt?, parseExpr? rest with
      | some s, some e, some st, some q =>
        if st ≤ 0 then judgeGo huge none ops outs (acc ++ fin)
        else judgeGo huge (some { q := q, toks := toks, start := s, end_ := e, step := st, hugeNeg := huge, res := parseVariants out }) ops outs (acc ++ fin)
      | _, _, _, _ => judgeGo huge none ops outs (acc ++ fin)
    | ["iq", i] =>
      match cur, i.toNat? with
      | some r, some i =>
        -- an index outside the range query's steps (possible after shrinking dropped an `rq` line) is not judged
        if i ≥ r.nSteps || out = "bad-op" then judgeGo huge cur ops outs acc else
        let iv := parseVariants out
        judgeGo huge (some { r with iqs := r.iqs ++ [(i, iv)] }) ops outs (acc ++ judgeIq r i iv)
      | _, _ => judgeGo huge cur ops outs acc
    | ["oq", i, d] =>
      match cur, i.toNat?, d.toInt? with
      | some r, some i, some d =>
        if i ≥ r.nSteps || out = "bad-op" then judgeGo huge cur ops outs acc
        else judgeGo huge cur ops outs (acc ++ judgeOq r i d (parseVariants out))
      | _, _, _ => judgeGo huge cur ops outs acc
    | _ => judgeGo huge cur ops outs acc
  | cur, _, _, acc => acc ++ (match cur with | some r => rqSelfCheck r | none => [])

def knownKinds : List String :=
  ["order-sensitive-aggregation", "agg-param-not-preprocessed", "k-underflow-range-only", "subquery-unneeded-step-error"]

def isKnownKind (v : String) : Bool := knownKinds.any fun k => (v.splitOn s!" kind={k} ").length > 1

def judge (ops outs : List String) : String :=
  let vs := judgeGo false none ops outs []
  match vs.find? (fun v => !isKnownKind v) with
  | some v => v
  | none => vs.head?.getD "ok"

/-! ### model -/

/-- `topk/bottomk/limitk(<p>, <selector>)` with a per-step parameter (PromModel/Promql/AggK.lean). -/
structure KQ where
  op : AggK.KOp
  wo : Bool
  ls : List String
  p : Q
  sel : Sel
  deriving Inhabited

structure MState where
  lookback : Int := 300000
  env : Env := []
  /-- false once a series carries NaN/±Inf or native histograms: outside the rational model -/
  coreData : Bool := true
  cur : Option (Expr × Int × Int × Int) := none
  curK : Option (KQ × Int × Int × Int) := none

def parseLabels? (name ls : String) : Option Labels :=
  if ls = "-" then some [(nameLabel, name)] else do
    let kvs ← (ls.splitOn ",").mapM fun kv =>
      match kv.splitOn ":" with
      | [k, v] => some (k, v)
      | _ => none
    pure ((nameLabel, name) :: kvs)

def parseSamples? (s : String) : Option (List (Int × Nat)) :=
  if s = "-" then some [] else
  (s.splitOn ",").mapM fun p =>
    match p.splitOn ":" with
    | [t, b] => do pure (← t.toInt?, ← natOfHex? b)
    | _ => none

def toSample? (p : Int × Nat) : Option Sample :=
  if p.2 = 0x7ff0000000000002 then some ⟨p.1, 0, true⟩
  else (F64.f64ToRat p.2).map fun v => ⟨p.1, v, false⟩

def lblStr (l : Labels) : String :=
  ",".intercalate ((l.map fun p => p.1 ++ ":" ++ p.2).mergeSort (fun a b => a ≤ b))

def renderElems (es : List (String × Rat)) : String :=
  if es.isEmpty then "-" else
  ";".intercalate ((es.map fun e => e.1 ++ "=" ++ hexOfNat (F64.roundBits e.2) 16).mergeSort (fun a b => a ≤ b))

def valueElems : Value → List (String × Rat)
  | .scalar x => [("", x)]
  | .vector v => v.map fun e => (lblStr e.lbls, e.v)

def absR (q : Rat) : Rat := if q < 0 then -q else q

def closeTo (obsBits : String) (m : Rat) : Bool :=
  match natOfHex? obsBits with
  | some n =>
    match F64.f64ToRat n with
    | some x => obsBits.length = 16 && absR (x - m) ≤ F64.pow2 (-40) * absR m
    | none => false
  | none => false

def stepClose (obs : Step) (m : List (String × Rat)) : Bool :=
  obs.length = m.length && m.all fun e =>
    match obs.find? (fun o => o.1 = e.1) with
    | some o => closeTo o.2 e.2
    | none => false

/-- Echo the observation when it is the model's result up to the rounding tolerance. -/
def answer (obs : Option String) (vals : List Value) : String :=
  let own := "|".intercalate (vals.map fun v => renderElems (valueElems v))
  match obs with
  | none => own
  | some o =>
    match parseVariants o with
    | [.steps st] =>
      if st.length = vals.length && (st.zip vals).all (fun p => stepClose p.1 (valueElems p.2)) then o else own
    | _ => own

def defStep : Int := 15000

/-! ### k-selection with a per-step parameter -/

def kOp? : String → Option AggK.KOp
  | "topk" => some .topk
  | "bottomk" => some .bottomk
  | "limitk" => some .limitk
  | _ => none

def toKQ? : Q → Option KQ
  | .aggP op grp gl p (.sel n ms off a) => do
    let o ← kOp? op
    let at_ ← parseAt? a
    -- an `@` on the operand makes the whole aggregation step invariant for `PreprocessExpr` (finding C27-F2)
    if at_.isSet then none
    else pure ⟨o, grp = "wo", if grp = "-" then [] else labelList gl, p, ⟨n, ← parseMatchers? ms, off, at_⟩⟩
  | _ => none

/-- exactly representable in binary64: one correctly rounded float operation returns exactly this value -/
def exact64 (q : Rat) : Bool := F64.f64ToRat (F64.roundBits q) == some q

def exactOr (q : Rat) : Option (Option Rat) := if exact64 q then some (some q) else none

/-- `math.Mod` on exact operands (the result takes the sign of the dividend and is exact). -/
def fmodR (a b : Rat) : Rat := a - b * (AggK.truncR (a / b) : Rat)

/-- The operand of `scalar(·)` in a modelled parameter: a selector without `@`, or count/sum/min/max over one. -/
def scalarOperand? : Q → Option Expr
  | .sel n ms off "-" => do pure (.sel ⟨n, ← parseMatchers? ms, off, .none⟩)
  | .agg op "-" _ (.sel n ms off "-") => do
    pure (.agg (← aggOp? op) false [] (.sel ⟨n, ← parseMatchers? ms, off, .none⟩))
  | _ => none

/-- The parameter's value at `t`: `none` = outside the modelled fragment (or float rounding would matter),
    `some none` = NaN. -/
def paramAt (cfg : Cfg) (env : Env) : Q → Int → Option (Option Rat)
  | .num b, _ =>
    match F64.decode b with
    | .fin q => some (some q)
    | .nan => some none
    | _ => none
  | .call0 "time", t => exactOr ((t : Rat) / 1000)
  | .call1 "scalar" _ v, t => do
    let e ← scalarOperand? v
    match evalAt cfg env e t with
    | .vector [x] => exactOr x.v
    | .vector _ => some none
    | .scalar _ => none
  | .bin op b "-" _ "11" _ l r, t => do
    let x ← paramAt cfg env l t
    let y ← paramAt cfg env r t
    match x, y with
    | some a, some c =>
      if op = "+" then exactOr (a + c)
      else if op = "-" then exactOr (a - c)
      else if op = "*" then exactOr (a * c)
      else if op = "/" then (if c = 0 then none else exactOr (a / c))
      else if op = "%" then (if c = 0 then some none else exactOr (fmodR a c))
      else if b then (binOp? op).bind fun o => if o.isCmp then some (some (b2r (o.cmp a c))) else none
      else none
    | _, _ => if ["+", "-", "*", "/", "%"].contains op then some none else none
  | _, _ => none

def kMatrix (cfg : Cfg) (env : Env) (s : Sel) (ts : List Int) : List AggK.In :=
  (selSeries env s).filterMap fun ser =>
    let pts := ts.filterMap fun t =>
      (instantSample cfg.lookback ser.samples (refTime cfg s.atm s.off t)).map fun v => (⟨t, v⟩ : AggK.Pt)
    if pts.isEmpty then none else some ⟨ser.lbls, pts⟩

def two63 : Rat := 9223372036854775808

inductive KRes where
  | unmodelled
  | err
  | steps (out : List Vector) (inp : List Vector)

/-- `rangeEvalAgg` over all steps (`newFParams` + the checks before the step loop + the cursor strategy). -/
def kRange (lookback : Int) (env : Env) (k : KQ) (s e p : Int) : KRes :=
  let cfg : Cfg := ⟨lookback, defStep, s, e⟩
  let ts := stepTimes s e p
  match ts.mapM fun t => paramAt cfg env k.p t with
  | none => .unmodelled
  | some ps =>
    if ps.any (·.isNone) then .err else
    let vals := ps.filterMap id
    let ss := kMatrix cfg env k.sel ts
    let steps := ts.zip vals
    if AggK.allNil k.op steps then .steps (ts.map fun _ => []) (ts.map fun _ => [])
    else if vals.any (fun v => v ≤ -two63 || two63 ≤ v) then .err
    else .steps (AggK.rangeEvalAggK AggK.stablePick k.op k.wo k.ls e steps ss) (ts.map fun t => AggK.vecAt t ss)

/-- An instant query at `t`. -/
def kInstant (lookback : Int) (env : Env) (k : KQ) (t : Int) : KRes :=
  let cfg : Cfg := ⟨lookback, defStep, t, t⟩
  match paramAt cfg env k.p t with
  | none => .unmodelled
  | some none => .err
  | some (some v) =>
    let vec := AggK.vecAt t (kMatrix cfg env k.sel [t])
    if v < 1 then .steps [[]] [vec]
    else if two63 ≤ v then .err
    else .steps [AggK.instantK AggK.stablePick k.op v k.wo k.ls vec] [vec]

def groupStr (k : KQ) (l : Labels) : String := lblStr (groupKey k.wo k.ls l)

/-- Is the observed step an admissible selection? Every observed sample is a sample of the step's input, no
    series twice, and per group the observed values are the model's values as a multiset (topk / bottomk: which
    of several tied samples the heap keeps is not determined); limitk leaves no freedom. -/
def admissible (k : KQ) (obs : Step) (out inp : Vector) : Bool :=
  let find (o : String × String) : Option Elem := inp.find? fun e => lblStr e.lbls = o.1 && closeTo o.2 e.v
  obs.length = out.length && (obs.map (·.1)).eraseDups.length = obs.length &&
  match obs.mapM find with
  | none => false
  | some es =>
    if k.op == .limitk then
      (es.map fun e => lblStr e.lbls).mergeSort (fun a b => a ≤ b) = (out.map fun e => lblStr e.lbls).mergeSort (fun a b => a ≤ b)
    else
      ((inp.map fun e => groupStr k e.lbls).eraseDups).all fun g =>
        let vs (v : Vector) : List Rat := ((v.filter fun e => groupStr k e.lbls = g).map (·.v)).mergeSort (fun a b => a ≤ b)
        vs es == vs out

def answerK (k : KQ) (obs : Option String) (r : KRes) (echo : String) : String :=
  match r with
  | .unmodelled => echo
  | .err => "E:other"
  | .steps out inp =>
    let own := "|".intercalate (out.map fun v => renderElems (valueElems (.vector v)))
    match obs with
    | none => own
    | some o =>
      match parseVariants o with
      | [.steps st] =>
        if st.length = out.length && ((st.zip (out.zip inp)).all fun x => admissible k x.1 x.2.1 x.2.2) then o else own
      | _ => own

def modelStep (st : MState) (line : String) : MState × String :=
  let all := toks line
  let obs := obsOf all
  let echo := obs.getD "unmodelled"
  match stripObs all with
  | ["cfg", lb] =>
    match lb.toInt? with
    | some v => ({ st with lookback := v }, "ok")
    | none => (st, "bad-op")
  | ["ser", name, ls, smp] =>
    match parseLabels? name ls, parseSamples? smp with
    | some l, some ps =>
      match ps.mapM toSample? with
      | some xs => ({ st with env := st.env ++ [⟨l, xs⟩] }, "ok")
      | none => ({ st with coreData := false }, "ok")
    | _, _ => (st, "bad-op")
  | ["hser", _, _, _] => ({ st with coreData := false }, "ok")
  | "rq" :: s :: e :: p :: rest =>
    match s.toInt?, e.toInt?, p.toInt?, parseExpr? rest with
    | some s, some e, some p, some q =>
      match (if st.coreData && p > 0 then toCore q else none) with
      | some ex =>
        ({ st with cur := some (ex, s, e, p), curK := none }, answer obs (rangeQuery id st.lookback defStep st.env ex s e p))
      | none =>
        match (if st.coreData && p > 0 && e ≥ s then toKQ? q else none) with
        | some k =>
          ({ st with cur := none, curK := some (k, s, e, p) }, answerK k obs (kRange st.lookback st.env k s e p) echo)
        | none => ({ st with cur := none, curK := none }, echo)
    | _, _, _, _ => ({ st with cur := none, curK := none }, "bad-op")
  | ["iq", i] =>
    match st.cur, st.curK, i.toNat? with
    | some (ex, s, e, p), _, some i =>
      (st, answer obs [instantQuery st.lookback defStep st.env (substAt s e ex) (s + (i : Int) * p)])
    | none, some (k, s, _, p), some i =>
      (st, answerK k obs (kInstant st.lookback st.env k (s + (i : Int) * p)) echo)
    | _, _, _ => (st, echo)
  | ["oq", i, d] =>
    match st.cur, i.toNat?, d.toInt? with
    | some (ex, s, e, p), some i, some d =>
      (st, answer obs [instantQuery st.lookback defStep st.env (shiftOff d (substAt s e ex)) (s + (i : Int) * p + d)])
    | _, _, _ => (st, echo)
  | _ => (st, "bad-op")

def model (ops : List String) : List String :=
  let rec go (st : MState) : List String → List String
    | [] => []
    | l :: rest => let r := modelStep st l; r.2 :: go r.1 rest
  go {} ops

def suite : Suite := { name := "promqlrange", model := model, judge := judge }

end Prom.RangeSuite
