import PromModel.Prelude.Line
import PromModel.Num.F64
import PromModel.Promql.RangeEval
/-
  Suite `promqlrange` (property C27).
  ops:  `cfg <lookback_ms>` | `ser <name> <labels|-> <t:bits,…|->` | `hser <name> <labels|-> <t:i,…|->`
        `rq <start> <end> <step> <expr tokens…> [obs=<out>]`   range query (expr in prefix form, see `parseQ`)
        `iq <i> [obs=<out>]`      instant query of the latest rq's expr (`@ start()/end()` replaced by the literal
                                  start/end of the range query) at `start + i·step`
        `oq <i> <d> [obs=<out>]`  instant query at `start + i·step + d` of that expr with every selector/subquery
                                  offset outside subqueries increased by `d`
  out:  `ok`/`err` for data lines; for queries the canonical result (also recorded as `obs=`):
        variants joined by `~`; variant = `E:<class>` | steps joined by `|`; step = `-` | elements joined by `;`;
        element = `<l:v,l:v…>=<16 hex value bits | H<hash>>`.

  judge : THE PROPERTY ITSELF on the implementation's outputs, no model involved: every variant of the range
          result at step i equals every variant of the instant result at `start + i·step` — same label sets, same
          value bits (NaN-aware: any two NaN bit patterns are equal; the staleness marker must never appear in a
          result), same error/no-error — and (offset clause) `oq i d` equals `iq i` when the expression has no `@`
          and no function of the evaluation time. A mismatch is classified `kind=order-sensitive-aggregation`
          (finding F12) ONLY when (a) the expression contains topk/bottomk/limitk over a non-selector operand and
          the two step results have the same number of elements and (except limitk) the same multiset of values,
          or (b) it contains sum/avg/stddev/stdvar/quantile over a non-selector operand, the label sets agree and
          every value pair is within 4 ulp (2^13 ulp when the aggregation is stddev/stdvar, whose final subtraction
          amplifies the accumulation-order difference). Everything else is `kind=other`. A `kind=other` violation anywhere in
          the case takes precedence over an order-sensitive one.
  model : for expressions of the core language (PromModel/Promql/RangeEval.lean) over finite float data:
          `rangeQuery` (the engine's strategy) for `rq`, `instantQuery` for `iq`/`oq`, over exact rationals; an
          observed result with the same label sets whose values are within 2^-40 relative of the model's is
          echoed (binary64 rounding of non-dyadic intermediate values such as `time()`), otherwise the model's
          own rendering is printed. Everything outside the core language is echoed (judge only).
-/
namespace Prom.RangeSuite
open Prom.RangeEval

/-! ### expression trees (all node kinds the generator emits) -/

inductive Q where
  | sel (name ms : String) (off : Int) (at_ : String)
  | msel (name ms : String) (off : Int) (at_ : String) (range : Int)
  | subq (range step off : Int) (at_ : String) (e : Q)
  | num (bits : Nat)
  | str (s : String)
  | call0 (fn : String)
  | call1 (fn strs : String) (a : Q)
  | call2 (fn strs : String) (a b : Q)
  | call3 (fn strs : String) (a b c : Q)
  | bin (op : String) (bool : Bool) (mk ml card incl : String) (l r : Q)
  | agg (op grp gl : String) (e : Q)
  | aggP (op grp gl : String) (p e : Q)
  | neg (e : Q)
  deriving Repr, BEq, Inhabited

def parseQ : Nat → List String → Option (Q × List String)
  | 0, _ => none
  | fuel + 1, toks =>
    match toks with
    | "sel" :: n :: ms :: off :: at_ :: rest => do
      pure (.sel n ms (← off.toInt?) at_, rest)
    | "msel" :: n :: ms :: off :: at_ :: r :: rest => do
      pure (.msel n ms (← off.toInt?) at_ (← r.toInt?), rest)
    | "subq" :: r :: st :: off :: at_ :: rest => do
      let (e, rest) ← parseQ fuel rest
      pure (.subq (← r.toInt?) (← st.toInt?) (← off.toInt?) at_ e, rest)
    | "num" :: b :: rest => do pure (.num (← natOfHex? b), rest)
    | "str" :: s :: rest => do pure (.str (← hexDec? s), rest)
    | "call" :: fn :: _ :: "0" :: rest => some (.call0 fn, rest)
    | "call" :: fn :: strs :: "1" :: rest => do
      let (a, rest) ← parseQ fuel rest
      pure (.call1 fn strs a, rest)
    | "call" :: fn :: strs :: "2" :: rest => do
      let (a, rest) ← parseQ fuel rest
      let (b, rest) ← parseQ fuel rest
      pure (.call2 fn strs a b, rest)
    | "call" :: fn :: strs :: "3" :: rest => do
      let (a, rest) ← parseQ fuel rest
      let (b, rest) ← parseQ fuel rest
      let (c, rest) ← parseQ fuel rest
      pure (.call3 fn strs a b c, rest)
    | "bin" :: op :: b :: mk :: ml :: card :: incl :: rest => do
      let (l, rest) ← parseQ fuel rest
      let (r, rest) ← parseQ fuel rest
      pure (.bin op (b = "1") mk ml card incl l r, rest)
    | "agg" :: op :: grp :: gl :: "-" :: rest => do
      let (e, rest) ← parseQ fuel rest
      pure (.agg op grp gl e, rest)
    | "agg" :: op :: grp :: gl :: "p" :: rest => do
      let (p, rest) ← parseQ fuel rest
      let (e, rest) ← parseQ fuel rest
      pure (.aggP op grp gl p e, rest)
    | "neg" :: rest => do
      let (e, rest) ← parseQ fuel rest
      pure (.neg e, rest)
    | _ => none

def parseExpr? (toks : List String) : Option Q :=
  match parseQ (toks.length + 1) toks with
  | some (q, []) => some q
  | _ => none

def Q.isSel : Q → Bool
  | .sel .. => true
  | _ => false

def kSelOps : List String := ["topk", "bottomk", "limitk"]
def accumOps : List String := ["sum", "avg", "stddev", "stdvar", "quantile"]

/-- Does the tree contain an aggregation with an operator from `ops` over a non-selector operand? -/
def Q.hasAggOverNonSel (ops : List String) : Q → Bool
  | .subq _ _ _ _ e => e.hasAggOverNonSel ops
  | .call1 _ _ a => a.hasAggOverNonSel ops
  | .call2 _ _ a b => a.hasAggOverNonSel ops || b.hasAggOverNonSel ops
  | .call3 _ _ a b c => a.hasAggOverNonSel ops || b.hasAggOverNonSel ops || c.hasAggOverNonSel ops
  | .bin _ _ _ _ _ _ l r => l.hasAggOverNonSel ops || r.hasAggOverNonSel ops
  | .agg op _ _ e => (ops.contains op && !e.isSel) || e.hasAggOverNonSel ops
  | .aggP op _ _ p e => (ops.contains op && !e.isSel) || p.hasAggOverNonSel ops || e.hasAggOverNonSel ops
  | .neg e => e.hasAggOverNonSel ops
  | _ => false

/-- No `@` modifier and no function of the evaluation time (the offset clause's side condition). -/
def Q.shiftEligible : Q → Bool
  | .sel _ _ _ a => a = "-"
  | .msel _ _ _ a _ => a = "-"
  | .subq _ _ _ a e => a = "-" && e.shiftEligible
  | .call0 _ => false
  | .call1 fn _ a => (if fn = "timestamp" then a.isSel else true) && a.shiftEligible
  | .call2 fn _ a b => fn != "predict_linear" && a.shiftEligible && b.shiftEligible
  | .call3 _ _ a b c => a.shiftEligible && b.shiftEligible && c.shiftEligible
  | .bin _ _ _ _ _ _ l r => l.shiftEligible && r.shiftEligible
  | .agg _ _ _ e => e.shiftEligible
  | .aggP _ _ _ p e => p.shiftEligible && e.shiftEligible
  | .neg e => e.shiftEligible
  | _ => true

/-! ### core-language conversion -/

def parseAt? (s : String) : Option AtMod :=
  if s = "-" then some .none
  else if s = "start" then some .start
  else if s = "end" then some .end_
  else s.toInt?.map .fixed

def parseMatcher? (s : String) : Option Matcher :=
  match s.splitOn "=" with
  | [l, v] => some ⟨l, false, v⟩
  | _ =>
    match s.splitOn "!" with
    | [l, v] => some ⟨l, true, v⟩
    | _ => none

def parseMatchers? (s : String) : Option (List Matcher) :=
  if s = "-" then some [] else (s.splitOn ",").mapM parseMatcher?

def overFn? : String → Option OverFn
  | "count_over_time" => some .count
  | "sum_over_time" => some .sum
  | "min_over_time" => some .min
  | "max_over_time" => some .max
  | "last_over_time" => some .last
  | _ => none

def binOp? : String → Option BinOp
  | "+" => some .add | "-" => some .sub | "*" => some .mul
  | "==" => some .eq | "!=" => some .ne | ">" => some .gt | "<" => some .lt | ">=" => some .ge | "<=" => some .le
  | _ => none

def aggOp? : String → Option AggOp
  | "sum" => some .sum | "min" => some .min | "max" => some .max | "count" => some .count
  | _ => none

def labelList (s : String) : List String := if s = "-" then [] else s.splitOn ","

def toCore : Q → Option Expr
  | .num b => (F64.f64ToRat b).map .num
  | .call0 "time" => some .time
  | .sel n ms off a => do pure (.sel ⟨n, ← parseMatchers? ms, off, ← parseAt? a⟩)
  | .call1 fn "-" (.msel n ms off a r) => do
    pure (.overSel (← overFn? fn) ⟨n, ← parseMatchers? ms, off, ← parseAt? a⟩ r)
  | .call1 fn "-" (.subq r st off a e) => do
    pure (.overSub (← overFn? fn) (← toCore e) r st off (← parseAt? a))
  | .bin op b "-" _ "11" _ l r => do pure (.bin (← binOp? op) b (← toCore l) (← toCore r))
  | .agg op grp gl e => do
    let o ← aggOp? op
    let e ← toCore e
    if grp = "wo" then pure (.agg o true (labelList gl) e)
    else if grp = "by" then pure (.agg o false (labelList gl) e)
    else pure (.agg o false [] e)
  | .aggP "topk" grp gl (.num 0x3ff0000000000000) (.sel n ms off a) => do
    let e : Expr := .sel ⟨n, ← parseMatchers? ms, off, ← parseAt? a⟩
    if grp = "wo" then pure (.agg .topk1 true (labelList gl) e)
    else if grp = "by" then pure (.agg .topk1 false (labelList gl) e)
    else pure (.agg .topk1 false [] e)
  | _ => none

def substAtMod (qs qe : Int) : AtMod → AtMod
  | .start => .fixed qs
  | .end_ => .fixed qe
  | a => a

/-- What the harness does for the instant queries: `@ start()` / `@ end()` become the literal times. -/
def substAt (qs qe : Int) : Expr → Expr
  | .sel s => .sel { s with atm := substAtMod qs qe s.atm }
  | .overSel f s r => .overSel f { s with atm := substAtMod qs qe s.atm } r
  | .overSub f e r st off a => .overSub f (substAt qs qe e) r st off (substAtMod qs qe a)
  | .bin op b l r => .bin op b (substAt qs qe l) (substAt qs qe r)
  | .agg op wo ls e => .agg op wo ls (substAt qs qe e)
  | .stepInv e => .stepInv (substAt qs qe e)
  | e => e

/-- `offset d` added to every selector / subquery that is not nested inside a subquery. -/
def shiftOff (d : Int) : Expr → Expr
  | .sel s => .sel { s with off := s.off + d }
  | .overSel f s r => .overSel f { s with off := s.off + d } r
  | .overSub f e r st off a => .overSub f e r st (off + d) a
  | .bin op b l r => .bin op b (shiftOff d l) (shiftOff d r)
  | .agg op wo ls e => .agg op wo ls (shiftOff d e)
  | .stepInv e => .stepInv (shiftOff d e)
  | e => e

/-! ### results -/

abbrev Step := List (String × String)

inductive Res where
  | err (cls : String)
  | steps (s : List Step)
  | bad
  deriving Repr, BEq, Inhabited

def parseElem? (s : String) : Option (String × String) :=
  match s.splitOn "=" with
  | [l, v] => some (l, v)
  | _ => none

def parseStep? (s : String) : Option Step :=
  if s = "-" then some [] else (s.splitOn ";").mapM parseElem?

def parseRes (s : String) : Res :=
  if s.startsWith "E:" then .err s
  else match (s.splitOn "|").mapM parseStep? with
    | some st => .steps st
    | none => .bad

def parseVariants (s : String) : List Res := (s.splitOn "~").map parseRes

def obsOf (toks : List String) : Option String :=
  toks.findSome? fun t => if t.startsWith "obs=" then some (t.drop 4).toString else none

def stripObs (toks : List String) : List String := toks.filter fun t => !t.startsWith "obs="

def isNaNBits (n : Nat) : Bool := n / 2 ^ 52 % 2048 = 2047 && n % 2 ^ 52 != 0

def staleHex : String := "7ff0000000000002"

def valIsNaN (v : String) : Bool :=
  match natOfHex? v with
  | some n => v.length = 16 && isNaNBits n
  | none => false

/-- NaN-aware bitwise equality of two rendered values. -/
def valEq (a b : String) : Bool := a = b || (valIsNaN a && valIsNaN b)

def stepEq (x y : Step) : Bool :=
  x.length = y.length && (x.zip y).all fun p => p.1.1 = p.2.1 && valEq p.1.2 p.2.2

def ordBits (n : Nat) : Int := if n ≥ 2 ^ 63 then -((n - 2 ^ 63 : Nat) : Int) else (n : Int)

def withinUlp (n : Nat) (a b : String) : Bool :=
  valEq a b ||
  match natOfHex? a, natOfHex? b with
  | some x, some y =>
    a.length = 16 && b.length = 16 && !isNaNBits x && !isNaNBits y && (ordBits x - ordBits y).natAbs ≤ n
  | _, _ => false

def normVal (v : String) : String := if valIsNaN v then "nan" else v

def sortedVals (x : Step) : List String := (x.map fun e => normVal e.2).mergeSort (fun a b => a ≤ b)

/-- Classification of a per-step mismatch (finding F12 or not). -/
def classify (q : Q) (x y : Step) : String :=
  let tie := q.hasAggOverNonSel kSelOps && x.length = y.length &&
    (q.hasAggOverNonSel ["limitk"] || sortedVals x = sortedVals y)
  -- stddev/stdvar subtract nearly equal accumulated quantities: the accumulation-order difference is amplified
  -- by the cancellation (observed: 270 ulp for stddev over timestamps), hence 2^13 ulp (= 2^-40 relative) there
  let tol : Nat := if q.hasAggOverNonSel ["stddev", "stdvar"] then 8192 else 4
  let ulp := q.hasAggOverNonSel accumOps && x.length = y.length &&
    (x.zip y).all fun p => p.1.1 = p.2.1 && withinUlp tol p.1.2 p.2.2
  if tie || ulp then "order-sensitive-aggregation" else "other"

def Step.hasStale (x : Step) : Bool := x.any fun e => e.2 = staleHex

/-! ### judge -/

structure RQ where
  q : Q
  toks : List String
  start : Int
  end_ : Int
  step : Int
  res : List Res
  /-- instant results seen so far: (i, variants) -/
  iqs : List (Nat × List Res) := []

def RQ.nSteps (r : RQ) : Nat := ((r.end_ - r.start) / r.step + 1).toNat

def RQ.describe (r : RQ) : String := " ".intercalate r.toks

def Res.stepAt? : Res → Nat → Option Step
  | .steps s, i => s[i]?
  | _, _ => none

def Res.isErr : Res → Bool
  | .err _ => true
  | _ => false

/-- Compare two results at one step; `none` = equal. -/
def diffAt (q : Q) (a b : Res) (ia ib : Nat) : Option String :=
  match a, b with
  | .bad, _ | _, .bad => some "kind=other detail=unparsable"
  | .err _, .err _ => none
  | .err c, _ => some s!"kind=other detail=error-vs-value err={c}"
  | _, .err c => some s!"kind=other detail=value-vs-error err={c}"
  | .steps sa, .steps sb =>
    match sa[ia]?, sb[ib]? with
    | some x, some y =>
      if x.hasStale || y.hasStale then some "kind=other detail=stale-marker-in-output"
      else if stepEq x y then none
      else some s!"kind={classify q x y} detail=step-differs"
    | _, _ => some "kind=other detail=missing-step"

def firstSome {α β} (l : List α) (f : α → Option β) : Option β := l.findSome? f

/-- All violations of one finished range query (run-to-run variation, range-error-only). -/
def rqSelfCheck (r : RQ) : List String :=
  let n := r.nSteps
  let varia : List String :=
    match r.res with
    | a :: rest =>
      (List.range n).filterMap fun i =>
        (firstSome rest fun b => diffAt r.q a b i i).map fun d =>
          s!"violation range-ne-instant {d} cmp=run-to-run step={i} expr: {r.describe}"
    | [] => []
  let shape : List String :=
    r.res.filterMap fun a =>
      match a with
      | .steps s => if s.length = n then none else some s!"violation range-ne-instant kind=other detail=step-count got={s.length} want={n} expr: {r.describe}"
      | .bad => some s!"violation range-ne-instant kind=other detail=unparsable expr: {r.describe}"
      | _ => none
  let errOnly : List String :=
    if r.res.all (·.isErr) && !r.res.isEmpty && (List.range n).all (fun i => r.iqs.any fun p => p.1 = i)
        && r.iqs.all (fun p => p.2.all fun x => !x.isErr) then
      [s!"violation range-ne-instant kind=other detail=range-error-only expr: {r.describe}"]
    else []
  shape ++ varia ++ errOnly

def judgeIq (r : RQ) (i : Nat) (iv : List Res) : List String :=
  let t := r.start + (i : Int) * r.step
  -- a range query fails as a whole when any step fails: range-error vs instant-value is judged by `rqSelfCheck`
  (r.res.flatMap fun a => iv.filterMap fun b =>
      if a.isErr && !b.isErr then none else diffAt r.q a b i 0).head?.toList.map fun d =>
    s!"violation range-ne-instant {d} cmp=range-vs-instant step={i} t={t} expr: {r.describe}"

def judgeOq (r : RQ) (i : Nat) (d : Int) (ov : List Res) : List String :=
  if !r.q.shiftEligible then [] else
  match r.iqs.find? (fun p => p.1 = i) with
  | none => []
  | some (_, iv) =>
    (iv.flatMap fun a => ov.filterMap fun b => diffAt r.q a b 0 0).head?.toList.map fun x =>
      s!"violation offset-shift {x} step={i} d={d} expr: {r.describe}"

def judgeGo : Option RQ → List String → List String → List String → List String
  | cur, op :: ops, out :: outs, acc =>
    let toks := stripObs (toks op)
    match toks with
    | "rq" :: s :: e :: st :: rest =>
      let fin := match cur with | some r => rqSelfCheck r | none => []
      match s.toInt?, e.toInt?, st.toInt?, parseExpr? rest with
      | some s, some e, some st, some q =>
        if st ≤ 0 then judgeGo none ops outs (acc ++ fin)
        else judgeGo (some { q := q, toks := toks, start := s, end_ := e, step := st, res := parseVariants out }) ops outs (acc ++ fin)
      | _, _, _, _ => judgeGo none ops outs (acc ++ fin)
    | ["iq", i] =>
      match cur, i.toNat? with
      | some r, some i =>
        -- an index outside the range query's steps (possible after shrinking dropped an `rq` line) is not judged
        if i ≥ r.nSteps || out = "bad-op" then judgeGo cur ops outs acc else
        let iv := parseVariants out
        judgeGo (some { r with iqs := r.iqs ++ [(i, iv)] }) ops outs (acc ++ judgeIq r i iv)
      | _, _ => judgeGo cur ops outs acc
    | ["oq", i, d] =>
      match cur, i.toNat?, d.toInt? with
      | some r, some i, some d =>
        if i ≥ r.nSteps || out = "bad-op" then judgeGo cur ops outs acc
        else judgeGo cur ops outs (acc ++ judgeOq r i d (parseVariants out))
      | _, _, _ => judgeGo cur ops outs acc
    | _ => judgeGo cur ops outs acc
  | cur, _, _, acc => acc ++ (match cur with | some r => rqSelfCheck r | none => [])

def isKnownKind (v : String) : Bool := (v.splitOn " kind=order-sensitive-aggregation ").length > 1

def judge (ops outs : List String) : String :=
  let vs := judgeGo none ops outs []
  match vs.find? (fun v => !isKnownKind v) with
  | some v => v
  | none => vs.head?.getD "ok"

/-! ### model -/

structure MState where
  lookback : Int := 300000
  env : Env := []
  /-- false once a series carries NaN/±Inf or native histograms: outside the rational model -/
  coreData : Bool := true
  cur : Option (Expr × Int × Int × Int) := none

def parseLabels? (name ls : String) : Option Labels :=
  if ls = "-" then some [(nameLabel, name)] else do
    let kvs ← (ls.splitOn ",").mapM fun kv =>
      match kv.splitOn ":" with
      | [k, v] => some (k, v)
      | _ => none
    pure ((nameLabel, name) :: kvs)

def parseSamples? (s : String) : Option (List (Int × Nat)) :=
  if s = "-" then some [] else
  (s.splitOn ",").mapM fun p =>
    match p.splitOn ":" with
    | [t, b] => do pure (← t.toInt?, ← natOfHex? b)
    | _ => none

def toSample? (p : Int × Nat) : Option Sample :=
  if p.2 = 0x7ff0000000000002 then some ⟨p.1, 0, true⟩
  else (F64.f64ToRat p.2).map fun v => ⟨p.1, v, false⟩

def lblStr (l : Labels) : String :=
  ",".intercalate ((l.map fun p => p.1 ++ ":" ++ p.2).mergeSort (fun a b => a ≤ b))

def renderElems (es : List (String × Rat)) : String :=
  if es.isEmpty then "-" else
  ";".intercalate ((es.map fun e => e.1 ++ "=" ++ hexOfNat (F64.roundBits e.2) 16).mergeSort (fun a b => a ≤ b))

def valueElems : Value → List (String × Rat)
  | .scalar x => [("", x)]
  | .vector v => v.map fun e => (lblStr e.lbls, e.v)

def absR (q : Rat) : Rat := if q < 0 then -q else q

def closeTo (obsBits : String) (m : Rat) : Bool :=
  match natOfHex? obsBits with
  | some n =>
    match F64.f64ToRat n with
    | some x => obsBits.length = 16 && absR (x - m) ≤ F64.pow2 (-40) * absR m
    | none => false
  | none => false

def stepClose (obs : Step) (m : List (String × Rat)) : Bool :=
  obs.length = m.length && m.all fun e =>
    match obs.find? (fun o => o.1 = e.1) with
    | some o => closeTo o.2 e.2
    | none => false

/-- Echo the observation when it is the model's result up to the rounding tolerance. -/
def answer (obs : Option String) (vals : List Value) : String :=
  let own := "|".intercalate (vals.map fun v => renderElems (valueElems v))
  match obs with
  | none => own
  | some o =>
    match parseVariants o with
    | [.steps st] =>
      if st.length = vals.length && (st.zip vals).all (fun p => stepClose p.1 (valueElems p.2)) then o else own
    | _ => own

def defStep : Int := 15000

def modelStep (st : MState) (line : String) : MState × String :=
  let all := toks line
  let obs := obsOf all
  let echo := obs.getD "unmodelled"
  match stripObs all with
  | ["cfg", lb] =>
    match lb.toInt? with
    | some v => ({ st with lookback := v }, "ok")
    | none => (st, "bad-op")
  | ["ser", name, ls, smp] =>
    match parseLabels? name ls, parseSamples? smp with
    | some l, some ps =>
      match ps.mapM toSample? with
      | some xs => ({ st with env := st.env ++ [⟨l, xs⟩] }, "ok")
      | none => ({ st with coreData := false }, "ok")
    | _, _ => (st, "bad-op")
  | ["hser", _, _, _] => ({ st with coreData := false }, "ok")
  | "rq" :: s :: e :: p :: rest =>
    match s.toInt?, e.toInt?, p.toInt?, parseExpr? rest with
    | some s, some e, some p, some q =>
      match (if st.coreData && p > 0 then toCore q else none) with
      | some ex =>
        ({ st with cur := some (ex, s, e, p) }, answer obs (rangeQuery id st.lookback defStep st.env ex s e p))
      | none => ({ st with cur := none }, echo)
    | _, _, _, _ => ({ st with cur := none }, "bad-op")
  | ["iq", i] =>
    match st.cur, i.toNat? with
    | some (ex, s, e, p), some i =>
      (st, answer obs [instantQuery st.lookback defStep st.env (substAt s e ex) (s + (i : Int) * p)])
    | _, _ => (st, echo)
  | ["oq", i, d] =>
    match st.cur, i.toNat?, d.toInt? with
    | some (ex, s, e, p), some i, some d =>
      (st, answer obs [instantQuery st.lookback defStep st.env (shiftOff d (substAt s e ex)) (s + (i : Int) * p + d)])
    | _, _, _ => (st, echo)
  | _ => (st, "bad-op")

def model (ops : List String) : List String :=
  let rec go (st : MState) : List String → List String
    | [] => []
    | l :: rest => let r := modelStep st l; r.2 :: go r.1 rest
  go {} ops

def suite : Suite := { name := "promqlrange", model := model, judge := judge }

end Prom.RangeSuite
