import PromModel.Tsdb.DbModel
/-
  Suite `db` (C01 and the storage family): single-threaded histories on a real `tsdb.DB`.
  ops:  cfg <chunkRange> <oooWindow> <samplesPerChunk>
        begin | app <s> <t> <vbits-hex> | commit | rollback
        del <mint> <maxt> <s|*> | compact | cleantomb | reopen
        q <mint> <maxt>   -> s<i>=t:v,…;…  | -
        win               -> <headMinT> <headMaxT> <appendableMinValid|uninit>
  The string layer only parses ops / renders outputs; behaviour is `Db.step`, the oracle is `holdsFrom`.
-/
namespace Prom.Db
open Prom.Intervals

def renderSmps (xs : List Smp) : String :=
  ",".intercalate (xs.map fun x => s!"{x.t}:{hexOfNat x.v 16}")

def renderQuery (r : List (Nat × List Smp)) : String :=
  if r.isEmpty then "-" else ";".intercalate (r.map fun p => s!"s{p.1}={renderSmps p.2}")

def errStr : AppErr → String
  | .oob => "oob" | .ooo => "ooo" | .tooold => "tooold" | .dup => "dup" | .noapp => "noapp"

def renderOut : Out → String
  | .ok => "ok"
  | .err e => errStr e
  | .rows r => renderQuery r
  | .win a b (some c) => s!"{a} {b} {c}"
  | .win a b none => s!"{a} {b} uninit"
  | .other s => s

def parseCfg? (line : String) : Option Cfg :=
  match toks line with
  | ["cfg", cr, ooo, _spc] => do pure ⟨← cr.toInt?, ← ooo.toInt?⟩
  | _ => none

def parseOp? (line : String) : Option Op :=
  match toks line with
  | ["begin"] => some .begin
  | ["app", s, t, v] => do pure (.app (← s.toNat?) (← t.toInt?) (← natOfHex? v))
  | ["commit"] => some .commit
  | ["rollback"] => some .rollback
  | ["del", a, b, s] => do
    let a ← a.toInt?
    let b ← b.toInt?
    if s = "*" then pure (.del a b none) else pure (.del a b (some (← s.toNat?)))
  | ["compact"] => some .compact
  | ["cleantomb"] => some .cleantomb
  | ["reopen"] => some .reopen
  | ["reopen", _] => some .reopen
  | ["q", a, b] => do pure (.q (← a.toInt?) (← b.toInt?))
  | ["win"] => some .win
  | _ => none

def parseSmps? (s : String) : Option (List Smp) :=
  (s.splitOn ",").mapM fun p =>
    match p.splitOn ":" with
    | [t, v] => do pure ⟨← t.toInt?, ← natOfHex? v⟩
    | _ => none

def parseRows? (s : String) : Option (List (Nat × List Smp)) :=
  if s = "-" then some [] else
  (s.splitOn ";").mapM fun row =>
    match row.splitOn "=" with
    | [name, smps] => do
      let i ← (name.drop 1).toString.toNat?
      if !name.startsWith "s" then none else
      pure (i, ← parseSmps? smps)
    | _ => none

/-- Parse what the implementation printed for `op`. -/
def parseOut (op : Op) (s : String) : Out :=
  match op with
  | .q _ _ => match parseRows? s with | some r => .rows r | none => .other s
  | _ =>
    if s = "ok" then .ok else if s = "oob" then .err .oob else if s = "ooo" then .err .ooo
    else if s = "tooold" then .err .tooold else if s = "dup" then .err .dup else if s = "noapp" then .err .noapp
    else .other s

def model (lines : List String) : List String :=
  let rec go (d : Db) : List String → List String
    | [] => []
    | l :: rest =>
      match parseCfg? l with
      | some c => "ok" :: go { cfg := c } rest
      | none =>
        match toks l with
        | ["reopen", oracle] =>
          -- `reopen <s:mmMaxTime,…|->`: restart with the m-mapped-chunk oracle read from the real head
          let mm : List (Nat × Int) := if oracle = "-" then [] else
            (oracle.splitOn ",").filterMap fun p => match p.splitOn ":" with
              | [a, b] => do pure (← a.toNat?, ← b.toInt?)
              | _ => none
          "ok" :: go { d.reopenWith mm with app := none } rest
        | _ =>
        match parseOp? l with
        | some op => let (d', o) := d.step op; renderOut o :: go d' rest
        | none => "bad-op" :: go d rest
  go { cfg := ⟨1, 0⟩ } lines

/-- Rows missing from `got` relative to `want`, as (series, sample) pairs; `extra` likewise. -/
def rowDiff (want got : List (Nat × List Smp)) : List (Nat × Smp) × List (Nat × Smp) :=
  let flat := fun (r : List (Nat × List Smp)) => r.flatMap fun p => p.2.map fun x => (p.1, x)
  let w := flat want
  let g := flat got
  (w.filter (fun x => !g.contains x), g.filter (fun x => !w.contains x))

/-- C01's statement (`Ref.step`, i.e. `holdsFrom`) evaluated on the implementation's outputs.
    Any panic / internal error printed by the harness is a violation of its own.

    Classification of a failing query (used only to match `known_findings.jsonl`, finding F28): the
    judge remembers, per series, the newest stored sample at the moment a deletion removed it
    (`ghost`); when a later deletion removes a newer newest sample, an earlier ghost that was re-appended
    identically in between (the reference holds it again) is kept, because the head never stored it. If the only discrepancy of a query is that such samples — re-appended later with the
    identical timestamp and value, acknowledged and committed — are missing, the verdict carries
    `kind=identical-reappend-after-delete`; the judge then adopts the implementation's view for those
    samples and keeps judging, so that a different discrepancy later in the same history is still
    reported (and takes precedence). -/
def judge (ops outs : List String) : String :=
  let pairs := ops.zip outs
  match pairs.findIdx? (fun p => p.2.startsWith "panic" || p.2.startsWith "err:") with
  | some k => s!"violation internal-error op={k} `{(pairs[k]?.getD ("", "")).1}` {(pairs[k]?.getD ("", "")).2}"
  | none =>
    let typed : List (Op × Out) := pairs.filterMap fun p =>
      match parseOp? p.1 with
      | some op => some (op, parseOut op p.2)
      | none => none
    -- every (series, max time of its m-mapped chunks) that some restart of this history reported
    let allMm : List (Nat × Int) := ops.flatMap fun l =>
      match toks l with
      | ["reopen", oracle] => if oracle = "-" then [] else
          (oracle.splitOn ",").filterMap fun p => match p.splitOn ":" with
            | [a, b] => do pure (← a.toNat?, ← b.toInt?)
            | _ => none
      | _ => []
    let rec go (r : Ref) (ghost : List (Nat × Smp)) (delEver : List (Nat × Smp)) (phase : Nat) (phaseC : Nat)
        (known : Option String) (h : List (Op × Out)) (k : Nat) : String :=
      -- phase: 0 nothing, 1 a delete happened, 2 … then CleanTombstones, 3 … then a restart
      match h with
      | [] => known.getD "ok"
      | (op, o) :: rest =>
        match r.step op o with
        | some r' =>
          let hitOf := fun (sel : Option Nat) (i : Nat) => match sel with | none => true | some j => i == j
          let ghost' := match op with
            | .del a b sel =>
              r.store.foldl (fun g p =>
                match p.2.getLast? with
                | some l =>
                  -- the ghost is the newest PHYSICAL sample: never replace it by an older one
                  let older := g.any fun q => q.1 == p.1 && decide (l.t < q.2.t)
                  -- an earlier ghost of the same series that the reference holds again (its identical
                  -- re-append was acknowledged and committed, a no-op in the head) and that this deletion
                  -- does not cover stays lost in the implementation: keep it next to the new ghost
                  let lost := fun (q : Nat × Smp) => q.1 == p.1 && p.2.contains q.2 && !decide (a ≤ q.2.t ∧ q.2.t ≤ b)
                  if hitOf sel p.1 && decide (a ≤ l.t ∧ l.t ≤ b) && !older then
                    (p.1, l) :: g.filter (fun q => q.1 ≠ p.1 || lost q) else g
                | none => g) ghost
            | _ => ghost
          let delEver' := match op with
            | .del a b sel =>
              delEver ++ r.store.flatMap fun p =>
                if hitOf sel p.1 then (p.2.filter fun x => decide (a ≤ x.t ∧ x.t ≤ b)).map fun x => (p.1, x) else []
            | _ => delEver
          let phase' := match op with
            | .del _ _ _ => if phase = 0 then 1 else phase
            | .cleantomb => if phase = 1 then 2 else phase
            | .reopen => if phase = 2 then 3 else phase
            | _ => phase
          -- phaseC: 0 nothing, 1 a delete happened, 2 … then Compact, 3 … then a restart
          let phaseC' := match op with
            | .del _ _ _ => if phaseC = 0 then 1 else phaseC
            | .compact => if phaseC = 1 then 2 else phaseC
            | .reopen => if phaseC = 2 then 3 else phaseC
            | _ => phaseC
          go r' ghost' delEver' phase' phaseC' known rest (k + 1)
        | none =>
          match op, o with
          | .q a b, .rows got =>
            let want := r.query a b
            let (missing, extra) := rowDiff want got
            if extra.isEmpty ∧ !missing.isEmpty ∧ missing.all (fun m => ghost.contains m) then
              -- F28: adopt the implementation's view of these samples and continue
              let r' : Ref := { r with store := r.store.map fun p => (p.1, p.2.filter fun x => !missing.contains (p.1, x)) }
              let msg := s!"violation query-mismatch kind=identical-reappend-after-delete step={k} range=[{a},{b}] missing={missing.map fun m => s!"s{m.1}@{m.2.t}"}"
              go r' ghost delEver phase phaseC (some (known.getD msg)) rest (k + 1)
            else if missing.isEmpty ∧ !extra.isEmpty ∧ phase = 3 ∧ extra.all (fun m => delEver.contains m) then
              -- F30: deleted samples came back after CleanTombstones + restart; adopt and continue
              let r' : Ref := extra.foldl (fun (r : Ref) m =>
                let xs := r.get m.1
                r.set m.1 ((xs.filter fun x => decide (x.t < m.2.t)) ++ [m.2] ++ (xs.filter fun x => decide (m.2.t < x.t)))) r
              let msg := s!"violation query-mismatch kind=deleted-back-after-cleantomb-restart step={k} range=[{a},{b}] extra={extra.map fun m => s!"s{m.1}@{m.2.t}"}"
              go r' ghost (delEver.filter fun m => !extra.contains m) phase phaseC (some (known.getD msg)) rest (k + 1)
            else if missing.isEmpty ∧ !extra.isEmpty ∧ phaseC = 3 ∧
                extra.all (fun m => delEver.contains m && allMm.any (fun q => q.1 == m.1 && decide (m.2.t ≤ q.2))) then
              -- F37: deleted samples that sat in an m-mapped head chunk came back after delete, Compact and a
              -- restart (the chunk survives in its chunks_head file, its tombstone does not survive the
              -- checkpoint); adopt and continue
              let r' : Ref := extra.foldl (fun (r : Ref) m =>
                let xs := r.get m.1
                r.set m.1 ((xs.filter fun x => decide (x.t < m.2.t)) ++ [m.2] ++ (xs.filter fun x => decide (m.2.t < x.t)))) r
              let msg := s!"violation query-mismatch kind=deleted-mmapped-back-after-compact-restart step={k} range=[{a},{b}] extra={extra.map fun m => s!"s{m.1}@{m.2.t}"}"
              go r' ghost (delEver.filter fun m => !extra.contains m) phase phaseC (some (known.getD msg)) rest (k + 1)
            else
              s!"violation query-mismatch kind=other step={k} range=[{a},{b}] got={renderOut o} want={renderQuery want}"
          | _, _ => s!"violation query-mismatch kind=other step={k} got={renderOut o}"
    go {} [] [] 0 0 none typed 0

def suite : Suite := { name := "db", model := model, judge := judge }

end Prom.Db
