import PromModel.Tsdb.DbModel
/-
  Suite `db` (C01 and the storage family): single-threaded histories on a real `tsdb.DB`.
  ops:  cfg <chunkRange> <oooWindow> <samplesPerChunk>
        begin | app <s> <t> <vbits-hex> | commit | rollback
        del <mint> <maxt> <s|*> | compact | cleantomb | reopen
        q <mint> <maxt>   -> s<i>=t:v,…;…  | -
        win               -> <headMinT> <headMaxT> <appendableMinValid|uninit>
  The string layer only parses ops / renders outputs; behaviour is `Db.step`, the oracle is `holdsFrom`.
-/
namespace Prom.Db
open Prom.Intervals

def renderSmps (xs : List Smp) : String :=
  ",".intercalate (xs.map fun x => s!"{x.t}:{hexOfNat x.v 16}")

def renderQuery (r : List (Nat × List Smp)) : String :=
  if r.isEmpty then "-" else ";".intercalate (r.map fun p => s!"s{p.1}={renderSmps p.2}")

def errStr : AppErr → String
  | .oob => "oob" | .ooo => "ooo" | .tooold => "tooold" | .dup => "dup" | .noapp => "noapp"

def renderOut : Out → String
  | .ok => "ok"
  | .err e => errStr e
  | .rows r => renderQuery r
  | .win a b (some c) => s!"{a} {b} {c}"
  | .win a b none => s!"{a} {b} uninit"
  | .other s => s

def parseCfg? (line : String) : Option Cfg :=
  match toks line with
  | ["cfg", cr, ooo, _spc] => do pure ⟨← cr.toInt?, ← ooo.toInt?⟩
  | _ => none

def parseOp? (line : String) : Option Op :=
  match toks line with
  | ["begin"] => some .begin
  | ["app", s, t, v] => do pure (.app (← s.toNat?) (← t.toInt?) (← natOfHex? v))
  | ["commit"] => some .commit
  | ["rollback"] => some .rollback
  | ["del", a, b, s] => do
    let a ← a.toInt?
    let b ← b.toInt?
    if s = "*" then pure (.del a b none) else pure (.del a b (some (← s.toNat?)))
  | ["compact"] => some .compact
  | ["cleantomb"] => some .cleantomb
  | ["reopen"] => some .reopen
  | ["q", a, b] => do pure (.q (← a.toInt?) (← b.toInt?))
  | ["win"] => some .win
  | _ => none

def parseSmps? (s : String) : Option (List Smp) :=
  (s.splitOn ",").mapM fun p =>
    match p.splitOn ":" with
    | [t, v] => do pure ⟨← t.toInt?, ← natOfHex? v⟩
    | _ => none

def parseRows? (s : String) : Option (List (Nat × List Smp)) :=
  if s = "-" then some [] else
  (s.splitOn ";").mapM fun row =>
    match row.splitOn "=" with
    | [name, smps] => do
      let i ← (name.drop 1).toString.toNat?
      if !name.startsWith "s" then none else
      pure (i, ← parseSmps? smps)
    | _ => none

/-- Parse what the implementation printed for `op`. -/
def parseOut (op : Op) (s : String) : Out :=
  match op with
  | .q _ _ => match parseRows? s with | some r => .rows r | none => .other s
  | _ =>
    if s = "ok" then .ok else if s = "oob" then .err .oob else if s = "ooo" then .err .ooo
    else if s = "tooold" then .err .tooold else if s = "dup" then .err .dup else if s = "noapp" then .err .noapp
    else .other s

def model (lines : List String) : List String :=
  let rec go (d : Db) : List String → List String
    | [] => []
    | l :: rest =>
      match parseCfg? l with
      | some c => "ok" :: go { cfg := c } rest
      | none =>
        match parseOp? l with
        | some op => let (d', o) := d.step op; renderOut o :: go d' rest
        | none => "bad-op" :: go d rest
  go { cfg := ⟨1, 0⟩ } lines

/-- C01's statement (`holdsFrom`) evaluated on the implementation's outputs. Additionally any
    panic / internal error printed by the harness is a violation of its own. -/
def judge (ops outs : List String) : String :=
  let pairs := ops.zip outs
  match pairs.findIdx? (fun p => p.2.startsWith "panic" || p.2.startsWith "err:") with
  | some k => s!"violation internal-error op={k} `{(pairs[k]?.getD ("", "")).1}` {(pairs[k]?.getD ("", "")).2}"
  | none =>
    let typed : List (Op × Out) := pairs.filterMap fun p =>
      match parseOp? p.1 with
      | some op => some (op, parseOut op p.2)
      | none => none
    match holdsFrom {} typed 0 with
    | none => "ok"
    | some k =>
      match typed[k]? with
      | some (.q a b, o) => s!"violation query-mismatch step={k} range=[{a},{b}] got={renderOut o}"
      | _ => s!"violation query-mismatch step={k}"

def suite : Suite := { name := "db", model := model, judge := judge }

end Prom.Db
