import PromModel.Prelude.Line
import PromModel.Promql.Parser
import PromModel.Promql.EvalTotal
/-
  Suite `promqltotal` (property C33).
  ops:  `cfg <lookback_ms>` | `ser <name> <labels|-> <points|->` | `del <name> <labels|-> <mint> <maxt>`
        `iq <eng> <ts> <hexquery> [obs=<out>]` | `rq <eng> <start> <end> <step> <hexquery> [obs=<out>]`
        eng = main | dnr | small | cancel
  out:  data lines `ok`; queries `<class>;conc=<cmp>`
        class = `ok:<scalar|vector|matrix|string>` | `user-error:<class>` | `INTERNAL:<text>`
        cmp   = `same` | `na` | `diff/<sameLabels>/<sameCount>/<sameValueMultiset>/<maxUlp|x>` | `diff/class:<class>`

  judge : THE PROPERTY ITSELF on the implementation's outputs, independent of the model:
          (1) no query's class is `INTERNAL:…` (an error text with "unexpected error", "runtime error", "unhandled",
              "invalid memory", an impossible-branch panic text, or a panic recovered by the harness).  The verdict carries
              `kind=paren-string-arg-in-agg-param` / `kind=paren-matrix-arg-in-agg-param` (finding C33-F3) iff the class is
              exactly the failed type assertion on `*parser.StringLiteral` / `*parser.MatrixSelector` (or the
              matrix-selector range-evaluation panic) AND the query text has a parenthesised string literal /
              matrix selector as a call argument (or count_values label) below the parameter of an aggregation;
              everything else is `kind=other`;
          (2) the serial result equals every concurrent result (`conc=same`, or `na` for errors).  A difference is
              classified `kind=order-sensitive-aggregation` (finding F12, Go-map order) exactly as C27's judge does:
              (a) the query contains topk/bottomk/limitk over a non-selector operand, same element counts and (except
              limitk) the same multiset of values, or (b) it contains sum/avg/stddev/stdvar/quantile over a
              non-selector operand, same label sets and every value within 4 ulp (2^13 ulp for stddev/stdvar).
              Everything else is `kind=other`.  The query shape is computed here from the query text with the Lean PromQL
              parser (PromModel/Promql/Parser.lean); an unparsable text is never order-sensitive.
  model : the STATIC part of the outcome, for every query: accept/reject by the Lean parser + `checkAST`
          (`user-error:parse`), the range-query type restriction (`user-error:expr-type`), cancellation
          (`user-error:canceled`), and for accepted queries `ok:<static type>` (range queries: matrix).  The accepted tree is
          converted to the C33 model language (`ofAst`) and `EvalTotal.typeOf` must agree with `checkAST`'s type
          (otherwise the line reads `model-type-disagrees`), and the typed evaluator `evalT` is run on it over an empty
          storage with a unit kernel (must not be `internal`: otherwise `model-internal`).  A DATA-DEPENDENT user error
          observed by the harness (`obs=`) is echoed iff the query contains a node that can raise that class
          (vector matching, name-dropping operations, k/ratio parameters, count_values, label_replace/label_join, …);
          any other class is a mismatch.  `conc=` is `na` for errors; for results it is the OBSERVED column (default
          `same`): a map-order / schedule dependent observable that only the judge evaluates.  An `INTERNAL:` class is
          echoed only for the listed finding C33-F3 (shape + exact class, `internalKind`).
-/
namespace Prom.TotalSuite
open Prom.Promql

abbrev Ast := Prom.Promql.Expr

/-! ### query shape (on the parser's AST) -/

def stripP : Ast → Ast
  | .paren e => stripP e
  | e => e

def isSelector (e : Ast) : Bool :=
  match stripP e with
  | .vs .. => true
  | _ => false

mutual
/-- some aggregation with an operator from `ops` whose operand is not a plain vector selector -/
def hasAggOverNonSel (ops : List Bytes) : Ast → Bool
  | .agg op _ _ p e => (ops.contains op && !isSelector e) || hasAggOverNonSel ops p || hasAggOverNonSel ops e
  | .call _ args => hasAggList ops args
  | .bin _ _ _ l r => hasAggOverNonSel ops l || hasAggOverNonSel ops r
  | .sub e .. => hasAggOverNonSel ops e
  | .mat s .. => hasAggOverNonSel ops s
  | .un _ e => hasAggOverNonSel ops e
  | .paren e => hasAggOverNonSel ops e
  | .stepinv e => hasAggOverNonSel ops e
  | _ => false
def hasAggList (ops : List Bytes) : List Ast → Bool
  | [] => false
  | a :: rest => hasAggOverNonSel ops a || hasAggList ops rest
 end

mutual
/-- does the tree contain a node satisfying `p` (children of duration fields excluded) -/
def anyNode (p : Ast → Bool) : Ast → Bool
  | .agg op w g pa e => p (.agg op w g pa e) || anyNode p pa || anyNode p e
  | .call fn args => p (.call fn args) || anyNodeList p args
  | .bin op b vm l r => p (.bin op b vm l r) || anyNode p l || anyNode p r
  | .sub e r re s se o oe a => p (.sub e r re s se o oe a) || anyNode p e
  | .mat s r re => p (.mat s r re) || anyNode p s
  | .un n e => p (.un n e) || anyNode p e
  | .paren e => anyNode p e
  | .stepinv e => anyNode p e
  | e => p e
def anyNodeList (p : Ast → Bool) : List Ast → Bool
  | [] => false
  | a :: rest => anyNode p a || anyNodeList p rest
 end

def isCall (names : List String) : Ast → Bool
  | .call fn _ => names.any fun n => bs n == fn
  | _ => false

def isAgg (names : List String) : Ast → Bool
  | .agg op .. => names.any fun n => bs n == op
  | _ => false

def hasDurExpr : Ast → Bool
  | .vs _ _ _ offe _ _ => !offe.isNil
  | .mat _ _ re => !re.isNil
  | .sub _ _ re _ se _ oe _ => !re.isNil || !se.isNil || !oe.isNil
  | _ => false

def hasExt : Ast → Bool
  | .vs _ _ _ _ _ ext => (match ext with | .none => false | _ => true)
  | _ => false

def isCompound : Ast → Bool
  | .agg .. | .call .. | .bin .. | .un .. | .sub .. => true
  | _ => false

/-! ### finding C33-F3: the parameter of an aggregation is not preprocessed

`preprocessExprHelper` (promql/engine.go) handles `*parser.AggregateExpr` by un-parenthesising `n.Expr` and `n.Param` and
then descends into `n.Expr` ONLY.  Nothing below the parameter is preprocessed, so the parentheses around the arguments of
a call (and around the parameter of an inner aggregation) survive there, although the evaluator relies on their removal:
`stringFromArg` / `funcHistogramQuantiles` / the count_values case type-assert `*parser.StringLiteral`, and the Call case
recognises its range-vector argument by a type assertion on `*parser.MatrixSelector`. -/

def isStr : Ast → Bool
  | .str _ => true
  | _ => false

def isMatSel : Ast → Bool
  | .mat .. => true
  | _ => false

/-- `( … ( x ) … )` with at least one pair of parentheses and `p x` -/
def isParenOf (p : Ast → Bool) : Ast → Bool
  | .paren e => p (stripP e)
  | _ => false

/-- a call with a parenthesised string-literal argument, or count_values with a parenthesised label parameter -/
def parenStrArgNode : Ast → Bool
  | .call _ args => args.any (isParenOf isStr)
  | .agg op _ _ p _ => op == bs "count_values" && isParenOf isStr p
  | _ => false

/-- a call with a parenthesised matrix-selector argument -/
def parenMatArgNode : Ast → Bool
  | .call _ args => args.any (isParenOf isMatSel)
  | _ => false

/-- some node satisfying `p` lies below the PARAMETER of some aggregation -/
def inAggParam (p : Ast → Bool) (e : Ast) : Bool :=
  anyNode (fun x => match x with | .agg _ _ _ pa _ => anyNode p pa | _ => false) e

def internalStrClass : String :=
  "INTERNAL:unexpected_error:_interface_conversion:_parser.Expr_is_*parser.ParenExpr,_not_*parser.StringLiteral"

def internalMatClasses : List String :=
  ["INTERNAL:unexpected_error:_interface_conversion:_parser.Expr_is_*parser.ParenExpr,_not_*parser.MatrixSelector",
   "INTERNAL:cannot_do_range_evaluation_of_matrix_selector"]

/-- classification of an internal-error class by the shape of the query (finding C33-F3 or not) -/
def internalKind (ast : Ast) (cls : String) : String :=
  if cls = internalStrClass && inAggParam parenStrArgNode ast then "paren-string-arg-in-agg-param"
  else if internalMatClasses.contains cls && inAggParam parenMatArgNode ast then "paren-matrix-arg-in-agg-param"
  else "other"

/-- user-error classes that a query with this tree can raise at evaluation time -/
def allowedClasses (eng : String) (e : Ast) : List String :=
  (if eng = "small" then ["too-many-samples"] else []) ++
  (if anyNode hasDurExpr e then ["duration"] else []) ++
  (if anyNode isCompound e then ["duplicate-labelset"] else []) ++
  (if anyNode (fun x => match x with | .bin .. => true | _ => false) e then ["many-to-many", "multiple-matches", "dup-match-group"] else []) ++
  (if anyNode (isAgg ["topk", "bottomk", "limitk", "limit_ratio"]) e then ["param"] else []) ++
  -- histogram_quantiles validates its quantile label name since fixes/C33-F2.patch (before: finding C33-F2,
  -- an internal error, which no class list admits)
  (if anyNode (isAgg ["count_values"]) e || anyNode (isCall ["histogram_quantiles"]) e then ["invalid-label"] else []) ++
  (if anyNode (isCall ["label_replace", "label_join"]) e then ["label-fn-arg"] else []) ++
  (if anyNode (isCall ["double_exponential_smoothing"]) e then ["smoothing-factor"] else []) ++
  (if anyNode hasExt e then ["ext-range"] else []) ++
  (if anyNode (isCall ["info"]) e then ["info"] else [])

/-! ### conversion to the C33 model language -/

def strOf (b : Bytes) : String := (String.fromUTF8? ⟨b.toArray⟩).getD "?"

def aggOf (op : Bytes) : Option EvalTotal.AggOp :=
  [("sum", EvalTotal.AggOp.sum), ("avg", .avg), ("min", .min), ("max", .max), ("count", .count), ("group", .group),
   ("stddev", .stddev), ("stdvar", .stdvar), ("topk", .topk), ("bottomk", .bottomk), ("quantile", .quantile),
   ("count_values", .countValues), ("limitk", .limitk), ("limit_ratio", .limitRatio)].findSome? fun p =>
    if bs p.1 == op then some p.2 else none

def binOf : BinOp → EvalTotal.BinOp
  | .add => .add | .sub => .sub | .mul => .mul | .div => .div | .mod => .mod | .pow => .pow | .atan2 => .atan2
  | .eqlc => .eql | .neq => .neq | .lte => .lte | .lss => .lss | .gte => .gte | .gtr => .gtr
  | .trimUpper => .trimUpper | .trimLower => .trimLower | .land => .land | .lor => .lor | .lunless => .lunless

def cardOf : Nat → EvalTotal.Card
  | 0 => .oneToOne | 1 => .manyToOne | 2 => .oneToMany | _ => .manyToMany

def vmOf (op : BinOp) : Option VM → EvalTotal.VM
  | none => { card := if op.isSet then .manyToMany else .oneToOne }
  | some v => { card := cardOf v.card, on := v.on, labels := v.labels.map strOf, incl := v.incl.map strOf,
                fillL := v.fillL.map fun _ => 0, fillR := v.fillR.map fun _ => 0 }

def atOf : AtMod → Prom.RangeEval.AtMod
  | .none => .none | .ts ms => .fixed ms | .start => .start | .end_ => .end_

def selOf (name : Bytes) (ms : List Matcher) (off : Int) (atm : AtMod) : EvalTotal.Sel :=
  ⟨strOf name, ms.map fun m => ⟨strOf m.name, (match m.typ with | .ne | .nre => true | _ => false),
    (match m.typ with | .re | .nre => true | _ => false), strOf m.value⟩, off, atOf atm⟩

mutual
/-- `none`: a node kind outside the model language (duration expressions are evaluated away by the engine's
    `durationVisitor`: a positive placeholder stands for a range that is only known at query time). -/
def ofAst : Ast → Option EvalTotal.Expr
  | .nil => some .nil
  | .num _ _ => some (.num 0)
  | .str v => some (.str (strOf v))
  | .vs name ms off _ atm _ => some (.sel (selOf name ms off atm))
  | .mat (.vs name ms off _ atm _) range re => some (.msel (selOf name ms off atm) (if re.isNil then range else 1))
  | .mat .. => none
  | .sub e range re step se off _ atm => do
    let e' ← ofAst e
    -- placeholders for duration expressions: a one-step grid
    let r := if re.isNil then range else 1
    let st := if se.isNil then (if re.isNil then step else 1) else r
    pure (.subq e' r st off (atOf atm))
  | .call fn args => do
    let as ← ofAstList args
    pure (.call (strOf fn) as)
  | .agg op without grouping param e => do
    let o ← aggOf op
    let p ← ofAst param
    let e' ← ofAst e
    pure (.agg o without (grouping.map strOf) p e')
  | .bin op b vm l r => do
    let l' ← ofAst l
    let r' ← ofAst r
    pure (.bin (binOf op) b (vmOf op vm) l' r')
  | .un neg e => do
    let e' ← ofAst e
    pure (if neg then .neg e' else .paren e')
  | .paren e => do
    let e' ← ofAst e
    pure (.paren e')
  | .stepinv e => ofAst e
  | .dur .. => none
def ofAstList : List Ast → Option (List EvalTotal.Expr)
  | [] => some []
  | a :: rest => do
    let a' ← ofAst a
    let r' ← ofAstList rest
    pure (a' :: r')
 end

mutual
/-- every subquery grid of the tree has at most 40 points (the dispatch run is skipped otherwise) -/
def gridOk : EvalTotal.Expr → Bool
  | .subq e r st _ _ => gridOk e && (if st == 0 then r / 15000 ≤ 40 else decide (r / st ≤ 40))
  | .call _ args => gridOkList args
  | .agg _ _ _ p e => gridOk p && gridOk e
  | .bin _ _ _ l r => gridOk l && gridOk r
  | .neg e => gridOk e
  | .paren e => gridOk e
  | _ => true
def gridOkList : List EvalTotal.Expr → Bool
  | [] => true
  | a :: rest => gridOk a && gridOkList rest
 end

/-- a kernel over the one-point value type: every numeric behaviour collapsed (used to run the dispatch only) -/
def unitKernel : EvalTotal.Kernel Unit where
  lit _ := ()
  ofTime _ := ()
  isStale _ := false
  neg _ := ()
  reMatch _ _ := true
  validLabel _ := true
  scalarBin _ _ _ := ()
  elemBin _ _ _ := .ok (some ((), true))
  boolVal _ := ()
  scalarFn _ _ _ := ()
  toScalar _ := ()
  instFn _ _ _ _ := some ()
  rangeFn _ _ _ _ := .ok (some ())
  vecFn _ _ _ vs _ := .ok (vs.headD [])
  aggGroup _ _ _ := some ()
  paramK _ := .ok 1
  paramRatio _ := .ok ()
  pickK _ k g := g.take k
  pickRatio _ _ := true
  valueLabel _ := "v"

def vtName : VT → String
  | .scalar => "scalar" | .vector => "vector" | .matrix => "matrix" | .string => "string" | .none => "none"

def allOpts : Opts := ⟨true, true, true, true⟩

def obsOf (ts : List String) : Option String :=
  ts.findSome? fun t => if t.startsWith "obs=" then some (t.drop 4).toString else none

def stripObs (ts : List String) : List String := ts.filter fun t => !t.startsWith "obs="

def obsClass (o : String) : String := (o.splitOn ";conc=").headD ""

/-- the observed comparison column, only when the observed class is a result (`ok:…`) -/
def obsConc (o : String) : Option String :=
  match o.splitOn ";conc=" with
  | [cls, cmp] => if cls.startsWith "ok:" && cmp != "na" then some cmp else none
  | _ => none

/-- the model's line for one query -/
def predict (eng : String) (range : Bool) (hexq : String) (obs : Option String) : String :=
  match bytesOfHex? hexq with
  | none => "bad-op"
  | some text =>
    match parse allOpts text with
    | none => "user-error:parse;conc=na"
    | some ast =>
      let τ := ast.typ
      if range && τ != .scalar && τ != .vector then "user-error:expr-type;conc=na" else
      -- tie between `checkAST` and the C33 typing judgement / evaluator
      let modelProblem : Option String :=
        match ofAst ast with
        | none => none
        | some e =>
          if EvalTotal.typeOf e != some τ then some "model-type-disagrees"
          else if !gridOk e then none
          else match EvalTotal.evalT unitKernel ⟨300000, 15000, 0, 0⟩ [] e 0 with
            | .error .internal => some "model-internal"
            | _ => none
      match modelProblem with
      | some p => p
      | none =>
        let oc := (obs.map obsClass).getD ""
        let durErr := oc = "user-error:duration" && anyNode hasDurExpr ast
        if durErr then "user-error:duration;conc=na"
        else if eng = "cancel" then "user-error:canceled;conc=na"
        else if oc.startsWith "user-error:" && (allowedClasses eng ast).contains (oc.drop 11).toString then oc ++ ";conc=na"
        -- finding C33-F3 (data-dependent like the user errors: an earlier error may pre-empt it): echoed iff the query
        -- has the shape that raises exactly this class
        else if oc.startsWith "INTERNAL:" && internalKind ast oc != "other" then oc ++ ";conc=na"
        -- the serial-vs-concurrent comparison of a successful query is a property of the schedule and of Go's map
        -- iteration order (finding F12), which no function of the op line can predict: the column is echoed and the
        -- JUDGE alone decides on it (clause 2)
        else "ok:" ++ (if range then "matrix" else vtName τ) ++ ";conc=" ++ (obs.bind obsConc).getD "same"

def modelLine (line : String) : String :=
  let all := toks line
  match stripObs all with
  | ["cfg", _] => "ok"
  | ["ser", _, _, _] => "ok"
  | ["del", _, _, _, _] => "ok"
  | ["iq", eng, _, hx] => predict eng false hx (obsOf all)
  | ["rq", eng, _, _, _, hx] => predict eng true hx (obsOf all)
  | _ => "bad-op"

def model (ops : List String) : List String := ops.map modelLine

/-! ### judge -/

def kSelOps : List Bytes := [bs "topk", bs "bottomk", bs "limitk"]
def accumOps : List Bytes := [bs "sum", bs "avg", bs "stddev", bs "stdvar", bs "quantile"]

/-- classification of a serial-vs-concurrent difference (finding F12 or not), C27's rule -/
def classifyDiff (hexq : String) (cmp : String) : String :=
  match (bytesOfHex? hexq).bind (parse allOpts) with
  | none => "other"
  | some ast =>
    match cmp.splitOn "/" with
    | ["diff", sameLabels, sameCount, sameMulti, ulp] =>
      let tie := hasAggOverNonSel kSelOps ast && sameCount = "1" &&
        (hasAggOverNonSel [bs "limitk"] ast || sameMulti = "1")
      let tol : Nat := if hasAggOverNonSel [bs "stddev", bs "stdvar"] ast then 8192 else 4
      let within := match ulp.toNat? with | some u => u ≤ tol | none => false
      let acc := hasAggOverNonSel accumOps ast && sameLabels = "1" && within
      if tie || acc then "order-sensitive-aggregation" else "other"
    | _ => "other"

/-- classification of an internal error (finding C33-F3 or not); an unparsable text is never the finding -/
def classifyInternal (hexq : String) (cls : String) : String :=
  match (bytesOfHex? hexq).bind (parse allOpts) with
  | none => "other"
  | some ast => internalKind ast cls

def judgeLine (op out : String) : Option String :=
  let ts := stripObs (toks op)
  let q : Option String :=
    match ts with
    | ["iq", _, _, hx] => some hx
    | ["rq", _, _, _, _, hx] => some hx
    | _ => none
  match q with
  | none => none
  | some hx =>
    if out = "bad-op" then none else
    match out.splitOn ";conc=" with
    | [cls, cmp] =>
      if cls.startsWith "INTERNAL:" then some s!"violation internal-error kind={classifyInternal hx cls} class={cls} op: {" ".intercalate ts}"
      else if !(cls.startsWith "ok:" || cls.startsWith "user-error:") then some s!"violation malformed-output out={out} op: {" ".intercalate ts}"
      else if cmp = "same" || cmp = "na" then none
      else some s!"violation conc-differs kind={classifyDiff hx cmp} cmp={cmp} class={cls} op: {" ".intercalate ts}"
    | _ => some s!"violation malformed-output out={out} op: {" ".intercalate ts}"

def isKnownKind (v : String) : Bool :=
  [" kind=order-sensitive-aggregation ", " kind=paren-string-arg-in-agg-param ", " kind=paren-matrix-arg-in-agg-param "].any
    fun k => (v.splitOn k).length > 1

def judge (ops outs : List String) : String :=
  let vs := (ops.zip outs).filterMap fun p => judgeLine p.1 p.2
  match vs.find? (fun v => !isKnownKind v) with
  | some v => v
  | none => vs.head?.getD "ok"

def suite : Suite := { name := "promqltotal", model := model, judge := judge }

end Prom.TotalSuite
