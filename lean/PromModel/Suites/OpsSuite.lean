import PromModel.Prelude.Line
import PromModel.Promql.Binop
/-
  Suite `promqlops` (property C29).
  ops:  `s <labelset> <f64 hex>`                      one float series of the case (labelset `__name__=m1,a=x`, `-` = empty)
        `q agg <op> <none|by|without> <lbls|-> <param|-> <operand>`
        `q bin <op> <bool 0|1> <none|on|ignoring> <lbls|-> <one|left|right> <incl|-> <fill> <operandL> <operandR>`
        `q set <and|or|unless> <none|on|ignoring> <lbls|-> <operandL> <operandR>`
        `q vs  <op> <bool 0|1> <swap 0|1> <scalar f64 hex> <operand>`
           operand `S:m1|m2` = `{__name__=~"m1|m2"}`, `N:m1|m2` = `({__name__=~"m1|m2"} * 1)`
           fill `-` | `l:<hex>` | `r:<hex>` | `b:<hexL>:<hexR>`
           optional last token `obs=<hex>,…` (observed values in output order, recorded by the harness)
  out:  s → `ok` | `dup`
        q → `vec <labelset>:<hex> …` (sorted) | `ord <labelset>:<hex> …` (topk/bottomk, engine order) | `err <class>`

  model : the transcription (`PromModel/Promql/Agg.lean`, `Binop.lean`) run with `Arith.f64`; the input order of
          every operand is `labels.Compare` order (the harness creates all series of its universe in that
          order, so series references — the order an unsorted `Select` returns — agree with it).
          For results that involve a division (avg, stdvar, `/`) or quantile, an observed finite value
          within 2^-40 relative of the model's value is echoed (token `obs=`), so only numerically
          significant differences are disagreements; `-x exact=1` drops `obs=` and demands bit equality.
  judge : docs/querying/operators.md evaluated independently over exact rationals on the case's series:
          group membership and output label sets, per-group aggregate, matched pairs, result labels,
          error conditions; values compared exactly (counts, specials) or within 2^-40 relative.
-/
namespace Prom.OpsSuite
open Prom.Ops
open Prom.F64 (Cls)

/-! ### parsing / rendering -/

def parseLabels? (s : String) : Option Labels :=
  if s = "-" then some [] else
  (s.splitOn ",").mapM fun p =>
    match p.splitOn "=" with
    | [n, v] => if n.isEmpty || v.isEmpty then none else some (n, v)
    | _ => none

def showLabels (ls : Labels) : String :=
  if ls.isEmpty then "-" else ",".intercalate (ls.map fun p => p.1 ++ "=" ++ p.2)

def parseList (s : String) : List String := if s = "-" then [] else s.splitOn ","

def nanBits : Nat := 0x7ff8000000000001

def bitsOf : Cls → Nat
  | .nan => nanBits
  | .posInf => F64.posInfBits
  | .negInf => F64.negInfBits
  | .fin q => F64.roundBits q

def parseVal? (s : String) : Option Cls := (natOfHex? s).map F64.decode

/-- `labels.Compare` -/
def labelsLt : Labels → Labels → Bool
  | [], [] => false
  | [], _ :: _ => true
  | _ :: _, [] => false
  | (n, v) :: a, (m, w) :: b =>
    if n ≠ m then n < m else if v ≠ w then v < w else labelsLt a b

def sortSeries (xs : List Sample) : List Sample :=
  insSort (fun a b => labelsLt a.labels b.labels) xs

structure Operand where
  strip : Bool
  names : List String

def parseOperand? (s : String) : Option Operand :=
  match s.splitOn ":" with
  | ["S", ns] => some ⟨false, ns.splitOn "|"⟩
  | ["N", ns] => some ⟨true, ns.splitOn "|"⟩
  | _ => none

def parseBinOp? : String → Option BinOp
  | "add" => some .add | "sub" => some .sub | "mul" => some .mul | "div" => some .div | "mod" => some .mod
  | "eq" => some .eq | "ne" => some .ne | "gt" => some .gt | "lt" => some .lt | "ge" => some .ge | "le" => some .le
  | _ => none

def parseAggOp? : String → Option AggOp
  | "sum" => some .sum | "avg" => some .avg | "min" => some .min | "max" => some .max
  | "count" => some .count | "group" => some .group | "stdvar" => some .stdvar
  | "quantile" => some .quantile | "topk" => some .topk | "bottomk" => some .bottomk
  | _ => none

def parseFill? (s : String) : Option (Option Cls × Option Cls) :=
  if s = "-" then some (none, none) else
  match s.splitOn ":" with
  | ["l", a] => (parseVal? a).map fun v => (some v, none)
  | ["r", a] => (parseVal? a).map fun v => (none, some v)
  | ["b", a, b] => do let x ← parseVal? a; let y ← parseVal? b; pure (some x, some y)
  | _ => none

inductive Query where
  | agg (e : AggExpr) (opnd : Operand)
  | bin (op : BinOp) (bool : Bool) (m : Matching) (l r : Operand)
  | set (op : SetOp) (on : Bool) (names : List String) (l r : Operand)
  | vs (op : BinOp) (bool swap : Bool) (scalar : Cls) (opnd : Operand)

structure ParsedQ where
  q : Query
  obs : Option (List Nat) := none

def splitObs (ts : List String) : List String × Option (List Nat) :=
  match ts.reverse with
  | last :: restRev =>
    if last.startsWith "obs=" then
      (restRev.reverse, some (((last.drop 4).toString.splitOn ",").filterMap natOfHex?))
    else (ts, none)
  | [] => (ts, none)

def parseQuery? (ts0 : List String) : Option ParsedQ :=
  let (ts, obs) := splitObs ts0
  match ts with
  | ["q", "agg", op, mode, lbls, param, opnd] => do
    let op ← parseAggOp? op
    let o ← parseOperand? opnd
    let without ← (match mode with | "none" => some false | "by" => some false | "without" => some true | _ => none)
    let grouping := if mode = "none" then [] else parseList lbls
    let e : AggExpr ← (match op with
      | .topk | .bottomk => (param.toInt?).map fun k => ({ op := op, without := without, grouping := grouping, k := k } : AggExpr)
      | .quantile => (parseVal? param).map fun φ => ({ op := op, without := without, grouping := grouping, param := φ } : AggExpr)
      | _ => some { op := op, without := without, grouping := grouping })
    pure ⟨.agg e o, obs⟩
  | ["q", "bin", op, b, mode, lbls, card, incl, fill, l, r] => do
    let op ← parseBinOp? op
    let l ← parseOperand? l
    let r ← parseOperand? r
    let (fl, fr) ← parseFill? fill
    let card ← (match card with | "one" => some Card.oneToOne | "left" => some .manyToOne | "right" => some .oneToMany | _ => none)
    let on ← (match mode with | "none" => some false | "ignoring" => some false | "on" => some true | _ => none)
    let names := if mode = "none" then [] else parseList lbls
    pure ⟨.bin op (b = "1") { card := card, on := on, labels := names, incl := parseList incl, fillL := fl, fillR := fr } l r, obs⟩
  | ["q", "set", op, mode, lbls, l, r] => do
    let op ← (match op with | "and" => some SetOp.and | "or" => some .or | "unless" => some .unless | _ => none)
    let l ← parseOperand? l
    let r ← parseOperand? r
    let on ← (match mode with | "none" => some false | "ignoring" => some false | "on" => some true | _ => none)
    pure ⟨.set op on (if mode = "none" then [] else parseList lbls) l r, obs⟩
  | ["q", "vs", op, b, sw, sc, opnd] => do
    let op ← parseBinOp? op
    let sc ← parseVal? sc
    let o ← parseOperand? opnd
    pure ⟨.vs op (b = "1") (sw = "1") sc o, obs⟩
  | _ => none

def parseSeries? (ts : List String) : Option Sample :=
  match ts with
  | ["s", l, b] => do
    let ls ← parseLabels? l
    let v ← parseVal? b
    if ls.get metricName = "" then none else pure ⟨ls, v⟩
  | _ => none

/-! ### model -/

/-- The operand as the engine evaluates it (selector, optionally `* 1`). -/
def evalOperand (A : Arith) (series : List Sample) (o : Operand) : Except Err (List Sample) :=
  let sel := sortSeries (series.filter fun s => o.names.contains (s.labels.get metricName))
  if o.strip then vectorScalarBinop A .mul false false sel (ofNat 1) else .ok sel

def absR (q : Rat) : Rat := if q < 0 then -q else q
def eps : Rat := F64.pow2 (-40)
def closeR (x e scale : Rat) : Bool := absR (x - e) ≤ eps * (if absR e < scale then scale else absR e)

def renderEntry (ls : Labels) (bits : Nat) : String := showLabels ls ++ ":" ++ hexOfNat bits 16

def sortStringsBy (xs : List (String × Sample)) : List (String × Sample) :=
  insSort (fun a b => a.1 < b.1) xs

/-- Render the model's vector; with an observation list, finite model values are replaced by the observed
    bits when those are within 2^-40 relative. -/
def renderVec (head : String) (sorted : Bool) (obs : Option (List Nat)) (out : List Sample) : String :=
  let keyed := out.map fun s => (showLabels s.labels ++ ":", s)
  let keyed := if sorted then sortStringsBy keyed else keyed
  let ents := keyed.zipIdx.map fun (ks, i) =>
    let s := ks.2
    let mine := bitsOf s.v
    let bits := match obs, s.v with
      | some os, .fin m =>
        (match os[i]? with
         | some ob => (match F64.f64ToRat ob with
            | some x => if closeR x m 0 then (if ob = 2 ^ 63 then 0 else ob) else mine
            | none => mine)
         | none => mine)
      | _, _ => mine
    renderEntry s.labels bits
  " ".intercalate (head :: ents)

def renderRes (head : String) (sorted : Bool) (obs : Option (List Nat)) : Except Err (List Sample) → String
  | .error e => "err " ++ e.show
  | .ok out => renderVec head sorted obs out

def evalQuery (A : Arith) (series : List Sample) (pq : ParsedQ) : String :=
  match pq.q with
  | .agg e o =>
    let ordered := e.op == .topk || e.op == .bottomk
    renderRes (if ordered then "ord" else "vec") (!ordered) pq.obs
      ((evalOperand A series o).map (evalAgg A e))
  | .bin op b m l r =>
    renderRes "vec" true pq.obs do
      let lv ← evalOperand A series l
      let rv ← evalOperand A series r
      vectorBinop A op b m lv rv
  | .set op on names l r =>
    renderRes "vec" true pq.obs do
      let lv ← evalOperand A series l
      let rv ← evalOperand A series r
      vectorSet op on names lv rv
  | .vs op b sw sc o =>
    renderRes "vec" true pq.obs do
      let v ← evalOperand A series o
      vectorScalarBinop A op b sw v sc

def stepModel (st : List Sample) (line : String) : List Sample × String :=
  let ts := toks line
  match parseSeries? ts with
  | some s => if st.any (fun t => t.labels = s.labels) then (st, "dup") else (st ++ [s], "ok")
  | none =>
    match parseQuery? ts with
    | some q => (st, evalQuery .f64 st q)
    | none => (st, "bad-op")

def model (ops : List String) : List String :=
  let rec go (st : List Sample) : List String → List String
    | [] => []
    | l :: rest => let (st', o) := stepModel st l; o :: go st' rest
  go [] ops

/-! ### judge — docs/querying/operators.md, independent of the transcription -/

namespace Doc

def E : Arith := .exact

/-- `by (names)`: only the listed labels; `without (names)`: all labels except the listed ones and the metric name. -/
def project (without : Bool) (names : List String) (ls : Labels) : Labels :=
  if without then ls.filter fun p => !(names.contains p.1) && p.1 != metricName
  else ls.filter fun p => names.contains p.1

/-- `on (names)`: only the listed labels; `ignoring (names)`: all labels but the listed ones (and the name). -/
def signature (on : Bool) (names : List String) (ls : Labels) : Labels :=
  if on then ls.filter fun p => names.contains p.1
  else ls.filter fun p => !(names.contains p.1) && p.1 != metricName

def dedup {α} [BEq α] (xs : List α) : List α :=
  xs.foldl (fun acc x => if acc.contains x then acc else acc ++ [x]) []

/-- collapse runs of equal adjacent elements -/
def runs {α} [DecidableEq α] : List α → List α
  | a :: b :: rest => if a = b then runs (b :: rest) else a :: runs (b :: rest)
  | l => l

def hasDup {α} [BEq α] : List α → Bool
  | [] => false
  | x :: xs => xs.contains x || hasDup xs

def dropName (ls : Labels) : Labels := ls.filter fun p => !isMeta p.1

/-- Operand semantics: the series with one of the names; `* 1` multiplies every value by 1 and drops the name. -/
def operand (series : List Sample) (o : Operand) : Except Err (List Sample) :=
  let sel := series.filter fun s => o.names.contains (s.labels.get metricName)
  if o.strip then
    let out := sel.map fun s => (⟨dropName s.labels, vmul E s.v (.fin 1)⟩ : Sample)
    if hasDup (out.map (·.labels)) then .error .sameLabelset else .ok out
  else .ok sel

def maxAbs (vs : List Cls) : Rat :=
  vs.foldl (fun m v => match v with | .fin q => if m < absR q then absR q else m | _ => m) 0

/-- IEEE sum of a multiset (order-independent in exact arithmetic). -/
def sum (vs : List Cls) : Cls :=
  if vs.any isNaN then .nan
  else if vs.any (· matches .posInf) then (if vs.any (· matches .negInf) then .nan else .posInf)
  else if vs.any (· matches .negInf) then .negInf
  else .fin (vs.foldl (fun acc v => match v with | .fin q => acc + q | _ => acc) 0)

/-- "NaN is only ever considered a minimum or maximum if all aggregated values are NaN" -/
def extremum (wantMax : Bool) (vs : List Cls) : Cls :=
  match vs.filter (fun v => !isNaN v) with
  | [] => .nan
  | x :: rest => rest.foldl (fun cur v => if (if wantMax then vlt cur v else vlt v cur) then v else cur) x

def stdvar (vs : List Cls) : Cls :=
  if vs.all isFin then
    let qs := vs.filterMap fun v => match v with | .fin q => some q | _ => none
    let n : Rat := (qs.length : Nat)
    let μ := qs.foldl (· + ·) 0 / n
    .fin (qs.foldl (fun acc q => acc + (q - μ) * (q - μ)) 0 / n)
  else .nan

/-- NaN-smallest ascending order. -/
def sortAsc (vs : List Cls) : List Cls := insSort (fun a b => isNaN a && !isNaN b || vlt a b) vs

/-- φ-quantile: rank φ·(N−1) in the ascending order (NaN smallest), linear interpolation between the two
    neighbouring ranks; a rank that falls exactly on an element is that element. -/
def quantile (φ : Cls) (vs : List Cls) : Cls :=
  match φ with
  | .nan => .nan
  | .negInf => .negInf
  | .posInf => .posInf
  | .fin φ =>
    if φ < 0 then .negInf else if φ > 1 then .posInf else
    let s := sortAsc vs
    let n := s.length
    let rank : Rat := φ * ((n - 1 : Nat) : Rat)
    let lo := rank.floor.toNat
    let w := rank - (rank.floor : Rat)
    let a := s.getD lo .nan
    if w = 0 then a else
    let b := s.getD (lo + 1) .nan
    vadd E (vmul E a (.fin (1 - w))) (vmul E b (.fin w))

/-- The interpolation formula evaluated blindly in IEEE arithmetic, *including* the term with weight 0
    (`±Inf · 0 = NaN`): what promql/quantile.go computes. Used only to name the known deviation. -/
def quantileNaive (φ : Cls) (vs : List Cls) : Cls :=
  match φ with
  | .fin φ =>
    if φ < 0 || φ > 1 then quantile (.fin φ) vs else
    let s := sortAsc vs
    let n := s.length
    let rank : Rat := φ * ((n - 1 : Nat) : Rat)
    let lo := rank.floor.toNat
    let w := rank - (rank.floor : Rat)
    let up := if lo + 1 < n - 1 then lo + 1 else n - 1
    vadd E (vmul E (s.getD lo .nan) (.fin (1 - w))) (vmul E (s.getD up .nan) (.fin w))
  | q => quantile q vs

def valOk (impl expected : Cls) (scale : Rat) : Bool :=
  match impl, expected with
  | .nan, .nan | .posInf, .posInf | .negInf, .negInf => true
  | .fin x, .fin e => closeR x e scale
  | _, _ => false

/-- "farthest from the top": descending with NaN last (`topk`), ascending with NaN last (`bottomk`). -/
def before (bottom : Bool) (a b : Cls) : Bool :=
  if isNaN a then false else if isNaN b then true else if bottom then vlt a b else vlt b a

def sortTop (bottom : Bool) (vs : List Cls) : List Cls := insSort (before bottom) vs

def arith (op : BinOp) (l r : Cls) : Cls × Bool := elemBinop E op l r

end Doc

structure Entry where
  labels : Labels
  v : Cls

inductive Out where
  | vec (ordered : Bool) (es : List Entry)
  | err (cls : String)
  | other (s : String)

def parseEntry? (s : String) : Option Entry :=
  match s.splitOn ":" with
  | [l, b] => do let ls ← parseLabels? l; let v ← parseVal? b; pure ⟨ls, v⟩
  | _ => none

def parseOut (s : String) : Out :=
  match toks s with
  | "vec" :: es => match es.mapM parseEntry? with | some l => .vec false l | none => .other s
  | "ord" :: es => match es.mapM parseEntry? with | some l => .vec true l | none => .other s
  | ["err", c] => .err c
  | _ => .other s

def showV (v : Cls) : String := hexOfNat (bitsOf v) 16

/-- Compare the implementation's vector with the expected set of `(labels, value)`. -/
def judgeVec (k : Nat) (what : String) (impl : List Entry) (expected : List Sample) (scale : Rat) : Option String :=
  if Doc.hasDup (impl.map (·.labels)) then some s!"violation duplicate-output-labelset op={k} {what}"
  else
    match expected.find? (fun e => !(impl.any fun i => i.labels = e.labels)) with
    | some e => some s!"violation missing-output op={k} {what} labels={showLabels e.labels}"
    | none =>
      match impl.find? (fun i => !(expected.any fun e => i.labels = e.labels)) with
      | some i => some s!"violation unexpected-output op={k} {what} labels={showLabels i.labels}"
      | none =>
        match impl.find? (fun i => !(expected.any fun e => i.labels = e.labels && Doc.valOk i.v e.v scale)) with
        | some i =>
          let e := (expected.find? fun e => i.labels = e.labels).map (fun e => showV e.v)
          some s!"violation wrong-value op={k} {what} labels={showLabels i.labels} got={showV i.v} want={e.getD "?"}"
        | none => none

def aggName : AggOp → String
  | .sum => "sum" | .avg => "avg" | .min => "min" | .max => "max" | .count => "count" | .group => "group"
  | .stdvar => "stdvar" | .quantile => "quantile" | .topk => "topk" | .bottomk => "bottomk"

def judgeAgg (k : Nat) (e : AggExpr) (input : List Sample) (o : Out) : Option String :=
  let what := s!"agg={aggName e.op}"
  let keyOf (s : Sample) := Doc.project e.without e.grouping s.labels
  let keys := Doc.dedup (input.map keyOf)
  let members (key : Labels) := input.filter fun s => keyOf s = key
  match o with
  | .err c => some s!"violation unexpected-error op={k} {what} err={c}"
  | .other s => some s!"violation unparsable op={k} out={s}"
  | .vec ordered impl =>
    match e.op with
    | .topk | .bottomk =>
      let bottom := e.op == .bottomk
      if !ordered then some s!"violation unparsable op={k} {what} expected-ord" else
      -- every output is an input series with its own value
      match impl.find? (fun i => !(input.any fun s => s.labels = i.labels && Doc.valOk i.v s.v 0)) with
      | some i => some s!"violation output-not-an-input-series op={k} {what} labels={showLabels i.labels}"
      | none =>
      if Doc.hasDup (impl.map (·.labels)) then some s!"violation duplicate-output-labelset op={k} {what}" else
      let kk : Nat := if e.k < 1 then 0 else e.k.toNat
      -- per group: the multiset of values is the k best (NaN farthest), in that order
      let bad := keys.find? fun key =>
        let outs := (impl.filter fun i => Doc.project e.without e.grouping i.labels = key).map (·.v)
        let want := (Doc.sortTop bottom ((members key).map (·.v))).take kk
        !(outs.length = want.length && (outs.zip want).all fun (a, b) => Doc.valOk a b 0)
      match bad with
      | some key => some s!"violation topk-not-k-best-in-order op={k} {what} group={showLabels key}"
      | none =>
        -- groups are returned consecutively
        let gs := impl.map fun i => Doc.project e.without e.grouping i.labels
        if Doc.hasDup (Doc.runs gs) then some s!"violation topk-groups-not-consecutive op={k} {what}" else none
    | op =>
      let expected : List Sample := keys.map fun key =>
        let vs := (members key).map (·.v)
        let n : Rat := (vs.length : Nat)
        let v : Cls := match op with
          | .sum => Doc.sum vs
          | .avg => vdiv Doc.E (Doc.sum vs) (.fin n)
          | .min => Doc.extremum false vs
          | .max => Doc.extremum true vs
          | .count => .fin n
          | .group => .fin 1
          | .stdvar => Doc.stdvar vs
          | .quantile => Doc.quantile e.param vs
          | _ => .nan
        ⟨key, v⟩
      let m := Doc.maxAbs (input.map (·.v))
      let scale : Rat := match op with
        | .stdvar => m * m
        | .count | .group | .min | .max => 0
        | _ => m
      match judgeVec k what impl expected scale with
      | none => none
      | some v =>
        if op == .quantile then
          -- known deviation: an infinite neighbour with interpolation weight 0 turns the result into NaN
          let naive : List Sample := keys.map fun key => ⟨key, Doc.quantileNaive e.param ((members key).map (·.v))⟩
          match judgeVec k what impl naive scale with
          | none => some s!"violation quantile-infinite-neighbour-weight-zero-gives-nan op={k} ({(v.drop 10).toString})"
          | some _ => some v
        else some v

/-- The documented result label set of one matched pair (`many` = the higher-cardinality side, the LHS for
    one-to-one). `oneLabels` = labels of the partner on the "one" side (match labels only for a filled-in one). -/
def docResultLabels (op : BinOp) (bool : Bool) (m : Matching) (many one : Labels) : Labels :=
  let base := if !op.isComparison || bool then Doc.dropName many else many
  if m.card = .oneToOne then
    (if m.on then base.filter fun p => m.labels.contains p.1 else base.filter fun p => !m.labels.contains p.1)
  else
    m.incl.foldl (fun acc ln =>
      let acc := acc.filter fun p => p.1 != ln
      match one.find? (fun p => p.1 == ln) with
      | some p => Labels.insert ln p.2 acc
      | none => acc) base

structure DocPair where
  sig : Labels
  labels : Labels
  v : Cls
  keep : Bool

def opName : BinOp → String
  | .add => "add" | .sub => "sub" | .mul => "mul" | .div => "div" | .mod => "mod"
  | .eq => "eq" | .ne => "ne" | .gt => "gt" | .lt => "lt" | .ge => "ge" | .le => "le"

def judgeErrOrVec (k : Nat) (what : String) (errs : List String) (o : Out) (expected : List Sample) (scale : Rat) : Option String :=
  match o with
  | .other s => some s!"violation unparsable op={k} out={s}"
  | .err c =>
    if errs.contains c then none
    else if errs.isEmpty then some s!"violation unexpected-error op={k} {what} err={c}"
    else some s!"violation wrong-error-class op={k} {what} err={c} want={",".intercalate errs}"
  | .vec _ impl =>
    if !errs.isEmpty then some s!"violation missing-error op={k} {what} want={",".intercalate errs}"
    else judgeVec k what impl expected scale

def judgeBinDoc (k : Nat) (op : BinOp) (bool : Bool) (m : Matching) (lhs rhs : List Sample) (o : Out) : Option String :=
  let what := s!"bin={opName op}"
  let sigf := Doc.signature m.on m.labels
  let noFill := m.fillL.isNone && m.fillR.isNone
  if (lhs.isEmpty && rhs.isEmpty) || ((lhs.isEmpty || rhs.isEmpty) && noFill) then
    judgeErrOrVec k what [] o [] 0
  else
  let rightIsOne := m.card ≠ .oneToMany
  let (many, one) := if rightIsOne then (lhs, rhs) else (rhs, lhs)
  let (fillMany, fillOne) := if rightIsOne then (m.fillL, m.fillR) else (m.fillR, m.fillL)
  let value (manyV oneV : Cls) : Cls × Bool :=
    let (l, r) := if rightIsOne then (manyV, oneV) else (oneV, manyV)
    let (v, keep) := Doc.arith op l r
    if bool then ((if keep then .fin 1 else .fin 0), true) else (v, keep)
  let mk (manyS oneS : Sample) (sig : Labels) : DocPair :=
    let (v, keep) := value manyS.v oneS.v
    ⟨sig, docResultLabels op bool m manyS.labels oneS.labels, v, keep⟩
  -- pairs from the many side
  let pairs1 : List DocPair := many.filterMap fun s =>
    let sig := sigf s.labels
    match one.find? (fun t => sigf t.labels = sig) with
    | some t => some (mk s t sig)
    | none => fillOne.map fun f => mk s ⟨sig, f⟩ sig
  -- unmatched one-side series with a fill value for the many side
  let pairs2 : List DocPair := match fillMany with
    | none => []
    | some f => one.filterMap fun t =>
      let sig := sigf t.labels
      if many.any (fun s => sigf s.labels = sig) then none else some (mk ⟨sig, f⟩ t sig)
  let pairs := pairs1 ++ pairs2
  let errs : List String :=
    (if Doc.hasDup (one.map fun t => sigf t.labels) then ["dup-series"] else []) ++
    (if m.card = .oneToOne && Doc.hasDup (pairs.map (·.sig)) then ["multi-match-one"] else []) ++
    (if m.card ≠ .oneToOne && Doc.hasDup (pairs.map fun p => (p.sig, p.labels)) then ["multi-match-group"] else []) ++
    (if Doc.hasDup ((pairs.filter (·.keep)).map (·.labels)) then ["same-labelset"] else [])
  let expected := (pairs.filter (·.keep)).map fun p => (⟨p.labels, p.v⟩ : Sample)
  let ml := Doc.maxAbs (lhs.map (·.v) ++ m.fillL.toList)
  let mr := Doc.maxAbs (rhs.map (·.v) ++ m.fillR.toList)
  let scale : Rat := match op with
    | .mul => 0
    | .div => 0
    | _ => if ml < mr then mr else ml
  judgeErrOrVec k what errs o expected scale

/-- `judgeBinDoc`, with one named special case: under `group_right` the engine applies `fill_left` to the
    right operand and `fill_right` to the left one (the sidedness swap of `VectorBinop` does not swap
    `FillValues`). When the documented semantics rejects the output and the exchanged-fill semantics
    accepts it, the verdict names exactly that. -/
def judgeBin (k : Nat) (op : BinOp) (bool : Bool) (m : Matching) (lhs rhs : List Sample) (o : Out) : Option String :=
  match judgeBinDoc k op bool m lhs rhs o with
  | none => none
  | some v =>
    if m.card = .oneToMany && (m.fillL.isSome || m.fillR.isSome) then
      match judgeBinDoc k op bool { m with fillL := m.fillR, fillR := m.fillL } lhs rhs o with
      | none => some s!"violation group-right-fill-sides-exchanged op={k} bin={opName op} ({(v.drop 10).toString})"
      | some _ => some v
    else some v

def judgeSet (k : Nat) (op : SetOp) (on : Bool) (names : List String) (lhs rhs : List Sample) (o : Out) : Option String :=
  let what := match op with | .and => "set=and" | .or => "set=or" | .unless => "set=unless"
  let sigf := Doc.signature on names
  let inR (s : Sample) := rhs.any fun t => sigf t.labels = sigf s.labels
  let inL (s : Sample) := lhs.any fun t => sigf t.labels = sigf s.labels
  let expected := match op with
    | .and => lhs.filter inR
    | .or => lhs ++ rhs.filter (fun s => !inL s)
    | .unless => lhs.filter (fun s => !inR s)
  let errs := if Doc.hasDup (expected.map (·.labels)) then ["same-labelset"] else []
  judgeErrOrVec k what errs o expected 0

def judgeVs (k : Nat) (op : BinOp) (bool swap : Bool) (scalar : Cls) (vec : List Sample) (o : Out) : Option String :=
  let what := s!"vs={opName op}"
  let expected : List Sample := vec.filterMap fun s =>
    let (l, r) := if swap then (scalar, s.v) else (s.v, scalar)
    let (v, keep) := Doc.arith op l r
    let lbls := if !op.isComparison || bool then Doc.dropName s.labels else s.labels
    if bool then some ⟨lbls, if keep then .fin 1 else .fin 0⟩
    else if !keep then none
    else some ⟨lbls, if op.isComparison then s.v else v⟩
  let errs := if Doc.hasDup (expected.map (·.labels)) then ["same-labelset"] else []
  let scale : Rat := match op with
    | .add | .sub => (let a := Doc.maxAbs (vec.map (·.v)); let b := Doc.maxAbs [scalar]; if a < b then b else a)
    | _ => 0
  judgeErrOrVec k what errs o expected scale

def judgeQuery (k : Nat) (series : List Sample) (q : Query) (o : Out) : Option String :=
  let operandErr (what : String) : Option String :=
    match o with
    | .err "same-labelset" => none
    | .err c => some s!"violation wrong-error-class op={k} {what} err={c} want=same-labelset"
    | _ => some s!"violation missing-error op={k} {what} want=same-labelset"
  match q with
  | .agg e opnd =>
    (match Doc.operand series opnd with
     | .error _ => operandErr "agg-operand"
     | .ok v => judgeAgg k e v o)
  | .bin op b m l r =>
    (match Doc.operand series l, Doc.operand series r with
     | .ok lv, .ok rv => judgeBin k op b m lv rv o
     | _, _ => operandErr "bin-operand")
  | .set op on names l r =>
    (match Doc.operand series l, Doc.operand series r with
     | .ok lv, .ok rv => judgeSet k op on names lv rv o
     | _, _ => operandErr "set-operand")
  | .vs op b sw sc opnd =>
    (match Doc.operand series opnd with
     | .error _ => operandErr "vs-operand"
     | .ok v => judgeVs k op b sw sc v o)

def judge (ops outs : List String) : String :=
  let rec go (st : List Sample) (ops outs : List String) (k : Nat) : String :=
    match ops, outs with
    | op :: ops, out :: outs =>
      let ts := toks op
      match parseSeries? ts with
      | some s =>
        let dup := st.any fun t => t.labels = s.labels
        if out = (if dup then "dup" else "ok") then go (if dup then st else st ++ [s]) ops outs (k + 1)
        else s!"violation series-op-output op={k} out={out}"
      | none =>
        match parseQuery? ts with
        | none => go st ops outs (k + 1)
        | some pq =>
          match judgeQuery k st pq.q (parseOut out) with
          | some v => v
          | none => go st ops outs (k + 1)
    | _, _ => "ok"
  go [] ops outs 0

def suite : Suite := { name := "promqlops", model := model, judge := judge }

end Prom.OpsSuite
