import PromModel.Tsdb.Tombstones
import PromModel.Suites.IntervalsSuite
/-
  Suite `tombfile` (property C20): `tombstones.MemTombstones` and the tombstone codec / file.
  ops:  `addi <ref> <mint> <maxt>`   AddInterval                       → `ok` | `panic`
        `trunc <t>`                  TruncateBefore                    → `ok`
        `deltomb <r1,r2,…|->`        DeleteTombstones                  → `ok`
        `get <ref>`                  Get                               → `ok <set>`
        `dump`                       Iter (sorted by ref) + Total      → `total=<n> <ref>=<set>;…` | `total=0 -`
        `enc`                        Encode (Iter in ref order)        → `<hex>`
        `dec <hex>`                  Decode of arbitrary bytes         → `ok <dump>` | `badformat` | `invalidsize` | `panic`
        `encdec`                     Decode(Encode(the real map))      → `ok <dump>` | …
        `wfile`                      WriteFile, file content           → `<hex>`
        `rfile <hex>`                ReadTombstones of that content    → `ok size=<n> <dump>` | `header-invalidsize`
                                     | `badmagic` | `checksum` | `badformat` | `invalidsize` | `panic`
-/
namespace Prom.Tombstones
open Prom.Intervals

def dumpStr (st : Stones) : String :=
  s!"total={total st} " ++
    (if st.isEmpty then "-" else ";".intercalate (st.map fun p => s!"{p.1}={setStr p.2}"))

def parseNatList? (s : String) : Option (List Nat) :=
  if s = "-" then some [] else (s.splitOn ",").mapM String.toNat?

def decStr (r : Except DecErr Stones) : String :=
  match r with
  | .ok st => "ok " ++ dumpStr st
  | .error .badFormat => "badformat"
  | .error .invalidSize => "invalidsize"
  | .error .panic => "panic"

def fileStr (n : Nat) (r : Except FileErr Stones) : String :=
  match r with
  | .ok st => s!"ok size={n} " ++ dumpStr st
  | .error .headerInvalidSize => "header-invalidsize"
  | .error .badMagic => "badmagic"
  | .error .checksum => "checksum"
  | .error .badFormat => "badformat"
  | .error .invalidSize => "invalidsize"
  | .error .panic => "panic"

def stepModel (st : Stones) (line : String) : Stones × String :=
  match toks line with
  | ["addi", r, a, b] =>
    match r.toNat?, a.toInt?, b.toInt? with
    | some r, some a, some b =>
      match addInterval st r ⟨a, b⟩ with
      | .ok st' => (st', "ok")
      | .error _ => (st, "panic")
    | _, _, _ => (st, "bad-op")
  | ["trunc", t] =>
    match t.toInt? with
    | some t => (truncateBefore st t, "ok")
    | none => (st, "bad-op")
  | ["deltomb", rs] =>
    match parseNatList? rs with
    | some rs => (deleteTombstones st rs, "ok")
    | none => (st, "bad-op")
  | ["get", r] =>
    match r.toNat? with
    | some r => (st, render (getIvs st r))
    | none => (st, "bad-op")
  | ["dump"] => (st, dumpStr st)
  | ["enc"] => (st, hexEncBytes (encode st))
  | ["dec", hx] =>
    match bytesOfHex? hx with
    | some b => (st, decStr (decode b))
    | none => (st, "bad-op")
  | ["encdec"] => (st, decStr (decode (encode st)))
  | ["wfile"] => (st, hexEncBytes (encodeFile crc32c st))
  | ["rfile", hx] =>
    match bytesOfHex? hx with
    | some b => (st, fileStr b.length (readFile crc32c b))
    | none => (st, "bad-op")
  | _ => (st, "bad-op")

def model (ops : List String) : List String :=
  let rec go (st : Stones) : List String → List String
    | [] => []
    | l :: rest => let (st', o) := stepModel st l; o :: go st' rest
  go [] ops

/-! ### judge: the statement on the implementation's outputs
  * every `get`/`dump` shows, per series, a canonical set covering exactly the union of the ranges
    requested for it (since it was last deleted / truncated); `dump` lists references in increasing
    order, no empty group, `total` = number of intervals;
  * `TruncateBefore(t)` drops exactly the intervals lying entirely before `t` (judged on the
    preceding verified dump);
  * reading back what was just written (`dec` of the last `enc`, `encdec`, `rfile` of the last `wfile`)
    returns exactly the last dump. Damaged inputs carry no requirement here (model = impl compares them). -/

structure JState where
  added : Stones := []                 -- raw requests per series (unsorted, not merged)
  dump : Option (String × Stones) := none   -- last dump (verified), valid until the next mutation
  enc : Option String := none
  file : Option String := none

def parseDump? (s : String) : Option (Nat × Stones) :=
  match toks s with
  | [t, body] =>
    match t.splitOn "=" with
    | ["total", n] => do
      let n ← n.toNat?
      if body = "-" then pure (n, []) else
      let groups ← (body.splitOn ";").mapM fun g =>
        match g.splitOn "=" with
        | [r, set] => do pure (← r.toNat?, ← parseSet? set)
        | _ => none
      pure (n, groups)
    | _ => none
  | _ => none

/-- canonical + same coverage as the raw requests on all endpoints ±1 -/
def setOk (ys req : Intervals) : Bool :=
  canonB ys &&
  ((req ++ ys).flatMap fun x => [x.mint - 1, x.mint, x.maxt, x.maxt + 1]).all fun t => coversB ys t == coversB req t

def judgeStep (js : JState) (k : Nat) (op out : String) : Except String (Option JState) :=
  -- `.ok none` = stop judging this case (outside the statement); `.error v` = violation
  match toks op with
  | ["addi", r, a, b] =>
    match r.toNat?, a.toInt?, b.toInt? with
    | some r, some a, some b =>
      if a > b then .ok none
      else if out ≠ "ok" then .error s!"violation addi-panic op={k} ref={r} mint={a} maxt={b}"
      else .ok (some { added := setIvs js.added r (⟨a, b⟩ :: getIvs js.added r) })
    | _, _, _ => .ok none
  | ["deltomb", rs] =>
    match parseNatList? rs with
    | some rs => .ok (some { added := deleteTombstones js.added rs })
    | none => .ok none
  | ["trunc", t] =>
    match t.toInt?, js.dump with
    | some t, some (_, d) =>
      .ok (some { added := (d.map fun p => (p.1, p.2.filter fun iv => decide (t ≤ iv.maxt))).filter fun p => !p.2.isEmpty })
    | _, _ => .ok none
  | ["get", r] =>
    match r.toNat?, toks out with
    | some r, ["ok", s] =>
      match parseSet? s with
      | some ys =>
        if setOk ys (getIvs js.added r) then .ok (some js)
        else .error s!"violation get-set op={k} ref={r} set={s}"
      | none => .error s!"violation unparsable op={k}"
    | _, _ => .error s!"violation unparsable op={k}"
  | ["dump"] =>
    match parseDump? out with
    | none => .error s!"violation unparsable op={k}"
    | some (n, d) =>
      if !decide (d.Pairwise fun p q => p.1 < q.1) then .error s!"violation dump-order op={k}"
      else if d.any (fun p => p.2.isEmpty) then .error s!"violation dump-empty-group op={k}"
      else if n ≠ total d then .error s!"violation dump-total op={k} total={n}"
      else
        match d.find? (fun p => !setOk p.2 (getIvs js.added p.1)) with
        | some p => .error s!"violation dump-set op={k} ref={p.1} set={setStr p.2}"
        | none =>
          match js.added.find? (fun p => !p.2.isEmpty && (getIvs d p.1).isEmpty) with
          | some p => .error s!"violation dump-missing op={k} ref={p.1}"
          | none => .ok (some { js with dump := some (out, d) })
  | ["enc"] => .ok (some { js with enc := some out })
  | ["wfile"] => .ok (some { js with file := some out })
  | ["dec", hx] =>
    match js.dump, js.enc with
    | some (ds, _), some e =>
      if hx = e ∧ out ≠ "ok " ++ ds then .error s!"violation readback-decode op={k} got={out}"
      else .ok (some js)
    | _, _ => .ok (some js)
  | ["encdec"] =>
    match js.dump with
    | some (ds, _) =>
      if out ≠ "ok " ++ ds then .error s!"violation readback-encdec op={k} got={out}" else .ok (some js)
    | none => .ok (some js)
  | ["rfile", hx] =>
    match js.dump, js.file with
    | some (ds, _), some f =>
      if hx = f ∧ out ≠ s!"ok size={hx.length / 2} " ++ ds then .error s!"violation readback-file op={k} got={out}"
      else .ok (some js)
    | _, _ => .ok (some js)
  | _ => .ok none

def judge (ops outs : List String) : String :=
  let rec go (js : JState) (k : Nat) : List String → List String → String
    | op :: ops, out :: outs =>
      match judgeStep js k op out with
      | .error v => v
      | .ok none => "ok"
      | .ok (some js') => go js' (k + 1) ops outs
    | _, _ => "ok"
  go {} 0 ops outs

def suite : Suite := { name := "tombfile", model := model, judge := judge }

end Prom.Tombstones
