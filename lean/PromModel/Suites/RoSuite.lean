import PromModel.Tsdb.ReadOnly
import PromModel.Suites.DbSuite
/-
  Suites `ro` and `oooro` (C53): histories on a real `tsdb.DB` with read-only opens interleaved.
  ops:  the ops of suite `db`, plus
        roq <mint> <maxt> <in|out> <clean|copy>
           -> ro=<rows> rw=<rows> tree=<same|…> bsort=<ok|bad> rocut=<t|none> rwcut=<t|none> lasthint=<-|…>
        rofl <in|out> <clean|copy> | ftree=<same|…>
           -> fl=<rows> hd=<rows> rocut=<t|none> rwcut=<t|none> lasthint=<-|…>
  Everything after " | " in an op line is data observed by the harness (not an input): the model
  ignores it, the judge reads it.

  `ro` (in-order histories): model = `Db.xstep`; the judge evaluates C53's statement on the
  implementation's outputs: read-only rows = read-write rows of the same directory, flushed block =
  head of the read-write open, file tree unchanged, blocks sorted by MinTime. (`judgeWith true` adds
  C01's reference check on the read-only rows; it is not used by the registered suite.)

  `oooro` (out-of-order ingestion, CompactOOOHead / CompactStaleHead / CompactSelectedSeries): the
  model has no out-of-order stage yet (DbModel stage C), so this stream is judged only: every output
  line is the constant "-" and the observations travel after " | " in the op line.
-/
namespace Prom.Db.Ro
open Prom.Intervals Prom.Db

def cutStr : Option Int → String
  | some t => toString t
  | none => "none"

def renderX : XOut → String
  | .base o => renderOut o
  | .roq ro rw rc wc =>
    s!"ro={renderQuery ro} rw={renderQuery rw} tree=same bsort=ok rocut={cutStr rc} rwcut={cutStr wc} lasthint=-"
  | .rofl fl hd rc wc =>
    s!"fl={renderQuery fl} hd={renderQuery hd} rocut={cutStr rc} rwcut={cutStr wc} lasthint=-"

/-- The input part of an op line (before " | "). -/
def opPart (line : String) : String := (line.splitOn " | ").headD ""

/-- The observed-data part of an op line (after " | "), "" if none. -/
def dataPart (line : String) : String := " ".intercalate ((line.splitOn " | ").drop 1)

def parseMode? (s : String) : Option Bool :=
  if s = "clean" then some true else if s = "copy" then some false else none

def parseX? (line : String) : Option XOp :=
  match toks (opPart line) with
  | ["roq", a, b, sb, m] => do
    if sb ≠ "in" ∧ sb ≠ "out" then none
    pure (.roq (← a.toInt?) (← b.toInt?) (← parseMode? m))
  | ["rofl", sb, m] => do
    if sb ≠ "in" ∧ sb ≠ "out" then none
    pure (.rofl (← parseMode? m))
  | _ => (parseOp? (opPart line)).map .base

def model (lines : List String) : List String :=
  let rec go (d : Db) : List String → List String
    | [] => []
    | l :: rest =>
      match parseCfg? l with
      | some c => "ok" :: go { cfg := c } rest
      | none =>
        match parseX? l with
        | some op => let (d', o) := d.xstep op; renderX o :: go d' rest
        | none => "bad-op" :: go d rest
  go { cfg := ⟨1, 0⟩ } lines

def modelConst (lines : List String) : List String := lines.map fun _ => "-"

/-! ### Judge -/

/-- `key=value` tokens of the observation of one op (data part of the op line, then the output). -/
def kvs (op out : String) : List (String × String) :=
  (toks (dataPart op) ++ toks out).filterMap fun t =>
    match t.splitOn "=" with
    | k :: v :: rest => some (k, "=".intercalate (v :: rest))
    | _ => none

def kv (m : List (String × String)) (k : String) : String := ((m.find? (·.1 = k)).map (·.2)).getD "?"

def cutOf? (s : String) : Option (Option Int) :=
  if s = "none" then some none else s.toInt?.map some

/-- `a ⊆ b` on rows and the timestamps of `b \ a`. -/
def missing (a b : Rows) : Option (List Int) :=
  let sub := a.all fun p => match b.find? (·.1 = p.1) with
    | some q => p.2.all fun x => q.2.contains x
    | none => p.2.isEmpty
  if !sub then none else
  some (b.flatMap fun q =>
    let have_ := ((a.find? (·.1 = q.1)).map (·.2)).getD []
    (q.2.filter fun x => !have_.contains x).map (·.t))

def nSamples (r : Rows) : Nat := (r.map (·.2.length)).sum

/-- Why do the read-only rows `ro` differ from the read-write rows `rw`? `hinted-block-cutoff` (F6):
    the last block by MinTime carries an out-of-order / stale-series / selected-series hint, its
    MaxTime exceeds the cutoff of the read-write open, the read-only rows are a subset of the
    read-write rows and every missing sample lies in `[rwcut, rocut)`. -/
def sameStamps (a b : Rows) : Bool :=
  a.map (fun p => (p.1, p.2.map (·.t))) == b.map (fun p => (p.1, p.2.map (·.t)))

/-- (series, timestamp) pairs on which two row sets with the same timestamps carry different values. -/
def valueDiffs (a b : Rows) : List (Nat × Int) :=
  (a.zip b).flatMap fun (p, q) => ((p.2.zip q.2).filter fun (x, y) => x.v ≠ y.v).map fun (x, _) => (p.1, x.t)

/-- `dup-ts-value`: both opens return the same series and timestamps and differ only in the VALUE at
    timestamps that the history appended more than once with different values (`dups`): with
    out-of-order ingestion enabled a second value for an existing timestamp can be stored next to the
    first one, and which of the two a merge returns is not determined. -/
def neKind (dups : List (Nat × Int)) (m : List (String × String)) (ro rw : String) : String :=
  let dupOnly : Bool := match parseRows? ro, parseRows? rw with
    | some a, some b => sameStamps a b && !(valueDiffs a b).isEmpty && (valueDiffs a b).all (fun d => dups.contains d)
    | _, _ => false
  if dupOnly then "dup-ts-value" else
  match parseRows? ro, parseRows? rw, cutOf? (kv m "rocut"), cutOf? (kv m "rwcut") with
  | some a, some b, some (some rc), some wc =>
    match missing a b with
    | some ts =>
      let lo : Int := wc.getD MinI64
      if kv m "lasthint" ≠ "-" ∧ kv m "lasthint" ≠ "?" ∧ lo < rc ∧ !ts.isEmpty ∧ ts.all (fun t => lo ≤ t ∧ t < rc)
      then "hinted-block-cutoff" else "other"
    | none => "other"
  | _, _, _, _ => "other"

def countStr (s : String) : String :=
  match parseRows? s with
  | some r => toString (nSamples r)
  | none => "?"

/-- Checks of one `roq` / `rofl` observation that need nothing but the observation itself. -/
def judgeObs (dups : List (Nat × Int)) (k : Nat) (op out : String) : Option String :=
  let m := kvs op out
  let ctx := s!"step={k} op=`{opPart op}` rocut={kv m "rocut"} rwcut={kv m "rwcut"} lasthint={kv m "lasthint"}"
  match toks (opPart op) with
  | "roq" :: _ =>
    let ro := kv m "ro"; let rw := kv m "rw"
    if ro = "?" ∨ rw = "?" then some s!"violation bad-observation {ctx}"
    else if kv m "tree" ≠ "same" then some s!"violation tree-changed what={kv m "tree"} {ctx}"
    else if kv m "bsort" ≠ "ok" then some s!"violation blocks-unsorted {ctx}"
    else if ro ≠ rw then
      some s!"violation ro-ne-rw kind={neKind dups m ro rw} ro={countStr ro} rw={countStr rw} {ctx} got={ro} want={rw}"
    else none
  | "rofl" :: _ =>
    let fl := kv m "fl"; let hd := kv m "hd"
    if fl = "?" ∨ hd = "?" then some s!"violation bad-observation {ctx}"
    else if fl ≠ hd then
      some s!"violation flush-ne-head kind={neKind dups m fl hd} fl={countStr fl} hd={countStr hd} {ctx} got={fl} want={hd}"
    else if kv m "ftree" ≠ "same" then some s!"violation flush-changes-dir what={kv m "ftree"} {ctx}"
    else none
  | _ => none

def firstSome {α β : Type} (f : Nat → α → Option β) : Nat → List α → Option β
  | _, [] => none
  | k, x :: xs => match f k x with | some r => some r | none => firstSome f (k + 1) xs

def internalErr (pairs : List (String × String)) : Option String :=
  firstSome (fun k (p : String × String) =>
    if p.2.startsWith "panic" ∨ p.2.startsWith "err:" ∨ (kvs p.1 p.2).any (fun q => q.2.startsWith "err:" ∨ q.2.startsWith "panic")
    then some s!"violation internal-error op={k} `{opPart p.1}` {p.2}" else none) 0 pairs

/-- The reference check: the read-only rows (and every plain query) are exactly the committed,
    undeleted samples in range — suite `db`'s judge (`Ref.step` / `holdsFrom` of C01, with its
    classification of finding F28) on the op stream with `roq` read as a query answered by the
    read-only open (a clean `roq`/`rofl` also ends the open transaction, like `reopen`). -/
def refStream (pairs : List (String × String)) : List (String × String) :=
  pairs.flatMap fun p =>
    match parseX? p.1 with
    | some (.base _) => [(opPart p.1, p.2)]
    | some (.roq a b clean) =>
      (if clean then [("reopen", "ok")] else []) ++ [(s!"q {a} {b}", kv (kvs p.1 p.2) "ro")]
    | some (.rofl clean) => if clean then [("reopen", "ok")] else []
    | none => []

/-- (series, timestamp) pairs appended at least twice with different values in the history. -/
def dupStamps (ops : List String) : List (Nat × Int) :=
  let apps : List (Nat × Int × Nat) := ops.filterMap fun l =>
    match parseOp? (opPart l) with
    | some (.app s t v) => some (s, t, v)
    | _ => none
  (apps.filter fun a => apps.any fun b => a.1 = b.1 ∧ a.2.1 = b.2.1 ∧ a.2.2 ≠ b.2.2).map fun a => (a.1, a.2.1)

def judgeWith (refCheck : Bool) (ops outs : List String) : String :=
  let pairs := ops.zip outs
  let dups := dupStamps ops
  match internalErr pairs with
  | some v => v
  | none =>
    match firstSome (fun k (p : String × String) => judgeObs dups k p.1 p.2) 0 pairs with
    | some v => v
    | none =>
      if !refCheck then "ok" else
      let r := refStream pairs
      Prom.Db.judge (r.map (·.1)) (r.map (·.2))

/-- The reference check (C01's statement) is NOT part of C53's judge: it demands more than C53 states
    (it fires on C01's findings, e.g. F28 and a deleted sample that reappears after Compact +
    CleanTombstones + restart, on which the read-only and the read-write open agree). `judgeWith true`
    stays available for experiments. -/
def suite : Suite := { name := "ro", model := model, judge := judgeWith false }

def suiteOOO : Suite := { name := "oooro", model := modelConst, judge := judgeWith false }

end Prom.Db.Ro
