import PromModel.Prelude.Line
import PromModel.Tsdb.Merge
/-
  Suite `merge` (property C19).

  ops (one case = declarations, then one merge, then iteration):
    nsets <k>                               number of input sets (sets without series are empty)          → ok
    s <set> <L|M|C> <0|1> <labels> <samples> sample series appended to input set <set>; flag = iterator errors
                                            when exhausted; labels `a=1,b=2` or `-`; samples `t:k:p,…` or `-`,
                                            k ∈ f|h|H (float, histogram, float histogram)                 → ok
    cs <set> <labels> <chunks>              chunk series; chunks = sample lists separated by `|`          → ok
    seterr <set>                            the set's Err() becomes non-nil when it is exhausted          → ok
    merge <limit>                           NewMergeSeriesSet(sets, limit, ChainedSeriesMerge)            → ok
    cmerge <limit> <compact|concat>         NewMergeChunkSeriesSet(sets, limit, merger)                   → ok
    direct                                  ChainSampleIteratorFromIterators over all declared series     → ok
    next                                    Next()+At() of the merged set      → series <labels> | end | err
    it                                      iterator of the current merged series                         → ok
    n                                       Next()     → <t>:<k>:<payload> | end | err | panic | dead
    k <t>                                   Seek(t)    → same
    chunks                                  expand the chunk iterator of the current chunk series
                                            → c <mint>/<maxt>/<n>/<first>/<last>/<samples>|… <ok|err|panic>
                                            per chunk: meta range, `Chunk.NumSamples()`, the first and last
                                            timestamp decoded from the chunk (`-` if none) and the decoded samples
  Histogram payloads: `4*body + hint`, see `Prom.Merge.Sample.body`. Input chunks (`cs`) are read as the
  chunk iterator hands them out (`decodeView`: hints normalised); output chunks are printed the same way.
  After `end`/`err`/`panic` an iterator is dead: further n/k answer `dead` (the harness does not call the
  code: what an exhausted chunk iterator answers to a later Seek is not part of the iterator contract).
-/
namespace Prom.Merge

def Kind.code : Kind → String | .float => "f" | .hist => "h" | .fhist => "H"
def Kind.ofCode? : String → Option Kind | "f" => some .float | "h" => some .hist | "H" => some .fhist | _ => none

def showSample (s : Sample) : String := s!"{s.t}:{s.kind.code}:{s.payload}"

def parseSample? (s : String) : Option Sample :=
  match s.splitOn ":" with
  | [a, b, c] => do pure ⟨← a.toInt?, ← Kind.ofCode? b, ← c.toNat?⟩
  | _ => none

def showSamples (xs : List Sample) : String :=
  if xs.isEmpty then "-" else ",".intercalate (xs.map showSample)

def parseSamples? (s : String) : Option (List Sample) :=
  if s = "-" then some [] else (s.splitOn ",").mapM parseSample?

def showLabels (l : Labels) : String :=
  if l.isEmpty then "-" else ",".intercalate (l.map fun (n, v) => n ++ "=" ++ v)

def parseLabels? (s : String) : Option Labels :=
  if s = "-" then some [] else
  (s.splitOn ",").mapM fun p =>
    match p.splitOn "=" with
    | [a, b] => some (a, b)
    | _ => none

def showChunk (c : Chunk) : String := s!"{c.mint}/{c.maxt}/{showSamples c.samples}"

def showOptT : Option Sample → String | some s => toString s.t | none => "-"

/-- an output chunk as observed: meta, sample count, first/last decoded timestamp, decoded samples -/
def showOutChunk (c : Chunk) : String :=
  let xs := decodeView c.samples
  s!"{c.mint}/{c.maxt}/{xs.length}/{showOptT xs.head?}/{showOptT xs.getLast?}/{showSamples xs}"

def showOutChunks (cs : List Chunk) : String :=
  if cs.isEmpty then "-" else "|".intercalate (cs.map showOutChunk)

def showChunks (cs : List Chunk) : String :=
  if cs.isEmpty then "-" else "|".intercalate (cs.map showChunk)

def parseChunk? (s : String) : Option Chunk :=
  match s.splitOn "/" with
  | [a, b, c] => do pure ⟨← a.toInt?, ← b.toInt?, ← parseSamples? c⟩
  | _ => none

def parseChunks? (s : String) : Option (List Chunk) :=
  if s = "-" then some [] else (s.splitOn "|").mapM parseChunk?

/-- observed output chunk: the chunk (meta + decoded samples), `NumSamples()`, first/last decoded timestamp -/
structure OChunk where
  c : Chunk
  num : Nat
  first : Option Int
  last : Option Int
deriving Repr, Inhabited

def parseOptT? (s : String) : Option (Option Int) := if s = "-" then some none else s.toInt?.map some

def parseOutChunk? (s : String) : Option OChunk :=
  match s.splitOn "/" with
  | [a, b, n, f, l, c] => do pure ⟨⟨← a.toInt?, ← b.toInt?, ← parseSamples? c⟩, ← n.toNat?, ← parseOptT? f, ← parseOptT? l⟩
  | _ => none

def parseOutChunks? (s : String) : Option (List OChunk) :=
  if s = "-" then some [] else (s.splitOn "|").mapM parseOutChunk?

/-- input chunks are given as sample lists; the meta range is first/last sample; the samples are what
    the chunk's iterator hands out -/
def parseInChunks? (s : String) : Option (List Chunk) :=
  if s = "-" then some [] else (s.splitOn "|").mapM fun p => (parseSamples? p).map fun xs => Chunk.ofSamples (decodeView xs)

structure SSeries where
  labels : Labels
  samples : List Sample
  errEnd : Bool
deriving Repr, Inhabited

structure CSeries where
  labels : Labels
  chunks : List Chunk
deriving Repr, Inhabited

inductive IterSt
  | none
  | single (it : It)
  | chain (c : Chain)
  | dead
deriving Repr, Inhabited

structure St where
  nsets : Nat := 0
  sser : List (Nat × SSeries) := []
  cser : List (Nat × CSeries) := []
  seterr : List Nat := []
  mset : Option (MSet SSeries) := none
  cmset : Option (MSet CSeries) := none
  compact : Bool := true
  curS : List SSeries := []
  curC : List CSeries := []
  iter : IterSt := .none
deriving Inhabited

def St.sets (st : St) : List (SetIt SSeries) :=
  (List.range st.nsets).map fun i =>
    SetIt.ofList i ((st.sser.filter (·.1 = i)).map (·.2)) (st.seterr.contains i)

def St.csets (st : St) : List (SetIt CSeries) :=
  (List.range st.nsets).map fun i =>
    SetIt.ofList i ((st.cser.filter (·.1 = i)).map (·.2)) (st.seterr.contains i)

def renderRes (r : Res) (f : Sample → Sample) : String :=
  match r with
  | .val s => showSample (f s)
  | .fin => "end"
  | .err => "err"
  | .panic => "panic"

def resDead : Res → Bool | .val _ => false | _ => true

def stepIter (st : St) (op : Option Int) : St × String :=
  match st.iter with
  | .none => (st, "bad-op")
  | .dead => (st, "dead")
  | .single it =>
    let (it', r) := match op with | some t => it.seek t | none => it.next
    let res := resOfOpt it' r
    ({ st with iter := if resDead res then .dead else .single it' }, renderRes res id)
  | .chain c =>
    let (c', res) := match op with | some t => c.seek t | none => c.next
    ({ st with iter := if resDead res then .dead else .chain c' }, renderRes res c'.atSample)

def stepModel (st : St) (line : String) : St × String :=
  match toks line with
  | ["nsets", k] => match k.toNat? with
    | some k => ({ st with nsets := k }, "ok")
    | none => (st, "bad-op")
  | ["s", i, _, e, l, xs] =>
    match i.toNat?, parseLabels? l, parseSamples? xs with
    | some i, some l, some xs => ({ st with sser := st.sser ++ [(i, ⟨l, xs, e = "1"⟩)] }, "ok")
    | _, _, _ => (st, "bad-op")
  | ["cs", i, l, cs] =>
    match i.toNat?, parseLabels? l, parseInChunks? cs with
    | some i, some l, some cs => ({ st with cser := st.cser ++ [(i, ⟨l, cs⟩)] }, "ok")
    | _, _, _ => (st, "bad-op")
  | ["seterr", i] => match i.toNat? with
    | some i => ({ st with seterr := i :: st.seterr }, "ok")
    | none => (st, "bad-op")
  | ["merge", lim] => match lim.toNat? with
    | some lim => ({ st with mset := some (MSet.new (·.labels) st.sets lim), cmset := none, iter := .none }, "ok")
    | none => (st, "bad-op")
  | ["cmerge", lim, m] => match lim.toNat? with
    | some lim => ({ st with cmset := some (MSet.new (·.labels) st.csets lim), mset := none, compact := m = "compact", iter := .none }, "ok")
    | none => (st, "bad-op")
  | ["direct"] =>
    let c := Chain.mk' (st.sser.zipIdx.map fun (p, i) => It.ofList i p.2.samples p.2.errEnd)
    ({ st with iter := .chain c }, "ok")
  | ["next"] =>
    match st.mset, st.cmset with
    | some m, _ =>
      let (m', ok) := m.next (·.labels)
      if ok then
        let cur := m'.at
        ({ st with mset := some m', curS := cur, iter := .none }, "series " ++ showLabels ((cur.head?.map (·.labels)).getD []))
      else ({ st with mset := some m', curS := [], iter := .none }, if m'.err then "err" else "end")
    | none, some m =>
      let (m', ok) := m.next (·.labels)
      if ok then
        let cur := m'.at
        ({ st with cmset := some m', curC := cur }, "series " ++ showLabels ((cur.head?.map (·.labels)).getD []))
      else ({ st with cmset := some m', curC := [] }, if m'.err then "err" else "end")
    | none, none => (st, "bad-op")
  | ["it"] =>
    match st.curS with
    | [] => (st, "bad-op")
    | [s] => ({ st with iter := .single (It.ofList 0 s.samples s.errEnd) }, "ok")
    | ss => ({ st with iter := .chain (Chain.mk' (ss.zipIdx.map fun (s, i) => It.ofList i s.samples s.errEnd)) }, "ok")
  | ["n"] => stepIter st none
  | ["k", t] => match t.toInt? with
    | some t => stepIter st (some t)
    | none => (st, "bad-op")
  | ["chunks"] =>
    match st.curC with
    | [] => (st, "bad-op")
    | [s] => (st, "c " ++ showOutChunks s.chunks ++ " ok")
    | ss =>
      if st.compact then
        let (cs, r) := compactAll (ss.map (·.chunks))
        (st, "c " ++ showOutChunks cs ++ (match r with | .fin => " ok" | .err => " err" | _ => " panic"))
      else (st, "c " ++ showOutChunks (concatAll (ss.map (·.chunks))) ++ " ok")
  | _ => (st, "bad-op")

def model (ops : List String) : List String :=
  let rec go (st : St) : List String → List String
    | [] => []
    | l :: rest => let (st', o) := stepModel st l; o :: go st' rest
  go {} ops

/-! ## Judge: the property statement evaluated on the implementation's outputs -/

def insertSorted (x : Int) : List Int → List Int
  | [] => [x]
  | y :: ys => if x < y then x :: y :: ys else if x = y then y :: ys else y :: insertSorted x ys

/-- sorted, de-duplicated union of timestamps -/
def tsUnion (xs : List Sample) : List Int := xs.foldl (fun acc s => insertSorted s.t acc) []

def insertLabels (x : Labels) : List Labels → List Labels
  | [] => [x]
  | y :: ys =>
    match Labels.compare x y with
    | .lt => x :: y :: ys
    | .eq => y :: ys
    | .gt => y :: insertLabels x ys

def labelsUnion (xs : List Labels) : List Labels := xs.foldl (fun acc l => insertLabels l acc) []

def strictlyIncreasing : List Int → Bool
  | a :: b :: r => a < b && strictlyIncreasing (b :: r)
  | _ => true

/-- an emitted sample is admissible iff some input has a sample with that timestamp and type whose
    value it carries (a histogram's counter-reset hint may have been reset to unknown) -/
def admissible (inputs : List Sample) (o : Sample) : Bool :=
  inputs.any fun s => s.t = o.t ∧ s.kind = o.kind ∧
    (s.payload = o.payload ∨ (s.kind ≠ .float ∧ o.payload = s.payload / 4 * 4))

/-- a sample decoded from an output CHUNK is admissible iff some input chunk holds a sample with that
    timestamp, type and value; a counter histogram's hint is whatever the position in the new chunk
    dictates (unknown / not-reset, never an explicit reset), a gauge histogram stays gauge -/
def admissibleDecoded (inputs : List Sample) (o : Sample) : Bool :=
  inputs.any fun s => s.t = o.t ∧ s.kind = o.kind ∧
    (s.payload = o.payload ∨
      (s.kind ≠ .float ∧ s.payload / 4 = o.payload / 4 ∧ s.payload % 4 ≠ 3 ∧ (o.payload % 4 = 0 ∨ o.payload % 4 = 2)))

/-- the chunk-level clause, independent of the model: `NumSamples()` = number of decoded samples ≥ 1,
    the first/last decoded timestamps are those of the decoded sample list, and the meta range
    `[MinTime, MaxTime]` is exactly [first, last] -/
def metaMatches (o : OChunk) : Option String :=
  let ts := o.c.samples.map (·.t)
  if o.num = 0 ∨ o.num ≠ ts.length then some s!"chunk-count mint={o.c.mint} maxt={o.c.maxt} n={o.num} decoded={ts.length}"
  else if o.first ≠ ts.head? ∨ o.last ≠ ts.getLast? then some s!"chunk-first-last mint={o.c.mint} maxt={o.c.maxt}"
  else if some o.c.mint ≠ o.first ∨ some o.c.maxt ≠ o.last then
    some s!"chunk-meta-vs-samples mint={o.c.mint} maxt={o.c.maxt} first={showOptT o.c.samples.head?} last={showOptT o.c.samples.getLast?}"
  else none

/-- metas of one output series: ordered and pairwise disjoint -/
def metasOrdered : List OChunk → Option String
  | a :: b :: r =>
    if a.c.maxt < b.c.mint then metasOrdered (b :: r)
    else some s!"chunk-metas-overlap-or-unordered prev={a.c.mint}/{a.c.maxt} next={b.c.mint}/{b.c.maxt}"
  | _ => none

/-- Walk a Next/Seek script over one merged series; `U` = expected timestamp sequence.
    `pos` = timestamp of the current sample. Returns the first failure. -/
def checkScript (U : List Int) (inputs : List Sample) (full : Bool) :
    List (Option Int × String) → Option Int → Nat → Option String
  | [], _, _ => none
  | (op, out) :: rest, pos, k =>
    if out = "dead" ∨ out = "err" then
      (if full ∧ out = "err" then some s!"spurious-error step={k}" else none)
    else if out = "panic" then (if inputs.isEmpty then none else some s!"panic step={k}")
    else
      let expected : Option Int :=
        match op with
        | none => U.find? fun u => match pos with | some p => u > p | none => true
        | some t0 =>
          match pos with
          | some p => if p ≥ t0 then some p else U.find? fun u => u ≥ t0
          | none => U.find? fun u => u ≥ t0
      if out = "end" then
        (if full then
          match expected with
          | some e => some s!"missing-timestamp step={k} t={e}"
          | none => none
         else none)
      else
        match parseSample? out with
        | none => some s!"unparsable step={k}"
        | some o =>
          if !admissible inputs o then some s!"invented-sample step={k} sample={out}"
          else
            let mono := match op, pos with
              | none, some p => decide (o.t > p)
              | some t0, some p => decide (o.t ≥ p ∧ (o.t ≥ t0 ∨ p ≥ t0))
              | some t0, none => decide (o.t ≥ t0)
              | none, none => true
            if !mono then some s!"not-increasing step={k} sample={out}"
            else if full ∧ expected ≠ some o.t then
              match expected with
              | some e => some (if e < o.t then s!"missing-timestamp step={k} t={e} got={o.t}" else s!"wrong-position step={k} expected={e} got={o.t}")
              | none => some s!"wrong-position step={k} expected=end got={o.t}"
            else checkScript U inputs full rest (some o.t) (k + 1)

def sortedChunks : List Chunk → Bool
  | a :: b :: r => a.maxt < b.mint && sortedChunks (b :: r)
  | _ => true

def chunkWellFormed (c : Chunk) : Bool :=
  match c.samples with
  | [] => false
  | s :: _ => c.mint = s.t ∧ c.maxt = (c.samples.getLast?.getD s).t ∧ strictlyIncreasing (c.samples.map (·.t))

def overlaps (a b : Chunk) : Bool := a.mint ≤ b.maxt ∧ b.mint ≤ a.maxt

def judgeCompact (ins : List Chunk) (out : List Chunk) : Option String :=
  let inS := ins.flatMap (·.samples)
  let outS := out.flatMap (·.samples)
  if !out.all chunkWellFormed then some "chunk-malformed"
  else if !sortedChunks out then some "chunks-overlap-or-unordered"
  else match outS.find? (fun o => !admissibleDecoded inS o) with
  | some o => some s!"invented-sample sample={showSample o}"
  | none =>
    if outS.map (·.t) ≠ tsUnion inS then some s!"chunk-samples-differ expected={showIntList (tsUnion inS)} got={showIntList (outS.map (·.t))}"
    else
      match ins.find? (fun x => chunkWellFormed x ∧ (ins.all fun y => !overlaps x y ∨ y = x) ∧ !out.contains x) with
      | some x => some s!"identical-not-collapsed chunk={showChunk x}"
      | none => none

structure JSt where
  sser : List SSeries := []
  cser : List CSeries := []
  seterr : Bool := false
  mode : String := ""
  limit : Nat := 0
  outLabels : List Labels := []
  curLabels : Labels := []
  script : List (Option Int × String) := []
  scriptActive : Bool := false
deriving Inhabited

def JSt.flushScript (j : JSt) : Option String :=
  if !j.scriptActive then none else
  let ins := if j.mode = "direct" then j.sser else j.sser.filter (·.labels = j.curLabels)
  let inS := ins.flatMap (·.samples)
  let full := !(ins.any (·.errEnd))
  let U := tsUnion inS
  let script := j.script.reverse
  match checkScript U inS full script none 0 with
  | none => none
  | some v =>
    if U.contains MinI64 ∧ (checkScript (U.filter (· ≠ MinI64)) inS full script none 0).isNone then
      some s!"minint64-dropped t={MinI64} labels={showLabels j.curLabels}"
    else some (v ++ s!" labels={showLabels j.curLabels}")

def judge (ops outs : List String) : String :=
  let rec go (j : JSt) (ops outs : List String) (k : Nat) : String :=
    match ops, outs with
    | op :: ops, out :: outs =>
      match toks op with
      | ["s", _, _, e, l, xs] =>
        match parseLabels? l, parseSamples? xs with
        | some l, some xs =>
          if !strictlyIncreasing (xs.map (·.t)) then "ok" -- outside the statement
          else go { j with sser := j.sser ++ [⟨l, xs, e = "1"⟩] } ops outs (k + 1)
        | _, _ => "ok"
      | ["cs", _, l, cs] =>
        match parseLabels? l, parseInChunks? cs with
        | some l, some cs => go { j with cser := j.cser ++ [⟨l, cs⟩] } ops outs (k + 1)
        | _, _ => "ok"
      | ["seterr", _] => go { j with seterr := true } ops outs (k + 1)
      | ["merge", lim] => go { j with mode := "merge", limit := lim.toNat?.getD 0 } ops outs (k + 1)
      | ["cmerge", lim, m] => go { j with mode := m, limit := lim.toNat?.getD 0 } ops outs (k + 1)
      | ["direct"] => go { j with mode := "direct", scriptActive := true, script := [] } ops outs (k + 1)
      | ["next"] =>
        match j.flushScript with
        | some v => "violation " ++ v
        | none =>
          let j := { j with scriptActive := false, script := [] }
          let inL := if j.mode = "merge" then j.sser.map (·.labels) else j.cser.map (·.labels)
          let U := labelsUnion inL
          match toks out with
          | ["series", l] =>
            match parseLabels? l with
            | none => s!"violation unparsable op={k}"
            | some l =>
              let outL := j.outLabels ++ [l]
              if outL ≠ U.take outL.length then
                (if !U.contains l then s!"violation invented-series op={k} labels={showLabels l}"
                 else if j.outLabels.contains l then s!"violation duplicate-series op={k} labels={showLabels l}"
                 else s!"violation series-order-or-missing op={k} labels={showLabels l} expected={showLabels ((U.drop j.outLabels.length).headD [])}")
              else go { j with outLabels := outL, curLabels := l } ops outs (k + 1)
          | ["end"] =>
            if j.seterr then "ok"
            else if j.outLabels.length = U.length ∨ (j.limit > 0 ∧ j.outLabels.length ≥ j.limit) then "ok"
            else s!"violation series-missing op={k} labels={showLabels ((U.drop j.outLabels.length).headD [])}"
          | ["err"] => if j.seterr then "ok" else s!"violation spurious-set-error op={k}"
          | _ => s!"violation unparsable op={k}"
      | ["it"] => go { j with scriptActive := true, script := [] } ops outs (k + 1)
      | ["n"] => go { j with script := (none, out) :: j.script } ops outs (k + 1)
      | ["k", t] => go { j with script := (some (t.toInt?.getD 0), out) :: j.script } ops outs (k + 1)
      | ["chunks"] =>
        let ins := j.cser.filter (·.labels = j.curLabels)
        match toks out with
        | ["c", cs, status] =>
          match parseOutChunks? cs with
          | none => s!"violation unparsable op={k}"
          | some outO =>
            let outC := outO.map (·.c)
            if status ≠ "ok" then s!"violation chunk-iter-{status} op={k} labels={showLabels j.curLabels}"
            else
              let inC := ins.flatMap (·.chunks)
              let v : Option String :=
                match ins with
                | [one] => if outC = one.chunks then outO.findSome? metaMatches else some "passthrough-changed"
                | _ =>
                  if j.mode = "compact" then
                    -- chunk metas vs chunk contents, and their order: stated on the output alone
                    match outO.findSome? metaMatches with
                    | some e => some e
                    | none =>
                      match metasOrdered outO with
                      | some e => some e
                      | none => judgeCompact inC outC
                  else
                    let key (cs : List Chunk) := (cs.map showChunk).mergeSort (fun a b => a ≤ b)
                    if key inC = key outC then none else some "concat-differs"
              match v with
              | some v => s!"violation {v} op={k} labels={showLabels j.curLabels}"
              | none => go j ops outs (k + 1)
        | _ => s!"violation unparsable op={k}"
      | _ => go j ops outs (k + 1)
    | _, _ =>
      match j.flushScript with
      | some v => "violation " ++ v
      | none => "ok"
  go {} ops outs 0

def suite : Suite := { name := "merge", model := model, judge := judge }

end Prom.Merge
