import PromModel.Prelude.Line
import PromModel.Promql.Quantile
/-
  Suite `histfn` (property C32).

  All floats travel as 16-hex-digit IEEE bit patterns; every NaN is printed as `7ff8000000000001`.

  ops (state = current classic bucket set, current native histogram):
    `b <ub:cnt,ub:cnt,…>|-`                         set the classic buckets                  → `ok`
    `bq <q>`                                        promql.BucketQuantile(q, copy of buckets)
                                                    → `<quantile> <forced> <fixed> <minB> <maxB> <maxDiff>` | `panic`
    `h <c|e> <count> <sum> <nNeg> <nPos> <fwd> <rev> <spec>`  set the native histogram: schema class, Count, Sum,
                                                    len(Negative/PositiveBuckets), and the sequences of
                                                    AllBucketIterator / AllReverseBucketIterator as
                                                    `lower:upper:count,…` (or `-`)                → `ok`
    `hq <q>`                                        promql.HistogramQuantile(q, h)            → `<value>`
    `hf <lower> <upper>`                            promql.HistogramFraction(lower, upper, h) → `<value>`
    `hc`                                            histogram_count/sum/avg via promql.FunctionCalls → `<count> <sum> <avg>`
    `obs <value>`                                   OBSERVATION line written by the harness right after an
                                                    `hq`/`hf` on an exponential-schema histogram: repeats the
                                                    value Go returned. The model uses it ONLY when its own
                                                    result goes through the unmodelled exp2/log2 interpolant
                                                    (then it echoes it; the judge checks it); every other
                                                    result is computed bit-exactly by the model.           → `-`
    `fop <add|sub|mul|div|lt|eq|min> <a> <b>`       self-check of PromModel/Num/F64Q against the hardware → `<value>`
-/
namespace Prom.HistFn
open Prom.F64Q Prom.Quantile

def hex16 (x : F64) : String := hexOfNat (if x.isNaN then nanBits else x.bits) 16

def pF (s : String) : Option F64 :=
  if s.length = 16 then (natOfHex? s).map F64.mk else none

def pBuckets (s : String) : Option (List (Bucket F64)) :=
  if s = "-" then some [] else
  (s.splitOn ",").mapM fun p =>
    match p.splitOn ":" with
    | [a, b] => do pure ⟨← pF a, ← pF b⟩
    | _ => none

def pNBuckets (s : String) : Option (List (NBucket F64)) :=
  if s = "-" then some [] else
  (s.splitOn ",").mapM fun p =>
    match p.splitOn ":" with
    | [a, b, c] => do pure ⟨← pF a, ← pF b, ← pF c⟩
    | _ => none

def pHist (t : List String) : Option (NHist F64) :=
  match t with
  | [k, cnt, sum, nn, np, fwd, rev, _spec] => do
    pure { custom := k = "c", count := ← pF cnt, sum := ← pF sum, nNeg := ← nn.toNat?, nPos := ← np.toNat?,
           fwd := ← pNBuckets fwd, rev := ← pNBuckets rev }
  | _ => none

def b01 (b : Bool) : String := if b then "1" else "0"

structure St where
  bs : List (Bucket F64) := []
  h : NHist F64 := { custom := false, count := F64.zero, sum := F64.zero, nNeg := 0, nPos := 0, fwd := [], rev := [] }

/-- the observation following an op line, if any -/
def nextObs (rest : List String) : Option F64 :=
  match rest with
  | l :: _ => match toks l with | ["obs", v] => pF v | _ => none
  | [] => none

def fb0 : F64 → F64 → F64 → F64 := fun _ _ _ => F64.zero
/-- probe: a NaN poisons the result iff the exponential in-bucket fraction is actually used -/
def fbN : F64 → F64 → F64 → F64 := fun _ _ _ => F64.nan

def stepModel (st : St) (line : String) (rest : List String) : St × String :=
  match toks line with
  | ["b", s] => match pBuckets s with | some bs => ({ st with bs := bs }, "ok") | none => (st, "bad-op")
  | ["bq", q] =>
    match pF q with
    | none => (st, "bad-op")
    | some q =>
      match bucketQuantile q st.bs with
      | .error _ => (st, "panic")
      | .ok r => (st, s!"{hex16 r.quantile} {b01 r.info.forced} {b01 r.info.fixed} {hex16 r.info.minB} {hex16 r.info.maxB} {hex16 r.info.maxDiff}")
  | "h" :: t => match pHist t with | some h => ({ st with h := h }, "ok") | none => (st, "bad-op")
  | ["hq", q] =>
    match pF q with
    | none => (st, "bad-op")
    | some q =>
      match histogramQuantile q st.h with
      | .val v => (st, hex16 v)
      | .expo _ _ _ => (st, match nextObs rest with | some v => hex16 v | none => "expo-without-obs")
  | ["hf", lo, up] =>
    match pF lo, pF up with
    | some lo, some up =>
      let r0 := histogramFraction fb0 lo up st.h
      let rN := histogramFraction fbN lo up st.h
      if !(rN.isNaN && !r0.isNaN) then (st, hex16 r0)
      else (st, match nextObs rest with | some v => hex16 v | none => "expo-without-obs")
    | _, _ => (st, "bad-op")
  | ["hc"] => (st, s!"{hex16 (histCount st.h)} {hex16 (histSum st.h)} {hex16 (histAvg st.h)}")
  | ["obs", _] => (st, "-")
  | ["fop", o, a, b] =>
    match pF a, pF b with
    | some a, some b =>
      (st, match o with
        | "add" => hex16 (F64.add a b) | "sub" => hex16 (F64.sub a b) | "mul" => hex16 (F64.mul a b)
        | "div" => hex16 (F64.div a b) | "min" => hex16 (F64.min a b)
        | "lt" => b01 (F64.lt a b) | "eq" => b01 (F64.beq a b) | _ => "bad-op")
    | _, _ => (st, "bad-op")
  | _ => (st, "bad-op")

def model (ops : List String) : List String :=
  let rec go (st : St) : List String → List String
    | [] => []
    | l :: rest => let (st', o) := stepModel st l rest; o :: go st' rest
  go {} ops

/-! ## The judge: the statements of C32, evaluated in exact arithmetic on Go's outputs -/

def toXR (x : F64) : XR :=
  if x.isNaN then .nan else if x.isInf then (if x.neg? then .ninf else .pinf) else .fin x.toRat

def xle (a b : XR) : Bool := XR.le a b
def xlt (a b : XR) : Bool := XR.lt a b
def isFin : XR → Bool | .fin _ => true | _ => false
def ratOf : XR → Rat | .fin r => r | _ => 0

def showX : XR → String
  | .nan => "NaN" | .pinf => "+Inf" | .ninf => "-Inf"
  | .fin r => if r.den = 1 then toString r.num else s!"{r.num}/{r.den}"

/-- 2^-40 -/
def eps40 : Rat := 1 / (2 ^ 40 : Nat)

def rabs (x : Rat) : Rat := if x < 0 then -x else x

/-- `a ≤ b` up to floating-point rounding: relative slack 2^-40 on finite values, exact on ±Inf. -/
def leSlack (a b : XR) : Bool :=
  match a, b with
  | .fin x, .fin y => decide (x ≤ y + eps40 * (if rabs x < rabs y then rabs y else rabs x))
  | _, _ => XR.le a b

/-- pairs sorted by the first component (insertion sort, exact order) -/
def sortPairs (xs : List (Rat × XR)) : List (Rat × XR) :=
  xs.foldr (fun p acc =>
    let rec ins : List (Rat × XR) → List (Rat × XR)
      | [] => [p]
      | x :: r => if p.1 ≤ x.1 then p :: x :: r else x :: ins r
    ins acc) []

/-- monotonicity over a ladder sorted by q: returns a violation text or none.
    `nanUp` = a NaN result may appear, but then all results at larger q must be NaN too. -/
def checkMono (tag : String) (nanUp : Bool) : List (Rat × XR) → Option String
  | (q1, r1) :: (q2, r2) :: rest =>
    if r1 == .nan && r2 == .nan then checkMono tag nanUp ((q2, r2) :: rest)
    else if r1 == .nan then some s!"{tag}-nan-hole q1={showX (.fin q1)} r1=NaN q2={showX (.fin q2)} r2={showX r2}"
    else if r2 == .nan then
      (if nanUp then checkMono tag nanUp ((q2, r2) :: rest)
       else some s!"{tag}-nan-hole q1={showX (.fin q1)} r1={showX r1} q2={showX (.fin q2)} r2=NaN")
    else if leSlack r1 r2 then checkMono tag nanUp ((q2, r2) :: rest)
    else some s!"{tag}-not-monotone q1={showX (.fin q1)} r1={showX r1} q2={showX (.fin q2)} r2={showX r2}"
  | _ => none

/-- classic buckets in exact arithmetic: sorted by bound, equal bounds merged, running maximum of the counts.
    `none` if outside the statement's domain (a count that is not finite ≥ 0, a NaN/−Inf bound). -/
def envelope (bs : List (Bucket F64)) : Option (List (XR × Rat)) :=
  if bs.all (fun b => isFin (toXR b.count) && decide (ratOf (toXR b.count) ≥ 0) && (isFin (toXR b.ub) || toXR b.ub == .pinf)) then
    let xs := bs.map fun b => (toXR b.ub, ratOf (toXR b.count))
    let sorted := xs.foldr (fun p acc =>
      let rec ins : List (XR × Rat) → List (XR × Rat)
        | [] => [p]
        | x :: r => if x.1 == p.1 then (x.1, x.2 + p.2) :: r else if xlt p.1 x.1 then p :: x :: r else x :: ins r
      ins acc) []
    let rec env (m : Rat) : List (XR × Rat) → List (XR × Rat)
      | [] => []
      | (u, c) :: r => let m' := if c > m then c else m; (u, m') :: env m' r
    some (env 0 sorted)
  else none

/-- index of the first element of `cs` (cumulative, non-decreasing) with `c ≥ x`, or `cs.length`. -/
def firstGE (cs : List Rat) (x : Rat) : Nat := (cs.takeWhile (fun c => decide (c < x))).length

def judgeBQ (bs : List (Bucket F64)) (obsd : List (F64 × XR)) : Option String :=
  -- special values of q
  match obsd.find? (fun (q, r) => (q.isNaN && r != .nan) || (F64.lt q F64.zero && r != .ninf) || (F64.lt F64.one q && r != .pinf)) with
  | some (q, r) => some s!"bq-special-q q={showX (toXR q)} r={showX r}"
  | none =>
  match envelope bs with
  | none => none
  | some env =>
    let ladder := sortPairs ((obsd.filter fun (q, _) => isFin (toXR q) && decide (0 ≤ q.toRat ∧ q.toRat ≤ 1)).map fun (q, r) => (q.toRat, r))
    let n := env.length
    let obsN := (env.getLast?.map (·.2)).getD 0
    let valid := n ≥ 2 && (env.getLast?.map (·.1)) == some .pinf && decide (obsN > 0)
    if !valid then
      match ladder.find? (fun (_, r) => r != .nan) with
      | some (q, r) => some s!"bq-degenerate-not-nan q={showX (.fin q)} r={showX r}"
      | none => none
    else
      let ub (i : Nat) : XR := (env[i]?.map (·.1)).getD .nan
      let cs := (env.map (·.2)).take (n - 1)
      let ub0 := ub 0
      let startOf (b : Nat) : XR :=
        if b ≥ n - 1 then ub (n - 2) else if b = 0 then (if xle ub0 (.fin 0) then ub0 else .fin 0) else ub (b - 1)
      let endOf (b : Nat) : XR := if b ≥ n - 1 then ub (n - 2) else ub b
      let tiny : Rat := 1 / (2 ^ 1074 : Nat)
      -- the documented NaN cases do not apply: a NaN is a hole
      let c0 := (cs.head?).getD 0
      match ladder.find? (fun (_, r) => r == .nan) with
      | some (q, _) =>
        if q * obsN < tiny ∧ c0 = 0 ∧ xlt (.fin 0) ub0 then
          some s!"bq-nan-rank0-empty-first-bucket q={showX (.fin q)} ub0={showX ub0} (0/0 in the interpolation)"
        else some s!"bq-nan-hole q={showX (.fin q)}"
      | none =>
      match checkMono "bq" false ladder with
      | some v => some v
      | none =>
        -- containment in the bucket(s) holding the rank, up to the 1e-12 count tolerance of the fix-up
        let slack : Rat := 1 / 100000000000   -- 1e-11
        ladder.findSome? fun (q, r) =>
          let rank := q * obsN
          -- a rank below the smallest subnormal is 0 for the code (q*observations underflows)
          let bLo := firstGE (cs.map fun c => c * (1 + slack)) (if rank < tiny then 0 else rank * (1 - slack))
          let bHi := firstGE (cs.map fun c => c * (1 - slack)) (rank * (1 + slack))
          let lo := startOf bLo
          let hi := endOf bHi
          if leSlack lo r && leSlack r hi then none
          else some s!"bq-outside-rank-bucket q={showX (.fin q)} r={showX r} lo={showX lo} hi={showX hi}"

/-- documented bound adjustments of a native bucket for quantile purposes: admissible result range. -/
def adjRange (h : NHist F64) (b : NBucket F64) : XR × XR :=
  let lo := toXR b.lower
  let up := toXR b.upper
  if h.custom then
    if lo == .ninf then (if xle up (.fin 0) then (up, up) else (.fin 0, up))
    else if up == .pinf then (lo, lo)
    else (lo, up)
  else if xlt lo (.fin 0) && xlt (.fin 0) up then
    if h.nNeg = 0 && h.nPos > 0 then (.fin 0, up)
    else if h.nPos = 0 && h.nNeg > 0 then (lo, .fin 0)
    else (lo, up)
  else (lo, up)

/-- the statement's domain for native histograms: finite counts ≥ 0, finite Count > 0 -/
def nhDomain (h : NHist F64) : Bool :=
  isFin (toXR h.count) && decide (h.count.toRat > 0) &&
  h.fwd.all (fun b => isFin (toXR b.count) && decide (b.count.toRat ≥ 0) && !b.lower.isNaN && !b.upper.isNaN &&
    F64.le b.lower b.upper) &&
  -- the buckets are disjoint and ascending (a zero threshold that swallows whole buckets breaks this)
  (let rec asc : List (NBucket F64) → Bool
    | a :: b :: r => F64.le a.upper b.lower && asc (b :: r)
    | _ => true
   asc h.fwd)

/-- a custom-bucket histogram without any finite boundary: its only bucket is (-Inf, +Inf] -/
def onlyInfBucket (h : NHist F64) : Bool :=
  h.custom && h.fwd.any (fun b => F64.beq b.lower F64.ninf && F64.beq b.upper F64.pinf)

def bucketSum (h : NHist F64) : Rat := (h.fwd.map fun b => b.count.toRat).foldl (· + ·) 0

def judgeHQ (h : NHist F64) (obsd : List (F64 × XR)) : Option String :=
  match obsd.find? (fun (q, r) => (F64.lt q F64.zero && r != .ninf) || (F64.lt F64.one q && r != .pinf) ||
      (q.isNaN && r != .nan) || (F64.beq h.count F64.zero && !F64.lt q F64.zero && !F64.lt F64.one q && r != .nan)) with
  | some (q, r) => some s!"hq-special q={showX (toXR q)} r={showX r}"
  | none =>
  if !nhDomain h then none else
  let N := h.count.toRat
  let total := bucketSum h
  let sumNaN := h.sum.isNaN
  -- consistent histograms only: Count = Σ buckets, or Count ≥ Σ buckets when Sum is NaN (NaN observations)
  if !(total = N || (sumNaN && total ≤ N)) then none else
  let ladder := sortPairs ((obsd.filter fun (q, _) => isFin (toXR q) && decide (0 ≤ q.toRat ∧ q.toRat ≤ 1)).map fun (q, r) => (q.toRat, r))
  -- with Sum = NaN the code takes a separate path (forward walk + NaN-observation detection): own signature.
  -- A histogram whose only bucket is (-Inf,+Inf] keeps the only-inf-bucket signature also when Sum is NaN:
  -- no bucket can remain after the rank bucket there, so what is flagged is F-C32-3, not F-C32-1.
  let tag := if onlyInfBucket h then "hq-only-inf-bucket" else if sumNaN then "hq-nansum" else "hq"
  match checkMono tag sumNaN ladder with
  | some v => some v
  | none =>
    let ne := h.fwd.filter fun b => decide (b.count.toRat > 0)
    let rec cum (acc : Rat) : List (NBucket F64) → List Rat
      | [] => []
      | b :: r => (acc + b.count.toRat) :: cum (acc + b.count.toRat) r
    let cs := cum 0 ne            -- cumulative count up to and including bucket k
    let pre := 0 :: cs            -- cumulative count before bucket k
    let delta := N * eps40
    ladder.findSome? fun (q, r) =>
      let rank := q * N
      if r == .nan then
        (if sumNaN && rank + delta > total then none else some s!"{tag}-nan q={showX (.fin q)}")
      else
        -- lowest bucket whose cumulative count reaches the rank, highest bucket that starts at or below it
        let kLo := firstGE cs (rank - delta)
        let kHi := (pre.take ne.length).foldl (fun (acc : Nat × Nat) p => (if p ≤ rank + delta then acc.2 else acc.1, acc.2 + 1)) (0, 0) |>.1
        match ne[Nat.min kLo (ne.length - 1)]?, ne[kHi]? with
        | some bl, some bh =>
          let lo := (adjRange h bl).1
          let hi := (adjRange h bh).2
          -- NaN observations count as +Inf: beyond the buckets the result is NaN (handled above) or the top bound
          -- — of the highest populated bucket or of the layout (a custom layout ends in a (b,+Inf] bucket, whose
          -- admissible result is b also when it is empty: the NaN observations are not in any bucket)
          let hi := if sumNaN && decide (rank + delta > total) then
              (match h.fwd.getLast? with
               | some bl => let t := (adjRange h bl).2; if xlt hi t then t else hi
               | none => hi)
            else hi
          if leSlack lo r && leSlack r hi then none
          else some s!"{tag}-outside-rank-bucket q={showX (.fin q)} r={showX r} lo={showX lo} hi={showX hi}"
        | _, _ => none

def judgeHF (h : NHist F64) (obsd : List (F64 × F64 × XR)) : Option String :=
  match obsd.find? (fun (lo, up, r) => (lo.isNaN || up.isNaN || F64.beq h.count F64.zero) && r != .nan) with
  | some (lo, up, r) => some s!"hf-special lower={showX (toXR lo)} upper={showX (toXR up)} r={showX r}"
  | none =>
  if !nhDomain h then none else
  let N := h.count.toRat
  let total := bucketSum h
  let sumNaN := h.sum.isNaN
  if !(total = N || (sumNaN && total ≤ N)) then none else
  let slack : Rat := if h.custom then 0 else eps40
  let real := obsd.filter fun (lo, up, _) => !lo.isNaN && !up.isNaN
  match real.find? (fun (_, _, r) => !(isFin r && decide (-slack ≤ ratOf r ∧ ratOf r ≤ 1 + slack))) with
  | some (lo, up, r) => some s!"hf-not-in-unit lower={showX (toXR lo)} upper={showX (toXR up)} r={showX r}"
  | none =>
  match real.find? (fun (lo, up, r) => toXR lo == .ninf && toXR up == .pinf && !sumNaN && !h.fwd.isEmpty && r != .fin 1) with
  | some (_, _, r) => some s!"hf-total-not-one r={showX r}"
  | none =>
    -- nesting: [lo1,up1] ⊆ [lo2,up2] ⇒ f1 ≤ f2
    real.findSome? fun (lo1, up1, r1) =>
      real.findSome? fun (lo2, up2, r2) =>
        if F64.lt lo1 up1 && F64.le lo2 lo1 && F64.le up1 up2 && !(ratOf r1 ≤ ratOf r2 + slack) then
          some s!"hf-not-monotone inner=[{showX (toXR lo1)},{showX (toXR up1)}] f={showX r1} outer=[{showX (toXR lo2)},{showX (toXR up2)}] f={showX r2}"
        else none

def judgeHC (h : NHist F64) (out : String) : Option String :=
  match (toks out).map pF with
  | [some c, some s, some a] =>
    if hex16 c ≠ hex16 h.count then some "hc-count" else
    if hex16 s ≠ hex16 h.sum then some "hc-sum" else
    match toXR h.sum, toXR h.count, toXR a with
    | .fin sm, .fin ct, .fin av =>
      if ct = 0 then some "hc-avg-finite-for-zero-count"
      else
        let ex := sm / ct
        let d := av - ex
        let ad := if d < 0 then -d else d
        let ae := if ex < 0 then -ex else ex
        -- correctly rounded quotient: relative error ≤ 2^-53 (or subnormal)
        if ad ≤ ae / (2 ^ 52 : Nat) + 1 / (2 ^ 1074 : Nat) then none else some s!"hc-avg avg={showX (.fin av)} exact={showX (.fin ex)}"
    | _, _, _ => none
  | _ => some "hc-unparsable"

structure JSt where
  bs : List (Bucket F64) := []
  h : NHist F64 := { custom := false, count := F64.zero, sum := F64.zero, nNeg := 0, nPos := 0, fwd := [], rev := [] }
  bq : List (F64 × XR) := []
  hq : List (F64 × XR) := []
  hf : List (F64 × F64 × XR) := []

def flushJ (s : JSt) : Option String :=
  (if s.bq.isEmpty then none else judgeBQ s.bs s.bq.reverse) <|>
  (if s.hq.isEmpty then none else judgeHQ s.h s.hq.reverse) <|>
  (if s.hf.isEmpty then none else judgeHF s.h s.hf.reverse)

def judge (ops outs : List String) : String :=
  let rec go (s : JSt) (ops outs : List String) : String :=
    match ops, outs with
    | op :: ops, out :: outs =>
      match toks op with
      | ["b", b] =>
        match flushJ s with
        | some v => "violation " ++ v
        | none => go { s with bs := (pBuckets b).getD [], bq := [] } ops outs
      | "h" :: t =>
        match flushJ s with
        | some v => "violation " ++ v
        | none => go { s with h := (pHist t).getD s.h, hq := [], hf := [] } ops outs
      | ["bq", q] =>
        if out = "panic" then (if s.bs.isEmpty then go s ops outs else "violation bq-panic")
        else match pF q, (toks out).head?.bind pF with
          | some q, some r => go { s with bq := (q, toXR r) :: s.bq } ops outs
          | _, _ => "violation unparsable " ++ out
      | ["hq", q] =>
        match pF q, pF out with
        | some q, some r => go { s with hq := (q, toXR r) :: s.hq } ops outs
        | _, _ => "violation unparsable " ++ out
      | ["hf", lo, up] =>
        match pF lo, pF up, pF out with
        | some lo, some up, some r => go { s with hf := (lo, up, toXR r) :: s.hf } ops outs
        | _, _, _ => "violation unparsable " ++ out
      | ["hc"] =>
        match judgeHC s.h out with
        | some v => "violation " ++ v
        | none => go s ops outs
      | _ => go s ops outs
    | _, _ => match flushJ s with | some v => "violation " ++ v | none => "ok"
  go {} ops outs

def suite : Suite := { name := "histfn", model := model, judge := judge }

end Prom.HistFn
