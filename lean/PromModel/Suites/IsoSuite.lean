import PromModel.Tsdb.Isolation
/-
  Suite `iso` (C05, schedule-quantified, tie kind T4). See harness/suites/iso/main.go for the line format.

  An op line is `<input> | <observed action>`: the input is the scheduler's choice, the action is what the
  real code did in that step. `model` replays the observed actions through `Iso.step` — an action the
  model does not enable in its current state yields `not-enabled:…`, which can never equal the
  implementation's output — and prints, for every step, the complete observable state it predicts (every
  series' chunk layout and the ids its transaction ring holds, the open appenders, the low
  watermark, every open reader's snapshot) and, for reads, the samples the reader must see.

  `judge` is the property statement evaluated on the implementation's own outputs, independently of the
  model: it only uses which transactions had begun / finished committing when a reader was created (trace
  positions) and which samples the commit path reported as applied.
-/
namespace Prom.Iso

/-! ### shared parsing -/

/-- tokens before and after the `|` separator -/
def splitBar (line : String) : List String × List String :=
  let ts := toks line
  (ts.takeWhile (· ≠ "|"), (ts.dropWhile (· ≠ "|")).drop 1)

def parsePending? (s : String) : Option (List Pending) :=
  if s = "-" then some [] else
  (s.splitOn ",").mapM fun p =>
    match p.splitOn ":" with
    | [a, b, c] => do pure ⟨← a.toNat?, ← b.toInt?, ← c.toInt?⟩
    | _ => none

def keyOf? (pfx : Char) (s : String) : Option Nat :=
  match s.toList with
  | c :: rest => if c = pfx then (String.ofList rest).toNat? else none
  | [] => none

def showNats (xs : List Nat) (sep : String := ",") : String :=
  if xs.isEmpty then "-" else sep.intercalate (xs.map toString)

def showSamples (xs : List (Int × Int)) : String :=
  if xs.isEmpty then "-" else ",".intercalate (xs.map fun x => s!"{x.1}:{x.2}")

def parseSeen? (s : String) : Option (List (Int × Int)) :=
  if s = "-" then some [] else
  (s.splitOn ",").mapM fun p =>
    match p.splitOn ":" with
    | [a, b] => do pure (← a.toInt?, ← b.toInt?)
    | _ => none

/-! ### model: replay of the observed action trace -/

def seriesDigest (k : Nat) (s : Series) : String :=
  s!"s{k}:mm={showNats s.mm}:hd={showNats s.hd}:ring={s.ring.count}/{showNats s.ring.contents}"

def globalDigest (σ : St) : String :=
  let rd := if σ.readers.isEmpty then "-" else
    ";".intercalate (σ.readers.map fun kr => s!"{kr.2.max}:{kr.2.lw}:{showNats kr.2.incomplete "+"}")
  s!"last={σ.last} open={showNats (σ.opens.map (·.id))} lw={σ.lowWatermark} rd={rd}"

def digest (σ : St) : String :=
  " ".intercalate ((List.range σ.series.length).map fun k => seriesDigest k (σ.ser k)) ++ " | " ++ globalDigest σ

structure RS where
  σ : St := {}
  started : Bool := false
  txs : List (Nat × Bool) := []                 -- appender key, rollback?
  apps : List (Nat × Nat) := []                 -- appender key → appendID, once begun
  listed : List ((Nat × Nat) × List Nat) := []  -- (reader key, series) → chunk ids listed
deriving Inhabited

def RS.appId? (st : RS) (k : Nat) : Option Nat := (st.apps.find? (·.1 == k)).map (·.2)

def cutN (σ : St) (s : Nat) : Nat → Option St
  | 0 => some σ
  | n + 1 => match step σ (.cut s) with
    | some σ' => cutN σ' s n
    | none => none

def mmapAll (σ : St) : Nat → Nat → St × Nat
  | 0, _ => (σ, 0)
  | n + 1, k =>
    if (σ.ser k).hd.length < 2 then mmapAll σ n (k + 1)
    else match step σ (.mmap k) with
      | some σ' => let r := mmapAll σ' n (k + 1); (r.1, r.2 + 1)
      | none => mmapAll σ n (k + 1)

def rollbackAll (σ : St) (id : Nat) : List Pending → Option St
  | [] => step σ (.closeAppend id)
  | p :: rest => match step σ (.cleanup id p.s) with
    | some σ' => rollbackAll σ' id rest
    | none => none

def samplesOut (xs : List Sample) : String := showSamples (xs.map fun x => (x.t, x.v))

/-- One op line: new replay state and the *specific* part of the output (`none` = no digest, raw output). -/
def replayLine (st : RS) (line : String) : RS × String × Bool :=
  let (inp, act) := splitBar line
  let bad (why : String) : RS × String × Bool := (st, "not-enabled:" ++ why, true)
  match inp with
  | ["cfg", n, _] =>
    match n.toNat? with
    | some n => if st.started then (st, "bad-op", false) else ({ st with σ := init n, started := true }, "-", false)
    | none => (st, "bad-op", false)
  | ["tx", a, kind, _] =>
    match a.toNat? with
    | some a => if st.started then ({ st with txs := st.txs ++ [(a, kind == "r")] }, "-", false) else (st, "bad-op", false)
    | none => (st, "bad-op", false)
  | "step" :: who :: rest =>
    if !st.started then (st, "noop", false) else
    match act with
    | ["noop"] => (st, "noop", true)
    | ["begin", ps] =>
      match keyOf? 'a' who, parsePending? ps with
      | some k, some ps =>
        if (st.appId? k).isSome then bad "begin-twice" else
        match step st.σ (.newAppender ps) with
        | some σ' =>
          let cb := match σ'.opens.getLast? with | some a => a.cleanupBelow | none => 0
          ({ st with σ := σ', apps := st.apps ++ [(k, σ'.last)] }, s!"id={σ'.last} cb={cb}", true)
        | none => bad "begin"
      | _, _ => bad "parse"
    | ["commit", s, t, v, res, cuts] =>
      match keyOf? 'a' who, s.toNat?, t.toInt?, v.toInt?, cuts.toNat? with
      | some k, some s, some t, some v, some cuts =>
        match st.appId? k with
        | none => bad "commit-before-begin"
        | some id =>
          match st.σ.app? id with
          | none => bad "commit-after-close"
          | some a =>
            if a.pending.head? != some ⟨s, t, v⟩ then bad "commit-order" else
            match cutN st.σ s cuts with
            | none => bad "cut"
            | some σ1 =>
              let want := if (σ1.ser s).inOrder t then "ok" else "drop"
              if want != res then bad s!"commit-admission:model={want}" else
              match step σ1 (.commitNext id) with
              | some σ2 => ({ st with σ := σ2 }, "commit", true)
              | none => bad "commit"
      | _, _, _, _, _ => bad "parse"
    | ["close"] =>
      match rest, keyOf? 'a' who, keyOf? 'r' who with
      | [], some k, _ =>
        match st.appId? k with
        | none => bad "close-before-begin"
        | some id =>
          match st.σ.app? id with
          | none => bad "close-twice"
          | some a =>
            if !a.pending.isEmpty then bad "close-with-pending" else
            match step st.σ (.closeAppend id) with
            | some σ' => ({ st with σ := σ' }, "closed", true)
            | none => bad "close"
      | ["close"], _, some k =>
        match step st.σ (.closeReader k) with
        | some σ' => ({ st with σ := σ' }, "closed", true)
        | none => bad "reader-close"
      | _, _, _ => bad "parse"
    | ["rollback"] =>
      match keyOf? 'a' who with
      | some k =>
        match st.appId? k with
        | none => bad "rollback-before-begin"
        | some id =>
          match st.σ.app? id with
          | none => bad "rollback-after-close"
          | some a =>
            match rollbackAll st.σ id a.pending with
            | some σ' => ({ st with σ := σ' }, "closed", true)
            | none => bad "rollback"
      | none => bad "parse"
    | ["new", _] =>
      match keyOf? 'r' who with
      | some k =>
        match step st.σ (.newReader k) with
        | some σ' => ({ st with σ := σ' }, "new", true)
        | none => bad "reader-new"
      | none => bad "parse"
    | ["read", s] =>
      match keyOf? 'r' who, s.toNat? with
      | some k, some s =>
        match st.σ.reader? k with
        | some r => (st, samplesOut ((st.σ.ser s).read r), true)
        | none => bad "read-without-reader"
      | _, _ => bad "parse"
    | ["list", s, ids] =>
      match keyOf? 'r' who, s.toNat?, (if ids = "-" then some [] else (ids.splitOn ",").mapM (·.toNat?)) with
      | some k, some s, some ids =>
        if (st.σ.reader? k).isSome then
          -- the index reader lists the chunks overlapping the reader's time range: any subset of the layout
          if ids.all (· < (st.σ.ser s).layout.length) then
            ({ st with listed := ((k, s), ids) :: st.listed.filter (·.1 != (k, s)) }, "listed", true)
          else bad "list-unknown-chunk"
        else bad "list-without-reader"
      | _, _, _ => bad "parse"
    | ["chunk", s, ix] =>
      match keyOf? 'r' who, s.toNat?, ix.toNat? with
      | some k, some s, some ix =>
        match st.σ.reader? k, (st.listed.find? (·.1 == (k, s))).map (·.2) with
        | some r, some ids =>
          if ids.contains ix then (st, samplesOut ((st.σ.ser s).readChunk r ix), true) else bad "chunk-not-listed"
        | _, _ => bad "chunk-without-list"
      | _, _, _ => bad "parse"
    | ["mmap", n] =>
      match n.toNat? with
      | some n =>
        let r := mmapAll st.σ st.σ.series.length 0
        if r.2 != n then bad s!"mmap-count:model={r.2}" else ({ st with σ := r.1 }, "mmap", true)
      | none => bad "parse"
    | _ => bad "unknown-action"
  | _ => (st, "bad-op", false)

def replay (st : RS) : List String → List String
  | [] => []
  | l :: rest =>
    let r := replayLine st l
    let out := if r.2.2 then r.2.1 ++ " | " ++ digest r.1.σ else r.2.1
    out :: replay r.1 rest

def model (ops : List String) : List String := replay {} ops

/-! ### judge: C05's statement on the implementation's outputs

  For every reader `r` and every complete read of a series `s` by `r`:
   * every sample seen was applied by a transaction that had finished committing (closeAppend) before
     `r` was created — nothing from a transaction still open at that moment or begun later, nothing rolled
     back, nothing that was never written;
   * every sample applied to `s` by a transaction that finished committing before `r` was created is seen.
  Together: each transaction is seen completely or not at all. The second clause is what finding F2
  refutes; the judge names the pattern exactly (an earlier sample of the same series applied by a
  transaction that was still open when the reader was created) so that only this pattern is a known
  finding. -/

structure Applied where
  a : Nat
  s : Nat
  t : Int
  v : Int
deriving Repr, DecidableEq, Inhabited

structure JReader where
  key : Nat
  openAt : List Nat         -- transactions begun and not closed when the reader was created
  committedAt : List Nat    -- transactions that had finished committing when the reader was created
  chunks : List ((Nat × Nat) × List (Int × Int)) := []   -- (series, chunk index) → samples seen
  listed : List (Nat × List Nat) := []                   -- series → chunk ids listed
deriving Repr, Inhabited

structure JS where
  txs : List (Nat × Bool × List Pending) := []
  begun : List Nat := []
  closed : List Nat := []       -- closed after a commit
  applied : List Applied := []  -- in application order
  readers : List JReader := []
  viol : List String := []      -- anything but F2
  f2 : List String := []
deriving Inhabited

def f2Kind := "behind-uncommitted-same-series"

/-- Clause 1 on one batch of samples seen by reader `r` in series `s`. -/
def checkSeen (js : JS) (r : JReader) (s : Nat) (seen : List (Int × Int)) : List String :=
  seen.filterMap fun x =>
    match js.applied.find? (fun p => p.s == s && p.t == x.1) with
    | none =>
      let rb := js.txs.any fun tx => tx.2.1 && tx.2.2.any fun p => p.s == s && p.t == x.1
      if rb then some s!"violation rolled-back-visible reader=r{r.key} series={s} t={x.1}"
      else some s!"violation phantom-sample reader=r{r.key} series={s} t={x.1}"
    | some p =>
      if p.v != x.2 then some s!"violation wrong-value reader=r{r.key} series={s} t={x.1}"
      else if r.committedAt.contains p.a then none
      else if r.openAt.contains p.a then
        some s!"violation uncommitted-visible kind=open-at-reader-creation reader=r{r.key} appender=a{p.a} series={s} t={x.1}"
      else some s!"violation uncommitted-visible kind=begun-after-reader-creation reader=r{r.key} appender=a{p.a} series={s} t={x.1}"

/-- Clause 2 on a complete read of series `s` by `r`: returns (other violations, F2 instances). -/
def checkComplete (js : JS) (r : JReader) (s : Nat) (seen : List (Int × Int)) : List String × List String :=
  let rec go (before : List Applied) : List Applied → List String × List String
    | [] => ([], [])
    | p :: rest =>
      let r' := go (before ++ [p]) rest
      if p.s == s && r.committedAt.contains p.a && !seen.contains (p.t, p.v) then
        match before.find? (fun b => b.s == s && !r.committedAt.contains b.a) with
        | some b =>
          (r'.1, s!"violation committed-not-visible kind={f2Kind} reader=r{r.key} appender=a{p.a} series={s} t={p.t} blocker=a{b.a}@{b.t}" :: r'.2)
        | none =>
          (s!"violation committed-not-visible kind=unexplained reader=r{r.key} appender=a{p.a} series={s} t={p.t}" :: r'.1, r'.2)
      else r'
  go [] js.applied

def JS.updReader (js : JS) (r : JReader) : JS :=
  { js with readers := js.readers.map fun x => if x.key == r.key then r else x }

def judgeLine (js : JS) (op out : String) : JS :=
  let (inp, act) := splitBar op
  let spec := (toks out).takeWhile (· ≠ "|")
  match inp with
  | ["tx", a, kind, ps] =>
    match a.toNat?, parsePending? ps with
    | some a, some ps => { js with txs := js.txs ++ [(a, kind == "r", ps)] }
    | _, _ => js
  | "step" :: who :: _ =>
    match act with
    | ["begin", _] => match keyOf? 'a' who with
      | some a => { js with begun := js.begun ++ [a] }
      | none => js
    | ["commit", s, t, v, "ok", _] =>
      match keyOf? 'a' who, s.toNat?, t.toInt?, v.toInt? with
      | some a, some s, some t, some v => { js with applied := js.applied ++ [⟨a, s, t, v⟩] }
      | _, _, _, _ => js
    | ["close"] =>
      match keyOf? 'a' who with
      | some a => { js with closed := js.closed ++ [a] }
      | none => js
    | ["new", _] =>
      match keyOf? 'r' who with
      | some k => { js with readers := js.readers ++ [{ key := k, openAt := js.begun.filter (!js.closed.contains ·), committedAt := js.closed }] }
      | none => js
    | ["read", s] =>
      match keyOf? 'r' who, s.toNat?, js.readers.find? (fun r => some r.key == keyOf? 'r' who) with
      | some _, some s, some r =>
        match spec with
        | [seenS] =>
          match parseSeen? seenS with
          | some seen =>
            let c := checkComplete js r s seen
            { js with viol := js.viol ++ checkSeen js r s seen ++ c.1, f2 := js.f2 ++ c.2 }
          | none => { js with viol := js.viol ++ [s!"violation unreadable-output reader=r{r.key} series={s}"] }
        | _ => { js with viol := js.viol ++ [s!"violation unreadable-output reader=r{r.key} series={s}"] }
      | _, _, _ => js
    | ["list", s, ids] =>
      match s.toNat?, js.readers.find? (fun r => some r.key == keyOf? 'r' who), (if ids = "-" then some [] else (ids.splitOn ",").mapM (·.toNat?)) with
      | some s, some r, some ids =>
        js.updReader { r with listed := (s, ids) :: r.listed.filter (·.1 != s), chunks := r.chunks.filter (·.1.1 != s) }
      | _, _, _ => js
    | ["chunk", s, ix] =>
      match s.toNat?, ix.toNat?, js.readers.find? (fun r => some r.key == keyOf? 'r' who), spec with
      | some s, some ix, some r, [seenS] =>
        match parseSeen? seenS with
        | some seen =>
          let r1 := { r with chunks := ((s, ix), seen) :: r.chunks.filter (·.1 != (s, ix)) }
          let js1 := { js.updReader r1 with viol := js.viol ++ checkSeen js r s seen }
          match (r1.listed.find? (·.1 == s)).map (·.2) with
          | some ids =>
            if ids.all fun k => r1.chunks.any (·.1 == (s, k)) then
              let all := ids.flatMap fun k => ((r1.chunks.find? (·.1 == (s, k))).map (·.2)).getD []
              let c := checkComplete js1 r1 s all
              { js1 with viol := js1.viol ++ c.1, f2 := js1.f2 ++ c.2 }
            else js1
          | none => js1
        | none => { js with viol := js.viol ++ [s!"violation unreadable-output reader=r{r.key} series={s}"] }
      | _, _, _, _ => js
    | ["panic"] => { js with viol := js.viol ++ [s!"violation panic step={who}"] }
    | _ => js
  | _ => js

def judgeGo (js : JS) : List String → List String → JS
  | op :: ops, out :: outs => judgeGo (judgeLine js op out) ops outs
  | _, _ => js

def judge (ops outs : List String) : String :=
  let js := judgeGo {} ops outs
  match js.viol, js.f2 with
  | v :: _, _ => v
  | [], v :: _ => v
  | [], [] => "ok"

def suite : Suite := { name := "iso", model := model, judge := judge }

end Prom.Iso
