import PromModel.Prelude.Line
import PromModel.Remote.Fanout
/-
  Suite `fanout` (property C54). Op/output grammar: harness/suites/fanout/main.go.

  model : `Prom.Fanout` (transcription of storage/fanout.go, secondary.go, merge.go at set granularity).
  judge : the property statement evaluated on the implementation's outputs, written from the scripts
          (data + fault placement) only — no use of `drain`, `probe`, `mergeAll`, `fanoutCommit`:
          healthy storages' data present exactly once and sorted; a secondary that failed at Select / first
          Next of any of its sets contributes nothing and yields a warning, never an error; a primary failure
          fails the query; creation failure fails and closes what was created; label queries = union of the
          healthy storages; appends reach every storage with the primary's ref; after a successful Commit
          every storage holds exactly the appended samples; a failed Commit stops later commits.
-/
namespace Prom.Fanout.Suite
open Prom Prom.Fanout

/-! ### codec -/

def parseFault (tok : String) : Option Fault :=
  if tok = "cr" then some .create
  else if tok = "lv" then some .lv
  else if tok = "ln" then some .ln
  else if tok = "co" then some .commit
  else if tok = "rb" then some .rollback
  else if tok.startsWith "s" then (tok.drop 1).toNat?.map .sel
  else if tok.startsWith "n" then
    match (tok.drop 1).toString.splitOn "." with
    | [j, k] => do
      let j ← j.toNat?
      let k ← k.toNat?
      if k < 1 then none else some (.next j k)
    | _ => none
  else if tok.startsWith "a" then do
    let k ← (tok.drop 1).toNat?
    if k < 1 then none else some (.app k)
  else none

def parseFaults (s : String) : Option (List Fault) :=
  if s = "-" then some [] else (s.splitOn ",").mapM parseFault

def parseSample (s : String) : Option Sample :=
  match s.splitOn "." with
  | [t, v] => do pure (← t.toInt?, ← v.toInt?)
  | _ => none

def parseOneSeries (s : String) : Option Series :=
  match s.splitOn ":" with
  | [l, smp] => do
    let lid ← l.toNat?
    let samples ← if smp = "" then some [] else (smp.splitOn ",").mapM parseSample
    pure { lid := lid, samples := samples }
  | _ => none

def parseSeriesList (s : String) : Option (List Series) :=
  if s = "-" then some [] else (s.splitOn ";").mapM parseOneSeries

def joinOr (xs : List String) (sep : String) : String :=
  if xs.isEmpty then "-" else sep.intercalate xs

def commas (xs : List String) : String := ",".intercalate xs
def bars (xs : List String) : String := "|".intercalate xs

def showSeries (s : Series) : String :=
  s!"{s.lid}:" ++ ",".intercalate (s.samples.map fun (t, v) => s!"{t}.{v}")

def showSeriesList (l : List Series) : String := joinOr (l.map showSeries) ";"

def showErr : Option Nat → String
  | none => "none"
  | some i => toString i

def showNats (l : List Nat) : String := joinOr (l.map toString) ","

def digitsOf (s : String) : Option (List Nat) :=
  s.toList.mapM fun c => if '0' ≤ c ∧ c ≤ '9' then some (c.toNat - 48) else none

def nodup : List Nat → Bool
  | [] => true
  | x :: xs => !xs.contains x && nodup xs

def parseOrder (s : String) (n : Nat) : Option (List Nat) := do
  let ds ← digitsOf s
  if ds.length = n ∧ ds.all (· < n) ∧ nodup ds then some ds else none

def parseMask (s : String) : Option (Option (List Nat)) :=
  if s = "*" then some none else (digitsOf s).map some

def showRec (r : Rec) : String := s!"{r.kind}.{r.lid}.{r.t}.{r.v}"

def showCall : Call → String
  | .commit => "c" | .rollback => "r" | .nothing => "-"

/-! ### model -/

structure St where
  stors : List Storage := []
  fan : Bool := false
  q : Option QSt := none
  done : List Nat := []                               -- selects already drained
  app : Option (Bool × FakeApp × List FakeApp) := none
  committed : List (List Rec) := []
deriving Inhabited

def St.prim (s : St) : Storage := s.stors.headD default
def St.secs (s : St) : List Storage := s.stors.drop 1

def zipAppend (a b : List (List Rec)) : List (List Rec) :=
  match a, b with
  | x :: a, y :: b => (x ++ y) :: zipAppend a b
  | a, [] => a
  | [], b => b

def showTx (s : St) (o : TxOut) : St × String :=
  let c := zipAppend (if s.committed.isEmpty then s.stors.map fun _ => [] else s.committed) o.committed
  ({ s with app := none, committed := c },
   s!"err={showErr o.err} calls={commas (o.calls.map showCall)} data={bars (c.map fun l => joinOr (l.map showRec) ",")}")

def stepModel (s : St) (line : String) : St × String :=
  match toks line with
  | ["st", idx, fl, ser] =>
    match idx.toNat?, parseFaults fl, parseSeriesList ser with
    | some idx, some fl, some ser =>
      if !s.fan ∧ idx = s.stors.length ∧ idx ≤ 4 then
        ({ s with stors := s.stors ++ [{ faults := fl, data := ser }] }, "ok")
      else (s, "bad-op")
    | _, _, _ => (s, "bad-op")
  | ["querier"] =>
    if s.stors.isEmpty ∨ s.q.isSome then (s, "bad-op") else
    match mkQuerier s.prim s.secs with
    | some (i, closed) => ({ s with fan := true }, s!"err={i} closed={showNats closed}")
    | none =>
      ({ s with fan := true, done := [],
                q := some { prim := [], secs := s.secs.map fun _ => { sets := [], lazy := none }, ords := [], drained := false } },
       "ok")
  | ["select", ord, mask] =>
    match s.q with
    | some q =>
      if q.drained then (s, "bad-op") else
      match parseOrder ord s.stors.length, parseMask mask with
      | some ord, some mask =>
        let j := q.prim.length
        let q' : QSt := { q with
          prim := q.prim ++ [s.prim.select j mask],
          secs := (q.secs.zip s.secs).map fun (sq, st) => { sq with sets := sq.sets ++ [st.select j mask] },
          ords := q.ords ++ [ord] }
        ({ s with q := some q' }, "ok")
      | _, _ => (s, "bad-op")
    | none => (s, "bad-op")
  | ["drain", j] =>
    match s.q, j.toNat? with
    | some q, some j =>
      if j < q.prim.length ∧ !s.done.contains j then
        let prim := q.prim.getD j default
        let (secs', o) :=
          if q.secs.isEmpty then (q.secs, drainPrimaryOnly prim)
          else drain prim q.secs (q.ords.getD j []) j
        ({ s with q := some { q with secs := secs', drained := true }, done := j :: s.done },
         s!"series={showSeriesList o.series} err={showErr o.err} warn={showNats o.warn}")
      else (s, "bad-op")
    | _, _ => (s, "bad-op")
  | [op] =>
    if op = "lv" ∨ op = "ln" then
      if s.q.isNone then (s, "bad-op") else
      let o := if op = "lv" then labelQuery .lv Storage.labelVals s.prim s.secs
               else labelQuery .ln Storage.labelNames s.prim s.secs
      match o.err with
      | some i => (s, s!"err={i}")
      | none => (s, s!"vals={joinOr o.vals ","} warn={showNats o.warn}")
    else if op = "qclose" then
      if s.q.isNone then (s, "bad-op") else
      ({ s with q := none, done := [] }, "closed=" ++ ",".intercalate (s.stors.map fun _ => "1"))
    else if op = "appender" ∨ op = "appender2" then
      if s.stors.isEmpty then (s, "bad-op") else
      ({ s with fan := true, app := some (op = "appender2", { n := 0, pending := [] }, s.secs.map fun _ => { n := 0, pending := [] }) }, "ok")
    else if op = "commit" ∨ op = "rollback" then
      match s.app with
      | some (_, pa, sas) =>
        showTx s (if op = "commit" then fanoutCommit s.prim s.secs pa sas else fanoutRollback s.prim s.secs)
      | none => (s, "bad-op")
    else (s, "bad-op")
  | ["app", kind, ref, lid, t, v] =>
    match s.app, ref.toNat?, lid.toNat?, t.toInt?, v.toInt? with
    | some (v2, pa, sas), some ref, some lid, some t, some v =>
      if (kind = "2") ≠ v2 ∨ !["f", "h", "e", "m", "z", "y", "2"].contains kind then (s, "bad-op") else
      let (pa', sas', o) := fanoutAppend v2 s.prim s.secs pa sas ref { kind := kind, lid := lid, t := t, v := v }
      ({ s with app := some (v2, pa', sas') },
       s!"ref={o.ref} err={showErr o.err} saw={commas (o.saw.map fun | none => "-" | some r => toString r)}")
    | _, _, _, _, _ => (s, "bad-op")
  | _ => (s, "bad-op")

def model (ops : List String) : List String :=
  let rec go (st : St) : List String → List String
    | [] => []
    | l :: rest => let (st', o) := stepModel st l; o :: go st' rest
  go {} ops

/-! ### judge (statement-as-oracle) -/

/-- `key=value` fields of an output line. -/
def field (out key : String) : Option String :=
  (toks out).findSome? fun t =>
    if t.startsWith (key ++ "=") then some ((t.drop (key.length + 1)).toString) else none

def parseNatsField (s : String) : Option (List Nat) :=
  if s = "-" then some [] else (s.splitOn ",").mapM String.toNat?

def hasSel (st : Storage) (j : Nat) : Bool := st.faults.any fun f => f == .sel j

def nextK (st : Storage) (j : Nat) : Option Nat :=
  st.faults.findSome? fun f => match f with
    | .next j' k => if j' = j then some k else none
    | _ => none

/-- fails at Select or at the first Next of select `j` -/
def firstFail (st : Storage) (j : Nat) : Bool := hasSel st j || nextK st j == some 1

def selData (st : Storage) (mask : Option (List Nat)) : List Series :=
  match mask with
  | none => st.data
  | some m => st.data.filter fun s => m.any (· == s.lid)

/-- fails at a later Next that iteration really reaches -/
def lateFail (st : Storage) (j : Nat) (mask : Option (List Nat)) : Option Nat :=
  if hasSel st j then none else
  match nextK st j with
  | some k => if 2 ≤ k ∧ k ≤ (selData st mask).length + 1 then some k else none
  | none => none

structure JSel where
  mask : Option (List Nat)
deriving Inhabited

structure JSt where
  stors : List Storage := []
  sels : List JSel := []
  inQ : Bool := false
  drains : Nat := 0
  drainErr : Bool := false
  warned : List Nat := []
  f10 : Option String := none                       -- first F10 manifestation (reported last)
  attempted : List String := []
  succeeded : List String := []
  prevData : List (List String) := []
deriving Inhabited

def strictlyInc (l : List Int) : Bool :=
  match l with
  | a :: b :: rest => decide (a < b) && strictlyInc (b :: rest)
  | _ => true

def indexed {α : Type} (l : List α) : List (Nat × α) := (List.range l.length).zip l

/-- all-or-nothing: the secondary failed at Select / first Next of ANY of the session's selects -/
def failedSec (st : Storage) (nsel : Nat) : Bool := (List.range nsel).any fun j => firstFail st j

def sublistOf (a b : List String) : Bool :=
  match a, b with
  | [], _ => true
  | _ :: _, [] => false
  | x :: a', y :: b' => if x = y then sublistOf a' b' else sublistOf (x :: a') b'

def judgeDrain (k : Nat) (J : JSt) (j : Nat) (out : String) : JSt × Option String :=
  match field out "series", field out "err", field out "warn" with
  | some ser, some err, some warn =>
    match parseSeriesList ser, parseNatsField warn, J.sels[j]? with
    | some got, some warn, some sel =>
      let nsel := J.sels.length
      let ist := indexed J.stors
      let prim := J.stors.headD default
      let excluded := fun (p : Nat × Storage) => p.1 ≥ 1 && failedSec p.2 nsel
      let late := fun (p : Nat × Storage) => !excluded p && (lateFail p.2 j sel.mask).isSome
      let must := ist.filter fun p => !excluded p && !late p && !firstFail p.2 j
      let may := ist.filter fun p => !excluded p && !(p.1 = 0 && firstFail p.2 j)
      let J' := { J with drains := J.drains + 1, drainErr := J.drainErr || err ≠ "none",
                         warned := J.warned ++ warn }
      let primFails := firstFail prim j || (lateFail prim j sel.mask).isSome
      -- primary failure ⇒ the query fails
      if primFails ∧ err = "none" then (J', some s!"violation primary-failure-not-reported op={k} sel={j}") else
      if !primFails ∧ err = "0" then (J', some s!"violation spurious-primary-error op={k} sel={j}") else
      if err ≠ "none" ∧ err.toNat?.isNone then (J', some s!"violation unknown-error op={k} err={err}") else
      -- warnings come only from secondaries that failed at select / first Next
      match warn.find? (fun w => !(ist.any fun p => p.1 = w && excluded p)) with
      | some w => (J', some s!"violation spurious-warning op={k} sel={j} sec={w}")
      | none =>
      let content : Option String :=
        if firstFail prim j then none else
        if !strictlyInc (got.map fun s => (s.lid : Int)) then some s!"violation series-not-sorted-unique op={k} sel={j}" else
        match got.find? (fun s => !strictlyInc (s.samples.map (·.1))) with
        | some s => some s!"violation samples-not-sorted-unique op={k} sel={j} lid={s.lid}"
        | none =>
        -- every series / sample of a healthy storage is present
        match must.findSome? (fun p => (selData p.2 sel.mask).findSome? fun s =>
            match got.find? (·.lid = s.lid) with
            | none => some s!"violation healthy-series-missing op={k} sel={j} storage={p.1} lid={s.lid}"
            | some g => match s.samples.find? (fun x => !g.samples.contains x) with
              | some x => some s!"violation healthy-sample-missing op={k} sel={j} storage={p.1} lid={s.lid} t={x.1}"
              | none => none) with
        | some v => some v
        | none =>
        -- nothing but data of non-failed storages
        got.findSome? fun g =>
          let srcs := may.flatMap fun p => (selData p.2 sel.mask).filter (·.lid = g.lid)
          if srcs.isEmpty then some s!"violation failed-secondary-leak op={k} sel={j} lid={g.lid}" else
          match g.samples.find? (fun x => !(srcs.any fun s => s.samples.contains x)) with
          | some x => some s!"violation failed-secondary-leak op={k} sel={j} lid={g.lid} t={x.1}"
          | none => none
      match content with
      | some v => (J', some v)
      | none =>
        match err.toNat? with
        | some (e + 1) =>
          match ist.find? (fun p => p.1 = e + 1) with
          | some p =>
            match lateFail p.2 j sel.mask with
            | some kk =>
              if !excluded p then
                let leaked := ((selData p.2 sel.mask).take (kk - 1)).length
                let msg := s!"violation secondary-late-failure kind=next-k>=2 sec={e + 1} sel={j} k={kk} leaked={leaked} op={k}"
                ({ J' with f10 := some (J'.f10.getD msg) }, none)
              else (J', some s!"violation secondary-error-fails-query op={k} sel={j} sec={e + 1} kind=excluded")
            | none => (J', some s!"violation secondary-error-fails-query op={k} sel={j} sec={e + 1} kind=first-next-or-none")
          | none => (J', some s!"violation unknown-error op={k} err={err}")
        | _ => (J', none)
    | _, _, _ => (J, some s!"violation unparsable op={k}")
  | _, _, _ => (J, some s!"violation unparsable op={k}")

/-- end of a querier session: every failed secondary must have produced a warning if the session's drains all succeeded -/
def sessionEnd (k : Nat) (J : JSt) : Option String :=
  if !J.inQ ∨ J.drains = 0 ∨ J.drainErr then none else
  match (indexed J.stors).find? (fun p => p.1 ≥ 1 && failedSec p.2 J.sels.length && !J.warned.contains p.1) with
  | some p => some s!"violation failed-secondary-no-warning op={k} sec={p.1}"
  | none => none

def insertStr (x : String) : List String → List String
  | [] => [x]
  | y :: ys => if x < y then x :: y :: ys else if x = y then y :: ys else y :: insertStr x ys

def judgeLabels (k : Nat) (J : JSt) (isLv : Bool) (out : String) : Option String :=
  let fault : Fault := if isLv then .lv else .ln
  let ist := indexed J.stors
  let prim := J.stors.headD default
  if prim.faults.any (· == fault) then
    if out.startsWith "err=" then none else some s!"violation primary-failure-not-reported op={k} labels"
  else
    match field out "vals", field out "warn" with
    | some vals, some warn =>
      let healthy := ist.filter fun p => !(p.2.faults.any (· == fault))
      let want := (healthy.flatMap fun p => p.2.data.flatMap fun s =>
          if isLv then [toString s.lid] else ["l", "x" ++ toString (s.lid % 3)]).foldr insertStr []
      let wantW := (ist.filter fun p => p.2.faults.any (· == fault)).map (·.1)
      if vals ≠ joinOr want "," then some s!"violation label-union op={k} want={joinOr want ","} got={vals}"
      else if warn ≠ showNats wantW then some s!"violation label-warnings op={k} want={showNats wantW} got={warn}"
      else none
    | _, _ => some s!"violation secondary-error-fails-query op={k} labels out={out.replace " " "_"}"

def judge (ops outs : List String) : String :=
  let rec go (J : JSt) (ops outs : List String) (k : Nat) : String :=
    match ops, outs with
    | op :: ops, out :: outs =>
      if out.startsWith "panic" then s!"violation panic op={k}" else
      if out = "bad-op" then go J ops outs (k + 1) else
      match toks op with
      | ["st", _, fl, ser] =>
        match parseFaults fl, parseSeriesList ser with
        | some fl, some ser => go { J with stors := J.stors ++ [{ faults := fl, data := ser }], prevData := J.prevData ++ [[]] } ops outs (k + 1)
        | _, _ => "ok"
      | ["querier"] =>
        match sessionEnd k J with
        | some v => v
        | none =>
        let J := { J with inQ := false, sels := [], drains := 0, drainErr := false, warned := [] }
        match (indexed J.stors).find? (fun p => p.2.faults.any (· == .create)) with
        | some p =>
          -- creation failure: error, and exactly the queriers created before are closed
          match field out "err", (field out "closed").bind parseNatsField with
          | some _, some closed =>
            if closed ≠ List.range p.1 then s!"violation created-queriers-not-closed op={k} failing={p.1} closed={showNats closed}"
            else go J ops outs (k + 1)
          | _, _ => s!"violation creation-failure-not-reported op={k} failing={p.1}"
        | none => if out = "ok" then go { J with inQ := true } ops outs (k + 1) else s!"violation spurious-creation-error op={k}"
      | ["select", _, mask] =>
        match parseMask mask with
        | some m => go { J with sels := J.sels ++ [{ mask := m }] } ops outs (k + 1)
        | none => "ok"
      | ["drain", j] =>
        match j.toNat? with
        | some j =>
          match judgeDrain k J j out with
          | (_, some v) => v
          | (J', none) => go J' ops outs (k + 1)
        | none => "ok"
      | ["lv"] => match judgeLabels k J true out with | some v => v | none => go J ops outs (k + 1)
      | ["ln"] => match judgeLabels k J false out with | some v => v | none => go J ops outs (k + 1)
      | ["qclose"] =>
        match sessionEnd k J with
        | some v => v
        | none =>
          if out ≠ "closed=" ++ ",".intercalate (J.stors.map fun _ => "1") then s!"violation close-not-propagated op={k} got={out}"
          else go { J with inQ := false, sels := [], drains := 0, drainErr := false, warned := [] } ops outs (k + 1)
      | ["appender"] => go { J with attempted := [], succeeded := [] } ops outs (k + 1)
      | ["appender2"] => go { J with attempted := [], succeeded := [] } ops outs (k + 1)
      | ["app", kind, _, lid, t, v] =>
        let r := s!"{kind}.{lid}.{t}.{v}"
        match field out "ref", field out "err", field out "saw" with
        | some ref, some err, some saw =>
          let saws := saw.splitOn ","
          let J := { J with attempted := J.attempted ++ [r] }
          if err = "none" then
            if saws.any (· = "-") then s!"violation append-not-forwarded op={k} saw={saw}"
            else if (saws.drop 1).any (· ≠ ref) then s!"violation append-ref-mismatch op={k} ref={ref} saw={saw}"
            else go { J with succeeded := J.succeeded ++ [r] } ops outs (k + 1)
          else
            match err.toNat? with
            | some e =>
              if !((J.stors[e]?.map fun st => st.faults.any fun f => match f with | .app _ => true | _ => false).getD false) then
                s!"violation spurious-append-error op={k} err={err}"
              else if ((indexed saws).any fun p => p.1 > e && p.2 ≠ "-") then s!"violation append-after-error op={k} saw={saw}"
              else go J ops outs (k + 1)
            | none => s!"violation unknown-error op={k} err={err}"
        | _, _, _ => s!"violation unparsable op={k}"
      | [tx] =>
        if tx ≠ "commit" ∧ tx ≠ "rollback" then "ok" else
        match field out "err", field out "calls", field out "data" with
        | some err, some calls, some data =>
          let calls := calls.splitOn ","
          let data := (data.splitOn "|").map fun d => if d = "-" then [] else d.splitOn ","
          let deltas := (J.prevData.zip data).map fun (p, d) => if d.take p.length = p then some (d.drop p.length) else none
          let J' := { J with prevData := data, attempted := [], succeeded := [] }
          if data.length ≠ J.stors.length ∨ calls.length ≠ J.stors.length then s!"violation unparsable op={k}" else
          if deltas.any (·.isNone) then s!"violation committed-data-rewritten op={k}" else
          let deltas := deltas.map (·.getD [])
          if tx = "rollback" then
            if deltas.any (!·.isEmpty) then s!"violation rollback-stored-data op={k}"
            else if calls.any (· ≠ "r") then s!"violation rollback-not-propagated op={k} calls={commas calls}"
            else go J' ops outs (k + 1)
          else
          let coFault := fun (st : Storage) => st.faults.any (· == .commit)
          if err = "none" then
            if J.stors.any coFault then s!"violation commit-failure-not-reported op={k}"
            else if calls.any (· ≠ "c") then s!"violation commit-not-reaching-all op={k} calls={commas calls}"
            else
              -- succeeded ⊑ stored ⊑ attempted as subsequences (an attempt that failed on a later storage may stay in
              -- an earlier one; compared by position, not by value: the same sample can be attempted twice)
              match (indexed deltas).find? (fun p => !sublistOf J.succeeded p.2 || !sublistOf p.2 J.attempted) with
              | some p => s!"violation committed-data-mismatch op={k} storage={p.1} want={joinOr J.succeeded ","} got={joinOr p.2 ","}"
              | none => go J' ops outs (k + 1)
          else
            match err.toNat? with
            | some e =>
              if !((J.stors[e]?.map coFault).getD false) then s!"violation spurious-commit-error op={k} err={err}"
              else
                -- nobody after the failing storage commits (primary failure ⇒ no secondary commits)
                match (indexed (calls.zip deltas)).find? (fun p => p.1 > e && (p.2.1 = "c" || !p.2.2.isEmpty)) with
                | some p => s!"violation commit-after-failure op={k} failed={e} storage={p.1}"
                | none =>
                  if !(deltas[e]?.getD []).isEmpty then s!"violation failed-commit-stored-data op={k} storage={e}"
                  else go J' ops outs (k + 1)
            | none => s!"violation unknown-error op={k} err={err}"
        | _, _, _ => s!"violation unparsable op={k}"
      | _ => "ok"
    | _, _ =>
      match sessionEnd k J with
      | some v => v
      | none => J.f10.getD "ok"
  go {} ops outs 0

def suite : Suite := { name := "fanout", model := model, judge := judge }

end Prom.Fanout.Suite
