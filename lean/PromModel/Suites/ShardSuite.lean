import PromModel.Prelude.Line
import PromModel.Labels.StableHash
/-
  Suite `shard` (property C18).  Built three times (`verif`, `verif,slicelabels`, `verif,dedupelabels`);
  all three are compared with this one model, hence with each other.

  ops (hash cases):
    `hash <via> <labels>`          labels.StableHash of the label set built via `new` (labels.New), `fs`
                                   (FromStrings), `sb` (ScratchBuilder Add/Sort/Labels) or `bld` (labels.Builder:
                                   drops empty-valued labels).  <labels> = `-` | `hexname:hexvalue,…` in generation
                                   order, distinct names.           out: 16 hex digits
  ops (db cases):
    `series <h|b|hb> <labels>`     declare series k (k = number of earlier `series` lines): samples only in the
                                   head, only in the block, or in both.                out: `ok`
    `build <0|1|2>`                open a tsdb.DB with EnableSharding = (flag ≠ 0), write the block series, compact
                                   them into a block, write the head series (2: an out-of-order window is configured
                                   and half of the head series get an OOO sample — same series sets, other readers).
                                                                                       out: `ok blocks=<0|1>`
    `restart`                      close and reopen (WAL replay).                      out: `ok`
    `sel <head|block|both> <q|c> <n> <matcher>`
                                   sorted Select (Querier or ChunkQuerier) without hints and with
                                   ShardCount=n, ShardIndex=0..n (n itself is out of range).  matcher = `all` |
                                   `eq:<hexname>:<hexvalue>` | `neq:<hexname>:<hexvalue>`.
                                   out: `u=<l> s=<l0>|…|<l(n-1)> x=<l>` (l = series indices in returned order, `-` if
                                   none; `s=none` for n = 0) | `err sharding-disabled`
-/
namespace Prom.Shard
open Prom.StableHash

inductive Via | new | fs | sb | bld
  deriving Repr, DecidableEq

inductive Placement | head | block | both
  deriving Repr, DecidableEq

inductive Op
  | hash (via : Via) (ls : Labels)
  | series (p : Placement) (ls : Labels)
  | build (sharding : Bool)
  | restart
  | sel (w : Where) (chunk : Bool) (n : Nat) (m : Matcher)
  | bad
  deriving Repr

inductive Out
  | hash (h : UInt64)
  | ok
  | built (blocks : Nat)
  | sel (u : List Nat) (s : List (List Nat)) (x : List Nat)
  | err (cls : String)
  | bad
  deriving Repr, DecidableEq

/-! ### canonical form of a generated label set -/

def cmpName (a b : Label) : Ordering := cmpBytes a.name b.name

/-- what the constructors do: sort by name (`bld`: empty values are dropped first) -/
def canon (via : Via) (ls : Labels) : Labels :=
  sortBy cmpName (if via = .bld then ls.filter (fun l => !l.value.isEmpty) else ls)

/-! ### model -/

structure St where
  series : List (Placement × Labels) := []
  db : Option Db := none
  deriving Repr

def mkDb (sharding : Bool) (series : List (Placement × Labels)) : Db :=
  let inBlock := (series.filter fun s => s.1 ≠ .head).map (·.2)
  let hb := (series.filter fun s => s.1 = .both).map (·.2)
  let h := (series.filter fun s => s.1 = .head).map (·.2)
  -- head after compaction + gc: the `both` series (created first), then the head-only ones
  let head := (hb ++ h).foldl Head.getOrCreate ⟨sharding, []⟩
  { head := head, block := if inBlock.isEmpty then none else some ⟨sortBy compareLabels inBlock⟩ }

def idxOf (series : List (Placement × Labels)) (ls : Labels) : Nat :=
  series.findIdx (fun s => s.2 == ls)

def selOut (st : St) (db : Db) (w : Where) (n : Nat) (m : Matcher) : Out :=
  let run (h : Option Hints) : Except SelErr (List Nat) := (db.select w m h).map (·.map (idxOf st.series))
  let n64 := UInt64.ofNat n
  match run none, (List.range n).mapM (fun i => run (some ⟨UInt64.ofNat i, n64⟩)), run (some ⟨n64, n64⟩) with
  | .ok u, .ok s, .ok x => .sel u s x
  | _, _, _ => .err "sharding-disabled"

def stepOp (st : St) : Op → St × Out
  | .hash via ls => (st, .hash (stableHashGo (canon via ls)))
  | .series p ls => ({ st with series := st.series ++ [(p, canon .new ls)] }, .ok)
  | .build sh =>
    let db := mkDb sh st.series
    ({ st with db := some db }, .built (if db.block.isSome then 1 else 0))
  | .restart => (st, if st.db.isSome then .ok else .err "closed")
  | .sel w _ n m =>
    match st.db with
    | none => (st, .err "closed")
    | some db => (st, selOut st db w n m)
  | .bad => (st, .bad)

def runOps (st : St) : List Op → List Out
  | [] => []
  | op :: rest => (stepOp st op).2 :: runOps (stepOp st op).1 rest

/-! ### the property statement as an oracle (uses `xxhash64 ∘ serialise`, the specification, and never
    the model's `stableHashGo`/`Db`) -/

def showList (l : List Nat) : String := if l.isEmpty then "-" else ",".intercalate (l.map toString)

/-- shard results `s` partition the unsharded result `u`, order preserved -/
def partitionB (u : List Nat) (s : List (List Nat)) : Bool :=
  s.all (fun sh => sh == u.filter (fun k => sh.contains k)) &&
  u.all (fun k => (s.filter (fun sh => sh.contains k)).length == 1)

structure JSt where
  series : List Labels := []
  sharding : Bool := false
  built : Bool := false
  /-- (n, series, shard) seen so far -/
  seen : List (Nat × Nat × Nat) := []

def shardsOfOut (s : List (List Nat)) : List (Nat × Nat) :=
  (s.zipIdx).flatMap fun (sh, i) => sh.map fun k => (k, i)

def verdict (js : JSt) (k : Nat) : List Op → List Out → Option String
  | op :: ops, out :: outs =>
    match op with
    | .hash via ls =>
      let want := xxhash64 (serialise (canon via ls))
      if out = .hash want then verdict js (k + 1) ops outs
      else some s!"violation stable-hash op={k} want={hexOfNat want.toNat 16} labels={ls.length}"
    | .series _ ls => verdict { js with series := js.series ++ [canon .new ls] } (k + 1) ops outs
    | .build sh => verdict { js with sharding := sh, built := true } (k + 1) ops outs
    | .restart => verdict js (k + 1) ops outs
    | .sel w _ n _ =>
      if !js.built || n = 0 then verdict js (k + 1) ops outs
      else if !js.sharding && w ≠ .block then verdict js (k + 1) ops outs -- outside the statement
      else
      match out with
      | .sel u s x =>
        if s.length ≠ n then some s!"violation shard-count op={k} n={n} got={s.length}"
        else if !partitionB u s then some s!"violation partition op={k} n={n} u={showList u}"
        else if !x.isEmpty then some s!"violation index-out-of-range-nonempty op={k} n={n} x={showList x}"
        else
          let here := shardsOfOut s
          match here.find? (fun (ser, sh) => js.seen.any (fun (n', ser', sh') => n' == n && ser' == ser && sh' != sh)) with
          | some (ser, sh) => some s!"violation shard-moved op={k} n={n} series={ser} shard={sh}"
          | none =>
            match here.find? (fun (ser, sh) =>
                match js.series[ser]? with
                | some ls => (xxhash64 (serialise ls) % UInt64.ofNat n).toNat != sh
                | none => true) with
            | some (ser, sh) => some s!"violation shard-hash op={k} n={n} series={ser} shard={sh}"
            | none =>
              verdict { js with seen := here.map (fun (ser, sh) => (n, ser, sh)) ++ js.seen } (k + 1) ops outs
      | .err c => some s!"violation select-error op={k} n={n} err={c}"
      | _ => some s!"violation unparsable op={k}"
    | .bad => none
  | _, _ => none

/-! ### string layer -/

def parseLabel? (s : String) : Option Label :=
  match s.splitOn ":" with
  | [a, b] => do pure ⟨← bytesOfHex? a, ← bytesOfHex? b⟩
  | _ => none

def parseLabels? (s : String) : Option Labels :=
  if s = "-" then some [] else (s.splitOn ",").mapM parseLabel?

def parseMatcher? (s : String) : Option Matcher :=
  match s.splitOn ":" with
  | ["all"] => some .all
  | ["eq", a, b] => do pure (.eq (← bytesOfHex? a) (← bytesOfHex? b))
  | ["neq", a, b] => do pure (.neq (← bytesOfHex? a) (← bytesOfHex? b))
  | _ => none

def parseOp (line : String) : Op :=
  match toks line with
  | ["hash", via, ls] =>
    let v : Option Via := match via with
      | "new" => some .new | "fs" => some .fs | "sb" => some .sb | "bld" => some .bld | _ => none
    match v, parseLabels? ls with
    | some v, some ls => .hash v ls
    | _, _ => .bad
  | ["series", p, ls] =>
    let p : Option Placement := match p with
      | "h" => some .head | "b" => some .block | "hb" => some .both | _ => none
    match p, parseLabels? ls with
    | some p, some ls => .series p ls
    | _, _ => .bad
  | ["build", f] => if f = "1" || f = "2" then .build true else if f = "0" then .build false else .bad
  | ["restart"] => .restart
  | ["sel", w, qc, n, m] =>
    let w : Option Where := match w with
      | "head" => some .head | "block" => some .block | "both" => some .both | _ => none
    match w, n.toNat?, parseMatcher? m with
    | some w, some n, some m => if qc = "q" then .sel w false n m else if qc = "c" then .sel w true n m else .bad
    | _, _, _ => .bad
  | _ => .bad

def renderOut : Out → String
  | .hash h => hexOfNat h.toNat 16
  | .ok => "ok"
  | .built b => s!"ok blocks={b}"
  | .sel u s x =>
    let ss := if s.isEmpty then "none" else "|".intercalate (s.map showList)
    s!"u={showList u} s={ss} x={showList x}"
  | .err c => "err " ++ c
  | .bad => "bad-op"

def parseList? (s : String) : Option (List Nat) :=
  if s = "-" then some [] else (s.splitOn ",").mapM (·.toNat?)

def parseOut (s : String) : Out :=
  match toks s with
  | ["ok"] => .ok
  | ["ok", b] => if b = "blocks=0" then .built 0 else if b = "blocks=1" then .built 1 else .bad
  | ["err", c] => .err c
  | [h] => match natOfHex? h with
    | some v => if h.length = 16 then .hash (UInt64.ofNat v) else .bad
    | none => .bad
  | [u, s, x] =>
    if u.startsWith "u=" && s.startsWith "s=" && x.startsWith "x=" then
      let s' := (s.drop 2).toString
      match parseList? (u.drop 2).toString, (if s' = "none" then some [] else (s'.splitOn "|").mapM parseList?),
          parseList? (x.drop 2).toString with
      | some u, some s, some x => .sel u s x
      | _, _, _ => .bad
    else .bad
  | _ => .bad

def model (ops : List String) : List String := (runOps {} (ops.map parseOp)).map renderOut

def judge (ops outs : List String) : String :=
  match verdict {} 0 (ops.map parseOp) (outs.map parseOut) with
  | none => "ok"
  | some v => v

def suite : Suite := { name := "shard", model := model, judge := judge }

end Prom.Shard
