import PromModel.Prelude.Line
/-
  Suite `hcounters` (C52, full statement). Judge-only: every op line carries what the real head
  reported right after the op,

      <op> | <out> gauges=S,ST,HS,HB,CH,AP api=S,ST,HS,HB cmr=N recount=S,ST,HS,HB,CH cached=ST,HS,HB index=S,c/c

  (series, stale series, native-histogram series, native-histogram buckets, head chunks, active
  appenders; `recount` = walk over the real head's series with the newest in-order sample decoded
  from the newest in-order chunk). The implementation and model columns are `-`.

  The judge evaluates C52's statement on EVERY line:
    * gauges = recount for series, stale series, histogram series, histogram buckets, head chunks;
    * the exported methods (`NumSeries` …) say the same as the gauges, and created − removed = series;
    * the head's postings know as many series as the series map;
    * active appenders = number of appenders the op stream has open (zero once all are closed).

  Six behaviours of the code as it stands break the statement on specific histories; each gets its
  own signature, is recognised from evidence in the op stream, and never hides another discrepancy
  (see known_findings.jsonl C52-F2 … C52-F5):
    * `buckets-gauge-after-inplace-widening`  a committed histogram was widened in place (`expanded=k`
       on the commit line), or a gauge-typed / sparse histogram was acknowledged and the WAL replayed since
       (replay widens too); from then on only the bucket gauge of this case is exempt;
    * `chunks-gauge-low-after-snapshot-restart`  after `reopen snap` the chunks gauge lacks exactly
       one chunk per series restored from the snapshot (`snapheads=k`), constant until the next restart;
    * `series-ref-reused-after-snapshot-restart`  a series ref was handed out twice (`refreuse=1`) and
       the head was restarted afterwards (the new series inherits the old one's m-mapped chunks, and a full
       WAL replay also its records);
    * `samples-logged-before-series-record`  an appender committed samples for a series created by
       another, still open appender, and the WAL was replayed afterwards;
    * `chunks-gauge-low-after-ooo-head-chunk-split`  an out-of-order head chunk that holds samples of
       several types/layouts was m-mapped into several chunks (`ooosplit=n` on the line before) but had
       been counted as one; the chunks gauge may lack at most that many more chunks, and never fewer again
       until the next restart;
    * `chunks-gauge-high-after-wal-replay-of-removed-series`  after a series left the head (gc, OOO
       compaction, eviction) a WAL replay creates it again from its old record: `deleteSeriesByID` (eviction
       tombstone) drops it without subtracting the out-of-order chunks replay re-attached from the m-map
       files, and `resetSeriesWithMMappedChunks` (second series record of a re-created series) drops an
       already replayed head chunk without subtracting it. The excess appears at `reopen wal` and stays
       until the next restart.
-/
namespace Prom.HCounters

def splitObs (l : String) : String × String :=
  match l.splitOn " | " with
  | [a, b] => (a, b)
  | a :: rest => (a, " | ".intercalate rest)
  | [] => ("", "")

/-- value of the token `key=…` -/
def field? (ts : List String) (key : String) : Option String :=
  (ts.find? (·.startsWith (key ++ "="))).map fun t => (t.drop (key.length + 1)).toString

def ints? (s : String) : Option (List Int) := (s.splitOn ",").mapM (·.toInt?)

structure Obs where
  g : List Int        -- series, stale, hseries, hbuckets, chunks, appenders
  api : List Int      -- series, stale, hseries, hbuckets
  cmr : Int
  r : List Int        -- series, stale, hseries, hbuckets, chunks
  idxSeries : Int
  split : Int         -- extra chunks the current OOO head chunks turn into when m-mapped
deriving Repr, Inhabited

def parseObs? (ts : List String) : Option Obs := do
  let g ← ints? (← field? ts "gauges")
  let a ← ints? (← field? ts "api")
  let c ← (← field? ts "cmr").toInt?
  let r ← ints? (← field? ts "recount")
  let ix ← field? ts "index"
  let is ← ((ix.splitOn ",").headD "").toInt?
  let sp ← (← field? ts "ooosplit").toInt?
  if g.length = 6 ∧ a.length = 4 ∧ r.length = 5 then pure ⟨g, a, c, r, is, sp⟩ else none

/-- A uint64 counter that went below zero is exported as a float near 2^64; the harness prints it as a
    (rounded) negative number, the method value as the exact one. -/
def sameOrWrapped (g a : Int) : Bool := g = a || (g ≤ 0 && a < 0 && a - g < 4096 && g - a < 4096)

structure J where
  opened : List Nat := []                 -- open appender slots
  pend : List (Nat × Nat) := []           -- (slot, series) acknowledged, not yet committed
  created : List (Nat × Nat) := []        -- (series, slot): created by a still open appender
  prevSeries : Int := 0
  widened : Bool := false
  reused : Bool := false
  reuseArmed : Bool := false
  orphan : Bool := false
  orphanArmed : Bool := false
  deficit : Int := 0                      -- chunks the gauge lacks since the last (snapshot) restart
  atReopen : Bool := false                -- this line is a restart
  fromWal : Bool := false                 -- … that replayed the whole WAL
  oooWindow : Bool := false               -- the case runs with an out-of-order window
  removed : Bool := false                 -- a series left the head (gc, OOO compaction, eviction) in this case
  prone : Bool := false                   -- a gauge-typed / sparse histogram was acknowledged
  proneArmed : Bool := false              -- … and the WAL was replayed afterwards
  prevSplit : Int := 0                    -- `ooosplit` of the previous line
  allow : Int := 0                        -- by how much the OOO part of the chunk deficit may grow at this op
  oooDef : Int := 0                       -- chunks the gauge lacks because OOO head chunks split
  known : Option String := none
deriving Inhabited

def J.armed (j : J) : Option String :=
  if j.reuseArmed then some "series-ref-reused-after-snapshot-restart"
  else if j.orphanArmed then some "samples-logged-before-series-record"
  else none

def natField (ts : List String) (key : String) : Nat := ((field? ts key).bind (·.toNat?)).getD 0

/-- State changes an op line causes, from the op and the result tokens. -/
def J.apply (j : J) (t : List String) (res : List String) (gSeries : Int) : J :=
  let ok := res.head? = some "ok"
  match t with
  | "cfg" :: _ :: w :: _ => { ({} : J) with known := j.known, oooWindow := w ≠ "0" }
  | "cfg" :: _ => { ({} : J) with known := j.known }
  | ["begin", a] =>
    match a.toNat? with
    | some a => if ok then { j with allow := 0, opened := a :: j.opened.erase a, pend := j.pend.filter (·.1 ≠ a),
                                     created := j.created.filter (·.2 ≠ a) } else { j with allow := 0 }
    | none => { j with allow := 0 }
  | "app" :: a :: s :: rest =>
    match a.toNat?, s.toNat? with
    | some a, some s =>
      -- `getOrCreate` runs before the sample is checked: a refused append can create the series too
      let created := if gSeries > j.prevSeries then (s, a) :: j.created else j.created
      if ok then
        let kind := rest.getD 1 ""
        let x := ((rest.getD 4 "").toNat?).getD 0
        { j with allow := 0, prone := j.prone || kind = "hg" || kind = "fhg" || (kind ≠ "f" && (x / 12) % 2 = 1),
                 pend := (a, s) :: j.pend, created := created,
                 reused := j.reused || natField res "refreuse" > 0 }
      else { j with allow := 0, created := created }
    | _, _ => { j with allow := 0 }
  | [c, a] =>
    if c = "commit" ∨ c = "rollback" then
      match a.toNat? with
      | some a =>
        if res.head? = some "noapp" then { j with allow := 0 } else
        let orphan := c = "commit" ∧ ok ∧
          j.pend.any fun p => p.1 = a && j.created.any fun q => q.1 = p.2 && q.2 ≠ a && j.opened.contains q.2
        { j with allow := if c = "commit" then j.prevSplit + ((j.pend.filter (·.1 = a)).length : Int) else 0,
                 opened := j.opened.erase a, pend := j.pend.filter (·.1 ≠ a),
                 created := j.created.filter (·.2 ≠ a),
                 orphan := j.orphan || orphan,
                 widened := j.widened || natField res "expanded" > 0 }
      | none => { j with allow := 0 }
    else if c = "reopen" then
      let fromSnap := field? res "from" = some "snap"
      { j with atReopen := true, fromWal := !fromSnap, allow := 0, oooDef := 0, proneArmed := j.proneArmed || j.prone,
               opened := [], pend := [], created := [],
               orphanArmed := j.orphanArmed || j.orphan,
               reuseArmed := j.reuseArmed || j.reused,
               deficit := if fromSnap then natField res "snapheads" else 0 }
    else { j with allow := 0 }
  | ["compact"] => { j with allow := j.prevSplit }
  | ["compactooo"] => { j with allow := j.prevSplit }
  | _ => { j with allow := 0 }

def get (l : List Int) (i : Nat) : Int := l.getD i 0

/-- The statement on one observation. `Except.error v` = verdict; `ok j'` = continue. -/
def J.check (j : J) (k : Nat) (op : String) (o : Obs) (raw : String) : Except String J :=
  let ctx := s!"step={k} `{op}` {raw}"
  let differ (kind : String) : Except String J :=
    match j.armed with
    | some sig => .error s!"violation {sig} kind={kind} {ctx}"
    | none => .error s!"violation gauges-differ-from-recount kind={kind} {ctx}"
  if get o.g 0 ≠ get o.r 0 then differ "series"
  else if get o.r 0 ≠ o.idxSeries then
    match j.armed with
    | some sig => .error s!"violation {sig} kind=postings {ctx}"
    | none => .error s!"violation postings-differ-from-series-map {ctx}"
  else if get o.g 5 ≠ (j.opened.length : Int) then
    .error s!"violation active-appenders expected={j.opened.length} {ctx}"
  else if get o.g 1 ≠ get o.r 1 then differ "stale-series"
  else if get o.g 2 ≠ get o.r 2 then differ "native-histogram-series"
  else if ¬ ((List.range 4).all fun i => sameOrWrapped (get o.g i) (get o.api i)) ∨ get o.g 0 ≠ o.cmr then
    .error s!"violation gauges-differ-from-api {ctx}"
  else
    let miss := get o.r 4 - get o.g 4
    -- right after a snapshot restart the gauge lacks one chunk per restored series (or none); that number
    -- stays until the next restart
    -- (… or, after a WAL replay in a history where a series left the head earlier, has some chunks too
    -- many: finding C52-F7)
    let deficit := if j.atReopen ∧ miss = 0 then 0
                   else if j.atReopen ∧ j.fromWal ∧ miss < 0 ∧ j.removed then miss
                   else j.deficit
    -- the part of the deficit that a split OOO head chunk explains: never shrinks, grows by at most `allow`
    let ooo := miss - deficit
    let chunksBad := ¬ (j.oooDef ≤ ooo ∧ ooo ≤ j.oooDef + j.allow)
    let widened := j.widened || j.proneArmed
    let bucketsBad := ¬ sameOrWrapped (get o.g 3) (get o.r 3) ∧ ¬ widened
    if chunksBad then differ "head-chunks"
    else if bucketsBad then differ "native-histogram-buckets"
    else
      let oooDef := ooo
      let known :=
        if j.known.isSome then j.known
        else if oooDef > 0 then some s!"violation chunks-gauge-low-after-ooo-head-chunk-split missing={oooDef} {ctx}"
        else if miss < 0 then some s!"violation chunks-gauge-high-after-wal-replay-of-removed-series missing={miss} {ctx}"
        else if miss ≠ 0 then some s!"violation chunks-gauge-low-after-snapshot-restart missing={miss} {ctx}"
        else if get o.g 3 ≠ get o.r 3 then some s!"violation buckets-gauge-after-inplace-widening {ctx}"
        else none
      .ok { j with known := known, oooDef := oooDef, deficit := deficit, atReopen := false }

def judge (ops _outs : List String) : String :=
  let rec go (j : J) (k : Nat) : List String → String
    | [] => j.known.getD "ok"
    | l :: rest =>
      let (op, out) := splitObs l
      let res := toks out
      if res.any (fun t => t.startsWith "panic" || t.startsWith "err:") then
        s!"violation internal-error step={k} `{op}` {out}"
      else if res = ["nodb"] ∨ res.head? = some "bad-op" then s!"violation unreadable-line step={k} `{op}` {out}"
      else
        match parseObs? res with
        | none => s!"violation unreadable-line step={k} `{op}` {out}"
        | some o =>
          let j := j.apply (toks op) res (get o.g 0)
          let j := if (toks op).head? ≠ some "reopen" ∧ get o.g 0 < j.prevSeries then { j with removed := true } else j
          match j.check k op o out with
          | .error v => v
          | .ok j' => go { j' with prevSeries := get o.g 0, prevSplit := o.split } (k + 1) rest
  go {} 0 ops

def suite : Suite := { name := "hcounters", model := fun ops => ops.map fun _ => "-", judge := judge }

end Prom.HCounters
